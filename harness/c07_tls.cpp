// Correspondence harness for C07: the REAL TcpEngine/Transport/HttpClient/HttpServer TLS configuration and
// handshake decision, one matrix cell per operation line (DESIGN §7 C07).
//
//  * certificates are generated with libcrypto at start-up (right CA, wrong CA, server certificates valid /
//    self-signed / expired / wrong-name / key-mismatch, client certificates valid / untrusted);
//  * every cell builds a real Transport (or HttpClient / HttpServer) with the cell's configuration and runs a
//    real handshake on loopback against an in-process OpenSSL peer (or a plaintext / garbage peer) THROUGH a
//    relay that records the wire bytes in both directions (and can substitute the Certificate message, which is
//    how "the peer does not possess the key of the certificate it shows" is produced);
//  * the effective OpenSSL settings of iora's contexts are logged by interposing SSL_CTX_new / SSL_CTX_set_verify /
//    SSL_CTX_ctrl(SET_MIN_PROTO_VERSION) / SSL_CTX_load_verify_locations / SSL_CTX_set_default_verify_paths /
//    SSL_new / SSL_set1_host / SSL_ctrl(SET_TLSEXT_HOSTNAME) inside this executable (DESIGN §3.1);
//  * one canonical answer line per cell:
//        plan=<...> connected=<0|1> appdata=<0|1> cleartext=<0|1> version=<1.x|-> | <diagnostics, not compared>
#include <algorithm>
#include <any>
#include <array>
#include <atomic>
#include <bitset>
#include <cassert>
#include <cctype>
#include <cerrno>
#include <charconv>
#include <chrono>
#include <cmath>
#include <condition_variable>
#include <csignal>
#include <cstdarg>
#include <cstddef>
#include <cstdio>
#include <cstdlib>
#include <cstring>
#include <ctime>
#include <deque>
#include <exception>
#include <filesystem>
#include <fstream>
#include <functional>
#include <future>
#include <iomanip>
#include <iostream>
#include <limits>
#include <list>
#include <map>
#include <memory>
#include <mutex>
#include <numeric>
#include <optional>
#include <queue>
#include <random>
#include <regex>
#include <set>
#include <shared_mutex>
#include <sstream>
#include <stdexcept>
#include <string>
#include <string_view>
#include <thread>
#include <tuple>
#include <typeinfo>
#include <unordered_map>
#include <unordered_set>
#include <variant>
#include <vector>
#include <arpa/inet.h>
#include <dlfcn.h>
#include <fcntl.h>
#include <netinet/in.h>
#include <netinet/tcp.h>
#include <poll.h>
#include <sys/file.h>
#include <sys/socket.h>
#include <sys/stat.h>
#include <unistd.h>
#include <openssl/bio.h>
#include <openssl/ec.h>
#include <openssl/err.h>
#include <openssl/evp.h>
#include <openssl/pem.h>
#include <openssl/rand.h>
#include <openssl/ssl.h>
#include <openssl/x509.h>
#include <openssl/x509v3.h>
#include "iora/network/transport.hpp"
#include "iora/network/transport_impl.hpp"
#include "iora/network/http_client.hpp"
#include "iora/network/http_server.hpp"
#include "common/lineproto.hpp"

using namespace iora::network;
using Clock = std::chrono::steady_clock;
using std::chrono::milliseconds;

// ======================================================================================= interposition
static int g_slow = 1;                       // C07_SLOW: multiplies every settle window (solo re-runs under CPU contention)
static int W(int ms) { return ms * g_slow; }
static thread_local int t_peer = 0;          // >0 while harness-owned (peer) code runs on this thread
struct PeerScope { PeerScope() { ++t_peer; } ~PeerScope() { --t_peer; } };

struct CtxRec
{
  int role = 0;              // 1 = TLS_server_method, 2 = TLS_client_method, 0 = other
  int verify = 0;            // last SSL_CTX_set_verify mode (default SSL_VERIFY_NONE)
  long minProto = 0;         // effective minimum (SSL_CTX_get_min_proto_version after the last set); 0 = none
  // the store ACCUMULATES: the SET of sources loaded so far (file / path / default), never "the last call"
  bool tFile = false, tPath = false, tDefault = false;
  std::string trust() const
  {
    std::string t;
    auto add = [&](const char *n) { if (!t.empty()) t += "+"; t += n; };
    if (tFile) add("file");
    if (tPath) add("path");
    if (tDefault) add("default");
    return t.empty() ? "none" : t;
  }
  std::string caFile;
  bool cert = false, key = false;
};
struct SslRec
{
  SSL_CTX *ctx = nullptr;
  std::string host = "-", sni = "-";
  // read back FROM THE SSL OBJECT when its handshake is first driven: what is really in force, whatever calls set it
  bool hsSeen = false;
  int hsVerify = 0, hsDepth = -1;
  unsigned hsHostFlags = 0;
  std::string hsHost = "-";
};
static std::mutex g_imx;
static std::map<SSL_CTX *, CtxRec> g_ctx;     // iora-created contexts (alive)
static std::map<SSL *, SslRec> g_ssl;          // iora-created SSL objects of the current cell
static std::vector<std::pair<CtxRec, SslRec>> g_sslLog; // every SSL_new by iora in this cell (context snapshot)
static std::map<std::string, long> g_fire;     // interposer fire counts (iora-side only)

template <typename F> static F realSym(const char *name)
{
  void *p = dlsym(RTLD_NEXT, name);
  if (!p) { std::fprintf(stderr, "c07: dlsym(%s) failed\n", name); std::abort(); }
  return reinterpret_cast<F>(p);
}
static void fired(const char *n) { g_fire[n]++; }

extern "C" SSL_CTX *SSL_CTX_new(const SSL_METHOD *meth)
{
  static auto real = realSym<SSL_CTX *(*)(const SSL_METHOD *)>("SSL_CTX_new");
  SSL_CTX *c = real(meth);
  if (!t_peer && c)
  {
    std::lock_guard<std::mutex> g(g_imx);
    fired("SSL_CTX_new");
    CtxRec r;
    r.role = (meth == TLS_server_method()) ? 1 : (meth == TLS_client_method()) ? 2 : 0;
    g_ctx[c] = r;
  }
  return c;
}
extern "C" void SSL_CTX_free(SSL_CTX *c)
{
  static auto real = realSym<void (*)(SSL_CTX *)>("SSL_CTX_free");
  {
    std::lock_guard<std::mutex> g(g_imx);
    g_ctx.erase(c);
  }
  real(c);
}
extern "C" void SSL_CTX_set_verify(SSL_CTX *c, int mode, SSL_verify_cb cb)
{
  static auto real = realSym<void (*)(SSL_CTX *, int, SSL_verify_cb)>("SSL_CTX_set_verify");
  {
    std::lock_guard<std::mutex> g(g_imx);
    auto it = g_ctx.find(c);
    if (it != g_ctx.end()) { fired("SSL_CTX_set_verify"); it->second.verify = mode; }
  }
  real(c, mode, cb);
}
extern "C" long SSL_CTX_ctrl(SSL_CTX *c, int cmd, long larg, void *parg)
{
  static auto real = realSym<long (*)(SSL_CTX *, int, long, void *)>("SSL_CTX_ctrl");
  long rc = real(c, cmd, larg, parg);
  if (cmd == SSL_CTRL_SET_MIN_PROTO_VERSION)
  {
    // the EFFECTIVE minimum: a call the library rejects (rc != 1) changes nothing
    std::lock_guard<std::mutex> g(g_imx);
    auto it = g_ctx.find(c);
    if (it != g_ctx.end())
    {
      fired("SSL_CTX_set_min_proto_version");
      if (rc != 1) fired("SSL_CTX_set_min_proto_version(rejected)");
      // the EFFECTIVE minimum is what the library reports back (a rejected or ignored number changes nothing)
      it->second.minProto = real(c, SSL_CTRL_GET_MIN_PROTO_VERSION, 0, nullptr);
    }
  }
  return rc;
}
extern "C" int SSL_CTX_load_verify_locations(SSL_CTX *c, const char *file, const char *path)
{
  static auto real = realSym<int (*)(SSL_CTX *, const char *, const char *)>("SSL_CTX_load_verify_locations");
  int rc = real(c, file, path);
  std::lock_guard<std::mutex> g(g_imx);
  auto it = g_ctx.find(c);
  if (it != g_ctx.end())
  {
    fired("SSL_CTX_load_verify_locations");
    if (rc == 1)
    {
      if (file) it->second.tFile = true;
      if (path) it->second.tPath = true;
      it->second.caFile = file ? file : "";
    }
  }
  return rc;
}
extern "C" int SSL_CTX_set_default_verify_paths(SSL_CTX *c)
{
  static auto real = realSym<int (*)(SSL_CTX *)>("SSL_CTX_set_default_verify_paths");
  int rc = real(c);
  std::lock_guard<std::mutex> g(g_imx);
  auto it = g_ctx.find(c);
  if (it != g_ctx.end()) { fired("SSL_CTX_set_default_verify_paths"); it->second.tDefault = true; }
  return rc;
}
extern "C" int SSL_CTX_use_certificate_file(SSL_CTX *c, const char *file, int type)
{
  static auto real = realSym<int (*)(SSL_CTX *, const char *, int)>("SSL_CTX_use_certificate_file");
  int rc = real(c, file, type);
  std::lock_guard<std::mutex> g(g_imx);
  auto it = g_ctx.find(c);
  if (it != g_ctx.end()) { fired("SSL_CTX_use_certificate_file"); it->second.cert = (rc == 1); }
  return rc;
}
extern "C" int SSL_CTX_use_PrivateKey_file(SSL_CTX *c, const char *file, int type)
{
  static auto real = realSym<int (*)(SSL_CTX *, const char *, int)>("SSL_CTX_use_PrivateKey_file");
  int rc = real(c, file, type);
  std::lock_guard<std::mutex> g(g_imx);
  auto it = g_ctx.find(c);
  if (it != g_ctx.end()) { fired("SSL_CTX_use_PrivateKey_file"); it->second.key = (rc == 1); }
  return rc;
}
extern "C" SSL *SSL_new(SSL_CTX *c)
{
  static auto real = realSym<SSL *(*)(SSL_CTX *)>("SSL_new");
  SSL *s = real(c);
  if (!t_peer && s)
  {
    std::lock_guard<std::mutex> g(g_imx);
    auto it = g_ctx.find(c);
    if (it != g_ctx.end())
    {
      fired("SSL_new");
      SslRec r;
      r.ctx = c;
      g_ssl[s] = r;
    }
  }
  return s;
}
extern "C" void SSL_free(SSL *s)
{
  static auto real = realSym<void (*)(SSL *)>("SSL_free");
  {
    std::lock_guard<std::mutex> g(g_imx);
    auto it = g_ssl.find(s);
    if (it != g_ssl.end())
    {
      auto ci = g_ctx.find(it->second.ctx);
      g_sslLog.emplace_back(ci != g_ctx.end() ? ci->second : CtxRec{}, it->second);
      g_ssl.erase(it);
    }
  }
  real(s);
}
extern "C" int SSL_set1_host(SSL *s, const char *name)
{
  static auto real = realSym<int (*)(SSL *, const char *)>("SSL_set1_host");
  int rc = real(s, name);
  std::lock_guard<std::mutex> g(g_imx);
  auto it = g_ssl.find(s);
  if (it != g_ssl.end()) { fired("SSL_set1_host"); if (rc == 1) it->second.host = name ? name : "-"; }
  return rc;
}
extern "C" long SSL_ctrl(SSL *s, int cmd, long larg, void *parg)
{
  static auto real = realSym<long (*)(SSL *, int, long, void *)>("SSL_ctrl");
  long rc = real(s, cmd, larg, parg);
  if (cmd == SSL_CTRL_SET_TLSEXT_HOSTNAME)
  {
    std::lock_guard<std::mutex> g(g_imx);
    auto it = g_ssl.find(s);
    if (it != g_ssl.end()) { fired("SSL_set_tlsext_host_name"); if (rc == 1) it->second.sni = parg ? (const char *)parg : "-"; }
  }
  return rc;
}

extern "C" int SSL_do_handshake(SSL *s)
{
  static auto real = realSym<int (*)(SSL *)>("SSL_do_handshake");
  {
    std::lock_guard<std::mutex> g(g_imx);
    auto it = g_ssl.find(s);
    if (it != g_ssl.end() && !it->second.hsSeen)
    {
      fired("SSL_do_handshake(read-back)");
      SslRec &r = it->second;
      r.hsSeen = true;
      r.hsVerify = SSL_get_verify_mode(s);
      r.hsDepth = SSL_get_verify_depth(s);
      X509_VERIFY_PARAM *vp = SSL_get0_param(s);
      r.hsHostFlags = X509_VERIFY_PARAM_get_hostflags(vp);
      const char *h = X509_VERIFY_PARAM_get0_host(vp, 0);
      r.hsHost = h ? h : "-";
    }
  }
  return real(s);
}

/// Snapshot of every SSL object iora created since the last reset (alive or already freed).
static std::vector<std::pair<CtxRec, SslRec>> sslSnapshot()
{
  std::lock_guard<std::mutex> g(g_imx);
  auto v = g_sslLog;
  for (auto &kv : g_ssl)
  {
    auto ci = g_ctx.find(kv.second.ctx);
    v.emplace_back(ci != g_ctx.end() ? ci->second : CtxRec{}, kv.second);
  }
  return v;
}
static void resetSslLog()
{
  std::lock_guard<std::mutex> g(g_imx);
  g_sslLog.clear();
}

static std::string verifyStr(int m)
{
  if (m == SSL_VERIFY_NONE) return "NONE";
  std::string s;
  auto add = [&](const char *n) { if (!s.empty()) s += "+"; s += n; };
  if (m & SSL_VERIFY_PEER) add("PEER");
  if (m & SSL_VERIFY_FAIL_IF_NO_PEER_CERT) add("FAIL_IF_NO_PEER_CERT");
  if (m & SSL_VERIFY_CLIENT_ONCE) add("CLIENT_ONCE");
  if (m & SSL_VERIFY_POST_HANDSHAKE) add("POST_HANDSHAKE");
  return s;
}
static std::string planStr(const CtxRec &c, const SslRec &s)
{
  std::ostringstream o;
  o << "tls(role=" << (c.role == 1 ? "server" : c.role == 2 ? "client" : "?") << ",verify=" << verifyStr(c.verify)
    << ",min=" << c.minProto << ",trust=" << c.trust() << ",cert=" << (c.cert && c.key ? 1 : 0) << ",host=" << s.host
    << ",sni=" << s.sni;
  if (s.hsSeen) o << ",hs=(verify=" << verifyStr(s.hsVerify) << ",depth=" << s.hsDepth << ",hostflags=" << s.hsHostFlags << ",host=" << s.hsHost << ")";
  else o << ",hs=-";
  o << ")";
  return o.str();
}

// ======================================================================================= certificate factory
struct CertKey
{
  X509 *x = nullptr;
  EVP_PKEY *k = nullptr;
  std::string certPath, keyPath;
};
static std::string g_dir;
static std::map<std::string, CertKey> g_ck;
static const char *MARK = "C07-APPDATA-MARKER";

static EVP_PKEY *genKey()
{
  EVP_PKEY *k = EVP_EC_gen("P-256");
  if (!k) { std::fprintf(stderr, "c07: EVP_EC_gen failed\n"); std::abort(); }
  return k;
}
static void addExt(X509 *x, X509 *issuer, int nid, const char *val)
{
  X509V3_CTX c;
  X509V3_set_ctx_nodb(&c);
  X509V3_set_ctx(&c, issuer, x, nullptr, nullptr, 0);
  X509_EXTENSION *e = X509V3_EXT_conf_nid(nullptr, &c, nid, val);
  if (!e) { std::fprintf(stderr, "c07: ext %d %s failed\n", nid, val); std::abort(); }
  X509_add_ext(x, e, -1);
  X509_EXTENSION_free(e);
}
static X509 *mkCert(EVP_PKEY *subjKey, const char *cn, const char *san, X509 *issuer, EVP_PKEY *issuerKey, long nbOff,
                    long naOff, bool isCA, long serial)
{
  X509 *x = X509_new();
  X509_set_version(x, 2);
  ASN1_INTEGER_set(X509_get_serialNumber(x), serial);
  X509_gmtime_adj(X509_getm_notBefore(x), nbOff);
  X509_gmtime_adj(X509_getm_notAfter(x), naOff);
  X509_set_pubkey(x, subjKey);
  X509_NAME *n = X509_get_subject_name(x);
  X509_NAME_add_entry_by_txt(n, "O", MBSTRING_ASC, (const unsigned char *)"iora-verif-c07", -1, -1, 0);
  X509_NAME_add_entry_by_txt(n, "CN", MBSTRING_ASC, (const unsigned char *)cn, -1, -1, 0);
  X509_set_issuer_name(x, issuer ? X509_get_subject_name(issuer) : n);
  addExt(x, issuer ? issuer : x, NID_basic_constraints, isCA ? "critical,CA:TRUE" : "CA:FALSE");
  if (isCA) addExt(x, issuer ? issuer : x, NID_key_usage, "critical,keyCertSign,cRLSign");
  if (san) addExt(x, issuer ? issuer : x, NID_subject_alt_name, san);
  if (!X509_sign(x, issuerKey ? issuerKey : subjKey, EVP_sha256())) { std::fprintf(stderr, "c07: sign failed\n"); std::abort(); }
  return x;
}
static void writePem(const std::string &name, X509 *x, EVP_PKEY *k)
{
  CertKey ck;
  ck.x = x;
  ck.k = k;
  ck.certPath = g_dir + "/" + name + ".pem";
  ck.keyPath = g_dir + "/" + name + ".key";
  FILE *f = std::fopen(ck.certPath.c_str(), "w");
  PEM_write_X509(f, x);
  std::fclose(f);
  f = std::fopen(ck.keyPath.c_str(), "w");
  PEM_write_PrivateKey(f, k, nullptr, nullptr, 0, nullptr, nullptr);
  std::fclose(f);
  g_ck[name] = ck;
}
static void makeCerts()
{
  const long DAY = 86400;
  const char *sanLocal = "DNS:localhost,IP:127.0.0.1";
  EVP_PKEY *kR = genKey(), *kW = genKey();
  X509 *caR = mkCert(kR, "c07 right CA", nullptr, nullptr, nullptr, -DAY, 365 * DAY, true, 1);
  X509 *caW = mkCert(kW, "c07 wrong CA", nullptr, nullptr, nullptr, -DAY, 365 * DAY, true, 2);
  writePem("caR", caR, kR);
  writePem("caW", caW, kW);
  EVP_PKEY *k;
  k = genKey(); writePem("valid", mkCert(k, "localhost", sanLocal, caR, kR, -DAY, 365 * DAY, false, 10), k);
  k = genKey(); writePem("self", mkCert(k, "localhost", sanLocal, nullptr, nullptr, -DAY, 365 * DAY, false, 11), k);
  k = genKey(); writePem("expired", mkCert(k, "localhost", sanLocal, caR, kR, -30 * DAY, -DAY, false, 12), k);
  k = genKey(); writePem("wrongname", mkCert(k, "other.example", "DNS:other.example", caR, kR, -DAY, 365 * DAY, false, 13), k);
  // subject CN = the host, but the dNSName SAN names ONLY another host: not an identity for the host (the CN is ignored once a DNS SAN exists)
  k = genKey(); writePem("sanother", mkCert(k, "localhost", "DNS:other.example", caR, kR, -DAY, 365 * DAY, false, 15), k);
  // subject CN = the host and NO subjectAltName at all: the CN is the identity (accepted by name)
  k = genKey(); writePem("cnonly", mkCert(k, "localhost", nullptr, caR, kR, -DAY, 365 * DAY, false, 16), k);
  // key mismatch: the VALID certificate together with a key that is not its key
  X509_up_ref(g_ck["valid"].x);
  writePem("mismatch", g_ck["valid"].x, genKey());
  // the decoy the "does not possess the key" peer really runs with: same names, its own key, self-signed
  k = genKey(); writePem("decoy", mkCert(k, "localhost", sanLocal, nullptr, nullptr, -DAY, 365 * DAY, false, 14), k);
  k = genKey(); writePem("cvalid", mkCert(k, "c07 client", nullptr, caR, kR, -DAY, 365 * DAY, false, 20), k);
  k = genKey(); writePem("cuntrusted", mkCert(k, "c07 client", nullptr, caW, kW, -DAY, 365 * DAY, false, 21), k);
  k = genKey(); writePem("cexpired", mkCert(k, "c07 client", nullptr, caR, kR, -30 * DAY, -DAY, false, 22), k);
  { std::ofstream(g_dir + "/empty.pem"); }
  { std::ofstream o(g_dir + "/garbage.pem"); o << "this is not a PEM file\n"; }
  ::mkdir((g_dir + "/emptydir").c_str(), 0755);
}

/// Independent description of the generated files (libcrypto's verifier, NOT iora): which certificate chains to
/// which CA, is inside its validity period, names localhost / 127.0.0.1, and matches its key file.
static std::string certTable()
{
  PeerScope ps;
  std::ostringstream o;
  const char *names[] = {"valid", "self", "expired", "wrongname", "mismatch", "sanother", "cnonly", "cvalid", "cuntrusted", "cexpired"};
  bool first = true;
  for (const char *nm : names)
  {
    const CertKey &ck = g_ck[nm];
    auto chains = [&](const char *ca, bool checkTime)
    {
      X509_STORE *st = X509_STORE_new();
      X509_STORE_add_cert(st, g_ck[ca].x);
      X509_STORE_CTX *c = X509_STORE_CTX_new();
      X509_STORE_CTX_init(c, st, ck.x, nullptr);
      if (!checkTime) X509_VERIFY_PARAM_set_flags(X509_STORE_CTX_get0_param(c), X509_V_FLAG_NO_CHECK_TIME);
      int ok = X509_verify_cert(c);
      X509_STORE_CTX_free(c);
      X509_STORE_free(st);
      return ok == 1;
    };
    bool inTime = X509_cmp_current_time(X509_get0_notBefore(ck.x)) < 0 && X509_cmp_current_time(X509_get0_notAfter(ck.x)) > 0;
    bool keyOk = X509_check_private_key(ck.x, ck.k) == 1;
    o << (first ? "" : " ") << nm << ":right=" << chains("caR", false) << ",wrong=" << chains("caW", false) << ",time=" << inTime
      << ",name=" << (X509_check_host(ck.x, "localhost", 0, 0, nullptr) == 1) << ",ip=" << (X509_check_ip_asc(ck.x, "127.0.0.1", 0) == 1)
      << ",key=" << keyOk;
    first = false;
  }
  return o.str();
}

// ======================================================================================= sockets, relay
static int listenLoopback(std::uint16_t &port)
{
  int ls = ::socket(AF_INET, SOCK_STREAM | SOCK_CLOEXEC, 0);
  int one = 1;
  ::setsockopt(ls, SOL_SOCKET, SO_REUSEADDR, &one, sizeof one);
  sockaddr_in a{};
  a.sin_family = AF_INET;
  a.sin_addr.s_addr = htonl(INADDR_LOOPBACK);
  a.sin_port = 0;
  if (::bind(ls, (sockaddr *)&a, sizeof a) != 0 || ::listen(ls, 8) != 0) { std::perror("c07 bind/listen"); std::exit(3); }
  socklen_t sl = sizeof a;
  ::getsockname(ls, (sockaddr *)&a, &sl);
  port = ntohs(a.sin_port);
  return ls;
}
static int connectLoopback(std::uint16_t port)
{
  int s = ::socket(AF_INET, SOCK_STREAM | SOCK_CLOEXEC, 0);
  sockaddr_in a{};
  a.sin_family = AF_INET;
  a.sin_addr.s_addr = htonl(INADDR_LOOPBACK);
  a.sin_port = htons(port);
  if (::connect(s, (sockaddr *)&a, sizeof a) != 0) { ::close(s); return -1; }
  int one = 1;
  ::setsockopt(s, IPPROTO_TCP, TCP_NODELAY, &one, sizeof one);
  return s;
}
static int acceptTimeout(int ls, int ms, std::atomic<bool> &stop)
{
  auto end = Clock::now() + milliseconds(ms);
  while (!stop.load() && Clock::now() < end)
  {
    pollfd p{ls, POLLIN, 0};
    if (::poll(&p, 1, 20) > 0)
    {
      int c = ::accept4(ls, nullptr, nullptr, SOCK_CLOEXEC);
      if (c >= 0)
      {
        int one = 1;
        ::setsockopt(c, IPPROTO_TCP, TCP_NODELAY, &one, sizeof one);
        return c;
      }
    }
  }
  return -1;
}
static void setRecvTimeout(int fd, int ms)
{
  timeval tv{ms / 1000, (ms % 1000) * 1000};
  ::setsockopt(fd, SOL_SOCKET, SO_RCVTIMEO, &tv, sizeof tv);
  ::setsockopt(fd, SOL_SOCKET, SO_SNDTIMEO, &tv, sizeof tv);
}

/// Bidirectional recording relay: accepts ONE connection on `port`, connects to `upstream`, forwards and records.
/// `substCert` (DER) != empty: the first TLS <= 1.2 server flight is re-framed with its Certificate message
/// replaced by this certificate - the peer then shows a certificate whose key it does not own.
struct Relay
{
  int ls = -1;
  std::uint16_t port = 0, upstream = 0;
  std::thread th;
  std::atomic<bool> stop{false};
  std::mutex mx;
  std::string c2s, s2c;      // bytes seen client->server / server->client (as forwarded)
  std::string substCert;
  bool substituted = false;
  bool accepted = false;

  void start(std::uint16_t up)
  {
    upstream = up;
    ls = listenLoopback(port);
    th = std::thread([this] { run(); });
  }
  static bool sendAll(int fd, const char *p, size_t n)
  {
    while (n)
    {
      ssize_t w = ::send(fd, p, n, MSG_NOSIGNAL);
      if (w <= 0) return false;
      p += w;
      n -= (size_t)w;
    }
    return true;
  }
  /// Try to rewrite the buffered server flight. Returns true when `out` is ready to forward (rewritten or given up).
  bool rewriteFlight(std::string &buf, std::string &out)
  {
    // collect handshake bytes of consecutive type-22 records
    size_t pos = 0;
    std::string hs;
    unsigned char v0 = 3, v1 = 3;
    while (pos + 5 <= buf.size())
    {
      unsigned char type = (unsigned char)buf[pos];
      size_t len = ((unsigned char)buf[pos + 3] << 8) | (unsigned char)buf[pos + 4];
      if (type != 22) { out = buf; buf.clear(); return true; }   // alert / not a handshake flight: give up
      if (pos + 5 + len > buf.size()) return false;              // need more bytes
      v0 = (unsigned char)buf[pos + 1];
      v1 = (unsigned char)buf[pos + 2];
      hs.append(buf, pos + 5, len);
      pos += 5 + len;
    }
    if (pos != buf.size()) return false;
    // walk handshake messages; need ServerHelloDone (14) to be present
    std::string neu;
    size_t h = 0;
    bool done = false, replaced = false;
    while (h + 4 <= hs.size())
    {
      unsigned char mt = (unsigned char)hs[h];
      size_t ml = ((unsigned char)hs[h + 1] << 16) | ((unsigned char)hs[h + 2] << 8) | (unsigned char)hs[h + 3];
      if (h + 4 + ml > hs.size()) return false;
      if (mt == 11)
      {
        size_t cl = substCert.size(), ll = cl + 3, tl = ll + 3;
        char hd[10] = {11, (char)(tl >> 16), (char)(tl >> 8), (char)tl, (char)(ll >> 16), (char)(ll >> 8), (char)ll,
                       (char)(cl >> 16), (char)(cl >> 8), (char)cl};
        neu.append(hd, 10);
        neu += substCert;
        replaced = true;
      }
      else
      {
        neu.append(hs, h, 4 + ml);
      }
      if (mt == 14) done = true;
      h += 4 + ml;
    }
    if (!done || h != hs.size()) return false;
    out.clear();
    size_t off = 0;
    while (off < neu.size())
    {
      size_t n = std::min<size_t>(16384, neu.size() - off);
      char rh[5] = {22, (char)v0, (char)v1, (char)(n >> 8), (char)n};
      out.append(rh, 5);
      out.append(neu, off, n);
      off += n;
    }
    substituted = replaced;
    buf.clear();
    return true;
  }
  void run()
  {
    int c = acceptTimeout(ls, 5000, stop);
    if (c < 0) return;
    accepted = true;
    int u = connectLoopback(upstream);
    if (u < 0) { ::close(c); return; }
    bool cOpen = true, uOpen = true, flightDone = substCert.empty();
    std::string pend;
    auto idleEnd = Clock::now() + milliseconds(8000);
    while ((cOpen || uOpen) && Clock::now() < idleEnd)
    {
      if (stop.load()) break;
      pollfd p[2] = {{c, (short)(cOpen ? POLLIN : 0), 0}, {u, (short)(uOpen ? POLLIN : 0), 0}};
      int r = ::poll(p, 2, 20);
      if (r <= 0) continue;
      char b[16384];
      if (cOpen && (p[0].revents & (POLLIN | POLLHUP | POLLERR)))
      {
        ssize_t n = ::recv(c, b, sizeof b, 0);
        if (n > 0)
        {
          { std::lock_guard<std::mutex> g(mx); c2s.append(b, (size_t)n); }
          if (!sendAll(u, b, (size_t)n)) { uOpen = false; }
        }
        else { cOpen = false; ::shutdown(u, SHUT_WR); }
      }
      if (uOpen && (p[1].revents & (POLLIN | POLLHUP | POLLERR)))
      {
        ssize_t n = ::recv(u, b, sizeof b, 0);
        if (n > 0)
        {
          std::string out(b, (size_t)n);
          if (!flightDone)
          {
            pend.append(b, (size_t)n);
            out.clear();
            if (rewriteFlight(pend, out)) flightDone = true;
            else if (pend.size() > 60000) { out = pend; pend.clear(); flightDone = true; }
          }
          if (!out.empty())
          {
            { std::lock_guard<std::mutex> g(mx); s2c += out; }
            if (!sendAll(c, out.data(), out.size())) { cOpen = false; }
          }
        }
        else
        {
          uOpen = false;
          if (!pend.empty()) { std::lock_guard<std::mutex> g(mx); s2c += pend; sendAll(c, pend.data(), pend.size()); pend.clear(); }
          ::shutdown(c, SHUT_WR);
        }
      }
    }
    ::close(c);
    ::close(u);
  }
  void finish()
  {
    stop.store(true);
    if (th.joinable()) th.join();
    if (ls >= 0) ::close(ls);
    ls = -1;
  }
  /// application bytes in clear text: anything iora itself put on the wire (`ioraIsClient` selects its direction),
  /// or clear-text bytes of the peer that iora delivered to its application (`delivered`)
  bool sawClear(bool ioraIsClient, bool delivered)
  {
    std::lock_guard<std::mutex> g(mx);
    const std::string &out = ioraIsClient ? c2s : s2c, &in = ioraIsClient ? s2c : c2s;
    auto has = [](const std::string &d) { return d.find(MARK) != std::string::npos || d.find("PONG") != std::string::npos || d.find("GET /c07") != std::string::npos; };
    return has(out) || (delivered && has(in));
  }
  /// Protocol version announced by the ServerHello on the wire (independent of what either OpenSSL end reports).
  std::string wireVersion(bool serverIsS2C = true)
  {
    std::lock_guard<std::mutex> g(mx);
    const std::string &d = serverIsS2C ? s2c : c2s;
    // reassemble handshake records until the first non-handshake record
    std::string hs;
    size_t pos = 0;
    while (pos + 5 <= d.size() && (unsigned char)d[pos] == 22)
    {
      size_t len = ((unsigned char)d[pos + 3] << 8) | (unsigned char)d[pos + 4];
      if (pos + 5 + len > d.size()) break;
      hs.append(d, pos + 5, len);
      pos += 5 + len;
    }
    if (hs.size() < 4 + 2 + 32 + 1 || (unsigned char)hs[0] != 2) return "-";
    size_t ml = ((unsigned char)hs[1] << 16) | ((unsigned char)hs[2] << 8) | (unsigned char)hs[3];
    if (4 + ml > hs.size()) return "-";
    int ver = ((unsigned char)hs[4] << 8) | (unsigned char)hs[5];
    size_t q = 4 + 2 + 32;
    size_t sidl = (unsigned char)hs[q];
    q += 1 + sidl + 2 + 1;          // session id, cipher suite, compression
    if (q + 2 <= 4 + ml)
    {
      size_t el = ((unsigned char)hs[q] << 8) | (unsigned char)hs[q + 1];
      q += 2;
      size_t end = std::min(q + el, 4 + ml);
      while (q + 4 <= end)
      {
        int et = ((unsigned char)hs[q] << 8) | (unsigned char)hs[q + 1];
        size_t l = ((unsigned char)hs[q + 2] << 8) | (unsigned char)hs[q + 3];
        if (et == 43 && l == 2 && q + 6 <= end) ver = ((unsigned char)hs[q + 4] << 8) | (unsigned char)hs[q + 5];
        q += 4 + l;
      }
    }
    switch (ver)
    {
    case 0x0301: return "1.0";
    case 0x0302: return "1.1";
    case 0x0303: return "1.2";
    case 0x0304: return "1.3";
    default: return "?";
    }
  }
};

static std::string verName(int v)
{
  switch (v)
  {
  case TLS1_VERSION: return "1.0";
  case TLS1_1_VERSION: return "1.1";
  case TLS1_2_VERSION: return "1.2";
  case TLS1_3_VERSION: return "1.3";
  default: return "-";
  }
}
static int ceilVersion(const std::string &c)
{
  if (c == "10") return TLS1_VERSION;
  if (c == "11") return TLS1_1_VERSION;
  if (c == "12") return TLS1_2_VERSION;
  if (c == "13") return TLS1_3_VERSION;
  return -1;
}

// ======================================================================================= peers (harness-owned OpenSSL)
struct PeerOut
{
  bool hsOk = false;
  int version = 0;
  bool gotApp = false;     // saw the application marker line
  bool gotPong = false;    // (client peers) saw the PONG reply
  std::string raw;         // plaintext peers: bytes received
  std::string err;
};
static SSL_CTX *peerCtx(bool server, int ceil, bool anon = false)
{
  SSL_CTX *c = SSL_CTX_new(server ? TLS_server_method() : TLS_client_method());
  SSL_CTX_set_security_level(c, 0);
  // ordinary peers never offer anonymous suites; the `anon` peer offers nothing else (no certificate, TLS <= 1.2)
  SSL_CTX_set_cipher_list(c, anon ? "aNULL:@SECLEVEL=0" : "ALL:!aNULL:@SECLEVEL=0");
  if (anon) SSL_CTX_set_dh_auto(c, 1);
  SSL_CTX_set_min_proto_version(c, TLS1_VERSION);
  SSL_CTX_set_max_proto_version(c, (anon && ceil > TLS1_2_VERSION) ? TLS1_2_VERSION : ceil);
  return c;
}
static std::string sslErr()
{
  unsigned long e = ERR_get_error();
  if (!e) return "-";
  char b[200];
  ERR_error_string_n(e, b, sizeof b);
  ERR_clear_error();
  std::string s(b);
  for (char &ch : s) if (ch == ' ') ch = '_';
  return s;
}
/// read lines over TLS until one contains `needle` (or error / timeout)
static bool sslReadUntil(SSL *ssl, const char *needle, std::string &acc)
{
  char b[2048];
  for (int i = 0; i < 64; ++i)
  {
    if (acc.find(needle) != std::string::npos && acc.find('\n', acc.find(needle)) != std::string::npos) return true;
    int n = SSL_read(ssl, b, sizeof b);
    if (n <= 0) return false;
    acc.append(b, (size_t)n);
  }
  return false;
}
static bool rawReadUntil(int fd, const char *needle, std::string &acc)
{
  char b[2048];
  for (int i = 0; i < 64; ++i)
  {
    if (acc.find(needle) != std::string::npos && acc.find('\n', acc.find(needle)) != std::string::npos) return true;
    ssize_t n = ::recv(fd, b, sizeof b, 0);
    if (n <= 0) return false;
    acc.append(b, (size_t)n);
  }
  return false;
}

enum class PeerKind { Tls, Plain, Garbage, BadHello, Dual, PlainRead, Anon };
static PeerKind peerKind(const std::string &s)
{
  if (s == "tls") return PeerKind::Tls;
  if (s == "plain") return PeerKind::Plain;
  if (s == "garbage") return PeerKind::Garbage;
  if (s == "badhello") return PeerKind::BadHello;
  if (s == "plainread") return PeerKind::PlainRead;
  if (s == "anon") return PeerKind::Anon;
  return PeerKind::Dual;
}
static std::string garbageBytes(bool framed)
{
  std::string g;
  std::uint64_t x = 0x9E3779B97F4A7C15ull;
  for (int i = 0; i < 60; ++i)
  {
    x ^= x << 13; x ^= x >> 7; x ^= x << 17;
    g.push_back((char)(x & 0xff));
  }
  if (!framed) { g[0] = 'G'; return g; }
  std::string r;
  char rh[5] = {22, 3, 3, 0, 64};
  r.append(rh, 5);
  char hh[4] = {2, 0, 0, 60};
  r.append(hh, 4);
  r += g;
  return r;
}

struct ServerPeer
{
  int ls = -1;
  std::uint16_t port = 0;
  std::thread th;
  std::atomic<bool> stop{false};
  PeerOut out;
  // configuration
  PeerKind kind = PeerKind::Tls;
  std::string cert = "valid";
  int ceil = TLS1_3_VERSION;
  bool http = false;        // answer an HTTP request instead of the marker line

  void start()
  {
    ls = listenLoopback(port);
    th = std::thread([this] { PeerScope ps; run(); });
  }
  void run()
  {
    int c = acceptTimeout(ls, 5000, stop);
    if (c < 0) { out.err = "no-connection"; return; }
    setRecvTimeout(c, 2500);
    PeerKind k = kind;
    if (k == PeerKind::Dual)
    {
      char pk[3] = {0, 0, 0};
      ssize_t n = ::recv(c, pk, 1, MSG_PEEK);
      k = (n == 1 && pk[0] == 22) ? PeerKind::Tls : PeerKind::Plain;
      if (n <= 0) { out.err = "no-bytes"; ::close(c); return; }
      if (k == PeerKind::Plain && http)
      {
        // a plaintext HTTP service: whatever arrives in clear is recorded and answered in clear
        char b[2048];
        for (int i = 0; i < 32 && out.raw.find("\r\n\r\n") == std::string::npos; ++i)
        {
          ssize_t m = ::recv(c, b, sizeof b, 0);
          if (m <= 0) break;
          out.raw.append(b, (size_t)m);
        }
        if (out.raw.find("\r\n\r\n") != std::string::npos)
        {
          out.gotApp = out.raw.find(MARK) != std::string::npos;
          std::string body = std::string("PONG ") + MARK;
          std::string r = "HTTP/1.1 200 OK\r\nContent-Type: text/plain\r\nContent-Length: " + std::to_string(body.size()) + "\r\nConnection: close\r\n\r\n" + body;
          ::send(c, r.data(), r.size(), MSG_NOSIGNAL);
        }
        setRecvTimeout(c, W(200));
        while (::recv(c, b, sizeof b, 0) > 0) {}
        ::close(c);
        return;
      }
      if (k == PeerKind::Plain)
      {
        // a plaintext service: read the request line(s), answer in clear
        if (rawReadUntil(c, "APP:", out.raw)) { out.gotApp = out.raw.find(MARK) != std::string::npos; std::string r = "PONG\n"; ::send(c, r.data(), r.size(), MSG_NOSIGNAL); }
        std::string rest;
        char b[256];
        setRecvTimeout(c, W(300));
        while (::recv(c, b, sizeof b, 0) > 0) {}
        ::close(c);
        return;
      }
    }
    if (k == PeerKind::Plain || k == PeerKind::Garbage || k == PeerKind::BadHello)
    {
      std::string hello = k == PeerKind::Plain ? std::string("220 plaintext service ready\r\n") : garbageBytes(k == PeerKind::BadHello);
      ::send(c, hello.data(), hello.size(), MSG_NOSIGNAL);
      setRecvTimeout(c, W(600));
      char b[4096];
      for (;;)
      {
        ssize_t n = ::recv(c, b, sizeof b, 0);
        if (n <= 0) break;
        out.raw.append(b, (size_t)n);
        if (out.raw.find("APP:") != std::string::npos)
        {
          out.gotApp = out.raw.find(MARK) != std::string::npos;
          std::string r = "PONG\n";
          ::send(c, r.data(), r.size(), MSG_NOSIGNAL);
        }
      }
      ::close(c);
      return;
    }
    SSL_CTX *ctx = peerCtx(true, ceil, k == PeerKind::Anon);
    const CertKey &ck = g_ck[cert == "mismatch" ? "decoy" : cert];
    if (k != PeerKind::Anon && (SSL_CTX_use_certificate(ctx, ck.x) != 1 || SSL_CTX_use_PrivateKey(ctx, ck.k) != 1)) { out.err = "peer-cert-load:" + sslErr(); SSL_CTX_free(ctx); ::close(c); return; }
    SSL *ssl = SSL_new(ctx);
    SSL_set_fd(ssl, c);
    int rc = SSL_accept(ssl);
    if (rc == 1)
    {
      out.hsOk = true;
      out.version = SSL_version(ssl);
      std::string acc;
      if (http)
      {
        char b[2048];
        for (int i = 0; i < 32 && acc.find("\r\n\r\n") == std::string::npos; ++i)
        {
          int n = SSL_read(ssl, b, sizeof b);
          if (n <= 0) break;
          acc.append(b, (size_t)n);
        }
        if (acc.find("\r\n\r\n") != std::string::npos)
        {
          out.gotApp = acc.find(MARK) != std::string::npos;
          std::string body = std::string("PONG ") + MARK;
          std::string r = "HTTP/1.1 200 OK\r\nContent-Type: text/plain\r\nContent-Length: " + std::to_string(body.size()) + "\r\nConnection: close\r\n\r\n" + body;
          SSL_write(ssl, r.data(), (int)r.size());
        }
      }
      else if (sslReadUntil(ssl, "APP:", acc))
      {
        out.gotApp = acc.find(MARK) != std::string::npos;
        std::string r = "PONG\n";
        SSL_write(ssl, r.data(), (int)r.size());
        // give the other side a moment to read before close_notify
        char b[64];
        setRecvTimeout(c, W(300));
        SSL_read(ssl, b, sizeof b);
      }
      SSL_shutdown(ssl);
    }
    else
    {
      out.err = sslErr();
    }
    SSL_free(ssl);
    SSL_CTX_free(ctx);
    ::close(c);
  }
  void finish()
  {
    stop.store(true);
    if (th.joinable()) th.join();
    if (ls >= 0) ::close(ls);
    ls = -1;
  }
};

/// OpenSSL (or plaintext / garbage) CLIENT peer, used against iora listeners.
static void clientPeer(std::uint16_t port, PeerKind kind, const std::string &ccert, int ceil, bool http, PeerOut &out)
{
  PeerScope ps;
  int c = connectLoopback(port);
  if (c < 0) { out.err = "connect-failed"; return; }
  setRecvTimeout(c, 2500);
  std::string app = std::string("APP:") + MARK + "\n";
  if (http) app = std::string("GET /c07?m=") + MARK + " HTTP/1.1\r\nHost: localhost\r\nConnection: close\r\n\r\n";
  if (kind == PeerKind::Plain || kind == PeerKind::Garbage || kind == PeerKind::BadHello || kind == PeerKind::PlainRead)
  {
    // PlainRead: a client that never handshakes and never speaks - it only reads what the server volunteers
    std::string first = kind == PeerKind::Plain ? app : kind == PeerKind::PlainRead ? std::string() : garbageBytes(kind == PeerKind::BadHello);
    if (!first.empty()) ::send(c, first.data(), first.size(), MSG_NOSIGNAL);
    setRecvTimeout(c, W(kind == PeerKind::PlainRead ? 400 : 700));
    char b[4096];
    for (;;)
    {
      ssize_t n = ::recv(c, b, sizeof b, 0);
      if (n <= 0) break;
      out.raw.append(b, (size_t)n);
      if (out.raw.find("PONG") != std::string::npos) { out.gotPong = true; break; }
    }
    ::close(c);
    return;
  }
  SSL_CTX *ctx = peerCtx(false, ceil, kind == PeerKind::Anon);
  if (ccert != "none" && kind != PeerKind::Anon)
  {
    const CertKey &ck = g_ck[ccert];
    if (SSL_CTX_use_certificate(ctx, ck.x) != 1 || SSL_CTX_use_PrivateKey(ctx, ck.k) != 1) { out.err = "peer-cert-load:" + sslErr(); SSL_CTX_free(ctx); ::close(c); return; }
  }
  SSL *ssl = SSL_new(ctx);
  SSL_set_fd(ssl, c);
  int rc = SSL_connect(ssl);
  if (rc == 1)
  {
    out.hsOk = true;
    out.version = SSL_version(ssl);
    if (SSL_write(ssl, app.data(), (int)app.size()) > 0)
    {
      std::string acc;
      char b[2048];
      for (int i = 0; i < 32; ++i)
      {
        int n = SSL_read(ssl, b, sizeof b);
        if (n <= 0) break;
        acc.append(b, (size_t)n);
        if (acc.find("PONG") != std::string::npos) { out.gotPong = true; break; }
      }
    }
    SSL_shutdown(ssl);
  }
  else
  {
    out.err = sslErr();
  }
  SSL_free(ssl);
  SSL_CTX_free(ctx);
  ::close(c);
}

// ======================================================================================= iora side
struct Obs
{
  std::mutex mx;
  std::condition_variable cv;
  bool connectFired = false, acceptFired = false, closed = false;
  std::string data;
  int closeCode = -1;
  std::string closeMsg;
  std::vector<std::string> errors;
};
static const char *errName(TransportError e)
{
  switch (e)
  {
  case TransportError::None: return "None";
  case TransportError::Socket: return "Socket";
  case TransportError::Resolve: return "Resolve";
  case TransportError::Bind: return "Bind";
  case TransportError::Listen: return "Listen";
  case TransportError::Accept: return "Accept";
  case TransportError::Connect: return "Connect";
  case TransportError::TLSHandshake: return "TLSHandshake";
  case TransportError::TLSIO: return "TLSIO";
  case TransportError::PeerClosed: return "PeerClosed";
  case TransportError::WriteBackpressure: return "WriteBackpressure";
  case TransportError::Config: return "Config";
  case TransportError::GCClosed: return "GCClosed";
  case TransportError::Cancelled: return "Cancelled";
  case TransportError::Timeout: return "Timeout";
  case TransportError::BufferOverflow: return "BufferOverflow";
  case TransportError::ShuttingDown: return "ShuttingDown";
  default: return "Unknown";
  }
}
static TlsMode modeOf(const std::string &s)
{
  if (s == "server") return TlsMode::Server;
  if (s == "client") return TlsMode::Client;
  return TlsMode::None;
}
static std::string trustFile(const std::string &t)
{
  if (t == "right") return g_ck["caR"].certPath;
  if (t == "wrong") return g_ck["caW"].certPath;
  if (t == "badfile") return g_dir + "/garbage.pem";
  if (t == "missing") return g_dir + "/does-not-exist.pem";
  return "";
}
static std::string bit(bool b) { return b ? "1" : "0"; }

struct CellResult
{
  std::string plan = "?";
  bool connected = false, appdata = false, cleartext = false;
  std::string version = "-";
  std::string extra;         // further canonical (compared) fields of some cell kinds
  std::string diag;
  std::string line() const
  {
    return "plan=" + plan + " connected=" + bit(connected) + " appdata=" + bit(appdata) + " cleartext=" + bit(cleartext) +
           " version=" + version + extra + " | " + diag;
  }
};

/// trailing `key=value` tokens of an operation line (optional cell parameters)
static std::map<std::string, std::string> g_opt;
static std::string opt(const std::string &k, const std::string &dflt = "")
{
  auto it = g_opt.find(k);
  return it == g_opt.end() ? dflt : it->second;
}

/// TlsConfig.ciphers of a cell: unset | a string that only lowers the security level | a string that (also) enables anonymous suites
static std::string cipherString(const std::string &o)
{
  if (o == "noanon0") return "ALL:!aNULL:@SECLEVEL=0";
  if (o == "seclevel0") return "ALL:@SECLEVEL=0";         // OpenSSL's ALL includes aNULL (ADH / AECDH)
  return "";
}

static void applyEngineOpts(TransportConfig &cfg, const std::string &et, const std::string &batch)
{
  cfg.useEdgeTriggered = (et != "0");
  cfg.batching.enabled = (batch == "1");
  cfg.handshakeTimeout = milliseconds(4000);
  cfg.connectTimeout = milliseconds(4000);
}

/// plan string for the iora side of a cell, from what the interposers saw
static std::string observedPlan(bool refusedStart, const char *refuseWhat, bool sessionSeen)
{
  if (refusedStart) return std::string("refuse(") + refuseWhat + ")";
  auto v = sslSnapshot();
  if (!v.empty()) return planStr(v.back().first, v.back().second);
  if (sessionSeen) return "plain";
  return "none";
}

/// what `SSL_CTX_set_default_verify_paths` will find: the cell's system store
static void setSystemStore(const std::string &sys)
{
  std::string f = sys == "right" ? g_ck["caR"].certPath : sys == "wrong" ? g_ck["caW"].certPath : g_dir + "/empty.pem";
  ::setenv("SSL_CERT_FILE", f.c_str(), 1);
  ::setenv("SSL_CERT_DIR", (g_dir + "/emptydir").c_str(), 1);
}

// ---- iora as CLIENT: cli <api> <verify> <trust> <scert> <ceil> <peer> <target> <min> <et> <batch> <enabled> <defmode> <req>
static CellResult runClientCell(const std::vector<std::string> &t)
{
  CellResult r;
  setSystemStore(opt("sys", "empty"));
  const std::string &api = t[1], &trust = t[3], &scert = t[4], &peer = t[6], &target = t[7];
  bool verify = t[2] == "1";
  int ceil = ceilVersion(t[5]);
  long minv = std::atol(t[8].c_str());
  bool enabled = t[11] == "1";
  TlsMode defMode = modeOf(t[12]), req = modeOf(t[13]);
  resetSslLog();

  ServerPeer sp;
  sp.kind = peerKind(peer);
  sp.cert = scert;
  sp.ceil = (scert == "mismatch" && ceil > TLS1_2_VERSION) ? TLS1_2_VERSION : ceil;   // substitution needs a clear-text Certificate message
  sp.start();
  Relay relay;
  if (scert == "mismatch" && sp.kind != PeerKind::Plain && sp.kind != PeerKind::Garbage && sp.kind != PeerKind::BadHello)
  {
    unsigned char *der = nullptr;
    int n = i2d_X509(g_ck["valid"].x, &der);
    relay.substCert.assign((const char *)der, (size_t)n);
    OPENSSL_free(der);
  }
  relay.start(sp.port);

  TransportConfig cfg;
  applyEngineOpts(cfg, t[9], t[10]);
  cfg.clientTls.enabled = enabled;
  cfg.clientTls.defaultMode = defMode;
  cfg.clientTls.verifyPeer = verify;
  cfg.clientTls.caFile = trustFile(trust);
  if (trust == "path") cfg.clientTls.caPath = g_dir + "/emptydir";
  cfg.clientTls.minVersion = (int)minv;
  cfg.clientTls.ciphers = cipherString(opt("ciphers"));
  if (!opt("depth").empty()) cfg.clientTls.verifyDepth = std::atoi(opt("depth").c_str());
  if (!opt("owncert").empty())
  {
    // iora PRESENTS a client certificate (the client-certificate steps of initTls' client block)
    cfg.clientTls.certFile = g_ck[opt("owncert")].certPath;
    cfg.clientTls.keyFile = g_ck[opt("owncert")].keyPath;
  }
  if (opt("other") == "1")
  {
    // a dual-role engine: the SERVER context exists as well (a wrong-role request must not be satisfied by it, nor fall back to clear text)
    cfg.serverTls.enabled = true;
    cfg.serverTls.defaultMode = TlsMode::Server;
    cfg.serverTls.certFile = g_ck["valid"].certPath;
    cfg.serverTls.keyFile = g_ck["valid"].keyPath;
  }
  auto obs = std::make_shared<Obs>();
  auto tr = Transport::tcp(cfg);
  std::string app = std::string("APP:") + MARK + "\n", early = std::string("EARLY:") + MARK + "\n";
  std::atomic<SessionId> mySid{0};
  tr->onConnect([&, obs](SessionId s, const TransportAddress &)
                {
                  { std::lock_guard<std::mutex> g(obs->mx); obs->connectFired = true; }
                  tr->send(s, app.data(), app.size());
                  obs->cv.notify_all();
                });
  tr->onData([obs](SessionId, iora::core::BufferView d, Clock::time_point)
             {
               std::lock_guard<std::mutex> g(obs->mx);
               obs->data.append((const char *)d.data(), d.size());
               obs->cv.notify_all();
             });
  tr->onClose([obs](SessionId, const TransportErrorInfo &e)
              {
                std::lock_guard<std::mutex> g(obs->mx);
                obs->closed = true;
                obs->closeCode = (int)e.code;
                obs->closeMsg = e.message;
                obs->cv.notify_all();
              });
  tr->onError([obs](TransportError c, const std::string &m)
              {
                std::lock_guard<std::mutex> g(obs->mx);
                obs->errors.push_back(std::string(errName(c)) + ":" + m);
              });
  bool refusedStart = false;
  const char *refuseWhat = "start";
  auto sr = tr->start();
  std::string host = target == "name" ? "localhost" : "127.0.0.1";
  bool syncOk = false;
  if (sr.isErr())
  {
    refusedStart = true;
  }
  else if (api == "sync")
  {
    auto cr = tr->connectSync(host, relay.port, req, milliseconds(4000));
    if (cr.isOk())
    {
      syncOk = true;
      { std::lock_guard<std::mutex> g(obs->mx); obs->connectFired = true; }
      tr->send(cr.value(), app.data(), app.size());
    }
    else
    {
      std::lock_guard<std::mutex> g(obs->mx);
      obs->closed = true;
      obs->closeCode = (int)cr.error().code;
      obs->closeMsg = cr.error().message;
    }
  }
  else
  {
    auto cr = tr->connect(host, relay.port, req);
    if (cr.isOk())
    {
      mySid = cr.value();
      tr->send(cr.value(), early.data(), early.size());   // queued behind the handshake; must never reach the wire in clear
    }
    else
    {
      std::lock_guard<std::mutex> g(obs->mx);
      obs->closed = true;
      obs->closeCode = (int)cr.error().code;
    }
  }
  (void)syncOk;
  if (!refusedStart)
  {
    std::unique_lock<std::mutex> lk(obs->mx);
    obs->cv.wait_for(lk, milliseconds(5000), [&] { return obs->closed || obs->data.find("PONG") != std::string::npos; });
    // after a close, leave a little room for late (wrong) announcements; after success nothing more is expected
    if (obs->closed && !obs->connectFired) obs->cv.wait_for(lk, milliseconds(W(30)), [&] { return obs->connectFired; });
  }
  tr->stop();
  sp.finish();
  relay.finish();
  {
    std::lock_guard<std::mutex> g(obs->mx);
    r.connected = obs->connectFired;
    r.appdata = obs->data.find("PONG") != std::string::npos;
    bool refusedConnect = !refusedStart && sslSnapshot().empty() && !obs->connectFired && obs->closed && obs->closeCode == (int)TransportError::Config;
    if (refusedConnect) { refusedStart = true; refuseWhat = "connect"; }
    r.plan = observedPlan(refusedStart, refuseWhat, obs->connectFired || relay.accepted);
    r.cleartext = relay.sawClear(true, r.appdata);
    r.version = (sp.out.hsOk && r.connected) ? verName(sp.out.version) : "-";
    std::ostringstream d;
    d << "wirever=" << relay.wireVersion() << " peerhs=" << bit(sp.out.hsOk) << " peerapp=" << bit(sp.out.gotApp) << " close="
      << (obs->closeCode >= 0 ? errName((TransportError)obs->closeCode) : "-") << " subst=" << bit(relay.substituted) << " peererr=" << sp.out.err
      << " c2s=" << relay.c2s.size() << " s2c=" << relay.s2c.size();
    // receive side: everything onData ever saw must be (a prefix of) what the peer SENT AS APPLICATION DATA - ciphertext or handshake
    // records taken off the socket by a raw ::recv would show up here as foreign bytes
    const std::string expect = "PONG\n";
    d << " rx=" << obs->data.size() << " rxodd=" << bit(!(obs->data.size() <= expect.size() && expect.compare(0, obs->data.size(), obs->data) == 0));
    r.diag = d.str();
  }
  return r;
}

// ---- iora as SERVER: srv <verify> <trust> <owncert> <ccert> <ceil> <peer> <min> <et> <batch> <enabled> <defmode> <req>
static CellResult runServerCell(const std::vector<std::string> &t)
{
  CellResult r;
  setSystemStore(opt("sys", "empty"));
  bool verify = t[1] == "1";
  const std::string &trust = t[2], &own = t[3], &ccert = t[4], &peer = t[6];
  int ceil = ceilVersion(t[5]);
  long minv = std::atol(t[7].c_str());
  bool enabled = t[10] == "1";
  TlsMode defMode = modeOf(t[11]), req = modeOf(t[12]);
  resetSslLog();

  TransportConfig cfg;
  applyEngineOpts(cfg, t[8], t[9]);
  cfg.serverTls.enabled = enabled;
  cfg.serverTls.defaultMode = defMode;
  cfg.serverTls.verifyPeer = verify;
  cfg.serverTls.caFile = trustFile(trust);
  if (trust == "path") cfg.serverTls.caPath = g_dir + "/emptydir";
  cfg.serverTls.minVersion = (int)minv;
  cfg.serverTls.ciphers = cipherString(opt("ciphers"));
  if (!opt("depth").empty()) cfg.serverTls.verifyDepth = std::atoi(opt("depth").c_str());
  if (opt("other") == "1")
  {
    cfg.clientTls.enabled = true;          // a dual-role engine: the CLIENT context exists as well
    cfg.clientTls.defaultMode = TlsMode::Client;
  }
  const bool greet = opt("greet") == "1";
  std::string greeting = std::string("GREET:") + MARK + "\n";
  if (own == "unreadable") { cfg.serverTls.certFile = g_dir + "/nope.pem"; cfg.serverTls.keyFile = g_dir + "/nope.key"; }
  else if (own != "nocert") { cfg.serverTls.certFile = g_ck[own].certPath; cfg.serverTls.keyFile = g_ck[own].keyPath; }
  auto obs = std::make_shared<Obs>();
  auto tr = Transport::tcp(cfg);
  tr->onAccept([&, obs](SessionId s, const TransportAddress &)
               {
                 {
                   std::lock_guard<std::mutex> g(obs->mx);
                   obs->acceptFired = true;
                   obs->cv.notify_all();
                 }
                 // a server that greets first: sent at accept(), i.e. BEFORE the TLS handshake of this session has run
                 if (greet) tr->send(s, greeting.data(), greeting.size());
               });
  tr->onConnect([obs](SessionId, const TransportAddress &)
                {
                  std::lock_guard<std::mutex> g(obs->mx);
                  obs->connectFired = true;
                  obs->cv.notify_all();
                });
  tr->onData([&, obs](SessionId s, iora::core::BufferView d, Clock::time_point)
             {
               bool reply = false;
               {
                 std::lock_guard<std::mutex> g(obs->mx);
                 obs->data.append((const char *)d.data(), d.size());
                 reply = obs->data.find(MARK) != std::string::npos && obs->data.find('\n') != std::string::npos;
                 obs->cv.notify_all();
               }
               if (reply) { std::string p = "PONG\n"; tr->send(s, p.data(), p.size()); }
             });
  tr->onClose([obs](SessionId, const TransportErrorInfo &e)
              {
                std::lock_guard<std::mutex> g(obs->mx);
                obs->closed = true;
                obs->closeCode = (int)e.code;
                obs->cv.notify_all();
              });
  tr->onError([obs](TransportError c, const std::string &m)
              {
                std::lock_guard<std::mutex> g(obs->mx);
                obs->errors.push_back(std::string(errName(c)) + ":" + m);
              });
  bool refused = false;
  const char *refuseWhat = "start";
  PeerOut po;
  Relay relay;
  auto sr = tr->start();
  if (sr.isErr())
  {
    refused = true;
  }
  else
  {
    auto lr = tr->addListener("127.0.0.1", 0, req);
    if (lr.isErr())
    {
      refused = true;
      refuseWhat = "listen";
    }
    else
    {
      auto la = tr->getListenerAddress(lr.value());
      relay.start(la.port);
      clientPeer(relay.port, peerKind(peer), ccert, ceil, false, po);
      std::unique_lock<std::mutex> lk(obs->mx);
      // the peer is done; let iora finish what it is doing with this connection
      obs->cv.wait_for(lk, milliseconds(W(po.gotPong ? 50 : 700)), [&] { return obs->closed; });
    }
  }
  tr->stop();
  relay.finish();
  {
    std::lock_guard<std::mutex> g(obs->mx);
    bool sslMade = !sslSnapshot().empty();
    r.connected = sslMade ? obs->connectFired : obs->acceptFired;
    r.appdata = obs->data.find(MARK) != std::string::npos;
    r.plan = observedPlan(refused, refuseWhat, obs->acceptFired);
    if (!refused && r.plan == "none") r.plan = req == TlsMode::None ? "plain" : "none";
    r.cleartext = relay.sawClear(false, r.appdata);
    r.version = (po.hsOk && r.connected) ? verName(po.version) : "-";
    std::ostringstream d;
    d << "wirever=" << relay.wireVersion() << " peerhs=" << bit(po.hsOk) << " peerpong=" << bit(po.gotPong) << " accept=" << bit(obs->acceptFired)
      << " onconnect=" << bit(obs->connectFired) << " close=" << (obs->closeCode >= 0 ? errName((TransportError)obs->closeCode) : "-")
      << " peererr=" << po.err << " c2s=" << relay.c2s.size() << " s2c=" << relay.s2c.size();
    const std::string expect = std::string("APP:") + MARK + "\n";
    d << " rx=" << obs->data.size() << " rxodd=" << bit(!(obs->data.size() <= expect.size() && expect.compare(0, obs->data.size(), obs->data) == 0));
    r.diag = d.str();
  }
  return r;
}

// ---- HttpClient: http <verify> <cafile> <sys> <scert> <url> <ceil> <peer>
static CellResult runHttpCell(const std::vector<std::string> &t)
{
  CellResult r;
  bool verify = t[1] == "1";
  const std::string &ca = t[2], &sys = t[3], &scert = t[4], &url = t[5], &peer = t[7];
  int ceil = ceilVersion(t[6]);
  setSystemStore(sys);
  std::string reason = "-";
  for (int attempt = 0; attempt < 5; ++attempt)   // HttpClient caps 127.0.0.1 connects (TLS included) at 200 ms: retry time-outs under load
  {
    resetSslLog();
    ServerPeer sp;
    sp.kind = peerKind(peer);
    sp.cert = scert;
    sp.ceil = (scert == "mismatch" && ceil > TLS1_2_VERSION) ? TLS1_2_VERSION : ceil;
    sp.http = true;
    sp.start();
    Relay relay;
    if (scert == "mismatch" && sp.kind == PeerKind::Tls)
    {
      unsigned char *der = nullptr;
      int n = i2d_X509(g_ck["valid"].x, &der);
      relay.substCert.assign((const char *)der, (size_t)n);
      OPENSSL_free(der);
    }
    relay.start(sp.port);
    bool ok = false, timeout = false;
    {
      HttpClient::Config hc;
      hc.connectTimeout = milliseconds(3000);
      hc.requestTimeout = milliseconds(3000);
      hc.reuseConnections = false;
      HttpClient cl(hc);
      HttpClient::TlsConfig tc;
      tc.verifyPeer = verify;
      tc.caFile = trustFile(ca);
      cl.setTlsConfig(tc);
      std::string u = std::string("https://") + (url == "name" ? "localhost" : "127.0.0.1") + ":" + std::to_string(relay.port) + "/c07?m=" + MARK;
      try
      {
        auto resp = cl.get(u);
        ok = resp.statusCode == 200 && resp.body.find("PONG") != std::string::npos;
        reason = "status" + std::to_string(resp.statusCode);
      }
      catch (const std::exception &e)
      {
        reason = e.what();
        for (char &ch : reason) if (ch == ' ' || ch == '\n') ch = '_';
        timeout = reason.find("imeout") != std::string::npos || reason.find("imed_out") != std::string::npos;
      }
    }
    sp.finish();
    relay.finish();
    auto v = sslSnapshot();
    r.connected = ok;
    r.appdata = ok;
    // the transport's own start() refusing (e.g. a caFile that cannot be loaded) is a refusal of the START, not of the connect
    const bool initRefused = reason.find("Failed_to_start_HTTP_client_transport") != std::string::npos;
    r.plan = v.empty() ? (relay.accepted ? "plain" : initRefused ? "refuse(start)" : "refuse(connect)") : planStr(v.back().first, v.back().second);
    r.cleartext = relay.sawClear(true, ok);
    r.version = (sp.out.hsOk && ok) ? verName(sp.out.version) : "-";
    std::ostringstream d;
    d << "wirever=" << relay.wireVersion() << " peerhs=" << bit(sp.out.hsOk) << " peerapp=" << bit(sp.out.gotApp) << " why=" << reason.substr(0, 120)
      << " attempt=" << attempt << " peererr=" << sp.out.err;
    r.diag = d.str();
    if (!timeout) break;
  }
  return r;
}

// ---- HttpServer: hsrv <requireClientCert> <cafile> <owncert> <ccert> <ceil> <peer>
static CellResult runHttpServerCell(const std::vector<std::string> &t)
{
  CellResult r;
  setSystemStore(opt("sys", "empty"));
  bool require = t[1] == "1";
  const std::string &ca = t[2], &own = t[3], &ccert = t[4], &peer = t[6];
  int ceil = ceilVersion(t[5]);
  PeerOut po;
  Relay relay;
  bool refused = false;
  const char *what = "start";
  std::atomic<int> handled{0};
  // HttpServer binds a fixed port: probe a free one; if another process takes it between the probe and start() (a BIND failure, told
  // apart from a TLS refusal by the listener error text) the cell is simply tried again with a fresh port
  for (int attempt = 0; attempt < 4; ++attempt)
  {
    resetSslLog();
    refused = false;
    what = "start";
    bool bindRace = false;
    std::uint16_t port = 0;
    { int ls = listenLoopback(port); ::close(ls); }
    HttpServer srv;
    srv.setPort(port);
    srv.setBindAddress("127.0.0.1");
    srv.onGet("/c07", [&](const HttpServer::Request &, HttpServer::Response &res)
              {
                handled++;
                res.set_content("PONG", "text/plain");
              });
    try
    {
      HttpServer::TlsConfig tc;
      tc.certFile = g_ck[own].certPath;
      tc.keyFile = g_ck[own].keyPath;
      tc.caFile = trustFile(ca);
      tc.requireClientCert = require;
      srv.enableTls(tc);
    }
    catch (const std::exception &)
    {
      refused = true;
      what = "enableTls";
    }
    if (!refused)
    {
      try { srv.start(); }
      catch (const std::exception &e)
      {
        refused = true;
        std::string m = e.what();
        bindRace = m.find("Failed to add listener") != std::string::npos && m.find("TLS") == std::string::npos;
      }
    }
    if (!refused)
    {
      relay.start(port);
      clientPeer(relay.port, peerKind(peer), ccert, ceil, true, po);
      std::this_thread::sleep_for(milliseconds(W(po.gotPong ? 20 : 300)));
      srv.stop();
    }
    if (!bindRace) break;
    { std::lock_guard<std::mutex> g(g_imx); fired("hsrv(bind-race retry)"); }
  }
  relay.finish();
  r.connected = handled.load() > 0;
  r.appdata = handled.load() > 0;
  r.plan = observedPlan(refused, what, relay.accepted);
  r.cleartext = relay.sawClear(false, r.appdata);
  r.version = (po.hsOk && r.connected) ? verName(po.version) : "-";
  std::ostringstream d;
  d << "wirever=" << relay.wireVersion() << " peerhs=" << bit(po.hsOk) << " peerpong=" << bit(po.gotPong) << " peererr=" << po.err;
  r.diag = d.str();
  return r;
}

// ---- HttpClient URL spellings: hurl <scheme> <form> <verify> <peer>
//      the URL is <scheme>://<authority by form>/c07?m=MARK with an Authorization header; the peer answers TLS with TLS
//      and plaintext with plaintext, so whatever the client decides to send in clear is observed.
static int listenFixed(std::uint16_t port)
{
  int ls = ::socket(AF_INET, SOCK_STREAM | SOCK_CLOEXEC, 0);
  int one = 1;
  ::setsockopt(ls, SOL_SOCKET, SO_REUSEADDR, &one, sizeof one);
  sockaddr_in a{};
  a.sin_family = AF_INET;
  a.sin_addr.s_addr = htonl(INADDR_LOOPBACK);
  a.sin_port = htons(port);
  if (::bind(ls, (sockaddr *)&a, sizeof a) != 0 || ::listen(ls, 8) != 0) { ::close(ls); return -1; }
  return ls;
}
static CellResult runUrlCell(const std::vector<std::string> &t)
{
  CellResult r;
  const std::string &scheme = t[1], &form = t[2], &peer = t[4];
  bool verify = t[3] == "1";
  setSystemStore("empty");
  resetSslLog();
  const bool noport = form == "noport";
  // the default ports are a machine-wide resource: one no-port cell at a time, across concurrently running checks
  int lockFd = -1;
  if (noport)
  {
    lockFd = ::open("/tmp/.c07_default_ports.lock", O_CREAT | O_RDWR | O_CLOEXEC, 0666);
    if (lockFd >= 0) ::flock(lockFd, LOCK_EX);
  }
  struct Unlock { int fd; ~Unlock() { if (fd >= 0) { ::flock(fd, LOCK_UN); ::close(fd); } } } unlock{lockFd};
  struct Pair { ServerPeer sp; Relay relay; };
  std::vector<std::unique_ptr<Pair>> pairs;
  for (std::uint16_t fixed : (noport ? std::vector<std::uint16_t>{443, 80} : std::vector<std::uint16_t>{0}))
  {
    auto pr = std::make_unique<Pair>();
    pr->sp.kind = peerKind(peer);
    pr->sp.cert = "valid";
    pr->sp.ceil = TLS1_3_VERSION;
    pr->sp.http = true;
    pr->sp.start();
    if (fixed)
    {
      int ls = listenFixed(fixed);
      if (ls < 0)
      {
        pr->sp.finish();
        for (auto &q : pairs) { q->sp.finish(); q->relay.finish(); }
        r.plan = "skip";
        r.extra = " port=-";
        r.diag = "cannot-bind-" + std::to_string(fixed);
        return r;
      }
      pr->relay.upstream = pr->sp.port;
      pr->relay.ls = ls;
      pr->relay.port = fixed;
      Relay *rp = &pr->relay;
      pr->relay.th = std::thread([rp] { rp->run(); });
    }
    else
    {
      pr->relay.start(pr->sp.port);
    }
    pairs.push_back(std::move(pr));
  }
  std::string P = std::to_string(pairs[0]->relay.port);
  std::string auth = form == "ipport" ? "127.0.0.1:" + P : form == "nameport" ? "localhost:" + P : form == "userinfo" ? "user:pw@127.0.0.1:" + P
                   : form == "userat" ? "user@127.0.0.1:" + P : form == "dotname" ? "localhost.:" + P : form == "ip6" ? "[::1]:" + P
                   : form == "upperhost" ? "LOCALHOST:" + P : "127.0.0.1";
  std::string url = scheme + "://" + auth + "/c07?m=" + MARK;
  bool ok = false;
  std::string reason = "-";
  {
    HttpClient::Config hc;
    hc.connectTimeout = milliseconds(1500);
    hc.requestTimeout = milliseconds(2000);
    hc.reuseConnections = false;
    HttpClient cl(hc);
    HttpClient::TlsConfig tc;
    tc.verifyPeer = verify;
    tc.caFile = verify ? trustFile("right") : "";
    cl.setTlsConfig(tc);
    try
    {
      auto resp = cl.get(url, {{"Authorization", std::string("Bearer ") + MARK}});
      ok = resp.statusCode == 200 && resp.body.find("PONG") != std::string::npos;
      reason = "status" + std::to_string(resp.statusCode);
    }
    catch (const std::exception &e)
    {
      reason = e.what();
      for (char &ch : reason) if (ch == ' ' || ch == '\n') ch = '_';
    }
  }
  bool accepted = false, clear = false, hs = false;
  int ver = 0;
  std::string onport = "-";
  for (auto &q : pairs)
  {
    q->sp.finish();
    q->relay.finish();
    if (q->relay.accepted) { accepted = true; onport = std::to_string(q->relay.port); }
    clear = clear || q->relay.sawClear(true, ok) || q->sp.out.raw.find(MARK) != std::string::npos;
    if (q->sp.out.hsOk) { hs = true; ver = q->sp.out.version; }
  }
  auto v = sslSnapshot();
  r.connected = ok;
  r.appdata = ok;
  r.plan = reason.find("Invalid_URL_format") != std::string::npos ? "rejected" : !v.empty() ? planStr(v.back().first, v.back().second) : accepted ? "plain" : "noconn";
  r.cleartext = clear;
  r.version = (hs && ok) ? verName(ver) : "-";
  r.extra = " port=" + (noport ? onport : std::string("explicit"));
  r.diag = "why=" + reason.substr(0, 100);
  return r;
}

// ---- HttpClient connection cache across schemes: hreuse <first> <second> <verify>
//      ONE client, two requests to the same host:port, the peer serves plaintext and TLS on that port (keep-alive).
struct MultiPeer
{
  int ls = -1;
  std::uint16_t port = 0;
  std::thread acc;
  std::atomic<bool> stop{false};
  std::mutex mx;
  std::vector<std::thread> workers;
  struct Conn { bool tls = false; std::string clear; std::vector<std::string> paths; };
  std::string cert = "valid";
  std::vector<std::shared_ptr<Conn>> conns;

  void start()
  {
    ls = listenLoopback(port);
    acc = std::thread([this]
                      {
                        PeerScope ps;
                        while (!stop.load())
                        {
                          int c = acceptTimeout(ls, 100, stop);
                          if (c < 0) continue;
                          auto cn = std::make_shared<Conn>();
                          std::lock_guard<std::mutex> g(mx);
                          conns.push_back(cn);
                          workers.emplace_back([this, c, cn] { PeerScope p2; serve(c, cn); });
                        }
                      });
  }
  static std::string pathOf(const std::string &req)
  {
    size_t a = req.find(' '), b = req.find(' ', a + 1);
    return (a == std::string::npos || b == std::string::npos) ? "?" : req.substr(a + 1, b - a - 1);
  }
  void serve(int c, std::shared_ptr<Conn> cn)
  {
    setRecvTimeout(c, 1500);
    char pk = 0;
    if (::recv(c, &pk, 1, MSG_PEEK) != 1) { ::close(c); return; }
    std::string body = std::string("PONG ") + MARK;
    std::string resp = "HTTP/1.1 200 OK\r\nContent-Type: text/plain\r\nContent-Length: " + std::to_string(body.size()) + "\r\nConnection: keep-alive\r\n\r\n" + body;
    SSL_CTX *ctx = nullptr;
    SSL *ssl = nullptr;
    if (pk == 22)
    {
      ctx = peerCtx(true, TLS1_3_VERSION);
      SSL_CTX_use_certificate(ctx, g_ck[cert].x);
      SSL_CTX_use_PrivateKey(ctx, g_ck[cert].k);
      ssl = SSL_new(ctx);
      SSL_set_fd(ssl, c);
      if (SSL_accept(ssl) != 1) { SSL_free(ssl); SSL_CTX_free(ctx); ::close(c); return; }
      std::lock_guard<std::mutex> g(mx);
      cn->tls = true;
    }
    std::string acc;
    char b[4096];
    for (;;)
    {
      size_t e = acc.find("\r\n\r\n");
      if (e != std::string::npos)
      {
        {
          std::lock_guard<std::mutex> g(mx);
          cn->paths.push_back(pathOf(acc));
        }
        acc.erase(0, e + 4);
        if (ssl) SSL_write(ssl, resp.data(), (int)resp.size());
        else ::send(c, resp.data(), resp.size(), MSG_NOSIGNAL);
        continue;
      }
      long n = ssl ? SSL_read(ssl, b, sizeof b) : ::recv(c, b, sizeof b, 0);
      if (n <= 0) break;
      acc.append(b, (size_t)n);
      if (!ssl) { std::lock_guard<std::mutex> g(mx); cn->clear.append(b, (size_t)n); }
    }
    if (ssl) { SSL_shutdown(ssl); SSL_free(ssl); SSL_CTX_free(ctx); }
    ::close(c);
  }
  void finish()
  {
    stop.store(true);
    if (acc.joinable()) acc.join();
    for (auto &w : workers) if (w.joinable()) w.join();
    if (ls >= 0) ::close(ls);
    ls = -1;
  }
};
static std::string runReuseCell(const std::vector<std::string> &t)
{
  const std::string &first = t[1], &second = t[2];
  bool verify = t[3] == "1";
  setSystemStore("empty");
  resetSslLog();
  MultiPeer mp;
  mp.start();
  std::string r1 = "err", r2 = "err", why;
  {
    HttpClient::Config hc;
    hc.connectTimeout = milliseconds(2000);
    hc.requestTimeout = milliseconds(2500);
    hc.reuseConnections = true;
    HttpClient cl(hc);
    HttpClient::TlsConfig tc;
    tc.verifyPeer = verify;
    tc.caFile = verify ? trustFile("right") : "";
    cl.setTlsConfig(tc);
    std::string base = "://127.0.0.1:" + std::to_string(mp.port);
    auto go = [&](const std::string &scheme, const char *path, std::string &res)
    {
      try
      {
        auto resp = cl.get(scheme + base + path + "?m=" + MARK, {{"Authorization", std::string("Bearer ") + MARK}});
        res = std::to_string(resp.statusCode);
      }
      catch (const std::exception &e)
      {
        why += std::string(e.what()).substr(0, 60) + ";";
      }
    };
    go(first, "/c07a", r1);
    go(second, "/c07b", r2);
  }
  mp.finish();
  int n = 0;
  std::string secondOn = "-";
  bool leak = false;
  for (auto &cn : mp.conns)
  {
    ++n;
    for (auto &p : cn->paths)
    {
      bool isA = p.find("/c07a") == 0, isB = p.find("/c07b") == 0;
      if (isB) secondOn = cn->tls ? "tls" : "plain";
      if (!cn->tls && ((isA && first == "https") || (isB && second == "https"))) leak = true;
    }
    if (!cn->tls && cn->clear.find("/c07b") != std::string::npos && second == "https") leak = true;
    if (!cn->tls && cn->clear.find("/c07a") != std::string::npos && first == "https") leak = true;
  }
  for (char &ch : why) if (ch == ' ' || ch == '\n') ch = '_';
  return "r1=" + r1 + " r2=" + r2 + " conns=" + std::to_string(n) + " second_on=" + secondOn + " secure_in_clear=" + bit(leak) + " | why=" + why;
}

// ---- HttpClient reconfiguration: hreconf <v1> <trigger> <v2>
//      setTlsConfig{verifyPeer=v1}; trigger (a first https request, or a DNS accessor) initialises the client;
//      setTlsConfig{verifyPeer=v2, caFile=right CA}; then an https request to a server whose certificate is SELF-SIGNED.
static std::string runReconfCell(const std::vector<std::string> &t)
{
  bool v1 = t[1] == "1", v2 = t[3] == "1";
  const std::string &trigger = t[2];
  setSystemStore("empty");
  resetSslLog();
  MultiPeer mp;
  mp.cert = "self";
  mp.start();
  std::string r1 = "-", r2 = "err", set2 = "ok", why;
  {
    HttpClient::Config hc;
    hc.connectTimeout = milliseconds(2000);
    hc.requestTimeout = milliseconds(2500);
    hc.reuseConnections = false;
    HttpClient cl(hc);
    auto mk = [&](bool v)
    {
      HttpClient::TlsConfig tc;
      tc.verifyPeer = v;
      tc.caFile = v ? trustFile("right") : "";
      return tc;
    };
    std::string base = "https://127.0.0.1:" + std::to_string(mp.port);
    auto go = [&](const char *path, std::string &res)
    {
      try { res = std::to_string(cl.get(base + path + "?m=" + MARK).statusCode); }
      catch (const std::exception &e) { res = "err"; why += std::string(e.what()).substr(0, 70) + ";"; }
    };
    cl.setTlsConfig(mk(v1));
    if (trigger == "get") go("/c07a", r1);
    else if (trigger == "dns") (void)cl.getDnsServers();
    try { cl.setTlsConfig(mk(v2)); }
    catch (const std::exception &e) { set2 = "throw"; why += std::string(e.what()).substr(0, 70) + ";"; }
    go("/c07b", r2);
  }
  mp.finish();
  auto v = sslSnapshot();
  std::string used = v.empty() ? "-" : verifyStr(v.back().first.verify);
  for (char &ch : why) if (ch == ' ' || ch == '\n') ch = '_';
  return "set2=" + set2 + " r1=" + r1 + " r2=" + r2 + " verify2=" + used + " | why=" + why;
}

// ======================================================================================= main loop
// ---- HttpServer call history: hslife <seq> <peer>      seq = E|S|X joined by '-' (E = enableTls(valid cert,key), S = start, X = stop)
//      After the sequence, if the server is started, ONE request is made by a TLS or a PLAINTEXT client through the recording relay.
//      `en=` lists, per E, whether the call was accepted (ok) or threw: an ACCEPTED enableTls must be in force on the next request.
static std::string runHttpServerLifeCell(const std::vector<std::string> &t)
{
  CellResult r;
  setSystemStore("empty");
  const std::string &seq = t[1], &peer = t[2];
  PeerOut po;
  Relay relay;
  std::atomic<int> handled{0};
  std::string en;
  bool started = false, startThrew = false;
  for (int attempt = 0; attempt < 4; ++attempt)
  {
    resetSslLog();
    en.clear();
    started = false;
    startThrew = false;
    bool bindRace = false;
    std::uint16_t port = 0;
    { int ls = listenLoopback(port); ::close(ls); }
    HttpServer srv;
    srv.setPort(port);
    srv.setBindAddress("127.0.0.1");
    srv.onGet("/c07", [&](const HttpServer::Request &, HttpServer::Response &res)
              {
                handled++;
                res.set_content("PONG", "text/plain");
              });
    std::istringstream ss(seq);
    std::string op;
    while (std::getline(ss, op, '-'))
    {
      if (op == "E")
      {
        bool threw = false;
        try
        {
          HttpServer::TlsConfig tc;
          tc.certFile = g_ck["valid"].certPath;
          tc.keyFile = g_ck["valid"].keyPath;
          srv.enableTls(tc);
        }
        catch (const std::exception &) { threw = true; }
        if (!en.empty()) en += ",";
        en += threw ? "throw" : "ok";
      }
      else if (op == "S")
      {
        try { srv.start(); started = true; }
        catch (const std::exception &e)
        {
          startThrew = true;
          std::string m = e.what();
          bindRace = m.find("Failed to add listener") != std::string::npos && m.find("TLS") == std::string::npos;
          break;
        }
      }
      else if (op == "X")
      {
        srv.stop();
        started = false;
      }
      else throw std::invalid_argument("hslife: unknown op");
    }
    if (started)
    {
      resetSslLog();      // only the SSL objects of the request below count
      relay.start(port);
      clientPeer(relay.port, peerKind(peer), "none", TLS1_3_VERSION, true, po);
      std::this_thread::sleep_for(milliseconds(W(po.gotPong ? 20 : 300)));
    }
    // snapshot BEFORE the server (and with it the engine's contexts) goes away
    r.plan = !started ? (startThrew ? "refuse(start)" : "none") : observedPlan(false, "start", relay.accepted);
    if (started) srv.stop();
    if (!bindRace) break;
    { std::lock_guard<std::mutex> g(g_imx); fired("hsrv(bind-race retry)"); }
  }
  relay.finish();
  r.connected = handled.load() > 0;
  r.appdata = handled.load() > 0;
  r.cleartext = relay.sawClear(false, r.appdata);
  r.version = (po.hsOk && r.connected) ? verName(po.version) : "-";
  r.extra = " en=" + (en.empty() ? std::string("-") : en);
  std::ostringstream d;
  d << "wirever=" << relay.wireVersion() << " peerhs=" << bit(po.hsOk) << " peerpong=" << bit(po.gotPong) << " peererr=" << po.err;
  r.diag = d.str();
  return r.line();
}

// ---- HttpClient whose first initialisation FAILS: hinit <badfile|missing> <name|ip>
//      setTlsConfig{verifyPeer, caFile = unloadable}; https GET (ensureInitialized throws); setTlsConfig{verifyPeer, no caFile}
//      (the system store holds the right CA); https GET to the host by NAME or by IP.  The second request is only sent when the corrected
//      settings were accepted (on a client left with a dead transport it would dereference the DNS client that was never created).
static std::string runHttpInitFailCell(const std::vector<std::string> &t)
{
  const std::string &bad = t[1], &url = t[2];
  setSystemStore("right");
  resetSslLog();
  ServerPeer sp;
  sp.kind = PeerKind::Tls;
  sp.cert = "valid";
  sp.ceil = TLS1_3_VERSION;
  sp.http = true;
  sp.start();
  Relay relay;
  relay.start(sp.port);
  std::string r1 = "?", set2 = "?", r2 = "?", why = "-";
  {
    HttpClient::Config hc;
    hc.connectTimeout = milliseconds(3000);
    hc.requestTimeout = milliseconds(3000);
    hc.reuseConnections = false;
    HttpClient cl(hc);
    HttpClient::TlsConfig tc;
    tc.verifyPeer = true;
    tc.caFile = trustFile(bad);
    cl.setTlsConfig(tc);
    std::string u1 = "https://127.0.0.1:" + std::to_string(relay.port) + "/c07?m=" + MARK;
    try { auto resp = cl.get(u1); r1 = resp.statusCode == 200 ? "200" : "err"; }
    catch (const std::exception &) { r1 = "err"; }
    HttpClient::TlsConfig ok;
    ok.verifyPeer = true;
    try { cl.setTlsConfig(ok); set2 = "ok"; }
    catch (const std::exception &) { set2 = "throw"; }
    if (set2 != "ok") r2 = "skip";
    else
    {
      std::string u2 = std::string("https://") + (url == "name" ? "localhost" : "127.0.0.1") + ":" + std::to_string(relay.port) + "/c07?m=" + MARK;
      for (int attempt = 0; attempt < 3; ++attempt)
      {
        try
        {
          auto resp = cl.get(u2);
          r2 = (resp.statusCode == 200 && resp.body.find("PONG") != std::string::npos) ? "200" : "err";
          break;
        }
        catch (const std::exception &e)
        {
          r2 = "err";
          why = e.what();
          for (char &ch : why) if (ch == ' ' || ch == '\n') ch = '_';
          if (why.find("imeout") == std::string::npos && why.find("imed_out") == std::string::npos) break;
        }
      }
    }
  }
  sp.finish();
  relay.finish();
  bool clear = relay.sawClear(true, r2 == "200");
  return "r1=" + r1 + " set2=" + set2 + " r2=" + r2 + " | cleartext=" + bit(clear) + " peerhs=" + bit(sp.out.hsOk) + " why=" + why.substr(0, 100);
}

// ---- UdpEngine: udp <connect|listen> <req>       a TLS mode on the datagram transport must be refused, never served in clear
static std::string runUdpCell(const std::vector<std::string> &t)
{
  CellResult r;
  TlsMode req = modeOf(t[2]);
  TransportConfig cfg;
  cfg.protocol = Protocol::UDP;
  auto tr = Transport::udp(cfg);
  auto sr = tr->start();
  if (sr.isErr()) { r.plan = "refuse(start)"; return r.line(); }
  std::string diag = "-";
  if (t[1] == "connect")
  {
    std::uint16_t port = 0;
    int ls = ::socket(AF_INET, SOCK_DGRAM | SOCK_CLOEXEC, 0);
    sockaddr_in a{};
    a.sin_family = AF_INET;
    a.sin_addr.s_addr = htonl(INADDR_LOOPBACK);
    ::bind(ls, (sockaddr *)&a, sizeof a);
    socklen_t al = sizeof a;
    ::getsockname(ls, (sockaddr *)&a, &al);
    port = ntohs(a.sin_port);
    auto cr = tr->connect("127.0.0.1", port, req);
    if (cr.isOk()) { r.plan = "plain"; r.connected = true; }
    else { r.plan = cr.error().code == TransportError::Config ? "refuse(connect)" : std::string("error(") + errName(cr.error().code) + ")"; }
    ::close(ls);
  }
  else if (t[1] == "listen")
  {
    auto lr = tr->addListener("127.0.0.1", 0, req);
    if (lr.isOk()) { r.plan = "plain"; r.connected = true; }
    else { r.plan = lr.error().code == TransportError::Config ? "refuse(listen)" : std::string("error(") + errName(lr.error().code) + ")"; }
  }
  else throw std::invalid_argument("udp: unknown op");
  tr->stop();
  r.diag = diag;
  return r.line();
}

int main(int argc, char **argv)
{
  ::signal(SIGPIPE, SIG_IGN);
  // answers go to the original stdout; anything iora's logger prints on fd 1 is sent to stderr
  int ansFd = ::dup(1);
  ::dup2(2, 1);
  FILE *ans = ::fdopen(ansFd, "w");
  iora::core::Logger::setLevel(iora::core::Logger::Level::Fatal);
  if (const char *sl = std::getenv("C07_SLOW")) g_slow = std::max(1, std::atoi(sl));
  const char *wd = std::getenv("C07_WORK");
  char tmpl[] = "/tmp/c07_certs_XXXXXX";
  g_dir = wd ? std::string(wd) : std::string(::mkdtemp(tmpl));
  ::mkdir(g_dir.c_str(), 0755);
  {
    PeerScope ps;
    makeCerts();
  }
  ::setenv("SSL_CERT_FILE", (g_dir + "/empty.pem").c_str(), 1);
  ::setenv("SSL_CERT_DIR", (g_dir + "/emptydir").c_str(), 1);
  (void)argc;
  (void)argv;
  std::string line;
  while (std::getline(std::cin, line))
  {
    auto t = vh::split(line);
    g_opt.clear();
    while (!t.empty() && t.back().find('=') != std::string::npos)
    {
      auto kv = t.back();
      g_opt[kv.substr(0, kv.find('='))] = kv.substr(kv.find('=') + 1);
      t.pop_back();
    }
    std::string out;
    try
    {
      if (t.empty()) out = "bad-op";
      else if (t[0] == "certtable" && t.size() == 1) out = certTable();
      else if (t[0] == "cli" && t.size() == 14) out = runClientCell(t).line();
      else if (t[0] == "srv" && t.size() == 13) out = runServerCell(t).line();
      else if (t[0] == "http" && t.size() == 8) out = runHttpCell(t).line();
      else if (t[0] == "hsrv" && t.size() == 7) out = runHttpServerCell(t).line();
      else if (t[0] == "hurl" && t.size() == 5) out = runUrlCell(t).line();
      else if (t[0] == "hreuse" && t.size() == 4) out = runReuseCell(t);
      else if (t[0] == "hreconf" && t.size() == 4) out = runReconfCell(t);
      else if (t[0] == "hslife" && t.size() == 3) out = runHttpServerLifeCell(t);
      else if (t[0] == "hinit" && t.size() == 3) out = runHttpInitFailCell(t);
      else if (t[0] == "udp" && t.size() == 3) out = runUdpCell(t);
      else if (t[0] == "fires" && t.size() == 1)
      {
        std::lock_guard<std::mutex> g(g_imx);
        std::ostringstream o;
        o << "fires";
        for (auto &kv : g_fire) o << " " << kv.first << "=" << kv.second;
        out = o.str();
      }
      else out = "bad-op";
    }
    catch (const std::exception &e)
    {
      out = std::string("throw ") + typeid(e).name();
    }
    std::fwrite(out.data(), 1, out.size(), ans);
    std::fputc('\n', ans);
    std::fflush(ans);
  }
  if (!wd) std::filesystem::remove_all(g_dir);
  return 0;
}
