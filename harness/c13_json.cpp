// Correspondence harness for C13: the real iora::parsers::Json parser and serializer behind the line protocol.
// Built against ${VERIF_REPO}/include on every check run (ASan + UBSan).
//
// ops (one answer line each):
//   parse <depthMax> <arrayItemsMax> <membersMax> <stringLengthMax> <hex text>
//        -> ok <value, object keys sorted bytewise>  |  err <kind> <offset> <line> <column>
//   order <src>                      -> <value, object members in the unordered_map's iteration order> | err ...
//   ser <pretty> <sort> <indent hex> <src> <order|->
//        -> <hex of serialize(opts)> <1 if the text parses back to an equal value else 0> | order-changed | err ...
//   pvia <orthrow|str|noexc|safe|pstring|istream> <hex>   the public parse wrappers (default limits)
//        -> ok <value> | errw <kind> <line> <column>   (the throwing ones; parse_error's message has no offset) | ok n (noexc/safe on failure)
//   pthrow <limits...> <hex>         Json::parseOrThrow(text, limits)
//   stream <limits...> <cut,cut,...|-> <hex>   JsonStreamParser: feed the chunks, finish()
//        -> s <feed() results> <finish()> <ok <value> | err ... of error()>
//   svia dump <indent> <indent_char> <ensure_ascii> <sort_keys> <src> <order|->   Json::dump(...)
//   svia <ostream|string> <src> <order|->     operator<< / operator std::string
//   locale <name> <decimal point hex>   setlocale(LC_NUMERIC, name) (the plugin builds the locales with localedef and sets LOCPATH)
//        -> locale <hex of localeconv()->decimal_point> | locale-unavailable
//   serlim <limits...> <pretty> <sort> <indent hex> <src v...> <order|->   serialize, re-parse under the GIVEN limits
//        -> <length of the text> <1 iff it parses back to an equal value>
//   api u64 <n> | f32 <8 hex> | initlist <[..]> | pushback <base> <v> | setidx <base> <i> <v> | setkey <base> <hex key> <v>
//        the value-construction API (Json(uint64_t), Json(float), initializer-list ctor, copy assignment + push_back / operator[])
//        -> ok <result> <operand after the call> <hex of the sorted compact text> <1 iff it parses back to an equal value>
//   deepser <a|o> <depth>            (implementation only) build `depth` nested containers programmatically, dump(), re-parse
//        with depthMax raised, compare, copy, destroy -> ok <text length> <eq>
//   counters                         (implementation only) branch counters of this process so far
//   stackuse <a|o> <depth>           (implementation only) bytes of stack parse+serialize+destroy of `depth` nested containers use
//   src = t<hex text> (value = parse of the text, default limits)  |  v<value> (built programmatically, members
//   inserted with operator[] in the order given).
// value syntax (no blanks): n t f i<decimal>; d<16 hex digits, IEEE-754 bits> s<hex>; [v*] {(s<hex>; v)*}
//
// The text handed to the parser lives in a heap block of exactly its size, so that a read at _text[size()] is
// an AddressSanitizer report and not a silent read of std::string's terminator.
#include <algorithm>
#include <clocale>
#include <map>
#include <pthread.h>
#include <sys/mman.h>
#include <cstdint>
#include <cstdio>
#include <cstring>
#include <cxxabi.h>
#include <exception>
#include <memory>
#include <sstream>
#include <stdexcept>
#include <string>
#include <string_view>
#include <typeinfo>
#include <vector>
#define private public
#define protected public
#include "iora/parsers/json.hpp"
#undef private
#undef protected
#include "common/lineproto.hpp"

using iora::parsers::Json;
using iora::parsers::ParseLimits;
using iora::parsers::ParseResult;
using iora::parsers::SerializeOptions;

// branch counters (evidence: which branches of the real code the run reached)
static std::map<std::string, unsigned long long> g_count;
static bool g_nonC = false; // a non-"C" numeric locale is active
static void countValue(const Json& j)
{
  switch (j.type())
  {
  case iora::parsers::JsonType::Null: ++g_count["value.null"]; break;
  case iora::parsers::JsonType::Boolean: ++g_count["value.bool"]; break;
  case iora::parsers::JsonType::Int: ++g_count["value.int"]; break;
  case iora::parsers::JsonType::Double:
  {
    double d = j.getDouble();
    ++g_count[std::isfinite(d) ? "value.double" : std::isnan(d) ? "value.double-nan" : "value.double-inf"];
    if (g_nonC) ++g_count["value.double-under-non-C-locale"];
    break;
  }
  case iora::parsers::JsonType::String: ++g_count[j.getString().size() > 64 ? "value.string>64" : "value.string"]; break;
  case iora::parsers::JsonType::Array:
    ++g_count[j.getArray().size() > 16 ? "value.array>16" : "value.array"];
    for (const auto& e : j.getArray()) countValue(e);
    break;
  case iora::parsers::JsonType::Object:
    ++g_count[j.getObject().size() > 16 ? "value.object>16" : "value.object"];
    for (const auto& p : j.getObject()) countValue(p.second);
    break;
  }
}

static const char* kindOf(const std::string& m)
{
  static const std::pair<const char*, const char*> tab[] = {
    {"Unexpected end of input", "eof"},
    {"Extra characters after JSON value", "extra"},
    {"Maximum nesting depth exceeded", "depth"},
    {"Unexpected character", "char"},
    {"Invalid null literal", "null"},
    {"Invalid boolean literal", "bool"},
    {"Invalid number format", "number"},
    {"Expected '\"'", "quote"},
    {"String length exceeds limit", "strlen"},
    {"Unexpected end of string", "eos"},
    {"Invalid unicode escape", "unicode"},
    {"Invalid escape sequence", "escape"},
    {"Unterminated string", "unterminated"},
    {"Expected '['", "lbracket"},
    {"Expected '{'", "lbrace"},
    {"Array size exceeds limit", "arrsize"},
    {"Unexpected end of array", "eoa"},
    {"Expected ',' or ']'", "arrsep"},
    {"Object size exceeds limit", "objsize"},
    {"Expected ':'", "colon"},
    {"Unexpected end of object", "eoo"},
    {"Expected ',' or '}'", "objsep"},
    {"Parse error", "generic"},
  };
  for (auto& p : tab)
    if (m == p.first) return p.second;
  return nullptr;
}

static std::string showErr(const ParseResult& r)
{
  std::ostringstream o;
  const char* k = kindOf(r.error.message);
  ++g_count[std::string("parse.err.") + (k ? k : "unknown")];
  o << "err " << (k ? std::string(k) : "unknown:" + vh::toHex(r.error.message)) << " " << r.error.where.offset << " "
    << r.error.where.line << " " << r.error.where.column;
  return o.str();
}

static void dump(const Json& j, bool sorted, std::string& o)
{
  switch (j.type())
  {
  case iora::parsers::JsonType::Null: o += 'n'; break;
  case iora::parsers::JsonType::Boolean: o += j.getBool() ? 't' : 'f'; break;
  case iora::parsers::JsonType::Int: o += 'i'; o += std::to_string(j.getInt()); o += ';'; break;
  case iora::parsers::JsonType::Double:
  {
    double d = j.getDouble();
    std::uint64_t b;
    std::memcpy(&b, &d, 8);
    char buf[20];
    std::snprintf(buf, sizeof buf, "d%016llx", static_cast<unsigned long long>(b));
    o += buf;
    break;
  }
  case iora::parsers::JsonType::String:
    o += 's';
    if (!j.getString().empty()) o += vh::toHex(j.getString());
    o += ';';
    break;
  case iora::parsers::JsonType::Array:
    o += '[';
    for (const auto& e : j.getArray()) dump(e, sorted, o);
    o += ']';
    break;
  case iora::parsers::JsonType::Object:
  {
    o += '{';
    std::vector<const std::pair<const std::string, Json>*> ms;
    for (const auto& p : j.getObject()) ms.push_back(&p);
    if (sorted)
      std::sort(ms.begin(), ms.end(), [](auto a, auto b) {
        const std::string &x = a->first, &y = b->first;
        return std::lexicographical_compare(x.begin(), x.end(), y.begin(), y.end(),
                                            [](char p, char q) { return static_cast<unsigned char>(p) < static_cast<unsigned char>(q); });
      });
    for (auto p : ms)
    {
      o += 's';
      if (!p->first.empty()) o += vh::toHex(p->first);
      o += ';';
      dump(p->second, sorted, o);
    }
    o += '}';
    break;
  }
  }
}

// reader for the value syntax
struct VReader
{
  const std::string& s;
  std::size_t i = 0;
  bool bad = false;
  explicit VReader(const std::string& t) : s(t) {}
  std::string upto(char c)
  {
    std::size_t j = s.find(c, i);
    if (j == std::string::npos) { bad = true; return ""; }
    std::string r = s.substr(i, j - i);
    i = j + 1;
    return r;
  }
  std::string str()
  {
    std::string h = upto(';');
    vh::Bytes b;
    if (!vh::ofHex(h.empty() ? "-" : h, b)) bad = true;
    return std::string(b.begin(), b.end());
  }
  Json value(int depth = 0)
  {
    if (i >= s.size() || depth > 2000) { bad = true; return Json(); }
    char c = s[i++];
    switch (c)
    {
    case 'n': return Json();
    case 't': return Json(true);
    case 'f': return Json(false);
    case 'i':
    {
      std::string d = upto(';');
      if (d.empty()) { bad = true; return Json(); }
      try { std::size_t p = 0; long long v = std::stoll(d, &p); if (p != d.size()) bad = true; return Json(static_cast<std::int64_t>(v)); }
      catch (...) { bad = true; return Json(); }
    }
    case 'd':
    {
      if (i + 16 > s.size()) { bad = true; return Json(); }
      std::uint64_t b = 0;
      for (int k = 0; k < 16; ++k)
      {
        char h = s[i++];
        int v = (h >= '0' && h <= '9') ? h - '0' : (h >= 'a' && h <= 'f') ? h - 'a' + 10 : -1;
        if (v < 0) { bad = true; return Json(); }
        b = (b << 4) | static_cast<std::uint64_t>(v);
      }
      double d;
      std::memcpy(&d, &b, 8);
      return Json(d);
    }
    case 's': return Json(str());
    case '[':
    {
      Json::Array a;
      while (i < s.size() && s[i] != ']' && !bad) a.push_back(value(depth + 1));
      if (i >= s.size()) { bad = true; return Json(); }
      ++i;
      return Json(std::move(a));
    }
    case '{':
    {
      Json o = Json::object();
      while (i < s.size() && s[i] != '}' && !bad)
      {
        if (s[i] != 's') { bad = true; break; }
        ++i;
        std::string k = str();
        Json v = value(depth + 1);
        o[k] = std::move(v);
      }
      if (i >= s.size()) { bad = true; return Json(); }
      ++i;
      return o;
    }
    default: bad = true; return Json();
    }
  }
};

struct Text
{
  std::unique_ptr<char[]> p;
  std::size_t n = 0;
  explicit Text(const vh::Bytes& b) : p(new char[b.size()]), n(b.size())
  {
    if (n) std::memcpy(p.get(), b.data(), n);
  }
  std::string_view sv() const { return std::string_view(p.get(), n); }
};

// src -> value; returns false (with `out` = answer line) when the source text does not parse / is malformed
static bool loadSrc(const std::string& src, Json& v, std::string& out)
{
  if (src.size() < 1) { out = "bad-op"; return false; }
  if (src[0] == 't')
  {
    vh::Bytes b;
    std::string h = src.substr(1);
    if (!vh::ofHex(h.empty() ? "-" : h, b)) { out = "bad-op"; return false; }
    Text t(b);
    ParseResult r = Json::parse(t.sv(), ParseLimits{});
    if (!r.ok) { out = showErr(r); return false; }
    v = std::move(r.value);
    return true;
  }
  if (src[0] == 'v')
  {
    std::string body = src.substr(1);
    VReader rd(body);
    v = rd.value();
    if (rd.bad || rd.i != body.size()) { out = "bad-op"; return false; }
    return true;
  }
  out = "bad-op";
  return false;
}

// answer of the serializer ops: text + whether it parses back (default limits) to a value equal for Json::operator==
static std::string serAnswer(const std::string& text, const Json& v)
{
  vh::Bytes tb(text.begin(), text.end());
  Text txt(tb);
  ParseResult r = Json::parse(txt.sv(), ParseLimits{});
  bool eq = r.ok && r.value == v;
  ++g_count[eq ? "ser.reparse-equal" : "ser.reparse-not-equal"];
  ++g_count[text.size() > 1024 ? "ser.text>1KiB" : "ser.text<=1KiB"];
  countValue(v);
  return vh::toHex(text) + (eq ? " 1" : " 0");
}

static bool checkOrder(const Json& v, const std::string& order)
{
  if (order == "-") return true;
  std::string o;
  dump(v, false, o);
  return o == order;
}

// "JSON parse error at line L, column C: MSG" -> errw <kind> L C
static std::string showThrown(const std::string& what)
{
  unsigned long long l = 0, c = 0;
  int n = 0;
  if (std::sscanf(what.c_str(), "JSON parse error at line %llu, column %llu: %n", &l, &c, &n) != 2 || n == 0)
    return "errw unparsable:" + vh::toHex(what);
  const char* k = kindOf(what.substr(static_cast<std::size_t>(n)));
  return std::string("errw ") + (k ? std::string(k) : "unknown:" + vh::toHex(what.substr(static_cast<std::size_t>(n)))) + " " +
         std::to_string(l) + " " + std::to_string(c);
}

static bool readLimits(const std::vector<std::string>& t, std::size_t at, ParseLimits& lim)
{
  unsigned long long d, a, m, s;
  if (!vh::parseNat(t[at], d) || !vh::parseNat(t[at + 1], a) || !vh::parseNat(t[at + 2], m) || !vh::parseNat(t[at + 3], s)) return false;
  lim.depthMax = d;
  lim.arrayItemsMax = a;
  lim.membersMax = m;
  lim.stringLengthMax = s;
  return true;
}

// ---- stack use of the recursive descent, measured on a private, pre-painted thread stack
struct StackJob
{
  std::string text;
  std::size_t depth = 0;
  bool ok = false;
};
static void* stackJobMain(void* p)
{
  auto* job = static_cast<StackJob*>(p);
  ParseLimits lim;
  lim.depthMax = job->depth + 8;
  {
    ParseResult r = Json::parse(std::string_view(job->text), lim);
    job->ok = r.ok;
    if (r.ok)
    {
      SerializeOptions o;
      o.pretty = true;
      std::string out = r.value.serialize(o);
      Json copy = r.value;
      job->ok = (copy == r.value) && !out.empty();
    }
  } // value destroyed here, still on this stack
  return nullptr;
}
__attribute__((no_sanitize("address"))) static std::size_t paintedLow(const unsigned char* base, std::size_t n)
{
  std::size_t i = 0;
  while (i < n && base[i] == 0xA5) ++i;
  return i;
}
static std::string stackUse(char kind, std::size_t depth)
{
  const std::size_t size = std::size_t(64) << 20;
  void* mem = mmap(nullptr, size, PROT_READ | PROT_WRITE, MAP_PRIVATE | MAP_ANONYMOUS | MAP_STACK, -1, 0);
  if (mem == MAP_FAILED) return "bad-op";
  std::memset(mem, 0xA5, size);
  StackJob job;
  job.depth = depth;
  for (std::size_t i = 0; i < depth; ++i) job.text += (kind == 'o') ? "{\"k\":" : "[";
  job.text += "0";
  for (std::size_t i = 0; i < depth; ++i) job.text += (kind == 'o') ? "}" : "]";
  pthread_attr_t at;
  pthread_attr_init(&at);
  pthread_attr_setstack(&at, mem, size);
  pthread_t th;
  if (pthread_create(&th, &at, stackJobMain, &job) != 0) { munmap(mem, size); return "bad-op"; }
  pthread_join(th, nullptr);
  pthread_attr_destroy(&at);
  std::size_t untouched = paintedLow(static_cast<const unsigned char*>(mem), size);
  munmap(mem, size);
  return std::to_string(size - untouched) + (job.ok ? " 1" : " 0");
}

static std::string step(const std::vector<std::string>& t)
{
  try
  {
    if (t.size() == 6 && t[0] == "parse")
    {
      unsigned long long d, a, m, s;
      vh::Bytes b;
      if (!vh::parseNat(t[1], d) || !vh::parseNat(t[2], a) || !vh::parseNat(t[3], m) || !vh::parseNat(t[4], s) || !vh::ofHex(t[5], b))
        return "bad-op";
      ParseLimits lim;
      lim.depthMax = d;
      lim.arrayItemsMax = a;
      lim.membersMax = m;
      lim.stringLengthMax = s;
      Text txt(b);
      ParseResult r = Json::parse(txt.sv(), lim);
      ++g_count[b.size() > 1024 ? "parse.text>1KiB" : b.size() > 64 ? "parse.text>64B" : "parse.text<=64B"];
      if (!r.ok) return showErr(r);
      ++g_count["parse.ok"];
      countValue(r.value);
      std::string o = "ok ";
      dump(r.value, true, o);
      return o;
    }
    if (t.size() == 2 && t[0] == "order")
    {
      Json v;
      std::string out;
      if (!loadSrc(t[1], v, out)) return out;
      dump(v, false, out);
      return out;
    }
    if (t.size() == 6 && t[0] == "ser")
    {
      if ((t[1] != "0" && t[1] != "1") || (t[2] != "0" && t[2] != "1")) return "bad-op";
      vh::Bytes ind;
      if (!vh::ofHex(t[3], ind)) return "bad-op";
      Json v;
      std::string out;
      if (!loadSrc(t[4], v, out)) return out;
      if (t[5] != "-")
      {
        std::string o;
        dump(v, false, o);
        if (o != t[5]) return "order-changed";
      }
      SerializeOptions opt;
      opt.pretty = t[1] == "1";
      opt.sortKeys = t[2] == "1";
      opt.indent = std::string(ind.begin(), ind.end());
      return serAnswer(v.serialize(opt), v);
    }
    if (t.size() == 3 && t[0] == "locale")
    {
      const char* r = std::setlocale(LC_NUMERIC, t[1].c_str());
      if (!r) return "locale-unavailable";
      const char* dp = std::localeconv()->decimal_point;
      std::string d = dp ? dp : "";
      g_nonC = d != ".";
      ++g_count[g_nonC ? "locale.non-C" : "locale.C"];
      return "locale " + (d.empty() ? std::string("-") : vh::toHex(d));
    }
    if (t.size() == 10 && t[0] == "serlim")
    {
      ParseLimits lim;
      vh::Bytes ind;
      if (!readLimits(t, 1, lim) || (t[5] != "0" && t[5] != "1") || (t[6] != "0" && t[6] != "1") || !vh::ofHex(t[7], ind)) return "bad-op";
      if (t[8].empty() || t[8][0] != 'v') return "bad-op";
      Json v;
      std::string out;
      if (!loadSrc(t[8], v, out)) return out;
      if (!checkOrder(v, t[9])) return "order-changed";
      SerializeOptions opt;
      opt.pretty = t[5] == "1";
      opt.sortKeys = t[6] == "1";
      opt.indent = std::string(ind.begin(), ind.end());
      std::string text = v.serialize(opt);
      vh::Bytes tb(text.begin(), text.end());
      Text txt(tb);
      ParseResult r = Json::parse(txt.sv(), lim);
      bool eq = r.ok && r.value == v;
      ++g_count[eq ? "serlim.reparse-equal" : "serlim.reparse-not-equal"];
      countValue(v);
      return std::to_string(text.size()) + (eq ? " 1" : " 0");
    }
    if (t.size() >= 3 && t[0] == "api")
    {
      auto readV = [](const std::string& body, Json& v) {
        VReader rd(body);
        v = rd.value();
        return !rd.bad && rd.i == body.size();
      };
      Json result, operand;
      if (t[1] == "u64" && t.size() == 3)
      {
        unsigned long long n;
        if (!vh::parseNat(t[2], n)) return "bad-op";
        result = Json(static_cast<std::uint64_t>(n));
        ++g_count[n > 9223372036854775807ULL ? "api.u64>INT64_MAX" : "api.u64"];
      }
      else if (t[1] == "f32" && t.size() == 3)
      {
        vh::Bytes b;
        if (!vh::ofHex(t[2], b) || b.size() != 4) return "bad-op";
        std::uint32_t bits = (std::uint32_t(b[0]) << 24) | (std::uint32_t(b[1]) << 16) | (std::uint32_t(b[2]) << 8) | std::uint32_t(b[3]);
        float f;
        std::memcpy(&f, &bits, 4);
        result = Json(f);
        ++g_count["api.float"];
      }
      else if (t[1] == "initlist" && t.size() == 3)
      {
        Json a;
        if (!readV(t[2], a) || !a.isArray() || a.getArray().size() > 4) return "bad-op";
        const Json::Array& x = a.getArray();
        switch (x.size())
        {
        case 0: result = Json(std::initializer_list<Json>{}); break;
        case 1: result = Json(std::initializer_list<Json>{x[0]}); break;
        case 2: result = Json(std::initializer_list<Json>{x[0], x[1]}); break;
        case 3: result = Json(std::initializer_list<Json>{x[0], x[1], x[2]}); break;
        default: result = Json(std::initializer_list<Json>{x[0], x[1], x[2], x[3]}); break;
        }
        operand = a;
        ++g_count["api.initializer-list"];
      }
      else if (t[1] == "pushback" && t.size() == 4)
      {
        Json v;
        if (!readV(t[2], operand) || !readV(t[3], v)) return "bad-op";
        result = operand;          // copy assignment
        if (v.isString()) result.push_back(std::move(v)); else result.push_back(v);
        ++g_count[operand.isArray() ? "api.push_back" : "api.push_back-on-non-array"];
      }
      else if (t[1] == "setidx" && t.size() == 5)
      {
        Json v;
        unsigned long long i;
        if (!readV(t[2], operand) || !vh::parseNat(t[3], i) || i > 64 || !readV(t[4], v)) return "bad-op";
        result = operand;
        result[static_cast<std::size_t>(i)] = v;
        ++g_count["api.operator[](index)"];
      }
      else if (t[1] == "setkey" && t.size() == 5)
      {
        Json v;
        vh::Bytes k;
        if (!readV(t[2], operand) || !vh::ofHex(t[3], k) || !readV(t[4], v)) return "bad-op";
        result = operand;
        result[std::string(k.begin(), k.end())] = v;
        ++g_count["api.operator[](key)"];
      }
      else
        return "bad-op";
      std::string o = "ok ";
      dump(result, true, o);
      o += ' ';
      dump(operand, true, o);
      SerializeOptions opt;
      opt.sortKeys = true;
      return o + " " + serAnswer(result.serialize(opt), result);
    }
    if (t.size() == 3 && t[0] == "deepser")
    {
      unsigned long long d;
      if ((t[1] != "a" && t[1] != "o") || !vh::parseNat(t[2], d) || d > 2000000) return "bad-op";
      Json v(std::int64_t(7));
      for (unsigned long long i = 0; i < d; ++i)
      {
        if (t[1] == "a") { Json::Array a; a.push_back(std::move(v)); v = Json(std::move(a)); }
        else { Json o = Json::object(); o["k"] = std::move(v); v = std::move(o); }
      }
      std::string text = v.dump();
      ParseLimits lim;
      lim.depthMax = d + 1;
      ParseResult r = Json::parse(std::string_view(text), lim);
      Json copy = v;
      bool eq = r.ok && r.value == v && copy == v;
      return "ok " + std::to_string(text.size()) + (eq ? " 1" : " 0");
    }
    if (t.size() == 1 && t[0] == "counters")
    {
      std::string o = "counters";
      for (const auto& p : g_count) o += " " + p.first + "=" + std::to_string(p.second);
      return o;
    }
    if (t.size() == 3 && t[0] == "pvia")
    {
      vh::Bytes b;
      if (!vh::ofHex(t[2], b)) return "bad-op";
      const std::string text(b.begin(), b.end());
      const std::string& w = t[1];
      try
      {
        Json v;
        if (w == "orthrow") v = Json::parseOrThrow(text);
        else if (w == "str") v = Json::parse(text, nullptr, true);
        else if (w == "noexc") v = Json::parse(text, nullptr, false);
        else if (w == "safe") v = Json::safe_parse(text);
        else if (w == "pstring") v = Json::parseString(text);
        else if (w == "istream") { std::istringstream is(text); is >> v; }
        else return "bad-op";
        std::string o = "ok ";
        dump(v, true, o);
        return o;
      }
      catch (const Json::parse_error& e)
      {
        return showThrown(e.what());
      }
    }
    if (t.size() == 6 && t[0] == "pthrow")
    {
      ParseLimits lim;
      vh::Bytes b;
      if (!readLimits(t, 1, lim) || !vh::ofHex(t[5], b)) return "bad-op";
      Text txt(b);
      try
      {
        Json v = Json::parseOrThrow(txt.sv(), lim);
        std::string o = "ok ";
        dump(v, true, o);
        return o;
      }
      catch (const Json::parse_error& e)
      {
        return showThrown(e.what());
      }
    }
    if (t.size() == 7 && t[0] == "stream")
    {
      ParseLimits lim;
      vh::Bytes b;
      if (!readLimits(t, 1, lim) || !vh::ofHex(t[6], b)) return "bad-op";
      std::vector<std::size_t> cuts;
      if (t[5] != "-")
      {
        std::istringstream cs(t[5]);
        std::string c;
        while (std::getline(cs, c, ','))
        {
          unsigned long long x;
          if (!vh::parseNat(c, x)) return "bad-op";
          cuts.push_back(static_cast<std::size_t>(x));
        }
      }
      iora::parsers::JsonStreamParser sp(lim);
      std::string bits;
      std::size_t off = 0;
      cuts.push_back(b.size());
      for (std::size_t k = 0; k < cuts.size(); ++k)
      {
        std::size_t hi = (k + 1 == cuts.size()) ? b.size() : std::min(std::max(cuts[k], off), b.size());
        Text chunk(vh::Bytes(b.begin() + static_cast<std::ptrdiff_t>(off), b.begin() + static_cast<std::ptrdiff_t>(hi)));
        bits += sp.feed(chunk.sv()) ? '1' : '0';
        off = hi;
      }
      bool fin = sp.finish();
      std::string state;
      if (sp.complete())
      {
        state = "ok ";
        dump(sp.value(), true, state);
      }
      else
      {
        ParseResult r;
        r.error = sp.error();
        state = showErr(r);
      }
      return "s " + bits + (fin ? " 1 " : " 0 ") + state;
    }
    if (t.size() == 8 && t[0] == "svia" && t[1] == "dump")
    {
      long long indent = std::stoll(t[2]);
      unsigned long long ch;
      if (!vh::parseNat(t[3], ch) || ch > 255 || (t[5] != "0" && t[5] != "1")) return "bad-op";
      Json v;
      std::string out;
      if (!loadSrc(t[6], v, out)) return out;
      if (!checkOrder(v, t[7])) return "order-changed";
      return serAnswer(v.dump(static_cast<int>(indent), static_cast<char>(ch), t[4] == "1", t[5] == "1"), v);
    }
    if (t.size() == 4 && t[0] == "svia")
    {
      Json v;
      std::string out;
      if (!loadSrc(t[2], v, out)) return out;
      if (!checkOrder(v, t[3])) return "order-changed";
      if (t[1] == "ostream")
      {
        std::ostringstream os;
        os << v;
        return serAnswer(os.str(), v);
      }
      if (t[1] == "string")
      {
        std::string sv = static_cast<std::string>(v);
        return serAnswer(sv, v);
      }
      return "bad-op";
    }
    if (t.size() == 3 && t[0] == "stackuse")
    {
      unsigned long long d;
      if ((t[1] != "a" && t[1] != "o") || !vh::parseNat(t[2], d) || d > 2000000) return "bad-op";
      return stackUse(t[1][0], static_cast<std::size_t>(d));
    }
    return "bad-op";
  }
  catch (const std::exception& e)
  {
    int st = 0;
    char* n = abi::__cxa_demangle(typeid(e).name(), nullptr, nullptr, &st);
    std::string r = std::string("throw ") + (n ? n : typeid(e).name());
    std::free(n);
    for (auto& c : r)
      if (c == ' ' && &c != &r[5]) c = '_';
    return r;
  }
  catch (...)
  {
    return "throw unknown";
  }
}

int main()
{
  // line-buffered: when a sanitizer aborts the process, every answer up to the fatal op has reached the pipe,
  // so the crash is attributed to the op that caused it
  static char obuf[1 << 16];
  std::setvbuf(stdout, obuf, _IOLBF, sizeof obuf);
  return vh::runLines(step);
}
