// Correspondence harness for C08 (timing wheel): the REAL iora::core::TimingWheel driven by manual advance()
// under a virtual steady clock (clock_gettime(CLOCK_MONOTONIC) is interposed inside this executable, DESIGN §3.1).
// `start` calls the real start() and then joins the tick thread (stopTickThread), so the wheel is accepting,
// _lastAdvanceTime is set exactly as in production, and every advance() is issued by the op list.  While start() runs the
// interposed timed wait never reports a time-out (g_hold_ticks), and `_running` is cleared before the hold is lifted, so the tick
// thread cannot tick however long this process is descheduled.
// The virtual epoch is a CONSTANT (kBaseNs = 30 days of uptime, op `base <ns>` moves it), so that absolute clock values - which
// the saturating deadline of FC08c depends on - are the same in every run and known to the model driver and the monitor.
// A watchdog turns a call that does not return (cascade livelock under _wheelMutex, F22) into the answer `hang`: it measures the
// CPU time this process burns inside one op (3 s; a livelock spins, a descheduled process does not) plus a 60 s wall-clock limit
// for a call that blocks without spinning.
// `wreset` calls the real reset() (only on a STOPPED wheel: the code asserts it), `start` after it restarts the wheel.
// `mtsched <threads> <n> <delay>`: <threads> threads call schedule() <n> times each at once (ids must be pairwise distinct and
// pendingCount() must grow by the number of accepted calls), then every timer scheduled by the op is cancelled again.
// `race` replays the F32 schedule deterministically: a scheduler thread is parked inside pthread_mutex_lock(&_wheelMutex)
// (interposed) after it has passed the lock-free _accepting test, stop() runs to completion, then the thread is released.
#include <algorithm>
#include <atomic>
#include <cassert>
#include <chrono>
#include <condition_variable>
#include <cstdint>
#include <cstdio>
#include <cstring>
#include <cerrno>
#include <exception>
#include <functional>
#include <map>
#include <memory>
#include <mutex>
#include <sstream>
#include <string>
#include <thread>
#include <typeinfo>
#include <unordered_map>
#include <vector>
#include <pthread.h>
#include <sys/syscall.h>
#include <time.h>
#include <unistd.h>
#include <dlfcn.h>
#define private public
#define protected public
#include "iora/core/timing_wheel.hpp"
#undef private
#undef protected
#include "common/lineproto.hpp"

using iora::core::TimingWheel;
using iora::core::TimerId;
using std::chrono::milliseconds;

// ---------------------------------------------------------------------------------------------- virtual steady clock
static constexpr long long kBaseNs = 2592000000000000LL;   // 30 days
static std::atomic<long long> g_base_ns{kBaseNs};   // virtual epoch: a constant, never 0 (TimePoint{} means "unset" in the wheel)
static std::atomic<bool> g_hold_ticks{false};       // start() is running: the tick thread's timed wait must not time out
static std::atomic<long long> g_vns{0};       // virtual offset set by the op list
static std::atomic<bool> g_virtual{false};
static std::atomic<unsigned long> g_clock_reads{0};

static int real_clock_gettime(clockid_t c, struct timespec* ts) { return (int)syscall(SYS_clock_gettime, c, ts); }

extern "C" int clock_gettime(clockid_t c, struct timespec* ts)
{
  if (c == CLOCK_MONOTONIC && g_virtual.load(std::memory_order_acquire))
  {
    long long t = g_base_ns.load(std::memory_order_relaxed) + g_vns.load(std::memory_order_relaxed);
    ts->tv_sec = t / 1000000000LL;
    ts->tv_nsec = t % 1000000000LL;
    g_clock_reads.fetch_add(1, std::memory_order_relaxed);
    return 0;
  }
  return real_clock_gettime(c, ts);
}

static long long realNowNs(clockid_t c)
{
  struct timespec ts;
  real_clock_gettime(c, &ts);
  return ts.tv_sec * 1000000000LL + ts.tv_nsec;
}

// Timed waits on condition variables (libstdc++ uses pthread_cond_clockwait(CLOCK_MONOTONIC) for steady_clock deadlines) are
// given a REAL deadline: the virtual deadline minus the virtual now, from the real now.  Virtual time only moves between ops,
// so a timed wait inside the code under test ends after the same span of real time instead of "never" (a notify that races the
// wait - stopTickThread() stores the flag and notifies without the mutex - would otherwise block the join for ever).
extern "C" int pthread_cond_clockwait(pthread_cond_t* c, pthread_mutex_t* m, clockid_t clk, const struct timespec* abstime)
{
  using Fn = int (*)(pthread_cond_t*, pthread_mutex_t*, clockid_t, const struct timespec*);
  static Fn real = reinterpret_cast<Fn>(dlsym(RTLD_NEXT, "pthread_cond_clockwait"));
  if (clk == CLOCK_MONOTONIC && g_virtual.load(std::memory_order_acquire))
  {
    // The only timed wait here is the tick thread's wait_for(tick) between start() and the join that follows at once.  While the
    // `start` op holds the ticks, a time-out is never reported (the wait is repeated in 20 ms slices), so the thread cannot tick
    // because this process was descheduled; the op clears `_running` BEFORE it lifts the hold, after which a time-out is harmless
    // (the predicate is true, advance() is skipped) and only bounds the wait when stopTickThread()'s unlocked notify is lost.
    while (g_hold_ticks.load(std::memory_order_acquire))
    {
      long long r0 = realNowNs(CLOCK_MONOTONIC) + 20000000LL;
      struct timespec t0;
      t0.tv_sec = r0 / 1000000000LL;
      t0.tv_nsec = r0 % 1000000000LL;
      int rc0 = real(c, m, clk, &t0);
      if (rc0 != ETIMEDOUT) return rc0;
    }
    long long vnow = g_base_ns.load(std::memory_order_relaxed) + g_vns.load(std::memory_order_relaxed);
    long long rel = abstime->tv_sec * 1000000000LL + abstime->tv_nsec - vnow;
    if (rel < 1000000LL) rel = 1000000LL;
    if (rel > 50000000LL) rel = 50000000LL;
    long long r = realNowNs(CLOCK_MONOTONIC) + rel;
    struct timespec ts;
    ts.tv_sec = r / 1000000000LL;
    ts.tv_nsec = r % 1000000000LL;
    return real(c, m, clk, &ts);
  }
  return real(c, m, clk, abstime);
}

// ---------------------------------------------------------------------------------------------- mutex interposer (F32 replay)
static std::atomic<pthread_mutex_t*> g_park_mutex{nullptr};
static std::atomic<bool> g_park_armed{false};
static std::atomic<bool> g_parked{false};
static std::atomic<bool> g_release{false};
static thread_local bool t_is_racer = false;

extern "C" int pthread_mutex_lock(pthread_mutex_t* m)
{
  using Fn = int (*)(pthread_mutex_t*);
  static Fn real = reinterpret_cast<Fn>(dlsym(RTLD_NEXT, "pthread_mutex_lock"));
  if (t_is_racer && g_park_armed.load(std::memory_order_acquire) && m == g_park_mutex.load(std::memory_order_acquire))
  {
    g_park_armed.store(false, std::memory_order_release);
    g_parked.store(true, std::memory_order_release);
    while (!g_release.load(std::memory_order_acquire))
    {
      struct timespec ts{0, 200000};
      nanosleep(&ts, nullptr);
    }
  }
  return real(m);
}

// ---------------------------------------------------------------------------------------------- watchdog
static std::atomic<long long> g_op_started_ns{0};   // 0 = idle (real monotonic)
static std::atomic<long long> g_op_started_cpu{0};  // process CPU time at the start of the op
static void watchdog()
{
  for (;;)
  {
    struct timespec ts{0, 50000000};
    nanosleep(&ts, nullptr);
    long long s = g_op_started_ns.load(std::memory_order_acquire);
    if (s == 0) continue;
    long long cpu = realNowNs(CLOCK_PROCESS_CPUTIME_ID) - g_op_started_cpu.load(std::memory_order_acquire);
    long long wall = realNowNs(CLOCK_MONOTONIC) - s;
    // re-read: the op may have ended (and another begun) between the loads
    if (g_op_started_ns.load(std::memory_order_acquire) != s) continue;
    if (cpu > 3000000000LL || wall > 60000000000LL)
    {
      std::fflush(stdout);
      std::fputs("hang\n", stdout);
      std::fflush(stdout);
      _exit(97);
    }
  }
}

// ---------------------------------------------------------------------------------------------- the wheel under test
struct W
{
  std::unique_ptr<TimingWheel> w;
  std::vector<TimerId> fired;
  long long tickMs = 1;

  void reset(long long tick, std::size_t slots, std::size_t levels)
  {
    w.reset();   // destructor: tick thread is never running here
    fired.clear();
    g_vns.store(0);
    g_base_ns.store(kBaseNs);
    tickMs = tick;
    w = std::make_unique<TimingWheel>(milliseconds(tick), slots, levels);
  }

  TimerId sched(long long delayMs)
  {
    auto slot = std::make_shared<TimerId>(0);
    TimerId id = w->schedule(milliseconds(delayMs), [this, slot]() { fired.push_back(*slot); });
    *slot = id;
    return id;
  }

  std::string firedList(bool sorted)
  {
    if (sorted) std::sort(fired.begin(), fired.end());
    std::string o;
    for (std::size_t i = 0; i < fired.size(); ++i) { if (i) o += ","; o += std::to_string(fired[i]); }
    fired.clear();
    return o.empty() ? "-" : o;
  }

  std::string dump()
  {
    std::ostringstream o;
    std::lock_guard<std::mutex> lk(w->_wheelMutex);
    o << "cur=";
    for (std::size_t l = 0; l < w->_wheels.size(); ++l) { if (l) o << ","; o << w->_wheels[l].currentTick; }
    o << " la=";
    if (w->_lastAdvanceTime == TimingWheel::TimePoint{}) o << "none";
    else o << (std::chrono::duration_cast<std::chrono::nanoseconds>(w->_lastAdvanceTime.time_since_epoch()).count() - g_base_ns.load());
    o << " acc=" << (w->_accepting.load() ? 1 : 0) << " map=" << w->_entryMap.size() << " e=";
    bool first = true;
    std::size_t linked = 0;
    for (std::size_t l = 0; l < w->_wheels.size(); ++l)
      for (std::size_t b = 0; b < w->_wheels[l].buckets.size(); ++b)
        for (auto* e = w->_wheels[l].buckets[b].head; e; e = e->next)
        {
          if (!first) o << ",";
          first = false;
          long long dl = std::chrono::duration_cast<std::chrono::nanoseconds>(e->deadline.time_since_epoch()).count() - g_base_ns.load();
          // coordinates stored in the entry must be the bucket it is linked in; the id must map back to this entry
          bool consistent = e->wheelLevel == l && e->bucketIndex == b && w->_entryMap.count(e->id) && w->_entryMap[e->id] == e;
          o << e->id << ":" << l << ":" << b << ":" << dl << (consistent ? "" : "!");
          if (++linked > 100000) { o << ",cycle!"; goto done; }
        }
  done:
    if (first) o << "-";
    return o.str();
  }
};

template <typename F> static std::string guarded(F&& f)
{
  try { return f(); }
  catch (const std::exception& e) { return std::string("throw ") + typeid(e).name(); }
  catch (...) { return "throw unknown"; }
}

// clock values stay below 4e18 (epoch + offset never leaves int64); delays use the full range of std::chrono::milliseconds::rep
// except LLONG_MIN (`-room` clamp bound and `-v` below)
static bool parseInt(const std::string& s, long long& out, unsigned long long lim = 4000000000000000000ULL)
{
  if (s.empty()) return false;
  bool neg = s[0] == '-';
  unsigned long long v = 0;
  if (!vh::parseNat(neg ? s.substr(1) : s, v) || v > lim) return false;
  out = neg ? -static_cast<long long>(v) : static_cast<long long>(v);
  return true;
}

int main()
{
  g_virtual.store(true);
  std::thread(watchdog).detach();
  W st;
  st.reset(10, 8, 2);
  int rc = vh::runLines([&](const std::vector<std::string>& t) -> std::string {
    std::fflush(stdout);   // answers of earlier ops must survive a sanitizer abort inside this one
    g_op_started_cpu.store(realNowNs(CLOCK_PROCESS_CPUTIME_ID), std::memory_order_release);
    g_op_started_ns.store(realNowNs(CLOCK_MONOTONIC), std::memory_order_release);
    const unsigned long long kFull = 9223372036854775807ULL;
    // absolute virtual clock values (epoch + offset) stay 10^15 ns (11 days) below TimePoint::max(): the code under test may add a tick
    const long long kClockLimit = 9223372036854775807LL - 1000000000000000LL;
    std::string out = guarded([&]() -> std::string {
      long long a = 0, b = 0, c = 0;
      if (t.size() == 4 && t[0] == "reset" && parseInt(t[1], a) && parseInt(t[2], b) && parseInt(t[3], c))
      {
        if (a <= 0 || b <= 0 || c <= 0 || (b & (b - 1)) != 0 || b > 65536 || c > 8) return "bad-op";
        st.reset(a, static_cast<std::size_t>(b), static_cast<std::size_t>(c));
        return "ok";
      }
      if (t.size() == 1 && t[0] == "start")
      {
        g_hold_ticks.store(true, std::memory_order_release);
        st.w->start();            // real start(): state, _accepting, _lastAdvanceTime, tick thread
        st.w->_running.store(false, std::memory_order_release);   // the tick thread will not call advance() from here on ...
        g_hold_ticks.store(false, std::memory_order_release);     // ... so its timed wait may time out again
        st.w->stopTickThread();   // join it at once: it has not ticked
        return "ok";
      }
      if (t.size() == 2 && t[0] == "base" && parseInt(t[1], a, kFull) && a > 0)
      {
        if (a > kClockLimit - g_vns.load()) return "bad-op";
        g_base_ns.store(a);
        return "ok";
      }
      if (t.size() == 1 && t[0] == "wreset")
      {
        // reset() asserts STOPPED; on any other state the call is a contract violation of the CALLER and is not issued
        if (st.w->getState() != iora::core::TimingWheelState::STOPPED) return "not-stopped";
        st.w->reset();
        st.fired.clear();
        return "ok";
      }
      if (t.size() == 4 && t[0] == "mtsched" && parseInt(t[1], a) && parseInt(t[2], b) && parseInt(t[3], c, kFull))
      {
        if (a < 1 || a > 8 || b < 1 || b > 50000) return "bad-op";
        std::size_t before = st.w->pendingCount();
        std::vector<std::vector<TimerId>> got(static_cast<std::size_t>(a));
        std::atomic<int> ready{0};
        std::atomic<bool> go{false};
        std::vector<std::thread> thr;
        for (long long k = 0; k < a; ++k)
          thr.emplace_back([&, k]() {
            auto& mine = got[static_cast<std::size_t>(k)];
            mine.reserve(static_cast<std::size_t>(b));
            ready.fetch_add(1);
            while (!go.load(std::memory_order_acquire)) { }
            for (long long i = 0; i < b; ++i) mine.push_back(st.w->schedule(milliseconds(c), []() {}));
          });
        while (ready.load() < a) { struct timespec ts{0, 100000}; nanosleep(&ts, nullptr); }
        go.store(true, std::memory_order_release);
        for (auto& x : thr) x.join();
        std::vector<TimerId> all;
        for (auto& v : got) for (TimerId id : v) if (id != iora::core::InvalidTimerId) all.push_back(id);
        std::size_t accepted = all.size();
        std::size_t after = st.w->pendingCount();
        std::sort(all.begin(), all.end());
        std::size_t dups = 0;
        for (std::size_t i = 1; i < all.size(); ++i) if (all[i] == all[i - 1]) ++dups;
        long long shortBy = static_cast<long long>(before + accepted) - static_cast<long long>(after);
        all.erase(std::unique(all.begin(), all.end()), all.end());
        std::size_t cancelled = 0;
        for (TimerId id : all) if (st.w->cancel(id)) ++cancelled;
        return "acc=" + std::to_string(accepted) + " dups=" + std::to_string(dups) + " pending_short=" + std::to_string(shortBy) +
               " cancelled=" + std::to_string(cancelled) + " next=" + std::to_string(st.w->_nextId.load());
      }
      if (t.size() == 2 && t[0] == "clk" && parseInt(t[1], a, kFull) && a >= 0)
      {
        if (a > kClockLimit - g_base_ns.load()) return "bad-op";
        g_vns.store(a);
        return "ok";
      }
      if (t.size() == 1 && t[0] == "vclock")
      {
        // the steady clock the wheel reads IS the virtual one (the interposed clock_gettime is the one libstdc++ reaches)
        auto now = std::chrono::duration_cast<std::chrono::nanoseconds>(TimingWheel::Clock::now().time_since_epoch()).count();
        bool ok = now == g_base_ns.load() + g_vns.load() && g_clock_reads.load() > 0;
        return ok ? "virtual" : "clock-not-interposed";
      }
      if (t.size() == 2 && t[0] == "sched" && parseInt(t[1], a, kFull))
        return std::to_string(st.sched(a));
      if (t.size() == 2 && t[0] == "cancel" && parseInt(t[1], a) && a >= 0)
        return st.w->cancel(static_cast<TimerId>(a)) ? "1" : "0";
      if (t.size() == 3 && t[0] == "resched" && parseInt(t[1], a) && a >= 0 && parseInt(t[2], b, kFull))
        return st.w->reschedule(static_cast<TimerId>(a), milliseconds(b)) ? "1" : "0";
      if (t.size() == 2 && t[0] == "adv" && parseInt(t[1], a, kFull) && a >= 0)
      {
        if (a > kClockLimit - g_base_ns.load()) return "bad-op";
        g_vns.store(a);
        std::size_t n = st.w->advance();
        return "n=" + std::to_string(n) + " f=" + st.firedList(false);
      }
      if (t.size() == 1 && t[0] == "pending")
        return std::to_string(st.w->pendingCount());
      if (t.size() == 1 && t[0] == "dump")
        return st.dump();
      if (t.size() == 2 && t[0] == "drain" && parseInt(t[1], a))
      {
        auto ds = st.w->drain(milliseconds(a));
        return "f=" + st.firedList(true) + " fired=" + std::to_string(ds.fired) + " c=" + std::to_string(ds.cancelled) + " r=" + std::to_string(ds.remaining);
      }
      if (t.size() == 1 && t[0] == "stop")
      {
        st.w->stop();
        return "ok";
      }
      if (t.size() == 2 && t[0] == "race" && parseInt(t[1], a, kFull))
      {
        // F32 schedule: T passes `if (!_accepting) return`, is parked at lock(_wheelMutex); main runs stop() completely; T resumes.
        std::atomic<unsigned long long> got{~0ULL};
        g_release.store(false);
        g_parked.store(false);
        g_park_mutex.store(st.w->_wheelMutex.native_handle());
        g_park_armed.store(true, std::memory_order_release);
        std::thread thr([&]() {
          t_is_racer = true;
          got.store(st.sched(a));
        });
        // wait until T is parked at the mutex, or has returned without ever reaching it (wheel not accepting)
        for (int i = 0; i < 20000 && !g_parked.load() && got.load() == ~0ULL; ++i)
        {
          struct timespec ts{0, 100000};
          nanosleep(&ts, nullptr);
        }
        bool parked = g_parked.load();
        st.w->stop();
        g_release.store(true, std::memory_order_release);
        thr.join();
        g_park_armed.store(false);
        return std::string("parked=") + (parked ? "1" : "0") + " id=" + std::to_string(got.load()) + " pending=" + std::to_string(st.w->pendingCount());
      }
      return "bad-op";
    });
    g_op_started_ns.store(0, std::memory_order_release);
    return out;
  });
  std::fprintf(stderr, "clock_reads=%lu\n", g_clock_reads.load());
  return rc;
}
