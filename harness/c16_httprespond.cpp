// Correspondence harness for C16: the REAL HttpServer::processHttpRequest / handleIncomingData dispatch /
// sendErrorResponse behind a capturing engine (lockstep with Model/HttpServerRespond.lean), and the real server on
// loopback with raw-socket clients (end-to-end monitors).  Built against ${VERIF_REPO}/include on every check run.
#include <algorithm>
#include <atomic>
#include <chrono>
#include <condition_variable>
#include <cstring>
#include <deque>
#include <functional>
#include <map>
#include <memory>
#include <mutex>
#include <optional>
#include <set>
#include <sstream>
#include <stdexcept>
#include <string>
#include <thread>
#include <typeinfo>
#include <unordered_map>
#include <unordered_set>
#include <vector>
#include <future>
#include <queue>
#include <list>
#include <variant>
#include <fstream>
#include <iostream>
#include <regex>
#include <random>
#include <filesystem>
#include <shared_mutex>
#include <array>
#include <bitset>
#include <iomanip>
#include <numeric>
#include <tuple>
#include <type_traits>
#include <utility>
#include <limits>
#include <cassert>
#include <cctype>
#include <cerrno>
#include <cmath>
#include <csignal>
#include <cstdarg>
#include <cstddef>
#include <cstdio>
#include <cstdlib>
#include <ctime>
#include <any>
#include <charconv>
#include <string_view>
#include <system_error>
#include <exception>
#include <iterator>
#include <initializer_list>
#include <cxxabi.h>
#include <arpa/inet.h>
#include <fcntl.h>
#include <netinet/in.h>
#include <netinet/tcp.h>
#include <poll.h>
#include <sys/socket.h>
#include <unistd.h>
#include <openssl/ssl.h>
#include <openssl/err.h>
#include <openssl/evp.h>
#include <openssl/x509.h>
#include <openssl/x509v3.h>
#include <openssl/sha.h>
#include <openssl/rand.h>
#include <openssl/hmac.h>
#include <openssl/bio.h>
#include <openssl/pem.h>
#define private public
#define protected public
#include "iora/network/http_server.hpp"
#undef private
#undef protected
#include "common/fake_engine.hpp"
#include "common/lineproto.hpp"

using namespace iora::network;
using vh::Bytes;
using Clock = std::chrono::steady_clock;

// ---------------------------------------------------------------- handler gates (deterministic pool schedules)
// A scripted handler with the action `gate` blocks until the gate named by the request's X-Gate header is opened: the op
// script decides in which order the handlers of concurrently dispatched requests finish.
struct Gates
{
  std::mutex m;
  std::condition_variable cv;
  std::set<long> open;
  std::set<long> waiting;
  bool openAll = false;
  std::atomic<int> atGate{0};
  void wait(long k)
  {
    std::unique_lock<std::mutex> g(m);
    if (openAll || open.count(k) > 0) return;   // already open: never counted as parked (atGate must mean "blocked")
    waiting.insert(k);
    ++atGate;
    cv.notify_all();
    cv.wait(g, [&] { return openAll || open.count(k) > 0; });
    waiting.erase(k);
    --atGate;
    cv.notify_all();
  }
  // opens gate k and, if a handler is parked there, waits until it has left the gate
  void release(long k)
  {
    std::unique_lock<std::mutex> g(m);
    open.insert(k);
    cv.notify_all();
    cv.wait_for(g, std::chrono::seconds(5), [&] { return waiting.count(k) == 0; });
  }
  void reset(bool all)
  {
    std::unique_lock<std::mutex> g(m);
    openAll = all;
    if (!all) open.clear();
    cv.notify_all();
  }
};
static Gates g_gates;

// Dispatch counter, independent of the model and of the responses: the ThreadPool's verification point "tp:popped" fires once per
// task a worker takes; during an end-to-end run the only tasks of the process are processHttpRequest dispatches of the e2e server.
static std::atomic<long> g_popped{0};
static void onVerifPoint(const char* tag)
{
  if (tag && std::strcmp(tag, "tp:popped") == 0) ++g_popped;
}

// ---------------------------------------------------------------- branch counters (evidence: which arms the run reached)
// Measured on the implementation side with the REAL parser / classifier; appended to the file named by C16_COUNTERS at exit.
static std::map<std::string, long> g_counters;
static std::mutex g_countersMutex;
static void bump(const std::string& k)
{
  std::lock_guard<std::mutex> g(g_countersMutex);
  ++g_counters[k];
}
static void dumpCounters()
{
  const char* f = std::getenv("C16_COUNTERS");
  if (!f || !*f) return;
  std::ofstream o(f, std::ios::app);
  std::lock_guard<std::mutex> g(g_countersMutex);
  for (const auto& kv : g_counters) o << kv.first << " " << kv.second << "\n";
}

// ---------------------------------------------------------------- scripted handlers
struct Action
{
  std::string op;
  long long n = 0;
  unsigned fill = 0;
  std::string a, b;
};
using Script = std::vector<Action>;

static bool hexStr(const std::string& h, std::string& out)
{
  Bytes d;
  if (!vh::ofHex(h, d)) return false;
  out.assign(d.begin(), d.end());
  return true;
}

static bool parseScript(const std::string& s, Script& out)
{
  out.clear();
  if (s == "-") return true;
  std::stringstream ss(s);
  std::string item;
  while (std::getline(ss, item, ','))
  {
    std::vector<std::string> p;
    std::stringstream is(item);
    std::string x;
    while (std::getline(is, x, ':')) p.push_back(x);
    if (p.empty()) return false;
    Action a;
    a.op = p[0];
    if (a.op == "st" && p.size() == 2) { try { a.n = std::stoll(p[1]); } catch (...) { return false; } }
    else if (a.op == "sc" && p.size() == 3) { if (!hexStr(p[1], a.a) || !hexStr(p[2], a.b)) return false; }
    else if (a.op == "sh" && p.size() == 3) { if (!hexStr(p[1], a.a) || !hexStr(p[2], a.b)) return false; }
    else if (a.op == "bd" && p.size() == 2) { if (!hexStr(p[1], a.a)) return false; }
    else if (a.op == "eh" && p.size() == 2) { if (!hexStr(p[1], a.a)) return false; }
    else if ((a.op == "sup" || a.op == "thr" || a.op == "thx" || a.op == "echo" || a.op == "mark") && p.size() == 1) {}
    else if (a.op == "big" && p.size() == 3) { try { a.n = std::stoll(p[1]); a.fill = static_cast<unsigned>(std::stoul(p[2])); } catch (...) { return false; } if (a.fill > 255) return false; }
    else if (a.op == "sleep" && p.size() == 2) { try { a.n = std::stoll(p[1]); } catch (...) { return false; } }
    else if (a.op == "gate" && p.size() == 1) {}
    else return false;
    out.push_back(a);
  }
  return true;
}

struct ScriptedServer;
static void runScript(ScriptedServer& self, const Script& sc, const HttpServer::Request& req, HttpServer::Response& res);

// HttpServer with the two virtual seams scripted; everything else is the real class.
struct ScriptedServer : HttpServer
{
  using HttpServer::HttpServer;
  std::optional<Script> upgradeScript;
  bool suppressHook = false;
  int suppressThrow = 0;                     // 1: the seam throws a std::exception, 2: something else
  int drainThrow = 0;                        // onUpgradedData (third virtual hook): 0 returns, 1 throws std::exception, 2 something else
  long drainThrowAt = -1;                    // -1: at every call, k: only at call number k of the current request (0-based)
  std::atomic<long> drainCallCount{0};       // calls of onUpgradedData during the current request
  std::deque<std::string> laterReads;        // reads that arrive while the drain loop is inside the hook: the next one is fed to the REAL
                                             // handleIncomingData (which queues it behind, under the upgrade hold) at each hook call
  std::atomic<bool> flipInUserCode{false};   // "stop() is called while user code runs": user code sets _shutdown
  std::atomic<bool> userSuppressed{false};   // a handler returned with _suppressSend set / the seam returned true

  void userCodeEntered() { if (flipInUserCode.load()) _shutdown.store(true); }

  bool onUpgradeRequest(SessionId, const Request& req, Response& res) override
  {
    userCodeEntered();
    if (!upgradeScript) return false;
    runScript(*this, *upgradeScript, req, res);
    return true;
  }
  void onUpgradedData(SessionId sid, const std::uint8_t*, std::size_t len) override
  {
    long k = drainCallCount++;
    bump(len > 0 ? "drain:onUpgradedData" : "drain:onUpgradedData-empty");
    if (k > 0) bump("drain:second-or-later-pass-of-the-loop");
    if (!laterReads.empty())
    {
      std::string next = std::move(laterReads.front());
      laterReads.pop_front();
      bump("drain:read-arrives-during-hook");
      handleIncomingData(sid, reinterpret_cast<const std::uint8_t*>(next.data()), next.size());
    }
    bool now = drainThrowAt < 0 || drainThrowAt == k;
    if (drainThrow == 1 && now) { bump("drain:threw-std"); throw std::runtime_error("scripted upgraded-data failure"); }
    if (drainThrow == 2 && now) { bump("drain:threw-other"); throw 42; }
  }
  bool onResponseSuppressed(SessionId, const Request&, Response&) override
  {
    if (suppressThrow == 1) throw std::runtime_error("scripted seam failure");
    if (suppressThrow == 2) throw 42;
    if (suppressHook) userSuppressed.store(true);
    return suppressHook;
  }
};

static void runScript(ScriptedServer& self, const Script& sc, const HttpServer::Request& req, HttpServer::Response& res)
{
  for (const auto& a : sc)
  {
    if (a.op == "st") res.status = static_cast<int>(a.n);
    else if (a.op == "sc") res.set_content(a.a, a.b);
    else if (a.op == "sh") res.set_header(a.a, a.b);
    else if (a.op == "bd") res.body = a.a;
    else if (a.op == "eh") res.headers.erase(a.a);
    else if (a.op == "sup") res._suppressSend = true;
    else if (a.op == "mark") { self.markSessionUpgraded(req.sid); bump("upgrade-hook:markSessionUpgraded"); }
    else if (a.op == "thr") throw std::runtime_error("scripted handler failure");
    else if (a.op == "thx") throw 42;
    else if (a.op == "echo")
    {
      std::map<std::string, std::string> sorted(req.params.begin(), req.params.end());
      std::string b = toString(req.method) + "|" + req.path + "|" + req.pathRest + "|";
      for (const auto& kv : sorted) b += kv.first + "=" + kv.second + "&";
      b += "|" + req.body;
      res.set_content(b, "text/plain");
    }
    else if (a.op == "big") res.set_content(std::string(static_cast<std::size_t>(a.n), static_cast<char>(a.fill)), "application/octet-stream");
    else if (a.op == "sleep") std::this_thread::sleep_for(std::chrono::milliseconds(a.n));
    else if (a.op == "gate") g_gates.wait(std::atol(req.get_header_value("X-Gate").c_str()));
  }
  if (res._suppressSend) self.userSuppressed.store(true);
}

static HttpServer::Handler makeHandler(ScriptedServer* self, Script sc)
{
  return [self, sc](const HttpServer::Request& req, HttpServer::Response& res) {
    self->userCodeEntered();
    runScript(*self, sc, req, res);
  };
}

static bool parseMethod(const std::string& s, HttpMethod& m)
{
  static const std::map<std::string, HttpMethod> t = {{"GET", HttpMethod::GET}, {"POST", HttpMethod::POST}, {"PUT", HttpMethod::PUT},
                                                       {"PATCH", HttpMethod::PATCH}, {"DELETE", HttpMethod::DELETE}};
  auto it = t.find(s);
  if (it == t.end()) return false;
  m = it->second;
  return true;
}

// ---------------------------------------------------------------- capturing engine
// The real engines' sendAsync = enqueue + synchronous completion with the enqueue result (tcp_engine.hpp l.442).
struct CapEngine : vh::FakeEngine
{
  void sendAsync(SessionId sid, const void* d, std::size_t n, SendCompleteCallback cb) override
  {
    bool ok = send(sid, d, n);
    if (cb)
    {
      if (ok) cb(sid, SendResult::ok(n));
      else cb(sid, SendResult::err(TransportErrorInfo{TransportError::Socket, "send enqueue failed"}));
    }
  }
};

static std::uint64_t fnv64(const std::string& s, std::size_t from)
{
  std::uint64_t h = 0xcbf29ce484222325ull;
  for (std::size_t i = from; i < s.size(); ++i) { h ^= static_cast<std::uint8_t>(s[i]); h *= 0x100000001b3ull; }
  return h;
}

static std::string hex16(std::uint64_t x)
{
  char buf[17];
  std::snprintf(buf, sizeof buf, "%016llx", static_cast<unsigned long long>(x));
  return buf;
}

static std::string showWire(const std::string& w)
{
  auto he = w.find("\r\n\r\n");
  if (he == std::string::npos) return vh::toHex(w) + " noterm 0";
  return vh::toHex(w.substr(0, he + 4)) + " " + std::to_string(w.size() - he - 4) + " " + hex16(fnv64(w, he + 4));
}

struct Ev
{
  char kind;   // 'S' send accepted, 'F' send refused, 'X' close
  SessionId sid;
  std::string data;
};

struct Lock
{
  std::unique_ptr<ScriptedServer> s;
  CapEngine* eng = nullptr;
  std::shared_ptr<Transport> transport;
  std::mutex m;
  std::vector<Ev> evs;
  std::atomic<bool> shutdownAfterSend{false};
  std::atomic<bool> resetTransportAfterSend{false};   // stop() between the two _mutex sections of the shutdown arm
  static constexpr SessionId sid = 7;
  SessionId nextSid = 100;

  void make()
  {
    s = std::make_unique<ScriptedServer>("127.0.0.1", 0);
    auto fe = std::make_unique<CapEngine>();
    eng = fe.get();
    TransportConfig cfg;
    cfg.protocol = Protocol::TCP;
    transport = iora::network::test::TransportEngineInjector::withEngine(std::move(fe), cfg);
    s->_transport = transport;
    eng->onSend = [this](SessionId id, const std::string& b) {
      std::lock_guard<std::mutex> g(m);
      evs.push_back(Ev{eng->sendResult ? 'S' : 'F', id, b});
      if (shutdownAfterSend.load()) s->_shutdown.store(true);
      if (resetTransportAfterSend.load()) { s->_transport = nullptr; bump("req:shutdown-arm-transport-reset-between-sections"); }   // `transport` keeps the object alive
    };
    eng->onCloseCall = [this](SessionId id) {
      std::lock_guard<std::mutex> g(m);
      evs.push_back(Ev{'X', id, ""});
    };
  }

  void reset()
  {
    // a fresh server object per case would cost ~100 ms (stop() sleeps); clear the routing state instead
    std::lock_guard<std::mutex> g(s->_mutex);
    s->_handlers.clear();
    s->_defaultHandler = nullptr;
    s->upgradeScript.reset();
    s->suppressHook = false;
    s->suppressThrow = 0;
    s->drainThrow = 0;
    s->drainThrowAt = -1;
    s->laterReads.clear();
  }

  bool poolIdle()
  {
    std::lock_guard<std::mutex> g(s->_threadPool._mutex);
    return s->_threadPool._tasks.empty() && s->_threadPool._busyThreads.load() == 0;
  }
  // every worker that has taken a task is parked at a gate, and no task waits for a free worker that exists
  bool poolQuiescent()
  {
    std::lock_guard<std::mutex> g(s->_threadPool._mutex);
    std::size_t busy = s->_threadPool._busyThreads.load();
    return (s->_threadPool._tasks.empty() || busy >= s->_threadPool._maxSize) && static_cast<std::size_t>(g_gates.atGate.load()) == busy;
  }
  bool waitQuiescent(int ms)
  {
    auto t0 = Clock::now();
    int stable = 0;
    while (stable < 3)
    {
      if (poolQuiescent()) ++stable; else stable = 0;
      if (Clock::now() - t0 > std::chrono::milliseconds(ms)) return false;
      std::this_thread::sleep_for(std::chrono::microseconds(150));
    }
    return true;
  }
  // the engine commands issued since the last call, in order, + the pool's queue / busy counts
  std::string delta()
  {
    std::vector<Ev> e;
    {
      std::lock_guard<std::mutex> g(m);
      e.swap(evs);
    }
    s->userSuppressed.store(false);
    std::string o;
    for (const auto& x : e)
    {
      if (!o.empty()) o += ";";
      o += std::to_string(x.sid) + ":";
      if (x.kind == 'X') o += "X";
      else o += std::string(1, x.kind) + ":" + (x.data.size() >= 12 ? x.data.substr(9, 3) : std::string("???")) + ":" + std::to_string(x.data.size()) + ":" + hex16(fnv64(x.data, 0));
    }
    if (o.empty()) o = "-";
    std::size_t queued, busy;
    {
      std::lock_guard<std::mutex> g(s->_threadPool._mutex);
      queued = s->_threadPool._tasks.size();
      busy = s->_threadPool._busyThreads.load();
    }
    return o + " | queued=" + std::to_string(queued) + " running=" + std::to_string(busy);
  }
  bool waitIdle(int ms)
  {
    auto t0 = Clock::now();
    while (!poolIdle())
    {
      if (Clock::now() - t0 > std::chrono::milliseconds(ms)) return false;
      std::this_thread::sleep_for(std::chrono::microseconds(200));
    }
    return true;
  }

  std::string outcome(SessionId forSid)
  {
    std::vector<Ev> e;
    {
      std::lock_guard<std::mutex> g(m);
      e.swap(evs);
    }
    bool sup = s->userSuppressed.exchange(false);
    for (const auto& x : e)
      if (x.sid != forSid) return "unexpected-session";
    std::string shape;
    for (const auto& x : e) shape.push_back(x.kind);
    (void)sup;
    if (shape.empty()) return "silent";
    if (shape == "S") return "respond 0 " + showWire(e[0].data);
    if (shape == "SX") return "respond 1 " + showWire(e[0].data);
    if (shape == "F") return "sendfailed 0";
    if (shape == "FX") return "sendfailed 1";
    if (shape == "X") return "closeonly";
    return "unexpected-commands " + shape;
  }
};

// ---------------------------------------------------------------- end-to-end: real server on loopback
struct RouteSpec { HttpMethod m; std::string pat; Script sc; };

struct E2E
{
  std::unique_ptr<ScriptedServer> s;
  int port = 0;

  std::string start(const std::vector<RouteSpec>& routes, const std::optional<Script>& dflt)
  {
    s = std::make_unique<ScriptedServer>("127.0.0.1", 0);
    for (const auto& r : routes) s->registerHandler(r.m, r.pat, makeHandler(s.get(), r.sc));
    if (dflt) s->setDefaultHandler(makeHandler(s.get(), *dflt));
    s->start();
    port = s->_transport->getListenerAddress(s->_listenerId).port;
    return port > 0 ? "ok" : "no-port";
  }
  void stop() { if (s) { s->stop(); s.reset(); } }
};

struct ConnResult { std::string data; bool eof = false; bool timedOut = false; bool err = false; };

static int dial(int port)
{
  int fd = ::socket(AF_INET, SOCK_STREAM, 0);
  if (fd < 0) return -1;
  sockaddr_in a{};
  a.sin_family = AF_INET;
  a.sin_port = htons(static_cast<std::uint16_t>(port));
  a.sin_addr.s_addr = htonl(INADDR_LOOPBACK);
  if (::connect(fd, reinterpret_cast<sockaddr*>(&a), sizeof a) != 0) { ::close(fd); return -1; }
  int one = 1;
  ::setsockopt(fd, IPPROTO_TCP, TCP_NODELAY, &one, sizeof one);
  return fd;
}

// One client connection: steps `w<hex>` write, `s<ms>` sleep, `a<n>` await >= n bytes received, `b<n>` expected total, `c` expect a close.
// A reader thread collects everything the server writes.  Ends at EOF, or `linger` ms after the expected total arrived,
// or at the watchdog (reported as timeout).
static ConnResult runConn(int port, const std::string& spec, int watchdogMs, int lingerMs)
{
  ConnResult r;
  int fd = dial(port);
  if (fd < 0) { r.err = true; return r; }
  std::mutex m;
  std::condition_variable cv;
  bool readerDone = false;
  std::thread reader([&] {
    char buf[65536];
    while (true)
    {
      ssize_t n = ::read(fd, buf, sizeof buf);
      std::lock_guard<std::mutex> g(m);
      if (n > 0) r.data.append(buf, static_cast<std::size_t>(n));
      else { r.eof = (n == 0); if (n < 0 && errno == ECONNRESET) r.eof = true; readerDone = true; cv.notify_all(); return; }
      cv.notify_all();
    }
  });
  auto deadline = Clock::now() + std::chrono::milliseconds(watchdogMs);
  std::size_t expected = static_cast<std::size_t>(-1);
  bool expectClose = false;   // the server is expected to close: wait for the EOF up to the watchdog instead of the short linger
  std::stringstream ss(spec);
  std::string st;
  while (std::getline(ss, st, ';'))
  {
    if (st.empty()) continue;
    char k = st[0];
    std::string arg = st.substr(1);
    if (k == 'w')
    {
      Bytes d;
      vh::ofHex(arg, d);
      std::size_t off = 0;
      while (off < d.size())
      {
        ssize_t n = ::send(fd, d.data() + off, d.size() - off, MSG_NOSIGNAL);
        if (n <= 0) break;
        off += static_cast<std::size_t>(n);
      }
    }
    else if (k == 's') std::this_thread::sleep_for(std::chrono::milliseconds(std::atoi(arg.c_str())));
    else if (k == 'a')
    {
      std::size_t need = static_cast<std::size_t>(std::atoll(arg.c_str()));
      std::unique_lock<std::mutex> g(m);
      if (!cv.wait_until(g, deadline, [&] { return r.data.size() >= need || readerDone; })) r.timedOut = true;
    }
    else if (k == 'b') expected = static_cast<std::size_t>(std::atoll(arg.c_str()));
    else if (k == 'c') expectClose = true;
  }
  {
    std::unique_lock<std::mutex> g(m);
    if (!cv.wait_until(g, deadline, [&] { return r.data.size() >= expected || readerDone; })) r.timedOut = true;
    if (!readerDone && !r.timedOut)
    {
      if (expectClose) { if (!cv.wait_until(g, deadline, [&] { return readerDone; })) r.timedOut = true; }
      else cv.wait_for(g, std::chrono::milliseconds(lingerMs), [&] { return readerDone; });   // surplus bytes / an unexpected close
    }
  }
  bool eofSeen;
  std::size_t got;
  {
    std::lock_guard<std::mutex> g(m);
    eofSeen = readerDone && r.eof;   // an EOF after this point is our own shutdown, not the server's close
    got = r.data.size();
  }
  ::shutdown(fd, SHUT_RDWR);
  reader.join();
  ::close(fd);
  r.eof = eofSeen;
  r.data.resize(got);
  return r;
}

// which arm / dispatch category will the real code take for these request bytes?  (real parser, real splitPath / classifyRequest)
static void countCategory(ScriptedServer& s, const std::string& raw, const std::string& prefix)
{
  try
  {
    HttpRequest r = HttpRequest::fromWireFormat(raw);
    bool head = r.method == HttpMethod::HEAD;
    for (const auto& kv : r.headers)
    {
      std::string k = kv.first;
      std::transform(k.begin(), k.end(), k.begin(), ::tolower);
      if (k == "upgrade") { bump(prefix + (s.upgradeScript ? "upgrade-hook-set" : "upgrade-header-no-hook")); if (s.upgradeScript) return; break; }
    }
    std::string path = r.uri;
    auto q = path.find('?');
    if (q != std::string::npos) path = path.substr(0, q);
    auto d = s.classifyRequest(r.method, path, HttpServer::splitPath(path));
    const char* n = "?";
    switch (d.cat)
    {
    case HttpServer::DispatchDecision::Cat::MATCHED: n = "matched"; break;
    case HttpServer::DispatchDecision::Cat::MATCHED_AS_HEAD: n = "matchedAsHead"; break;
    case HttpServer::DispatchDecision::Cat::AUTO_OPTIONS: n = "autoOptions"; break;
    case HttpServer::DispatchDecision::Cat::OPTIONS_STAR: n = "optionsStar"; break;
    case HttpServer::DispatchDecision::Cat::METHOD_NOT_ALLOWED: n = "methodNotAllowed"; break;
    case HttpServer::DispatchDecision::Cat::NO_ROUTE: n = d.hasHandler ? "noRoute-defaultHandler" : "noRoute-404"; break;
    }
    bump(prefix + n);
    if (head) bump(prefix + "HEAD-" + n);
  }
  catch (const HttpRequestError& e) { bump(prefix + "parse-reject-" + std::to_string(e.status())); }
  catch (...) { bump(prefix + "parse-reject-other"); }
}

// residual token: "-" or comma-separated hex chunks
static bool parseChunks(const std::string& s, std::vector<std::string>& out)
{
  out.clear();
  if (s == "-") return true;
  std::stringstream ss(s);
  std::string item;
  while (std::getline(ss, item, ','))
  {
    Bytes d;
    if (!vh::ofHex(item, d)) return false;
    out.emplace_back(d.begin(), d.end());
  }
  return true;
}

static std::string guarded(const std::function<std::string()>& f)
{
  try { return f(); }
  catch (const std::exception& e)
  {
    int st = 0;
    char* n = abi::__cxa_demangle(typeid(e).name(), nullptr, nullptr, &st);
    std::string name = n ? n : typeid(e).name();
    std::free(n);
    return "throw " + name;
  }
  catch (...) { return "throw unknown"; }
}

int main()
{
  iora::core::Logger::setLevel(iora::core::Logger::Level::Fatal);
  iora::verif::pointHook() = &onVerifPoint;
  Lock L;
  L.make();
  E2E E;
  std::vector<RouteSpec> routes;   // what `e2e start` registers
  std::optional<Script> dflt;
  int rc = vh::runLines([&](const std::vector<std::string>& t) -> std::string {
    return guarded([&]() -> std::string {
      Bytes d;
      unsigned long long n = 0;
      Script sc;
      HttpMethod m;
      if (t.size() == 1 && t[0] == "reset")
      {
        L.reset();
        routes.clear();
        dflt.reset();
        return "ok";
      }
      if (t.size() == 4 && t[0] == "route" && parseMethod(t[1], m) && vh::ofHex(t[2], d) && parseScript(t[3], sc))
      {
        std::string pat(d.begin(), d.end());
        try { L.s->registerHandler(m, pat, makeHandler(L.s.get(), sc)); }
        catch (const std::invalid_argument&) { return "rejected"; }
        routes.push_back(RouteSpec{m, pat, sc});
        return "ok";
      }
      if (t.size() == 2 && t[0] == "default" && parseScript(t[1], sc))
      {
        L.s->setDefaultHandler(makeHandler(L.s.get(), sc));
        dflt = sc;
        return "ok";
      }
      if (t.size() == 3 && t[0] == "hook" && t[1] == "upgrade")
      {
        if (t[2] == "none") { L.s->upgradeScript.reset(); return "ok"; }
        if (!parseScript(t[2], sc)) return "bad-op";
        L.s->upgradeScript = sc;
        return "ok";
      }
      if (t.size() == 3 && t[0] == "hook" && t[1] == "suppress" && (t[2] == "0" || t[2] == "1" || t[2] == "thr" || t[2] == "thx"))
      {
        L.s->suppressHook = t[2] == "1";
        L.s->suppressThrow = t[2] == "thr" ? 1 : (t[2] == "thx" ? 2 : 0);
        return "ok";
      }
      if (t.size() == 3 && t[0] == "hook" && t[1] == "drain")
      {
        std::string mode = t[2];
        long at = -1;
        auto p = mode.find('@');
        if (p != std::string::npos)
        {
          if (!vh::parseNat(mode.substr(p + 1), n)) return "bad-op";
          at = static_cast<long>(n);
          mode = mode.substr(0, p);
        }
        if (mode != "0" && mode != "thr" && mode != "thx") return "bad-op";
        if (mode == "0" && at >= 0) return "bad-op";
        L.s->drainThrow = mode == "thr" ? 1 : (mode == "thx" ? 2 : 0);
        L.s->drainThrowAt = at;
        return "ok";
      }
      if ((t.size() == 4 || t.size() == 5) && t[0] == "req" && vh::ofHex(t[1], d) && t[2].size() == 6)
      {
        Bytes residual;
        std::vector<std::string> chunks;
        if (t.size() == 5 && !parseChunks(t[4], chunks)) return "bad-op";
        if (!chunks.empty()) residual.assign(chunks[0].begin(), chunks[0].end());
        L.s->laterReads.clear();
        for (std::size_t i = 1; i < chunks.size(); ++i) L.s->laterReads.push_back(chunks[i]);
        L.s->drainCallCount.store(0);
        const std::string& b = t[2];
        for (char c : b) if (c != '0' && c != '1') return "bad-op";
        bool sh = b[0] == '1', tr = b[1] == '1', flip = b[2] == '1', enq = b[3] == '1', upc = b[4] == '1', trs = b[5] == '1';
        {
          std::lock_guard<std::mutex> g(L.s->_sessionMutex);
          L.s->_sessionInfo.erase(Lock::sid);
          if (t[3] != "-")
          {
            auto& si = L.s->_sessionInfo[Lock::sid];
            if (t[3] == "v10") si.httpVersion = "1.0";
            else if (t[3] == "nka") si.connectionKeepAlive = false;
            else if (t[3] != "d") return "bad-op";
            // bytes that arrived behind this request in the same read: what the extractor leaves in the session buffer
            si.buffer.assign(residual.begin(), residual.end());
          }
          // the five-token form mimics handleIncomingData for a request with an Upgrade header: the hold is set in the section that stores the rest
          if (t.size() == 5) L.s->_upgradePending.insert(Lock::sid);
        }
        L.s->_shutdown.store(sh);
        L.s->_transport = (sh ? tr : trs) ? L.transport : nullptr;
        L.s->flipInUserCode.store(flip);
        L.eng->sendResult = enq;
        L.shutdownAfterSend.store(!upc);
        L.resetTransportAfterSend.store(sh && !upc);
        std::string req(d.begin(), d.end());
        std::string thrown;
        if (sh) bump(tr ? "req:shutdown-arm" : "req:shutdown-arm-no-transport");
        else countCategory(*L.s, req, "req:");
        if (!residual.empty()) bump(t[3] != "-" ? "req:residual-in-session-buffer" : "req:residual-but-no-session");
        try
        {
          if (t.size() == 5) L.s->processHttpRequest(Lock::sid, req, L.s->_transportEpoch.load(), true);
          else L.s->processHttpRequest(Lock::sid, req);
        }
        catch (const std::exception& e) { thrown = std::string("throw ") + typeid(e).name(); }
        catch (...) { thrown = "throw unknown"; }
        bool holdLeft;
        {
          std::lock_guard<std::mutex> g(L.s->_sessionMutex);
          holdLeft = L.s->_upgradePending.count(Lock::sid) > 0;
          L.s->_upgradePending.erase(Lock::sid);
          L.s->_upgradedSessions.erase(Lock::sid);
        }
        L.s->laterReads.clear();
        L.s->_shutdown.store(false);
        L.s->_transport = L.transport;
        L.s->flipInUserCode.store(false);
        L.eng->sendResult = true;
        L.shutdownAfterSend.store(false);
        L.resetTransportAfterSend.store(false);
        std::string o = L.outcome(Lock::sid);
        if (holdLeft) return "upgrade-hold-not-released " + o;      // every exit of processHttpRequest must release _upgradePending
        if (t.size() == 5) o += " hooks=" + std::to_string(L.s->drainCallCount.load());
        return thrown.empty() ? o : thrown;
      }
      if ((t.size() == 2 && t[0] == "dispatch" && vh::ofHex(t[1], d)) || (t.size() == 3 && t[0] == "dispatchr" && vh::ofHex(t[1], d)))
      {
        // `dispatchr <request> <residual>`: ONE read carries the request and bytes behind it (e.g. an upgrade request and the first frame of
        // the upgraded protocol): the extractor leaves the residual in the session buffer, the worker's upgrade arm drains it
        Bytes residual;
        std::vector<std::string> chunks;
        if (t.size() == 3 && !parseChunks(t[2], chunks)) return "bad-op";
        if (!chunks.empty()) residual.assign(chunks[0].begin(), chunks[0].end());
        L.s->laterReads.clear();
        for (std::size_t i = 1; i < chunks.size(); ++i) L.s->laterReads.push_back(chunks[i]);
        L.s->drainCallCount.store(0);
        if (!residual.empty()) bump("dispatch:request-plus-residual-in-one-read");
        // the real I/O-thread path: handleIncomingData -> tryEnqueue -> pool worker -> processHttpRequest
        countCategory(*L.s, std::string(d.begin(), d.end()), "dispatch:");
        d.insert(d.end(), residual.begin(), residual.end());
        SessionId sid = L.nextSid++;
        {
          std::lock_guard<std::mutex> g(L.s->_sessionMutex);
          L.s->_sessionInfo[sid];
        }
        L.s->handleIncomingData(sid, d.data(), d.size());
        bool idle = L.waitIdle(5000);
        bool holdLeft;
        {
          std::lock_guard<std::mutex> g(L.s->_sessionMutex);
          L.s->_sessionInfo.erase(sid);
          holdLeft = L.s->_upgradePending.count(sid) > 0;
          L.s->_upgradePending.erase(sid);
          L.s->_upgradedSessions.erase(sid);
        }
        L.s->laterReads.clear();
        if (!idle) return "pool-not-idle";
        if (holdLeft) return "upgrade-hold-not-released " + L.outcome(sid);
        std::string o = L.outcome(sid);
        if (t[0] == "dispatchr") o += " hooks=" + std::to_string(L.s->drainCallCount.load());
        return o;
      }
      if (t.size() == 3 && t[0] == "parr" && vh::parseNat(t[1], n) && vh::ofHex(t[2], d))
      {
        // one complete request arrives on session n through the real I/O-thread path; handlers park at their gates
        SessionId sid = static_cast<SessionId>(n);
        {
          std::lock_guard<std::mutex> g(L.s->_sessionMutex);
          L.s->_sessionInfo[sid];
        }
        L.s->handleIncomingData(sid, d.data(), d.size());
        if (!L.waitQuiescent(5000)) return "pool-not-quiescent";
        return L.delta();
      }
      if (t.size() == 4 && t[0] == "parr2" && vh::parseNat(t[1], n) && vh::ofHex(t[2], d))
      {
        // two complete requests in ONE read: the extraction loop of handleIncomingData runs twice (two tryEnqueue)
        Bytes d2;
        if (!vh::ofHex(t[3], d2)) return "bad-op";
        SessionId sid = static_cast<SessionId>(n);
        {
          std::lock_guard<std::mutex> g(L.s->_sessionMutex);
          L.s->_sessionInfo[sid];
        }
        d.insert(d.end(), d2.begin(), d2.end());
        L.s->handleIncomingData(sid, d.data(), d.size());
        if (!L.waitQuiescent(5000)) return "pool-not-quiescent";
        return L.delta();
      }
      if (t.size() >= 5 && t[0] == "parrn" && vh::parseNat(t[1], n) && vh::ofHex(t[2], d))
      {
        // k complete requests (given to the model in their extracted form by the remaining tokens) in ONE read of any size
        SessionId sid = static_cast<SessionId>(n);
        {
          std::lock_guard<std::mutex> g(L.s->_sessionMutex);
          L.s->_sessionInfo[sid];
        }
        L.s->handleIncomingData(sid, d.data(), d.size());
        if (!L.waitQuiescent(10000)) return "pool-not-quiescent";
        return L.delta();
      }
      if (t.size() == 2 && t[0] == "prel" && vh::parseNat(t[1], n))
      {
        g_gates.release(static_cast<long>(n));
        if (!L.waitQuiescent(5000)) return "pool-not-quiescent";
        return L.delta();
      }
      if (t.size() == 1 && t[0] == "pdrain")
      {
        // let every parked handler finish, one at a time, lowest gate first (deterministic)
        for (int guard = 0; guard < 100000; ++guard)
        {
          long k = -1;
          {
            std::lock_guard<std::mutex> g(g_gates.m);
            if (!g_gates.waiting.empty()) k = *g_gates.waiting.begin();
          }
          if (k < 0) break;
          g_gates.release(k);
          if (!L.waitQuiescent(5000)) return "pool-not-quiescent";
        }
        bool idle = L.waitIdle(10000);
        g_gates.reset(false);
        {
          std::lock_guard<std::mutex> g(L.s->_sessionMutex);
          L.s->_sessionInfo.clear();
        }
        if (!idle) return "pool-not-idle";
        return L.delta();
      }
      if ((t.size() == 2 || (t.size() == 3 && t[2].size() == 3)) && t[0] == "overflow" && vh::ofHex(t[1], d))
      {
        // optional env bits: the engine accepts the Send, _shutdown set, transport present (sendErrorResponse's guard / completion)
        bool enq = true, shut = false, trp = true;
        if (t.size() == 3)
        {
          for (char c : t[2]) if (c != '0' && c != '1') return "bad-op";
          enq = t[2][0] == '1'; shut = t[2][1] == '1'; trp = t[2][2] == '1';
        }
        // fill the pool: every worker blocked, the queue at capacity; the next extracted request must get the 503
        auto& tp = L.s->_threadPool;
        std::mutex gm;
        std::condition_variable gcv;
        bool release = false;
        std::atomic<int> blocked{0};
        int want = 0;
        for (int i = 0; i < 64; ++i)
        {
          int before = blocked.load();
          if (!tp.tryEnqueue([&] { ++blocked; std::unique_lock<std::mutex> g(gm); gcv.wait(g, [&] { return release; }); })) break;
          ++want;
          auto t0 = Clock::now();
          while (blocked.load() == before && Clock::now() - t0 < std::chrono::milliseconds(300)) std::this_thread::sleep_for(std::chrono::microseconds(200));
          if (blocked.load() == before) break;   // no free worker took it: all workers are blocked, this one is queued
        }
        std::size_t fill = 0;
        while (tp.tryEnqueue([] {})) { if (++fill > 100000) break; }
        std::size_t queued = tp.getPendingTaskCount();
        SessionId sid = L.nextSid++;
        {
          std::lock_guard<std::mutex> g(L.s->_sessionMutex);
          L.s->_sessionInfo[sid];
        }
        L.eng->sendResult = enq;
        L.s->_shutdown.store(shut);
        L.s->_transport = trp ? L.transport : nullptr;
        bump(std::string("overflow:") + (shut || !trp ? "guard-false" : (enq ? "send-accepted" : "send-refused")));
        L.s->handleIncomingData(sid, d.data(), d.size());
        L.eng->sendResult = true;
        L.s->_shutdown.store(false);
        L.s->_transport = L.transport;
        std::string o = L.outcome(sid);
        {
          std::lock_guard<std::mutex> g(gm);
          release = true;
        }
        gcv.notify_all();
        bool idle = L.waitIdle(10000);
        (void)want;
        if (!idle) return "pool-not-idle";
        std::string late = L.outcome(sid);
        if (late != "silent") return "late-commands " + late;
        return o + " queued=" + std::to_string(queued);
      }
      // ---------------- end-to-end
      if (t.size() == 2 && t[0] == "e2e" && t[1] == "start") return E.start(routes, dflt);
      if (t.size() == 2 && t[0] == "e2e" && t[1] == "stop") { E.stop(); return "ok"; }
      if ((t.size() == 4 || t.size() == 5) && t[0] == "e2e" && t[1] == "restart" && vh::parseNat(t[2], n) && vh::ofHex(t[3], d))
      {
        // optional 5th token: how many requests of `d` must still be QUEUED in the pool (all workers busy) when stop() is called — the scenario's
        // precondition; if the pool's size ever changes the op says so instead of silently testing less
        unsigned long long minQueued = 0;
        if (t.size() == 5 && !vh::parseNat(t[4], minQueued)) return "bad-op";
        // client A sends `d` (its handler outlives stop()'s drain wait); stop(), then start() on the SAME server object; client B connects,
        // sends nothing and listens for n ms: whatever arrives there was addressed to somebody else
        if (!E.s) return "bad-op";
        int a = dial(E.port);
        if (a < 0) return "connect-failed";
        ::send(a, d.data(), d.size(), MSG_NOSIGNAL);
        std::this_thread::sleep_for(std::chrono::milliseconds(200));
        for (int i = 0; i < 40 && E.s->_threadPool.getPendingTaskCount() < minQueued; ++i) std::this_thread::sleep_for(std::chrono::milliseconds(10));
        std::size_t queuedAtStop = E.s->_threadPool.getPendingTaskCount();
        std::size_t activeAtStop = E.s->_threadPool.getActiveThreadCount();
        if (queuedAtStop < minQueued)
        {
          ::close(a);
          return "restart-precondition-failed queued=" + std::to_string(queuedAtStop) + " active=" + std::to_string(activeAtStop);
        }
        if (queuedAtStop > 0) bump("e2e:restart-with-queued-request");
        E.s->stop();
        E.s->start();
        E.port = E.s->_transport->getListenerAddress(E.s->_listenerId).port;
        int b = dial(E.port);
        if (b < 0) { ::close(a); return "connect-failed"; }
        std::string gotB, gotA;
        auto until = Clock::now() + std::chrono::milliseconds(n);
        while (Clock::now() < until)
        {
          pollfd p{b, POLLIN, 0};
          int left = static_cast<int>(std::chrono::duration_cast<std::chrono::milliseconds>(until - Clock::now()).count());
          if (::poll(&p, 1, std::max(left, 1)) <= 0) break;
          char buf[4096];
          ssize_t k = ::read(b, buf, sizeof buf);
          if (k <= 0) break;
          gotB.append(buf, static_cast<std::size_t>(k));
          until = std::min(until, Clock::now() + std::chrono::milliseconds(150));
        }
        {
          pollfd p{a, POLLIN, 0};
          char buf[4096];
          while (::poll(&p, 1, 0) > 0) { ssize_t k = ::read(a, buf, sizeof buf); if (k <= 0) break; gotA.append(buf, static_cast<std::size_t>(k)); }
        }
        ::close(a);
        ::close(b);
        bump("e2e:restart-with-running-handler");
        return "restart B=" + (gotB.empty() ? std::string("-") : vh::toHex(gotB)) + " A=" + (gotA.empty() ? std::string("-") : vh::toHex(gotA));
      }
      if (t.size() >= 5 && t[0] == "e2e" && t[1] == "run" && vh::parseNat(t[2], n))
      {
        // e2e run <watchdog ms> <linger ms> <conn-spec> <conn-spec> ...   (connections run concurrently)
        unsigned long long linger = 0;
        if (!vh::parseNat(t[3], linger) || !E.s) return "bad-op";
        std::vector<ConnResult> res(t.size() - 4);
        std::vector<std::thread> th;
        long popped0 = g_popped.load();
        for (std::size_t i = 4; i < t.size(); ++i)
          th.emplace_back([&, i] { res[i - 4] = runConn(E.port, t[i], static_cast<int>(n), static_cast<int>(linger)); });
        for (auto& x : th) x.join();
        std::string o;
        for (std::size_t i = 0; i < res.size(); ++i)
        {
          if (i) o += " ";
          const auto& r = res[i];
          if (r.err) { o += "connect-failed"; continue; }
          if (r.data.size() <= 8000000) o += vh::toHex(r.data);
          else o += "big:" + std::to_string(r.data.size()) + ":" + vh::toHex(r.data.substr(0, 4096));
          o += std::string(":") + (r.eof ? "1" : "0") + ":" + (r.timedOut ? "1" : "0");
        }
        // requests the server handed to its worker pool during this run (all connections together)
        o += " D=" + std::to_string(g_popped.load() - popped0);
        return o;
      }
      return "bad-op";
    });
  });
  E.stop();
  dumpCounters();
  return rc;
}
