"""Shared machinery of the iora checks (DESIGN §1, §5).

A property plugin (props/cNN.py) drives one run through a `Ctx`:
  translate -> lake build -> axiom audit -> harness build -> correspondence (lockstep) -> monitors
  -> violation search / known findings -> evidence.
Everything is rebuilt from ${VERIF_REPO:-/repo}'s working tree on every run.
"""
import fcntl, hashlib, json, os, re, shutil, subprocess, sys, time, signal

VERIF = os.path.dirname(os.path.dirname(os.path.abspath(__file__)))
LEAN = os.environ.get("VERIF_LEAN", os.path.join(VERIF, "lean"))
ALLOWED_AXIOMS = {"propext", "Classical.choice", "Quot.sound"}
BANNED = re.compile(r"\bsorry\b|\badmit\b|^\s*axiom\s|native_decide|bv_decide|implemented_by|\bunsafe\s|maxHeartbeats\s+0|\bextern\b")
TRUSTED_BASE = [
    "Lean 4.33.0 kernel (thorough tier: leanchecker re-check of the .olean files)",
    "axioms allowed: propext, Classical.choice, Quot.sound (audited by #print axioms on every obligation); no native_decide / bv_decide / sorry",
    "tools/translate.py (Gen/*.lean says what the source says)",
    "correspondence harness + generators + canonicalisers (the model behaves like the code on what was run)",
]


class SplitMix64:
    """All random choices of a run derive from one splitmix64 state seeded by VERIF_SEED."""
    def __init__(self, seed):
        self.s = seed & 0xFFFFFFFFFFFFFFFF
    def next(self):
        self.s = (self.s + 0x9E3779B97F4A7C15) & 0xFFFFFFFFFFFFFFFF
        z = self.s
        z = ((z ^ (z >> 30)) * 0xBF58476D1CE4E5B9) & 0xFFFFFFFFFFFFFFFF
        z = ((z ^ (z >> 27)) * 0x94D049BB133111EB) & 0xFFFFFFFFFFFFFFFF
        return z ^ (z >> 31)
    def below(self, n):
        return self.next() % n if n > 0 else 0
    def range(self, lo, hi):
        return lo + self.below(hi - lo + 1)
    def chance(self, num, den):
        return self.below(den) < num
    def choice(self, xs):
        return xs[self.below(len(xs))]
    def bytes(self, n):
        out = bytearray()
        while len(out) < n:
            out += self.next().to_bytes(8, "little")
        return bytes(out[:n])
    def shuffle(self, xs):
        for i in range(len(xs) - 1, 0, -1):
            j = self.below(i + 1)
            xs[i], xs[j] = xs[j], xs[i]
    def fork(self, tag):
        h = hashlib.sha256(("%d:%s" % (self.s, tag)).encode()).digest()
        return SplitMix64(int.from_bytes(h[:8], "little"))


def hexs(b):
    return b.hex() if len(b) else "-"


def unhex(s):
    return b"" if s == "-" else bytes.fromhex(s)


class Violation:
    def __init__(self, kind, what, replay_obj, found_input):
        self.kind = kind            # "property" | "correspondence" | "proof" | "translator" | "audit" | "harness-build"
        self.what = what
        self.replay_obj = replay_obj
        self.found_input = found_input


class Ctx:
    def __init__(self, prop_id, tier, replay=None):
        self.id = prop_id
        self.tier = tier
        self.seed = int(os.environ.get("VERIF_SEED", "1"))
        self.repo = os.environ.get("VERIF_REPO", "/repo")
        self.rng = SplitMix64(self.seed * 1000003 + sum(map(ord, prop_id)))
        self.t0 = time.time()
        self.work = os.path.join(VERIF, ".work", "%s-%s-%d" % (prop_id, tier, os.getpid()))
        os.makedirs(self.work, exist_ok=True)
        self.violations = []
        self.known_lines = []
        self.cov = {"evaluations": 0, "distinct_nontrivial": 0, "samples": [], "traces_validated_against_impl": 0,
                    "obligations": 0, "discharged": 0, "checker_cmd": "", "trusted_base": list(TRUSTED_BASE)}
        self.extra = {}
        self.assumptions = []
        self.replay = replay
        self._distinct = set()
        self._vclass = {}
        self._model_bins = {}
        self.keep_work = False
        self.notes = []

    # ---------------------------------------------------------------- utilities
    def log(self, *a):
        print("[%s %6.1fs]" % (self.id, time.time() - self.t0), *a, flush=True)

    def sh(self, cmd, cwd=None, timeout=3600, env=None, input=None):
        e = dict(os.environ)
        if env:
            e.update(env)
        p = subprocess.run(cmd, cwd=cwd, stdout=subprocess.PIPE, stderr=subprocess.STDOUT, timeout=timeout, env=e,
                           input=input, shell=isinstance(cmd, str))
        return p.returncode, p.stdout.decode("utf-8", "replace")

    def repo_file(self, rel):
        return os.path.join(self.repo, rel)

    def repo_tree_sha(self, rels):
        h = hashlib.sha256()
        for r in sorted(rels):
            try:
                h.update(open(self.repo_file(r), "rb").read())
            except OSError:
                h.update(b"<missing>")
        return h.hexdigest()[:16]

    # ---------------------------------------------------------------- violations
    def violation(self, kind, what, replay_obj=None, found_input=False, cls=None):
        """Record a violation. At most 3 per class (`cls`, default: text before the first ':') are reported; the rest are counted."""
        cls = cls or (kind + ":" + what.split(":")[0][:40])
        n = self._vclass.get(cls, 0)
        self._vclass[cls] = n + 1
        if n >= 3:
            return False
        self.violations.append(Violation(kind, what, replay_obj or {}, found_input))
        self.log("VIOLATION-CANDIDATE kind=%s found_input=%s: %s" % (kind, found_input, what[:300]))
        return True

    def violation_budget(self, kind, what, cls=None):
        cls = cls or (kind + ":" + what.split(":")[0][:40])
        return self._vclass.get(cls, 0) < 3

    def count_case(self, key, nontrivial=True):
        self.cov["evaluations"] += 1
        if nontrivial:
            k = hashlib.sha1(key if isinstance(key, bytes) else str(key).encode()).digest()[:10]
            self._distinct.add(k)

    def sample(self, obj, limit=6):
        if len(self.cov["samples"]) < limit:
            s = json.dumps(obj) if not isinstance(obj, str) else obj
            if len(s) > 600:
                s = s[:600] + "...(%d chars)" % len(s)
            self.cov["samples"].append(s)

    # ---------------------------------------------------------------- translator
    def translate(self, units):
        """Regenerate Gen/*.lean from the working tree. A shape the translator does not recognise is a broken tie."""
        sys.path.insert(0, os.path.join(VERIF, "tools"))
        import translate
        ok = True
        shas = {}
        with LeanLock():
            for u in units:
                try:
                    path, text = translate.generate(u, self.repo)
                except translate.TranslateError as e:
                    ok = False
                    self.violation("translator", "translator unit %s: %s" % (u, e),
                                   {"broken": {"translator": u, "detail": str(e)}})
                    continue
                full = os.path.join(LEAN, path)
                old = open(full).read() if os.path.exists(full) else None
                if old != text:
                    os.makedirs(os.path.dirname(full), exist_ok=True)
                    open(full, "w").write(text)
                    self.log("Gen regenerated (changed): %s" % path)
                shas[path] = hashlib.sha256(text.encode()).hexdigest()[:16]
        self.extra["gen_files_sha256"] = shas
        return ok

    # ---------------------------------------------------------------- lean
    def lake_build(self, targets):
        """Build Lean targets. The legacy target name `iora_model` is dropped: model drivers are one native executable per
        component (`iora_model_<component>`), built lazily by model_argv()/lockstep so a check depends on its own modules only."""
        targets = [t for t in targets if t != "iora_model"]
        with LeanLock():
            gen_lake()
            t = time.time()
            rc, out = self.sh(["lake", "build"] + targets, cwd=LEAN, timeout=3000)
            self.log("lake build %s -> rc=%d (%.1fs)" % (" ".join(targets), rc, time.time() - t))
        if rc != 0:
            errs = [l for l in out.splitlines() if l.startswith("error:")]
            decls = set()
            for l in errs:
                m = re.match(r"error: ([^:]+):(\d+):(\d+):", l)
                if m:
                    decls.add("%s:%s (%s)" % (m.group(1), m.group(2), decl_at(os.path.join(LEAN, m.group(1)), int(m.group(2)))))
            detail = "; ".join(sorted(decls)) or out[-800:]
            self.violation("proof", "lake build failed: " + detail,
                           {"broken": {"theorem": sorted(decls), "detail": "\n".join(errs[:20]) or out[-2000:]}})
            return False
        return True

    def audit(self, modules, obligations):
        """#print axioms on every obligation + banned-token grep of the library sources."""
        self.cov["obligations"] = len(obligations)
        os.makedirs(os.path.join(LEAN, ".audit"), exist_ok=True)
        f = os.path.join(LEAN, ".audit", "Audit_%s_%d.lean" % (self.id, os.getpid()))
        with open(f, "w") as fh:
            for m in modules:
                fh.write("import %s\n" % m)
            for o in obligations:
                fh.write("#print axioms %s\n" % o["theorem"])
        with LeanLock():
            rc, out = self.sh(["lake", "env", "lean", f], cwd=LEAN, timeout=1200)
        os.unlink(f)
        axioms = {}
        cur = None
        text = out.replace("\n  ", " ")
        for l in text.splitlines():
            m = re.match(r"'([^']+)' depends on axioms: \[(.*)\]", l)
            if m:
                axioms[m.group(1)] = [a.strip() for a in m.group(2).split(",") if a.strip()]
                continue
            m = re.match(r"'([^']+)' does not depend on any axioms", l)
            if m:
                axioms[m.group(1)] = []
        bad = []
        discharged = 0
        per = {}
        for o in obligations:
            name = o["theorem"]
            ax = axioms.get(name)
            if ax is None:
                # try suffix match (namespaces opened)
                cands = [k for k in axioms if k.endswith(name) or name.endswith(k)]
                ax = axioms.get(cands[0]) if cands else None
            if ax is None:
                bad.append("%s: not found / does not elaborate" % name)
                continue
            per[name] = ax
            foreign = [a for a in ax if a not in ALLOWED_AXIOMS]
            if foreign:
                bad.append("%s depends on %s" % (name, foreign))
            else:
                discharged += 1
        # banned tokens
        hits = []
        for root, _, files in os.walk(os.path.join(LEAN, "IoraModel")):
            for fn in files:
                if fn.endswith(".lean"):
                    p = os.path.join(root, fn)
                    src = strip_lean_comments(open(p).read())
                    for i, line in enumerate(src.splitlines(), 1):
                        if BANNED.search(line):
                            hits.append("%s:%d: %s" % (os.path.relpath(p, LEAN), i, line.strip()[:80]))
        if hits:
            bad.append("banned tokens: " + "; ".join(hits[:5]))
        self.cov["discharged"] = discharged if not hits else 0
        self.cov["checker_cmd"] = "lake build <property modules> && lake env lean Audit.lean (#print axioms per obligation)"
        self.extra["axioms"] = per
        self.extra["obligation_list"] = [{k: o[k] for k in o if k in ("id", "theorem", "kind", "statement", "finding")} for o in obligations]
        if bad:
            self.violation("audit", "audit failed: " + "; ".join(bad)[:600],
                           {"broken": {"theorem": bad, "detail": out[-1500:]}})
            return False
        return True

    def leanchecker(self, modules):
        ok = True
        for m in modules:
            with LeanLock():
                rc, out = self.sh(["lake", "env", "leanchecker", m], cwd=LEAN, timeout=1800)
            self.log("leanchecker %s rc=%d" % (m, rc))
            if rc != 0:
                ok = False
                self.violation("audit", "leanchecker rejected %s: %s" % (m, out[-400:]), {"broken": {"theorem": m, "detail": out[-1500:]}})
        self.extra["leanchecker_modules"] = modules
        return ok

    def model_bin(self, component=None):
        """Path of the native model driver of `component` (built on first use)."""
        if component is None:
            raise RuntimeError("model_bin() needs the component name: drivers are per component (iora_model_<component>)")
        return self.model_argv(component)[0]

    def model_argv(self, component):
        if component in self._model_bins:
            return [self._model_bins[component]]
        with LeanLock():
            gen_lake()
            t = time.time()
            rc, out = self.sh(["lake", "build", "iora_model_" + component], cwd=LEAN, timeout=3000)
            self.log("lake build iora_model_%s -> rc=%d (%.1fs)" % (component, rc, time.time() - t))
        path = os.path.join(LEAN, ".lake", "build", "bin", "iora_model_" + component)
        if rc != 0 or not os.path.exists(path):
            errs = [l for l in out.splitlines() if l.startswith("error:")]
            self.violation("proof", "model driver for component %s does not build: %s" % (component, "; ".join(errs[:3])[:400]),
                           {"broken": {"theorem": "iora_model_" + component, "detail": "\n".join(errs[:20]) or out[-2000:]}})
            raise ModelBuildError(component)
        self._model_bins[component] = path
        return [path]

    # ---------------------------------------------------------------- C++ harness
    def build_harness(self, src, name=None, flags=None, sanitize=True, defines=None, opt="-O1"):
        name = name or os.path.splitext(os.path.basename(src))[0]
        out = os.path.join(self.work, name)
        cmd = ["g++", "-std=c++17", opt, "-g", "-w", "-I", os.path.join(self.repo, "include"), "-I", os.path.join(VERIF, "harness"),
               "-DIORA_VERIF_HOOKS=1"]
        if sanitize:
            cmd += ["-fsanitize=address,undefined", "-fno-sanitize-recover=all", "-fno-omit-frame-pointer"]
        for d in (defines or []) + [x for x in os.environ.get("VERIF_HARNESS_DEFINES", "").split(",") if x]:
            cmd.append("-D" + d)
        cmd += [os.path.join(VERIF, src), "-o", out] + (flags or []) + ["-lssl", "-lcrypto", "-lpthread", "-ldl"]
        t = time.time()
        rc, o = self.sh(cmd, timeout=1800)
        self.log("g++ %s -> rc=%d (%.1fs)" % (src, rc, time.time() - t))
        if rc != 0:
            errs = [l for l in o.splitlines() if "error" in l][:10]
            self.violation("harness-build", "harness %s no longer compiles against the working tree: %s" % (src, " | ".join(errs)[:500]),
                           {"broken": {"correspondence": src, "detail": "\n".join(errs) or o[-1500:]}})
            return None
        return out

    # ---------------------------------------------------------------- lockstep
    def run_lines(self, argv, lines, timeout=600, env=None):
        """Feed `lines` to a line-protocol process; returns (out_lines, rc, stderr_tail)."""
        e = dict(os.environ)
        e.setdefault("ASAN_OPTIONS", "detect_leaks=0:abort_on_error=0:exitcode=99")
        e.setdefault("UBSAN_OPTIONS", "print_stacktrace=1:halt_on_error=1:exitcode=98")
        if env:
            e.update(env)
        data = ("\n".join(lines) + "\n").encode()
        try:
            p = subprocess.run(argv, input=data, stdout=subprocess.PIPE, stderr=subprocess.PIPE, timeout=timeout, env=e)
            out = p.stdout.decode("utf-8", "replace").splitlines()
            return out, p.returncode, p.stderr.decode("utf-8", "replace")[-30000:]
        except subprocess.TimeoutExpired as ex:
            out = (ex.stdout or b"").decode("utf-8", "replace").splitlines()
            return out, -999, "TIMEOUT after %ss" % timeout

    def lockstep(self, component, harness_bin, cases, timeout=600, impl_env=None, model_component=None):
        """cases: list of dict(ops=[str], meta=...). Each case is self-contained (starts from a reset state).
        Returns list of (case, impl_lines, model_lines) and fills in crash information.
        A harness crash/timeout inside a case yields impl line 'crash:<why>' for the op that died and the rest of the case."""
        mc = model_component or component
        all_ops = []
        bounds = []
        for c in cases:
            bounds.append((len(all_ops), len(all_ops) + len(c["ops"])))
            all_ops += c["ops"]
        model_out, mrc, merr = self.run_lines(self.model_argv(mc), all_ops, timeout=timeout)
        if mrc != 0 or len(model_out) != len(all_ops):
            raise RuntimeError("model driver failed rc=%s lines=%d/%d: %s" % (mrc, len(model_out), len(all_ops), merr[-500:]))
        impl_out = [None] * len(all_ops)
        start_case = 0
        crashes = 0
        while start_case < len(cases):
            lo = bounds[start_case][0]
            out, rc, err = self.run_lines([harness_bin], all_ops[lo:], timeout=timeout, env=impl_env)
            for i, l in enumerate(out[: len(all_ops) - lo]):
                impl_out[lo + i] = l
            got = lo + min(len(out), len(all_ops) - lo)
            if got >= len(all_ops) and rc == 0:
                break
            # died at op index `got`
            crashes += 1
            why = classify_crash(rc, err)
            k = next(i for i, (a, b) in enumerate(bounds) if a <= got < b) if got < len(all_ops) else len(cases) - 1
            for i in range(got, bounds[k][1]):
                impl_out[i] = "crash:" + why
            cases[k]["crash"] = {"rc": rc, "why": why, "stderr": err[-1500:], "op_index": got - bounds[k][0]}
            start_case = k + 1
            if crashes > 50:
                for i in range(len(all_ops)):
                    if impl_out[i] is None:
                        impl_out[i] = "crash:too-many-crashes"
                break
        res = []
        for c, (a, b) in zip(cases, bounds):
            res.append((c, impl_out[a:b], model_out[a:b]))
        self.cov["traces_validated_against_impl"] += len(cases)
        return res

    # ---------------------------------------------------------------- finish
    def write_replay(self, v, idx):
        h = hashlib.sha1((v.what + json.dumps(v.replay_obj, sort_keys=True, default=str)).encode()).hexdigest()[:10]
        # VERIF_REPLAY_DIR: runs against a seeded/mutated tree (tools/seed_matrix.py) keep their replays out of /verif/replays
        path = os.path.join(os.environ.get("VERIF_REPLAY_DIR", os.path.join(VERIF, "replays")), "%s-%s.json" % (self.id, h))
        obj = {"property": self.id, "kind": v.kind if v.found_input else "no-failing-input-found", "seed": self.seed, "tier": self.tier,
               "what": v.what, "repo": self.repo,
               "how_to_replay": "python3 check.py %s quick --replay %s" % (self.id, path)}
        obj.update(v.replay_obj)
        os.makedirs(os.path.dirname(path), exist_ok=True)
        json.dump(obj, open(path, "w"), indent=1, default=str)
        return path

    def finish(self, level="proof", rule="", explanation=None):
        self.cov["distinct_nontrivial"] = len(self._distinct)
        self.cov["rule"] = rule
        if explanation:
            self.cov["explanation"] = explanation
        for l in self.known_lines:
            print(l, flush=True)
        rc = 0
        seen = set()
        for i, v in enumerate(self.violations):
            path = self.write_replay(v, i)
            line = "VIOLATION property=%s replay=%s" % (self.id, path)
            if not v.found_input:
                line += " no-failing-input-found"
            if line not in seen:
                print(line, flush=True)
                seen.add(line)
            rc = 1
        ev = {"property_id": self.id, "tier": self.tier, "seed": self.seed, "level": level, "coverage": self.cov,
              "assumptions": self.assumptions, "wall_s": round(time.time() - self.t0, 2), "violations": sum(self._vclass.values())}
        ev["coverage"].update(self.extra)
        ev["coverage"]["known_findings_reported"] = self.known_lines
        ev["coverage"]["notes"] = self.notes
        ev["coverage"]["violation_classes"] = self._vclass
        # Evidence under /verif/evidence must come from a run against /repo itself; runs against another tree
        # (seed verification, mutation sanity: VERIF_REPO=<worktree>) or replays write to .work/evidence-alt instead.
        official = os.path.realpath(self.repo) == "/repo" and not self.replay
        evdir = os.path.join(VERIF, "evidence") if official else os.path.join(VERIF, ".work", "evidence-alt")
        os.makedirs(evdir, exist_ok=True)
        json.dump(ev, open(os.path.join(evdir, "%s.json" % self.id), "w"), indent=1, default=str)
        if not self.violations and not self.keep_work:
            shutil.rmtree(self.work, ignore_errors=True)
        elif self.violations:
            # keep only small artefacts next to the replay; drop binaries
            for fn in os.listdir(self.work):
                p = os.path.join(self.work, fn)
                if os.path.isfile(p) and os.path.getsize(p) > 2_000_000:
                    os.unlink(p)
        self.log("done: %d violation(s), %d known finding line(s), %.1fs" % (len(self.violations), len(self.known_lines), time.time() - self.t0))
        return rc


class ModelBuildError(Exception):
    pass


def gen_lake():
    sys.path.insert(0, os.path.join(VERIF, "tools"))
    import gen_lake as g
    g.LEAN = LEAN
    return g.main()


class LeanLock:
    """Steps that touch the shared lake workspace run under an exclusive flock (checks may run in parallel)."""
    depth = 0
    fh = None
    def __enter__(self):
        if LeanLock.depth == 0:
            LeanLock.fh = open(os.path.join(LEAN, ".lock"), "w")
            fcntl.flock(LeanLock.fh, fcntl.LOCK_EX)
        LeanLock.depth += 1
    def __exit__(self, *a):
        LeanLock.depth -= 1
        if LeanLock.depth == 0:
            fcntl.flock(LeanLock.fh, fcntl.LOCK_UN)
            LeanLock.fh.close()


def strip_lean_comments(s):
    s = re.sub(r"/-.*?-/", lambda m: "\n" * m.group(0).count("\n"), s, flags=re.S)
    s = re.sub(r"--.*", "", s)
    return s


def decl_at(path, line):
    try:
        ls = open(path).read().splitlines()
    except OSError:
        return "?"
    for i in range(min(line, len(ls)) - 1, -1, -1):
        m = re.match(r"\s*(?:private\s+|protected\s+|@\[[^\]]*\]\s*)*(theorem|lemma|def|example|instance|abbrev)\s+([^\s:(\[{]+)?", ls[i])
        if m:
            return "%s %s" % (m.group(1), m.group(2) or "")
    return "?"


def classify_crash(rc, err):
    if rc == -999:
        return "timeout"
    m = re.search(r"ERROR: AddressSanitizer: ([\w-]+)", err) or re.search(r"SUMMARY: AddressSanitizer: ([\w-]+)", err)
    if m:
        return "asan:" + m.group(1)
    m = re.search(r"runtime error: ([^\n]{0,80})", err)
    if m:
        return "ubsan:" + re.sub(r"\s+", "_", m.group(1))[:60]
    if "terminate called" in err:
        m = re.search(r"instance of '([^']+)'", err)
        return "terminate:" + (m.group(1) if m else "?")
    if rc < 0:
        try:
            return "signal:" + signal.Signals(-rc).name
        except Exception:
            return "signal:%d" % -rc
    return "exit:%d" % rc


# -------------------------------------------------------------------- known findings
def load_known_findings():
    """KNOWN_FINDINGS.txt: `finding: property=Cnn id=Fxx key=<witness key> what="..."` / `fixed: ...` (suppresses nothing)."""
    out = []
    p = os.path.join(VERIF, "KNOWN_FINDINGS.txt")
    if not os.path.exists(p):
        return out
    for l in open(p):
        l = l.strip()
        if not l or l.startswith("#"):
            continue
        kind, _, rest = l.partition(":")
        d = {"kind": kind.strip()}
        for m in re.finditer(r'(\w+)=("([^"]*)"|\S+)', rest):
            d[m.group(1)] = m.group(3) if m.group(3) is not None else m.group(2)
        out.append(d)
    return out


def ddmin(items, fails, max_tests=200):
    """Delta debugging: smallest sub-list of `items` (order kept) for which fails(sub) is still true."""
    n = 2
    tests = 0
    cur = list(items)
    while len(cur) >= 2 and tests < max_tests:
        chunk = max(1, len(cur) // n)
        reduced = False
        for i in range(0, len(cur), chunk):
            cand = cur[:i] + cur[i + chunk:]
            tests += 1
            if cand and fails(cand):
                cur = cand
                n = max(n - 1, 2)
                reduced = True
                break
            if tests >= max_tests:
                break
        if not reduced:
            if chunk == 1:
                break
            n = min(n * 2, len(cur))
    return cur
