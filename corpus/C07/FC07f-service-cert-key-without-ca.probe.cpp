// WITNESS of FC07f (executed, not part of the lockstep corpus: the IoraService singleton is not run inside the sanitized harness).
// Build (WT = a tree of joegen/iora, core library built as in FRAMEWORK.md):
//   g++ -DIORA_CORE_SHARED -std=c++17 -O0 -I$WT/include FC07f-service-cert-key-without-ca.probe.cpp -o probe -L. -liora_core -Wl,-rpath,. -lssl -lcrypto -lpthread -ldl
//   ./probe $WT/tests/tls-certs        (certFile + keyFile, NO caFile)      ./probe $WT/tests/tls-certs ca   (with caFile)
// Observed on the UNREPAIRED tree (f476c90):   caFile=unset plaintext GET -> ANSWERED-IN-CLEAR first-line=[HTTP/1.1 404 Not Found]   (log: "applyConfig: TLS is not enabled")
//                                              caFile=set   plaintext GET -> no-answer (TLS listener)
// Observed with fixes/FC07f-*.patch applied:   caFile=unset plaintext GET -> no-answer (TLS listener)
//                                              caFile=set   plaintext GET -> no-answer (TLS listener)
#include <arpa/inet.h>
#include <netinet/in.h>
#include <sys/socket.h>
#include <unistd.h>
#include <iostream>
#include <string>
#include <thread>
#include <chrono>
#include "iora/iora.hpp"
static std::string plainGet(int port)
{
  int fd = ::socket(AF_INET, SOCK_STREAM, 0);
  sockaddr_in sa{}; sa.sin_family = AF_INET; sa.sin_port = htons(port); inet_pton(AF_INET, "127.0.0.1", &sa.sin_addr);
  if (::connect(fd, (sockaddr *)&sa, sizeof(sa)) != 0) { ::close(fd); return "connect-failed"; }
  std::string rq = "GET /nothing-here HTTP/1.1\r\nHost: x\r\nConnection: close\r\n\r\n";
  ::send(fd, rq.data(), rq.size(), 0);
  timeval tv{2, 0}; setsockopt(fd, SOL_SOCKET, SO_RCVTIMEO, &tv, sizeof(tv));
  std::string acc; char buf[2048];
  for (;;) { ssize_t n = ::recv(fd, buf, sizeof(buf), 0); if (n <= 0) break; acc.append(buf, (size_t)n); }
  ::close(fd);
  return acc;
}
int main(int argc, char **argv)
{
  std::string dir = argv[1]; bool withCa = argc > 2;
  iora::IoraService::Config config;
  config.server.port = 18471;
  config.server.bindAddress = "127.0.0.1";
  config.server.tls.certFile = dir + "/test_tls_cert.pem";
  config.server.tls.keyFile = dir + "/test_tls_key.pem";
  if (withCa) config.server.tls.caFile = dir + "/test_tls_cert.pem";
  config.state.file = "/tmp/c07x_probe/hastls_state.json";
  config.log.file = "/tmp/c07x_probe/hastls_log";
  config.modules.autoLoad = false;
  iora::IoraService::init(config);
  std::this_thread::sleep_for(std::chrono::milliseconds(200));
  std::string r = plainGet(18471);
  std::cout << "RESULT caFile=" << (withCa ? "set" : "unset") << " plaintext GET -> " << (r.rfind("HTTP/1.1", 0) == 0 ? "ANSWERED-IN-CLEAR" : r.empty() ? "no-answer (TLS listener)" : "other") << " first-line=[" << r.substr(0, r.find('\r')) << "]\n";
  iora::IoraService::shutdown();
  return 0;
}
