"""Translator unit `udp` -> Gen/Udp.lean (C06): TransportConfig defaults the UDP engine runs with, the size of the receive
buffer handed to recvfrom/recv, every site that mutates `_peerIndex` with the guard it sits under, and the overflow tests of
the two write queues.  Facts only; the algorithm is tied by the lockstep harness (harness/c06_udp.cpp)."""
import re
import cxxscan
from translate import TranslateError, HEADER, read

F = "include/iora/network/detail/udp_engine.hpp"
T = "include/iora/network/transport_types.hpp"


MIRRORED = ["readFromListener", "onClient", "connectDo", "viaDo", "sendDo", "flushListener", "writeClient", "closeNow", "runGc",
            "shutdownDrain", "updateListener", "updateClient", "process"]


EXTRA_ANCHORS = ["onListener", "handleFdEvent", "loopUnbatched", "loopBatched", "addEpoll", "modEpoll", "send", "sendAsync"]
B = "include/iora/network/event_batch_processor.hpp"

EAGAIN_EXIT = r"if\s*\(\s*errno\s*==\s*EAGAIN\s*\|\|\s*errno\s*==\s*EWOULDBLOCK\s*\)\s*break\s*;"
ERR_EXIT_L = r"error\(\s*TransportError::Socket\s*,\s*\"recvfrom: \"\s*\+\s*lastErr\(\)\s*\)\s*;\s*break\s*;"
ERR_EXIT_C = r"closeNow\(\s*s\s*,\s*TransportError::Socket\s*,\s*lastErr\(\)\s*,\s*0\s*\)\s*;\s*return\s*;"


def _block_after(text, m_end):
    """text[m_end-1] == '{' -> (block text without braces, index after the closing brace)"""
    close = cxxscan.match_brace(text, m_end - 1)
    return text[m_end:close], close + 1


def _read_loop(fn, body, err_exit):
    """Shape of the receive loop of `fn`: (budget or None, zero-length read ends the loop?).
    Recognised: the header `for (;;)` / `while (true)` (no budget) or `for (int i = 0; i < N; ++i)` (N iterations per wake-up); exits: the
    EAGAIN break, the hard-error exit, optionally the `n == 0` block ending in `break` (zero-length ends the loop) and the data block
    `if (n > 0) {...}` ending in `break` instead of `continue` (= a budget of one). Any other break/return/goto inside the loop is not understood."""
    m = re.search(r"\b(for|while)\s*\(([^()]*)\)\s*\{", body)
    if not m:
        raise TranslateError("%s: receive loop not found" % fn)
    hdr = re.sub(r"\s+", "", m.group(2))
    budget = None
    if (m.group(1), hdr) in (("for", ";;"), ("while", "true"), ("while", "1")):
        budget = None
    else:
        mm = re.fullmatch(r"(?:int|unsigned|std::size_t|size_t)(\w+)=0;\1<([\w:.()*+ -]+);(?:\+\+\1|\1\+\+)", hdr) if m.group(1) == "for" else None
        if not mm:
            raise TranslateError("%s: receive loop header `%s (%s)` is neither unbounded nor a counted budget" % (fn, m.group(1), m.group(2).strip()))
        try:
            budget = cxxscan.const_eval(mm.group(2))
        except cxxscan.ScanError as e:
            raise TranslateError("%s: receive loop budget `%s`: %s" % (fn, mm.group(2), e))
    loop, _ = _block_after(body, m.end())
    if len(re.findall(r"::recv(?:from)?\s*\(", loop)) != 1:
        raise TranslateError("%s: the receive loop does not contain exactly one recv/recvfrom call" % fn)
    rest = loop
    # data block
    md = re.search(r"if\s*\(\s*n\s*>\s*0\s*\)\s*\{", rest)
    if not md:
        raise TranslateError("%s: `if (n > 0) {` data block not found in the receive loop" % fn)
    data, dend = _block_after(rest, md.end())
    tail = re.sub(r"\s+", "", data)[-9:]
    inner_exits = [x for x in re.findall(r"\b(break|return|goto)\b", data)]
    if tail.endswith("continue;") and not inner_exits:
        pass
    elif tail.endswith("break;") and inner_exits == ["break"]:
        budget = 1 if budget is None else min(budget, 1)
    else:
        raise TranslateError("%s: the data block of the receive loop neither ends in `continue;` nor in a single `break;`" % fn)
    rest = rest[:md.start()] + rest[dend:]
    # zero-length block
    zero_ends = False
    mz = re.search(r"if\s*\(\s*n\s*==\s*0\s*\)\s*\{", rest)
    if mz:
        zb, zend = _block_after(rest, mz.end())
        zt = re.sub(r"\s+", "", zb)
        zx = re.findall(r"\b(break|return|goto|continue)\b", zb)
        if zt.endswith("break;") and zx == ["break"]:
            zero_ends = True
        elif zt.endswith("continue;") and zx == ["continue"]:
            zero_ends = False
        else:
            raise TranslateError("%s: the `n == 0` block of the receive loop neither ends in `continue;` nor in `break;`" % fn)
        rest = rest[:mz.start()] + rest[zend:]
    n_eagain = len(re.findall(EAGAIN_EXIT, rest))
    n_err = len(re.findall(err_exit, rest))
    if n_eagain != 1 or n_err != 1:
        raise TranslateError("%s: receive loop must have exactly one EAGAIN exit and one hard-error exit (found %d / %d)" % (fn, n_eagain, n_err))
    rest = re.sub(EAGAIN_EXIT, "", rest)
    rest = re.sub(err_exit, "", rest)
    other = re.findall(r"\b(break|return|goto)\b", rest)
    if other:
        raise TranslateError("%s: the receive loop has an exit the translator does not understand (%s)" % (fn, ", ".join(other)))
    return budget, zero_ends


def _opt(n):
    return "none" if n is None else "some %d" % n


def _cfg_default(body, typ, name):
    m = re.search(r"%s\s+%s\s*\{([^{}]*)\}\s*;" % (typ, re.escape(name)), body)
    if not m:
        raise TranslateError("TransportConfig::%s: member with a brace initialiser not found" % name)
    return m.group(1).strip()


def _num(body, typ, name):
    txt = _cfg_default(body, typ, name)
    if re.fullmatch(r"std::chrono::\w+::zero\(\)", txt):
        return 0
    try:
        return cxxscan.const_eval(txt)
    except cxxscan.ScanError as e:
        raise TranslateError("TransportConfig::%s: %s" % (name, e))


def _bool(body, name):
    txt = _cfg_default(body, "bool", name)
    if txt not in ("true", "false"):
        raise TranslateError("TransportConfig::%s: not a bool literal: %r" % (name, txt))
    return txt == "true"


def _lb(b):
    return "true" if b else "false"


GUARDED = re.compile(r"auto\s+(\w+)\s*=\s*_peerIndex\.find\(\s*([\w>\-]+)\s*\)\s*;\s*if\s*\(\s*\1\s*!=\s*_peerIndex\.end\(\)\s*&&\s*\1->second\s*==\s*([\w>\-]+)\s*\)\s*"
                     r"\{\s*_peerIndex\.erase\(\s*\1\s*\)\s*;\s*\}")
UNCOND = re.compile(r"else\s*\{\s*_peerIndex\.erase\(\s*([\w>\-]+)\s*\)\s*;\s*\}")


def _erase_site(fn, body):
    """How `fn` removes the closing session's peer key from _peerIndex: guarded (only if it maps to this session) or unconditional."""
    n = len(re.findall(r"_peerIndex\s*\.\s*erase\s*\(", body))
    if n != 1:
        raise TranslateError("%s: expected exactly one _peerIndex.erase site, found %d" % (fn, n))
    m = GUARDED.search(body)
    if m:
        key, ident = m.group(2), m.group(3)
        if (key, ident) not in (("pkey", "sid"), ("s->pkey", "s->id")):
            raise TranslateError("%s: guarded _peerIndex.erase compares unexpected operands (%s, %s)" % (fn, key, ident))
        # the guarded erase must sit in the non-client branch of the role test
        pre = body[:m.start()]
        if not re.search(r"else\s*\{\s*$", pre):
            raise TranslateError("%s: guarded _peerIndex.erase is not the body of the ServerPeer (else) branch" % fn)
        return True
    m = UNCOND.search(body)
    if m:
        if m.group(1) not in ("pkey", "s->pkey"):
            raise TranslateError("%s: _peerIndex.erase of unexpected key %s" % (fn, m.group(1)))
        return False
    raise TranslateError("%s: _peerIndex.erase site has an unrecognised shape" % fn)


def _call_args(body, callee):
    """Top-level argument lists of every call `callee(` in `body` (comment-stripped)."""
    out = []
    for m in re.finditer(r"(?<![\w>.])%s\s*\(" % re.escape(callee), body):
        i = m.end()
        depth, cur, args = 1, "", []
        while i < len(body) and depth:
            c = body[i]
            if c in "([{":
                depth += 1
            elif c in ")]}":
                depth -= 1
                if depth == 0:
                    break
            if c == "," and depth == 1:
                args.append(cur.strip()); cur = ""
            else:
                cur += c
            i += 1
        args.append(cur.strip())
        out.append([re.sub(r"\s+", " ", a) for a in args])
    return out


def _mask(fn, body, arm_call, obj):
    """Interest mask a function hands to epoll: `std::uint32_t ev = <base>; [if (ET) ev |= EPOLLET;] [if (<obj>->wantWrite && !<obj>->wq.empty()) ev |= EPOLLOUT;] <arm_call>(fd, ev)`.
    Returns (base tokens, EPOLLOUT-condition text or None)."""
    m = re.search(r"std::uint32_t\s+ev\s*=\s*([^;]+);", body)
    if not m:
        raise TranslateError("%s: interest mask is not built in a local `std::uint32_t ev = …`" % fn)
    base = [x.strip() for x in m.group(1).split("|")]
    for b in base:
        if not re.fullmatch(r"EPOLL[A-Z]+|0", b):
            raise TranslateError("%s: interest mask base `%s` is not a set of EPOLL* flags" % (fn, m.group(1).strip()))
    rest = body[m.end():]
    call = re.search(r"%s\s*\(\s*[\w>\-]+\s*,\s*ev\s*\)" % arm_call, rest)
    if not call:
        raise TranslateError("%s: `ev` is not handed to %s(fd, ev)" % (fn, arm_call))
    between = rest[:call.start()]
    ors = re.findall(r"if\s*\(([^;{}]*?)\)\s*ev\s*\|=\s*(\w+)\s*;", between, re.S)
    other = re.sub(r"if\s*\(([^;{}]*?)\)\s*ev\s*\|=\s*(\w+)\s*;", "", between, flags=re.S)
    if re.search(r"\bev\b", other):
        raise TranslateError("%s: `ev` is modified in a way the translator does not understand" % fn)
    out_cond = None
    for cond, flag in ors:
        cond = re.sub(r"\s+", " ", cond.strip())
        if flag == "EPOLLET":
            if cond != "_config.useEdgeTriggered":
                raise TranslateError("%s: EPOLLET added under `%s`" % (fn, cond))
        elif flag == "EPOLLOUT":
            out_cond = cond
        else:
            raise TranslateError("%s: unexpected flag %s or-ed into the interest mask" % (fn, flag))
    return base, out_cond


def gen(repo):
    src = read(repo, F)
    tsrc = read(repo, T)
    m = re.search(r"struct\s+TransportConfig\s*\{", tsrc)
    if not m:
        raise TranslateError("struct TransportConfig not found")
    cfg = tsrc[m.end():cxxscan.match_brace(tsrc, m.end() - 1)]
    io_read_chunk = _num(cfg, r"std::size_t", "ioReadChunk")
    max_wq = _num(cfg, r"std::size_t", "maxWriteQueue")
    max_sessions = _num(cfg, r"std::size_t", "maxSessions")
    idle_s = _num(cfg, r"std::chrono::seconds", "idleTimeout")
    age_s = _num(cfg, r"std::chrono::seconds", "maxConnAge")
    stall_ms = _num(cfg, r"std::chrono::milliseconds", "writeStallTimeout")
    gc_s = _num(cfg, r"std::chrono::seconds", "gcInterval")
    cob = _bool(cfg, "closeOnBackpressure")
    edge = _bool(cfg, "useEdgeTriggered")

    bodies = {}
    for fn in MIRRORED + ["addListenerDo", "key", "addressFromSockaddr"]:
        try:
            bodies[fn] = cxxscan.function_body(src, fn)
        except cxxscan.ScanError:
            raise TranslateError("mirrored function %s no longer exists in udp_engine.hpp" % fn)
    rfl, oc, via = bodies["readFromListener"], bodies["onClient"], bodies["viaDo"]

    # ---- receive buffers: resized to ioReadChunk, whole buffer offered to the kernel, delivered length = return value (DERIVED booleans)
    pat_l = r"buf\.resize\(\s*_config\.ioReadChunk\s*\)\s*;.*?::recvfrom\(\s*lst->fd\s*,\s*buf\.data\(\)\s*,\s*\(int\)\s*buf\.size\(\)\s*,"
    pat_c = r"buf\.resize\(\s*_config\.ioReadChunk\s*\)\s*;.*?::recv\(\s*s->fd\s*,\s*buf\.data\(\)\s*,\s*\(int\)\s*buf\.size\(\)\s*,"
    view = r"BufferView\s*\{\s*buf\.data\(\)\s*,\s*static_cast<std::size_t>\(\s*n\s*\)\s*\}"
    recv_buf_l = bool(re.search(pat_l, rfl, re.S)) and len(re.findall(r"buf\.resize\(", rfl)) == 1
    recv_buf_c = bool(re.search(pat_c, oc, re.S)) and len(re.findall(r"buf\.resize\(", oc)) == 1
    view_l = len(re.findall(view, rfl)) == 1 and len(re.findall(r"BufferView\s*\{", rfl)) == 1
    view_c = len(re.findall(view, oc)) == 1 and len(re.findall(r"BufferView\s*\{\s*buf", oc)) == 1

    # ---- shape of the two receive loops (what a wake-up reads before it goes back to epoll_wait)
    budget_l, zero_l = _read_loop("readFromListener", rfl, ERR_EXIT_L)
    m_in = re.search(r"if\s*\(\s*events\s*&\s*EPOLLIN\s*\)\s*\{", oc)
    if not m_in:
        raise TranslateError("onClient: `if (events & EPOLLIN) {` block not found")
    oc_in, _ = _block_after(oc, m_in.end())
    budget_c, zero_c = _read_loop("onClient", oc_in, ERR_EXIT_C)
    # dispatch: onListener / onClient read on EPOLLIN before they write on EPOLLOUT; handleFdEvent routes by tag
    try:
        ol = re.sub(r"\s+", " ", cxxscan.function_body(src, "onListener")).strip()
        hf = re.sub(r"\s+", " ", cxxscan.function_body(src, "handleFdEvent")).strip()
        sendb = re.sub(r"\s+", " ", cxxscan.function_body(src, "send")).strip()
        sasync = re.sub(r"\s+", " ", cxxscan.function_body(src, "sendAsync")).strip()
        addb = re.sub(r"\s+", " ", cxxscan.function_body(src, "addEpoll")).strip()
        modb = re.sub(r"\s+", " ", cxxscan.function_body(src, "modEpoll")).strip()
    except cxxscan.ScanError as e:
        raise TranslateError("dispatch/API function missing in udp_engine.hpp: %s" % e)
    listener_in_first = ol == "if (events & EPOLLIN) readFromListener(lst); if (events & EPOLLOUT) flushListener(lst);"
    client_in_first = bool(re.search(r"^if \(events & EPOLLIN\) \{.*\} if \(events & EPOLLOUT\) writeClient\(s\);$", re.sub(r"\s+", " ", oc).strip()))
    routes_by_tag = hf == ("auto it = _tags.find(fd); if (it == _tags.end()) return; Tag *t = it->second.get(); if (t->isListener) onListener(t->lst, events); "
                           "else onClient(t->sess, events);")
    # send(): zero length accepted without a command; otherwise ONE copy of exactly n bytes and exactly ONE enqueue(Cmd::send(...))
    send_one = sendb == ("if (n == 0) return true; ByteBuffer b(n); std::memcpy(b.data(), p, n); SendReq sr; sr.sid = sid; sr.payload = std::move(b); "
                         "return enqueue(Cmd::send(std::move(sr)));")
    send_async_via_send = len(re.findall(r"\bsend\s*\(", sasync)) == 1 and sasync.startswith("bool ok = send(sid, data, len);") and "enqueue" not in re.sub(r'"[^"]*"', '""', sasync)
    ctl_add = addb == "epoll_event e{}; e.events = ev; e.data.fd = fd; return ::epoll_ctl(_epollFd, EPOLL_CTL_ADD, fd, &e) == 0;"
    ctl_mod = modb == "epoll_event e{}; e.events = ev; e.data.fd = fd; return ::epoll_ctl(_epollFd, EPOLL_CTL_MOD, fd, &e) == 0;"

    # ---- every function that mutates _peerIndex
    muts = {}
    spans = {}
    for fn in ("readFromListener", "viaDo", "closeNow", "shutdownDrain", "connectDo", "sendDo", "runGc", "process", "flushListener",
               "writeClient", "onClient", "addListenerDo", "closeListenerNow", "start", "stop"):
        try:
            b = cxxscan.function_body(src, fn)
        except cxxscan.ScanError:
            continue
        at = src.find(b)
        spans[fn] = (at, at + len(b))
    for mm in re.finditer(r"_peerIndex\s*(?:\.\s*(emplace|erase|insert|clear|insert_or_assign|try_emplace|swap|extract|merge)\s*\(|\[|=[^=])", src):
        kind = mm.group(1) or ("subscript" if "[" in mm.group(0) else "assign")
        encl = next((fn for fn, (a0, b0) in spans.items() if a0 <= mm.start() < b0), None)
        if encl is None:
            raise TranslateError("_peerIndex is mutated (%s) outside the functions the model mirrors (offset %d)" % (kind, mm.start()))
        muts.setdefault(encl, []).append(kind)
    expect = {"readFromListener": ["emplace"], "viaDo": ["emplace"], "closeNow": ["erase"], "shutdownDrain": ["erase"]}
    if muts != expect:
        raise TranslateError("_peerIndex mutation sites changed: %r (model mirrors %r)" % (muts, expect))
    close_guard = _erase_site("closeNow", bodies["closeNow"])
    drain_guard = _erase_site("shutdownDrain", bodies["shutdownDrain"])
    # insertion guards (DERIVED: "absent" only if the emplace sits under the not-found test)
    ins_rfl = "absent" if re.search(r"if\s*\(\s*it\s*==\s*_peerIndex\.end\(\)\s*\)\s*\{.*?_peerIndex\.emplace\(\s*k\s*,\s*sid\s*\)\s*;", rfl, re.S) and \
        re.search(r"auto\s+it\s*=\s*_peerIndex\.find\(\s*k\s*\)\s*;", rfl) and re.search(r"std::string\s+k\s*=\s*key\(\s*from\s*\)\s*;", rfl) else "unguarded"
    ins_via = "absent" if re.search(r"bool\s+peerExists\s*=\s*\(\s*pit\s*!=\s*_peerIndex\.end\(\)\s*\)\s*;", via) and \
        re.search(r"if\s*\(\s*!\s*peerExists\s*\)\s*\{\s*_peerIndex\.emplace\(\s*k\s*,\s*vr\.sid\s*\)\s*;\s*\}", via) and \
        re.search(r"auto\s+pit\s*=\s*_peerIndex\.find\(\s*k\s*\)\s*;", via) and re.search(r"std::string\s+k\s*=\s*key\(\s*to\s*\)\s*;", via) else "unguarded"
    # the lookup that picks the session of an arriving datagram: `sid = it->second` in the found branch, nothing else
    lookup_plain = bool(re.search(r"else\s*\{\s*sid\s*=\s*it->second\s*;\s*\}", rfl))

    # ---- write-queue overflow tests in sendDo
    sd = bodies["sendDo"]
    ops = re.findall(r"if\s*\(\s*(s|lst)->wq\.size\(\)\s*(>=|>|==|<=|<|!=)\s*_config\.maxWriteQueue\s*\)", sd)
    if sorted(o[0] for o in ops) != ["lst", "s"]:
        raise TranslateError("sendDo: expected one overflow test per write queue (client, listener), found %r" % (ops,))
    ovf = dict(ops)
    for k, v in ovf.items():
        if v not in (">", ">="):
            raise TranslateError("sendDo: overflow test of %s->wq uses `%s`" % (k, v))

    # ---- epoll interest masks
    add_l, add_l_out = _mask("addListenerDo", bodies["addListenerDo"], "addEpoll", "lst")
    add_c, add_c_out = _mask("connectDo", bodies["connectDo"], "addEpoll", "s")
    upd_l, upd_l_out = _mask("updateListener", bodies["updateListener"], "modEpoll", "lst")
    upd_c, upd_c_out = _mask("updateClient", bodies["updateClient"], "modEpoll", "s")
    if add_l_out is not None or add_c_out is not None:
        raise TranslateError("a freshly added socket is armed with EPOLLOUT")
    out_l = upd_l_out == "lst->wantWrite && !lst->wq.empty()"
    out_c = upd_c_out == "s->wantWrite && !s->wq.empty()"
    if not out_l or not out_c:
        raise TranslateError("updateListener/updateClient: EPOLLOUT is not armed exactly under `wantWrite && !wq.empty()` (%r / %r)" % (upd_l_out, upd_c_out))

    # ---- flags of every socket I/O call, socket() types, setsockopt names
    io_flags = []
    for fn in MIRRORED:
        for callee, idx in (("::sendto", 3), ("::send", 3), ("::recvfrom", 3), ("::recv", 3)):
            for args in _call_args(bodies[fn], callee):
                if len(args) <= idx:
                    raise TranslateError("%s: cannot read the flags argument of %s" % (fn, callee))
                io_flags.append((fn, callee[2:], args[idx]))
    sockopts, socktypes = [], []
    for fn in MIRRORED + ["addListenerDo"]:
        for args in _call_args(bodies[fn], "::setsockopt"):
            sockopts.append((fn, args[1], args[2]))
        for args in _call_args(bodies[fn], "setsockopt"):
            if (fn, args[1], args[2]) not in sockopts:
                sockopts.append((fn, args[1], args[2]))
        for args in _call_args(bodies[fn], "::socket"):
            socktypes.append((fn, args[1]))

    # ---- address canonicalisation
    kb = re.sub(r"\s+", " ", bodies["key"])
    key_ok = bool(re.search(r"getnameinfo\(reinterpret_cast<const sockaddr \*>\(&ss\), sl, h, sizeof\(h\), sv, sizeof\(sv\), NI_NUMERICHOST \| NI_NUMERICSERV\) == 0", kb)) and \
        bool(re.search(r"std::string o\(h\); o\.push_back\(':'\); o\.append\(sv\); return o;", kb)) and \
        bool(re.search(r"socklen_t sl = \(ss\.ss_family == AF_INET\) \? sizeof\(sockaddr_in\) : sizeof\(sockaddr_in6\);", kb))
    # declared sizes of key()'s two buffers: large enough for EVERY numeric host (IPv6 incl. v4-mapped and scope: NI_MAXHOST, or a
    # literal/constant >= INET6_ADDRSTRLEN (46) + IF_NAMESIZE (16) + 1) and every numeric service (NI_MAXSERV or >= 6)
    mh = re.search(r"char h\[([^\]]+)\]", kb)
    ms = re.search(r"\bsv\[([^\]]+)\]", kb)
    if not mh or not ms:
        raise TranslateError("key(): the host/service buffers are not plain char arrays `h[...]`, `sv[...]`")

    def buf_ok(txt, names, minimum):
        txt = txt.strip()
        if txt in names:
            return True
        try:
            return cxxscan.const_eval(txt) >= minimum
        except cxxscan.ScanError:
            return False         # INET_ADDRSTRLEN, sizeof("65535"), … : not provably large enough
    key_host_buf, key_serv_buf = mh.group(1).strip(), ms.group(1).strip()
    key_bufs_ok = buf_ok(key_host_buf, ("NI_MAXHOST",), 63) and buf_ok(key_serv_buf, ("NI_MAXSERV",), 6)
    key_passes_sizes = bool(re.search(r"h, sizeof\(h\), sv, sizeof\(sv\)", kb))
    key_fail_returns_empty = bool(re.search(r"return o; \} return \{\};$", kb.strip()))
    # a failing key() (empty string) must not be indexed: both users test `k.empty()` right after computing it and bail out
    empty_rfl = bool(re.search(r"std::string\s+k\s*=\s*key\(\s*from\s*\)\s*;\s*if\s*\(\s*k\.empty\(\)\s*\)\s*\{[^{}]*continue\s*;\s*\}", rfl))
    empty_via = bool(re.search(r"std::string\s+k\s*=\s*key\(\s*to\s*\)\s*;\s*if\s*\(\s*k\.empty\(\)\s*\)\s*\{(?:[^{}]|\{[^{}]*\})*return\s+false\s*;\s*\}", via))
    ab = re.sub(r"\s+", " ", bodies["addressFromSockaddr"])
    addr_ok = bool(re.search(r"::inet_ntop\(AF_INET, &sa4->sin_addr, host, sizeof\(host\)\); addr\.host = host; addr\.port = ntohs\(sa4->sin_port\);", ab)) and \
        bool(re.search(r"::inet_ntop\(AF_INET6, &sa6->sin6_addr, host, sizeof\(host\)\); addr\.host = host; addr\.port = ntohs\(sa6->sin6_port\);", ab))
    # the session remembers the whole source address and sends to it
    peer_copied = bool(re.search(r"std::memcpy\(\s*&s->peer\s*,\s*&from\s*,\s*fl\s*\)\s*;\s*s->plen\s*=\s*fl\s*;\s*s->pkey\s*=\s*k\s*;", rfl)) and \
        bool(re.search(r"std::memcpy\(\s*&s->peer\s*,\s*&to\s*,\s*tl\s*\)\s*;\s*s->plen\s*=\s*tl\s*;\s*s->pkey\s*=\s*k\s*;", via))

    # ---- id counters
    def counter(name, typ):
        mm = re.search(r"std::atomic<\s*%s\s*>\s+%s\s*\{\s*([^{}]*)\}\s*;" % (typ, name), src)
        if mm:
            return True, cxxscan.const_eval(mm.group(1))
        mm = re.search(r"\b%s\s+%s\s*\{\s*([^{}]*)\}\s*;" % (typ, name), src)
        if mm:
            return False, cxxscan.const_eval(mm.group(1))
        raise TranslateError("declaration of %s not recognised" % name)
    sid_atomic, sid_init = counter("_nextSessionId", "SessionId")
    lid_atomic, lid_init = counter("_nextListenerId", "ListenerId")
    sid_uses = sorted(fn for fn in ("connect", "connectViaListener", "readFromListener") if re.search(r"=\s*_nextSessionId\+\+\s*;", cxxscan.function_body(src, fn)))
    n_sid_mentions = len(re.findall(r"\b_nextSessionId\b", src))

    def ltriples(xs):
        return "[" + ", ".join("(" + ", ".join('"%s"' % y.replace('"', "'") for y in x) + ")" for x in xs) + "]"

    t = HEADER % (F + ", " + T)
    t += "namespace Iora.Gen.Udp\n"
    t += "/-- `TransportConfig` defaults the UDP engine runs with (transport_types.hpp) -/\n"
    t += "def ioReadChunk : Nat := %d\n" % io_read_chunk
    t += "def maxWriteQueue : Nat := %d\n" % max_wq
    t += "def maxSessions : Nat := %d\n" % max_sessions
    t += "def idleTimeoutS : Nat := %d\n" % idle_s
    t += "def maxConnAgeS : Nat := %d\n" % age_s
    t += "def writeStallTimeoutMs : Nat := %d\n" % stall_ms
    t += "def closeOnBackpressure : Bool := %s\n" % _lb(cob)
    t += "def useEdgeTriggered : Bool := %s\n" % _lb(edge)
    t += "/-- DERIVED from the source text (not literals of the translator): `readFromListener` / `onClient` resize the one buffer to\n"
    t += "    `_config.ioReadChunk` and offer it whole to recvfrom/recv; the data callback gets exactly `BufferView{buf.data(), n}` -/\n"
    t += "def recvBufferListenerIsIoReadChunk : Bool := %s\n" % _lb(recv_buf_l)
    t += "def recvBufferClientIsIoReadChunk : Bool := %s\n" % _lb(recv_buf_c)
    t += "def dataViewListenerIsReturnValue : Bool := %s\n" % _lb(view_l)
    t += "def dataViewClientIsReturnValue : Bool := %s\n" % _lb(view_c)
    t += "/-- `_peerIndex.erase` sites: (function, erase happens only when the entry maps to the closing session) -/\n"
    t += "def peerIndexEraseSites : List (String × Bool) := [(\"closeNow\", %s), (\"shutdownDrain\", %s)]\n" % (_lb(close_guard), _lb(drain_guard))
    t += "def closeNowEraseGuarded : Bool := %s\n" % _lb(close_guard)
    t += "def shutdownDrainEraseGuarded : Bool := %s\n" % _lb(drain_guard)
    t += "/-- `_peerIndex.emplace` sites with the guard DERIVED from the text: \"absent\" iff the emplace of `key(addr)` sits under the\n"
    t += "    not-found result of `_peerIndex.find(k)`; the found branch of readFromListener is exactly `sid = it->second` -/\n"
    t += "def peerIndexInsertSites : List (String × String) := [(\"readFromListener\", \"%s\"), (\"viaDo\", \"%s\")]\n" % (ins_rfl, ins_via)
    t += "def lookupUsesIndexedSession : Bool := %s\n" % _lb(lookup_plain)
    t += "/-- `sendDo`: the queue is over its cap when `wq.size() > maxWriteQueue` (true) or `>=` (false), tested after the push -/\n"
    t += "def clientOverflowStrict : Bool := %s\n" % _lb(ovf["s"] == ">")
    t += "def listenerOverflowStrict : Bool := %s\n" % _lb(ovf["lst"] == ">")
    t += "/-- epoll interest: does the mask handed to addEpoll / modEpoll contain EPOLLIN? (EPOLLOUT is or-ed in exactly under\n"
    t += "    `wantWrite && !wq.empty()` in updateListener/updateClient — a different condition is a translator error) -/\n"
    t += "def listenerAddArmsIn : Bool := %s\n" % _lb("EPOLLIN" in add_l)
    t += "def clientAddArmsIn : Bool := %s\n" % _lb("EPOLLIN" in add_c)
    t += "def listenerUpdateKeepsIn : Bool := %s\n" % _lb("EPOLLIN" in upd_l)
    t += "def clientUpdateKeepsIn : Bool := %s\n" % _lb("EPOLLIN" in upd_c)
    t += "def maskBases : List (String × String) := %s\n" % ltriples([("addListenerDo", "|".join(add_l)), ("connectDo", "|".join(add_c)),
                                                                     ("updateListener", "|".join(upd_l)), ("updateClient", "|".join(upd_c))])
    t += "/-- (function, call, flags argument) of every send/sendto/recv/recvfrom in the mirrored functions -/\n"
    t += "def ioCallFlags : List (String × String × String) := %s\n" % ltriples(io_flags)
    t += "/-- (function, level, option) of every setsockopt, and (function, type argument) of every socket() in the mirrored functions + addListenerDo -/\n"
    t += "def sockopts : List (String × String × String) := %s\n" % ltriples(sockopts)
    t += "def socketTypes : List (String × String) := %s\n" % ltriples(socktypes)
    t += "/-- address canonicalisation (DERIVED): `key()` = getnameinfo(NI_NUMERICHOST|NI_NUMERICSERV) host + ':' + service for both families;\n"
    t += "    `addressFromSockaddr` = inet_ntop host + ntohs(port) for both families; a ServerPeer session copies the whole source/target sockaddr -/\n"
    t += "def keyIsNumericHostColonPort : Bool := %s\n" % _lb(key_ok)
    t += "/-- key(): declared sizes of the host / service buffers, whether they hold every numeric form (NI_MAXHOST or >= 63; NI_MAXSERV or >= 6),\n"
    t += "    whether `sizeof` of exactly these buffers is what getnameinfo is told, and that a getnameinfo failure returns the empty string -/\n"
    t += "def keyHostBuffer : String := \"%s\"\ndef keyServiceBuffer : String := \"%s\"\n" % (key_host_buf.replace('"', "'"), key_serv_buf.replace('"', "'"))
    t += "def keyBuffersHoldEveryNumericForm : Bool := %s\n" % _lb(key_bufs_ok and key_passes_sizes)
    t += "def keyFailureReturnsEmpty : Bool := %s\n" % _lb(key_fail_returns_empty)
    t += "/-- the two users of key() refuse an empty key before touching _peerIndex (readFromListener: report + continue; viaDo: close the id + return false) -/\n"
    t += "def emptyKeyRefusedOnReceive : Bool := %s\ndef emptyKeyRefusedOnVia : Bool := %s\n" % (_lb(empty_rfl), _lb(empty_via))
    t += "def addressFromSockaddrIsHostAndPort : Bool := %s\n" % _lb(addr_ok)
    t += "def sessionKeepsWholePeerAddress : Bool := %s\n" % _lb(peer_copied)
    t += "/-- id counters: `std::atomic<…>` members starting at …; `_nextSessionId++` is the initialiser in exactly these functions -/\n"
    t += "def nextSessionIdAtomic : Bool := %s\ndef nextSessionIdInit : Nat := %d\n" % (_lb(sid_atomic), sid_init)
    t += "def nextListenerIdAtomic : Bool := %s\ndef nextListenerIdInit : Nat := %d\n" % (_lb(lid_atomic), lid_init)
    t += "def nextSessionIdAllocators : List String := [%s]\n" % ", ".join('"%s"' % x for x in sid_uses)
    t += "def nextSessionIdMentions : Nat := %d\n" % n_sid_mentions
    t += "/-- shape of the receive loops (DERIVED): iterations per wake-up (`none` = `for (;;)`: the only exits are the EAGAIN break and the\n"
    t += "    hard-error exit), and whether a zero-length read leaves the loop (`break`) instead of going on (`continue` / fall through) -/\n"
    t += "def listenerReadBudget : Option Nat := %s\ndef clientReadBudget : Option Nat := %s\n" % (_opt(budget_l), _opt(budget_c))
    t += "def listenerZeroLenEndsLoop : Bool := %s\ndef clientZeroLenEndsLoop : Bool := %s\n" % (_lb(zero_l), _lb(zero_c))
    t += "/-- dispatch (DERIVED): onListener/onClient handle EPOLLIN before EPOLLOUT of one merged event; handleFdEvent routes by the fd's tag;\n"
    t += "    addEpoll/modEpoll hand exactly (fd, ev) to epoll_ctl ADD / MOD -/\n"
    t += "def listenerReadsBeforeWrites : Bool := %s\ndef clientReadsBeforeWrites : Bool := %s\n" % (_lb(listener_in_first), _lb(client_in_first))
    t += "def handleFdEventRoutesByTag : Bool := %s\ndef epollCtlWrappersPlain : Bool := %s\n" % (_lb(routes_by_tag), _lb(ctl_add and ctl_mod))
    t += "/-- API (DERIVED): `send()` = nothing for n == 0, else one memcpy of n bytes and exactly one `enqueue(Cmd::send(..))`; `sendAsync()` is one `send()` call -/\n"
    t += "def apiSendIsOneCommand : Bool := %s\ndef apiSendAsyncIsOneSend : Bool := %s\n" % (_lb(send_one), _lb(send_async_via_send))
    anchors = [(fn, cxxscan.body_sha(bodies[fn])) for fn in MIRRORED + ["addListenerDo", "key", "addressFromSockaddr"]]
    for fn in EXTRA_ANCHORS:
        anchors.append((fn, cxxscan.body_sha(cxxscan.function_body(src, fn))))
    try:
        bsrc = read(repo, B)
        anchors.append(("processBatch", cxxscan.body_sha(cxxscan.function_body(bsrc, "processBatch"))))
        anchors.append(("processBatchWithSpecialFDs", cxxscan.body_sha(cxxscan.function_body(bsrc, "processBatchWithSpecialFDs"))))
    except cxxscan.ScanError as e:
        raise TranslateError("event_batch_processor.hpp: %s" % e)
    t += "/-- mirrored functions (udp_engine.hpp) with the SHA-256 prefix of their comment-stripped, whitespace-normalised bodies -/\n"
    t += "def anchors : List (String × String) := [%s]\n" % ", ".join('("%s", "%s")' % a for a in anchors)
    t += "end Iora.Gen.Udp\n"
    return "IoraModel/Gen/Udp.lean", t
