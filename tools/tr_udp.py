"""Translator unit `udp` -> Gen/Udp.lean (C06): TransportConfig defaults the UDP engine runs with, the size of the receive
buffer handed to recvfrom/recv, every site that mutates `_peerIndex` with the guard it sits under, and the overflow tests of
the two write queues.  Facts only; the algorithm is tied by the lockstep harness (harness/c06_udp.cpp)."""
import re
import cxxscan
from translate import TranslateError, HEADER, read

F = "include/iora/network/detail/udp_engine.hpp"
T = "include/iora/network/transport_types.hpp"


MIRRORED = ["readFromListener", "onClient", "connectDo", "viaDo", "sendDo", "flushListener", "writeClient", "closeNow", "runGc",
            "shutdownDrain", "updateListener", "updateClient", "process"]


def _cfg_default(body, typ, name):
    m = re.search(r"%s\s+%s\s*\{([^{}]*)\}\s*;" % (typ, re.escape(name)), body)
    if not m:
        raise TranslateError("TransportConfig::%s: member with a brace initialiser not found" % name)
    return m.group(1).strip()


def _num(body, typ, name):
    txt = _cfg_default(body, typ, name)
    if re.fullmatch(r"std::chrono::\w+::zero\(\)", txt):
        return 0
    try:
        return cxxscan.const_eval(txt)
    except cxxscan.ScanError as e:
        raise TranslateError("TransportConfig::%s: %s" % (name, e))


def _bool(body, name):
    txt = _cfg_default(body, "bool", name)
    if txt not in ("true", "false"):
        raise TranslateError("TransportConfig::%s: not a bool literal: %r" % (name, txt))
    return txt == "true"


def _lb(b):
    return "true" if b else "false"


GUARDED = re.compile(r"auto\s+(\w+)\s*=\s*_peerIndex\.find\(\s*([\w>\-]+)\s*\)\s*;\s*if\s*\(\s*\1\s*!=\s*_peerIndex\.end\(\)\s*&&\s*\1->second\s*==\s*([\w>\-]+)\s*\)\s*"
                     r"\{\s*_peerIndex\.erase\(\s*\1\s*\)\s*;\s*\}")
UNCOND = re.compile(r"else\s*\{\s*_peerIndex\.erase\(\s*([\w>\-]+)\s*\)\s*;\s*\}")


def _erase_site(fn, body):
    """How `fn` removes the closing session's peer key from _peerIndex: guarded (only if it maps to this session) or unconditional."""
    n = len(re.findall(r"_peerIndex\s*\.\s*erase\s*\(", body))
    if n != 1:
        raise TranslateError("%s: expected exactly one _peerIndex.erase site, found %d" % (fn, n))
    m = GUARDED.search(body)
    if m:
        key, ident = m.group(2), m.group(3)
        if (key, ident) not in (("pkey", "sid"), ("s->pkey", "s->id")):
            raise TranslateError("%s: guarded _peerIndex.erase compares unexpected operands (%s, %s)" % (fn, key, ident))
        # the guarded erase must sit in the non-client branch of the role test
        pre = body[:m.start()]
        if not re.search(r"else\s*\{\s*$", pre):
            raise TranslateError("%s: guarded _peerIndex.erase is not the body of the ServerPeer (else) branch" % fn)
        return True
    m = UNCOND.search(body)
    if m:
        if m.group(1) not in ("pkey", "s->pkey"):
            raise TranslateError("%s: _peerIndex.erase of unexpected key %s" % (fn, m.group(1)))
        return False
    raise TranslateError("%s: _peerIndex.erase site has an unrecognised shape" % fn)


def _call_args(body, callee):
    """Top-level argument lists of every call `callee(` in `body` (comment-stripped)."""
    out = []
    for m in re.finditer(r"(?<![\w>.])%s\s*\(" % re.escape(callee), body):
        i = m.end()
        depth, cur, args = 1, "", []
        while i < len(body) and depth:
            c = body[i]
            if c in "([{":
                depth += 1
            elif c in ")]}":
                depth -= 1
                if depth == 0:
                    break
            if c == "," and depth == 1:
                args.append(cur.strip()); cur = ""
            else:
                cur += c
            i += 1
        args.append(cur.strip())
        out.append([re.sub(r"\s+", " ", a) for a in args])
    return out


def _mask(fn, body, arm_call, obj):
    """Interest mask a function hands to epoll: `std::uint32_t ev = <base>; [if (ET) ev |= EPOLLET;] [if (<obj>->wantWrite && !<obj>->wq.empty()) ev |= EPOLLOUT;] <arm_call>(fd, ev)`.
    Returns (base tokens, EPOLLOUT-condition text or None)."""
    m = re.search(r"std::uint32_t\s+ev\s*=\s*([^;]+);", body)
    if not m:
        raise TranslateError("%s: interest mask is not built in a local `std::uint32_t ev = …`" % fn)
    base = [x.strip() for x in m.group(1).split("|")]
    for b in base:
        if not re.fullmatch(r"EPOLL[A-Z]+|0", b):
            raise TranslateError("%s: interest mask base `%s` is not a set of EPOLL* flags" % (fn, m.group(1).strip()))
    rest = body[m.end():]
    call = re.search(r"%s\s*\(\s*[\w>\-]+\s*,\s*ev\s*\)" % arm_call, rest)
    if not call:
        raise TranslateError("%s: `ev` is not handed to %s(fd, ev)" % (fn, arm_call))
    between = rest[:call.start()]
    ors = re.findall(r"if\s*\(([^;{}]*?)\)\s*ev\s*\|=\s*(\w+)\s*;", between, re.S)
    other = re.sub(r"if\s*\(([^;{}]*?)\)\s*ev\s*\|=\s*(\w+)\s*;", "", between, flags=re.S)
    if re.search(r"\bev\b", other):
        raise TranslateError("%s: `ev` is modified in a way the translator does not understand" % fn)
    out_cond = None
    for cond, flag in ors:
        cond = re.sub(r"\s+", " ", cond.strip())
        if flag == "EPOLLET":
            if cond != "_config.useEdgeTriggered":
                raise TranslateError("%s: EPOLLET added under `%s`" % (fn, cond))
        elif flag == "EPOLLOUT":
            out_cond = cond
        else:
            raise TranslateError("%s: unexpected flag %s or-ed into the interest mask" % (fn, flag))
    return base, out_cond


def gen(repo):
    src = read(repo, F)
    tsrc = read(repo, T)
    m = re.search(r"struct\s+TransportConfig\s*\{", tsrc)
    if not m:
        raise TranslateError("struct TransportConfig not found")
    cfg = tsrc[m.end():cxxscan.match_brace(tsrc, m.end() - 1)]
    io_read_chunk = _num(cfg, r"std::size_t", "ioReadChunk")
    max_wq = _num(cfg, r"std::size_t", "maxWriteQueue")
    max_sessions = _num(cfg, r"std::size_t", "maxSessions")
    idle_s = _num(cfg, r"std::chrono::seconds", "idleTimeout")
    age_s = _num(cfg, r"std::chrono::seconds", "maxConnAge")
    stall_ms = _num(cfg, r"std::chrono::milliseconds", "writeStallTimeout")
    gc_s = _num(cfg, r"std::chrono::seconds", "gcInterval")
    cob = _bool(cfg, "closeOnBackpressure")
    edge = _bool(cfg, "useEdgeTriggered")

    bodies = {}
    for fn in MIRRORED + ["addListenerDo", "key", "addressFromSockaddr"]:
        try:
            bodies[fn] = cxxscan.function_body(src, fn)
        except cxxscan.ScanError:
            raise TranslateError("mirrored function %s no longer exists in udp_engine.hpp" % fn)
    rfl, oc, via = bodies["readFromListener"], bodies["onClient"], bodies["viaDo"]

    # ---- receive buffers: resized to ioReadChunk, whole buffer offered to the kernel, delivered length = return value (DERIVED booleans)
    pat_l = r"buf\.resize\(\s*_config\.ioReadChunk\s*\)\s*;.*?::recvfrom\(\s*lst->fd\s*,\s*buf\.data\(\)\s*,\s*\(int\)\s*buf\.size\(\)\s*,"
    pat_c = r"buf\.resize\(\s*_config\.ioReadChunk\s*\)\s*;.*?::recv\(\s*s->fd\s*,\s*buf\.data\(\)\s*,\s*\(int\)\s*buf\.size\(\)\s*,"
    view = r"BufferView\s*\{\s*buf\.data\(\)\s*,\s*static_cast<std::size_t>\(\s*n\s*\)\s*\}"
    recv_buf_l = bool(re.search(pat_l, rfl, re.S)) and len(re.findall(r"buf\.resize\(", rfl)) == 1
    recv_buf_c = bool(re.search(pat_c, oc, re.S)) and len(re.findall(r"buf\.resize\(", oc)) == 1
    view_l = len(re.findall(view, rfl)) == 1 and len(re.findall(r"BufferView\s*\{", rfl)) == 1
    view_c = len(re.findall(view, oc)) == 1 and len(re.findall(r"BufferView\s*\{\s*buf", oc)) == 1

    # ---- every function that mutates _peerIndex
    muts = {}
    spans = {}
    for fn in ("readFromListener", "viaDo", "closeNow", "shutdownDrain", "connectDo", "sendDo", "runGc", "process", "flushListener",
               "writeClient", "onClient", "addListenerDo", "closeListenerNow", "start", "stop"):
        try:
            b = cxxscan.function_body(src, fn)
        except cxxscan.ScanError:
            continue
        at = src.find(b)
        spans[fn] = (at, at + len(b))
    for mm in re.finditer(r"_peerIndex\s*(?:\.\s*(emplace|erase|insert|clear|insert_or_assign|try_emplace|swap|extract|merge)\s*\(|\[|=[^=])", src):
        kind = mm.group(1) or ("subscript" if "[" in mm.group(0) else "assign")
        encl = next((fn for fn, (a0, b0) in spans.items() if a0 <= mm.start() < b0), None)
        if encl is None:
            raise TranslateError("_peerIndex is mutated (%s) outside the functions the model mirrors (offset %d)" % (kind, mm.start()))
        muts.setdefault(encl, []).append(kind)
    expect = {"readFromListener": ["emplace"], "viaDo": ["emplace"], "closeNow": ["erase"], "shutdownDrain": ["erase"]}
    if muts != expect:
        raise TranslateError("_peerIndex mutation sites changed: %r (model mirrors %r)" % (muts, expect))
    close_guard = _erase_site("closeNow", bodies["closeNow"])
    drain_guard = _erase_site("shutdownDrain", bodies["shutdownDrain"])
    # insertion guards (DERIVED: "absent" only if the emplace sits under the not-found test)
    ins_rfl = "absent" if re.search(r"if\s*\(\s*it\s*==\s*_peerIndex\.end\(\)\s*\)\s*\{.*?_peerIndex\.emplace\(\s*k\s*,\s*sid\s*\)\s*;", rfl, re.S) and \
        re.search(r"auto\s+it\s*=\s*_peerIndex\.find\(\s*k\s*\)\s*;", rfl) and re.search(r"std::string\s+k\s*=\s*key\(\s*from\s*\)\s*;", rfl) else "unguarded"
    ins_via = "absent" if re.search(r"bool\s+peerExists\s*=\s*\(\s*pit\s*!=\s*_peerIndex\.end\(\)\s*\)\s*;", via) and \
        re.search(r"if\s*\(\s*!\s*peerExists\s*\)\s*\{\s*_peerIndex\.emplace\(\s*k\s*,\s*vr\.sid\s*\)\s*;\s*\}", via) and \
        re.search(r"auto\s+pit\s*=\s*_peerIndex\.find\(\s*k\s*\)\s*;", via) and re.search(r"std::string\s+k\s*=\s*key\(\s*to\s*\)\s*;", via) else "unguarded"
    # the lookup that picks the session of an arriving datagram: `sid = it->second` in the found branch, nothing else
    lookup_plain = bool(re.search(r"else\s*\{\s*sid\s*=\s*it->second\s*;\s*\}", rfl))

    # ---- write-queue overflow tests in sendDo
    sd = bodies["sendDo"]
    ops = re.findall(r"if\s*\(\s*(s|lst)->wq\.size\(\)\s*(>=|>|==|<=|<|!=)\s*_config\.maxWriteQueue\s*\)", sd)
    if sorted(o[0] for o in ops) != ["lst", "s"]:
        raise TranslateError("sendDo: expected one overflow test per write queue (client, listener), found %r" % (ops,))
    ovf = dict(ops)
    for k, v in ovf.items():
        if v not in (">", ">="):
            raise TranslateError("sendDo: overflow test of %s->wq uses `%s`" % (k, v))

    # ---- epoll interest masks
    add_l, add_l_out = _mask("addListenerDo", bodies["addListenerDo"], "addEpoll", "lst")
    add_c, add_c_out = _mask("connectDo", bodies["connectDo"], "addEpoll", "s")
    upd_l, upd_l_out = _mask("updateListener", bodies["updateListener"], "modEpoll", "lst")
    upd_c, upd_c_out = _mask("updateClient", bodies["updateClient"], "modEpoll", "s")
    if add_l_out is not None or add_c_out is not None:
        raise TranslateError("a freshly added socket is armed with EPOLLOUT")
    out_l = upd_l_out == "lst->wantWrite && !lst->wq.empty()"
    out_c = upd_c_out == "s->wantWrite && !s->wq.empty()"
    if not out_l or not out_c:
        raise TranslateError("updateListener/updateClient: EPOLLOUT is not armed exactly under `wantWrite && !wq.empty()` (%r / %r)" % (upd_l_out, upd_c_out))

    # ---- flags of every socket I/O call, socket() types, setsockopt names
    io_flags = []
    for fn in MIRRORED:
        for callee, idx in (("::sendto", 3), ("::send", 3), ("::recvfrom", 3), ("::recv", 3)):
            for args in _call_args(bodies[fn], callee):
                if len(args) <= idx:
                    raise TranslateError("%s: cannot read the flags argument of %s" % (fn, callee))
                io_flags.append((fn, callee[2:], args[idx]))
    sockopts, socktypes = [], []
    for fn in MIRRORED + ["addListenerDo"]:
        for args in _call_args(bodies[fn], "::setsockopt"):
            sockopts.append((fn, args[1], args[2]))
        for args in _call_args(bodies[fn], "setsockopt"):
            if (fn, args[1], args[2]) not in sockopts:
                sockopts.append((fn, args[1], args[2]))
        for args in _call_args(bodies[fn], "::socket"):
            socktypes.append((fn, args[1]))

    # ---- address canonicalisation
    kb = re.sub(r"\s+", " ", bodies["key"])
    key_ok = bool(re.search(r"getnameinfo\(reinterpret_cast<const sockaddr \*>\(&ss\), sl, h, sizeof\(h\), sv, sizeof\(sv\), NI_NUMERICHOST \| NI_NUMERICSERV\) == 0", kb)) and \
        bool(re.search(r"std::string o\(h\); o\.push_back\(':'\); o\.append\(sv\); return o;", kb)) and \
        bool(re.search(r"socklen_t sl = \(ss\.ss_family == AF_INET\) \? sizeof\(sockaddr_in\) : sizeof\(sockaddr_in6\);", kb))
    # declared sizes of key()'s two buffers: large enough for EVERY numeric host (IPv6 incl. v4-mapped and scope: NI_MAXHOST, or a
    # literal/constant >= INET6_ADDRSTRLEN (46) + IF_NAMESIZE (16) + 1) and every numeric service (NI_MAXSERV or >= 6)
    mh = re.search(r"char h\[([^\]]+)\]", kb)
    ms = re.search(r"\bsv\[([^\]]+)\]", kb)
    if not mh or not ms:
        raise TranslateError("key(): the host/service buffers are not plain char arrays `h[...]`, `sv[...]`")

    def buf_ok(txt, names, minimum):
        txt = txt.strip()
        if txt in names:
            return True
        try:
            return cxxscan.const_eval(txt) >= minimum
        except cxxscan.ScanError:
            return False         # INET_ADDRSTRLEN, sizeof("65535"), … : not provably large enough
    key_host_buf, key_serv_buf = mh.group(1).strip(), ms.group(1).strip()
    key_bufs_ok = buf_ok(key_host_buf, ("NI_MAXHOST",), 63) and buf_ok(key_serv_buf, ("NI_MAXSERV",), 6)
    key_passes_sizes = bool(re.search(r"h, sizeof\(h\), sv, sizeof\(sv\)", kb))
    key_fail_returns_empty = bool(re.search(r"return o; \} return \{\};$", kb.strip()))
    # a failing key() (empty string) must not be indexed: both users test `k.empty()` right after computing it and bail out
    empty_rfl = bool(re.search(r"std::string\s+k\s*=\s*key\(\s*from\s*\)\s*;\s*if\s*\(\s*k\.empty\(\)\s*\)\s*\{[^{}]*continue\s*;\s*\}", rfl))
    empty_via = bool(re.search(r"std::string\s+k\s*=\s*key\(\s*to\s*\)\s*;\s*if\s*\(\s*k\.empty\(\)\s*\)\s*\{(?:[^{}]|\{[^{}]*\})*return\s+false\s*;\s*\}", via))
    ab = re.sub(r"\s+", " ", bodies["addressFromSockaddr"])
    addr_ok = bool(re.search(r"::inet_ntop\(AF_INET, &sa4->sin_addr, host, sizeof\(host\)\); addr\.host = host; addr\.port = ntohs\(sa4->sin_port\);", ab)) and \
        bool(re.search(r"::inet_ntop\(AF_INET6, &sa6->sin6_addr, host, sizeof\(host\)\); addr\.host = host; addr\.port = ntohs\(sa6->sin6_port\);", ab))
    # the session remembers the whole source address and sends to it
    peer_copied = bool(re.search(r"std::memcpy\(\s*&s->peer\s*,\s*&from\s*,\s*fl\s*\)\s*;\s*s->plen\s*=\s*fl\s*;\s*s->pkey\s*=\s*k\s*;", rfl)) and \
        bool(re.search(r"std::memcpy\(\s*&s->peer\s*,\s*&to\s*,\s*tl\s*\)\s*;\s*s->plen\s*=\s*tl\s*;\s*s->pkey\s*=\s*k\s*;", via))

    # ---- id counters
    def counter(name, typ):
        mm = re.search(r"std::atomic<\s*%s\s*>\s+%s\s*\{\s*([^{}]*)\}\s*;" % (typ, name), src)
        if mm:
            return True, cxxscan.const_eval(mm.group(1))
        mm = re.search(r"\b%s\s+%s\s*\{\s*([^{}]*)\}\s*;" % (typ, name), src)
        if mm:
            return False, cxxscan.const_eval(mm.group(1))
        raise TranslateError("declaration of %s not recognised" % name)
    sid_atomic, sid_init = counter("_nextSessionId", "SessionId")
    lid_atomic, lid_init = counter("_nextListenerId", "ListenerId")
    sid_uses = sorted(fn for fn in ("connect", "connectViaListener", "readFromListener") if re.search(r"=\s*_nextSessionId\+\+\s*;", cxxscan.function_body(src, fn)))
    n_sid_mentions = len(re.findall(r"\b_nextSessionId\b", src))

    def ltriples(xs):
        return "[" + ", ".join("(" + ", ".join('"%s"' % y.replace('"', "'") for y in x) + ")" for x in xs) + "]"

    t = HEADER % (F + ", " + T)
    t += "namespace Iora.Gen.Udp\n"
    t += "/-- `TransportConfig` defaults the UDP engine runs with (transport_types.hpp) -/\n"
    t += "def ioReadChunk : Nat := %d\n" % io_read_chunk
    t += "def maxWriteQueue : Nat := %d\n" % max_wq
    t += "def maxSessions : Nat := %d\n" % max_sessions
    t += "def idleTimeoutS : Nat := %d\n" % idle_s
    t += "def maxConnAgeS : Nat := %d\n" % age_s
    t += "def writeStallTimeoutMs : Nat := %d\n" % stall_ms
    t += "def gcIntervalS : Nat := %d\n" % gc_s
    t += "def closeOnBackpressure : Bool := %s\n" % _lb(cob)
    t += "def useEdgeTriggered : Bool := %s\n" % _lb(edge)
    t += "/-- DERIVED from the source text (not literals of the translator): `readFromListener` / `onClient` resize the one buffer to\n"
    t += "    `_config.ioReadChunk` and offer it whole to recvfrom/recv; the data callback gets exactly `BufferView{buf.data(), n}` -/\n"
    t += "def recvBufferListenerIsIoReadChunk : Bool := %s\n" % _lb(recv_buf_l)
    t += "def recvBufferClientIsIoReadChunk : Bool := %s\n" % _lb(recv_buf_c)
    t += "def dataViewListenerIsReturnValue : Bool := %s\n" % _lb(view_l)
    t += "def dataViewClientIsReturnValue : Bool := %s\n" % _lb(view_c)
    t += "def recvBufferIsIoReadChunk : Bool := %s\n" % _lb(recv_buf_l and recv_buf_c and view_l and view_c)
    t += "/-- `_peerIndex.erase` sites: (function, erase happens only when the entry maps to the closing session) -/\n"
    t += "def peerIndexEraseSites : List (String × Bool) := [(\"closeNow\", %s), (\"shutdownDrain\", %s)]\n" % (_lb(close_guard), _lb(drain_guard))
    t += "def closeNowEraseGuarded : Bool := %s\n" % _lb(close_guard)
    t += "def shutdownDrainEraseGuarded : Bool := %s\n" % _lb(drain_guard)
    t += "/-- `_peerIndex.emplace` sites with the guard DERIVED from the text: \"absent\" iff the emplace of `key(addr)` sits under the\n"
    t += "    not-found result of `_peerIndex.find(k)`; the found branch of readFromListener is exactly `sid = it->second` -/\n"
    t += "def peerIndexInsertSites : List (String × String) := [(\"readFromListener\", \"%s\"), (\"viaDo\", \"%s\")]\n" % (ins_rfl, ins_via)
    t += "def lookupUsesIndexedSession : Bool := %s\n" % _lb(lookup_plain)
    t += "/-- `sendDo`: the queue is over its cap when `wq.size() > maxWriteQueue` (true) or `>=` (false), tested after the push -/\n"
    t += "def clientOverflowStrict : Bool := %s\n" % _lb(ovf["s"] == ">")
    t += "def listenerOverflowStrict : Bool := %s\n" % _lb(ovf["lst"] == ">")
    t += "/-- epoll interest: does the mask handed to addEpoll / modEpoll contain EPOLLIN? (EPOLLOUT is or-ed in exactly under\n"
    t += "    `wantWrite && !wq.empty()` in updateListener/updateClient — a different condition is a translator error) -/\n"
    t += "def listenerAddArmsIn : Bool := %s\n" % _lb("EPOLLIN" in add_l)
    t += "def clientAddArmsIn : Bool := %s\n" % _lb("EPOLLIN" in add_c)
    t += "def listenerUpdateKeepsIn : Bool := %s\n" % _lb("EPOLLIN" in upd_l)
    t += "def clientUpdateKeepsIn : Bool := %s\n" % _lb("EPOLLIN" in upd_c)
    t += "def maskBases : List (String × String) := %s\n" % ltriples([("addListenerDo", "|".join(add_l)), ("connectDo", "|".join(add_c)),
                                                                     ("updateListener", "|".join(upd_l)), ("updateClient", "|".join(upd_c))])
    t += "/-- (function, call, flags argument) of every send/sendto/recv/recvfrom in the mirrored functions -/\n"
    t += "def ioCallFlags : List (String × String × String) := %s\n" % ltriples(io_flags)
    t += "/-- (function, level, option) of every setsockopt, and (function, type argument) of every socket() in the mirrored functions + addListenerDo -/\n"
    t += "def sockopts : List (String × String × String) := %s\n" % ltriples(sockopts)
    t += "def socketTypes : List (String × String) := %s\n" % ltriples(socktypes)
    t += "/-- address canonicalisation (DERIVED): `key()` = getnameinfo(NI_NUMERICHOST|NI_NUMERICSERV) host + ':' + service for both families;\n"
    t += "    `addressFromSockaddr` = inet_ntop host + ntohs(port) for both families; a ServerPeer session copies the whole source/target sockaddr -/\n"
    t += "def keyIsNumericHostColonPort : Bool := %s\n" % _lb(key_ok)
    t += "/-- key(): declared sizes of the host / service buffers, whether they hold every numeric form (NI_MAXHOST or >= 63; NI_MAXSERV or >= 6),\n"
    t += "    whether `sizeof` of exactly these buffers is what getnameinfo is told, and that a getnameinfo failure returns the empty string -/\n"
    t += "def keyHostBuffer : String := \"%s\"\ndef keyServiceBuffer : String := \"%s\"\n" % (key_host_buf.replace('"', "'"), key_serv_buf.replace('"', "'"))
    t += "def keyBuffersHoldEveryNumericForm : Bool := %s\n" % _lb(key_bufs_ok and key_passes_sizes)
    t += "def keyFailureReturnsEmpty : Bool := %s\n" % _lb(key_fail_returns_empty)
    t += "/-- the two users of key() refuse an empty key before touching _peerIndex (readFromListener: report + continue; viaDo: close the id + return false) -/\n"
    t += "def emptyKeyRefusedOnReceive : Bool := %s\ndef emptyKeyRefusedOnVia : Bool := %s\n" % (_lb(empty_rfl), _lb(empty_via))
    t += "def addressFromSockaddrIsHostAndPort : Bool := %s\n" % _lb(addr_ok)
    t += "def sessionKeepsWholePeerAddress : Bool := %s\n" % _lb(peer_copied)
    t += "/-- id counters: `std::atomic<…>` members starting at …; `_nextSessionId++` is the initialiser in exactly these functions -/\n"
    t += "def nextSessionIdAtomic : Bool := %s\ndef nextSessionIdInit : Nat := %d\n" % (_lb(sid_atomic), sid_init)
    t += "def nextListenerIdAtomic : Bool := %s\ndef nextListenerIdInit : Nat := %d\n" % (_lb(lid_atomic), lid_init)
    t += "def nextSessionIdAllocators : List String := [%s]\n" % ", ".join('"%s"' % x for x in sid_uses)
    t += "def nextSessionIdMentions : Nat := %d\n" % n_sid_mentions
    anchors = [(fn, cxxscan.body_sha(bodies[fn])) for fn in MIRRORED + ["addListenerDo", "key", "addressFromSockaddr"]]
    t += "/-- mirrored functions (udp_engine.hpp) with the SHA-256 prefix of their comment-stripped, whitespace-normalised bodies -/\n"
    t += "def anchors : List (String × String) := [%s]\n" % ", ".join('("%s", "%s")' % a for a in anchors)
    t += "end Iora.Gen.Udp\n"
    return "IoraModel/Gen/Udp.lean", t
