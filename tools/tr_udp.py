"""Translator unit `udp` -> Gen/Udp.lean (C06): TransportConfig defaults the UDP engine runs with, the size of the receive
buffer handed to recvfrom/recv, every site that mutates `_peerIndex` with the guard it sits under, and the overflow tests of
the two write queues.  Facts only; the algorithm is tied by the lockstep harness (harness/c06_udp.cpp)."""
import re
import cxxscan
from translate import TranslateError, HEADER, read

F = "include/iora/network/detail/udp_engine.hpp"
T = "include/iora/network/transport_types.hpp"


MIRRORED = ["readFromListener", "onClient", "connectDo", "viaDo", "sendDo", "flushListener", "writeClient", "closeNow", "runGc",
            "shutdownDrain", "updateListener", "updateClient", "process"]


def _cfg_default(body, typ, name):
    m = re.search(r"%s\s+%s\s*\{([^{}]*)\}\s*;" % (typ, re.escape(name)), body)
    if not m:
        raise TranslateError("TransportConfig::%s: member with a brace initialiser not found" % name)
    return m.group(1).strip()


def _num(body, typ, name):
    txt = _cfg_default(body, typ, name)
    if re.fullmatch(r"std::chrono::\w+::zero\(\)", txt):
        return 0
    try:
        return cxxscan.const_eval(txt)
    except cxxscan.ScanError as e:
        raise TranslateError("TransportConfig::%s: %s" % (name, e))


def _bool(body, name):
    txt = _cfg_default(body, "bool", name)
    if txt not in ("true", "false"):
        raise TranslateError("TransportConfig::%s: not a bool literal: %r" % (name, txt))
    return txt == "true"


def _lb(b):
    return "true" if b else "false"


GUARDED = re.compile(r"auto\s+(\w+)\s*=\s*_peerIndex\.find\(\s*([\w>\-]+)\s*\)\s*;\s*if\s*\(\s*\1\s*!=\s*_peerIndex\.end\(\)\s*&&\s*\1->second\s*==\s*([\w>\-]+)\s*\)\s*"
                     r"\{\s*_peerIndex\.erase\(\s*\1\s*\)\s*;\s*\}")
UNCOND = re.compile(r"else\s*\{\s*_peerIndex\.erase\(\s*([\w>\-]+)\s*\)\s*;\s*\}")


def _erase_site(fn, body):
    """How `fn` removes the closing session's peer key from _peerIndex: guarded (only if it maps to this session) or unconditional."""
    n = len(re.findall(r"_peerIndex\s*\.\s*erase\s*\(", body))
    if n != 1:
        raise TranslateError("%s: expected exactly one _peerIndex.erase site, found %d" % (fn, n))
    m = GUARDED.search(body)
    if m:
        key, ident = m.group(2), m.group(3)
        if (key, ident) not in (("pkey", "sid"), ("s->pkey", "s->id")):
            raise TranslateError("%s: guarded _peerIndex.erase compares unexpected operands (%s, %s)" % (fn, key, ident))
        # the guarded erase must sit in the non-client branch of the role test
        pre = body[:m.start()]
        if not re.search(r"else\s*\{\s*$", pre):
            raise TranslateError("%s: guarded _peerIndex.erase is not the body of the ServerPeer (else) branch" % fn)
        return True
    m = UNCOND.search(body)
    if m:
        if m.group(1) not in ("pkey", "s->pkey"):
            raise TranslateError("%s: _peerIndex.erase of unexpected key %s" % (fn, m.group(1)))
        return False
    raise TranslateError("%s: _peerIndex.erase site has an unrecognised shape" % fn)


def gen(repo):
    src = read(repo, F)
    tsrc = read(repo, T)
    m = re.search(r"struct\s+TransportConfig\s*\{", tsrc)
    if not m:
        raise TranslateError("struct TransportConfig not found")
    cfg = tsrc[m.end():cxxscan.match_brace(tsrc, m.end() - 1)]
    io_read_chunk = _num(cfg, r"std::size_t", "ioReadChunk")
    max_wq = _num(cfg, r"std::size_t", "maxWriteQueue")
    max_sessions = _num(cfg, r"std::size_t", "maxSessions")
    idle_s = _num(cfg, r"std::chrono::seconds", "idleTimeout")
    age_s = _num(cfg, r"std::chrono::seconds", "maxConnAge")
    stall_ms = _num(cfg, r"std::chrono::milliseconds", "writeStallTimeout")
    gc_s = _num(cfg, r"std::chrono::seconds", "gcInterval")
    cob = _bool(cfg, "closeOnBackpressure")
    edge = _bool(cfg, "useEdgeTriggered")

    # ---- receive buffers: resized to ioReadChunk, whole buffer offered to the kernel, delivered length = return value
    rfl = cxxscan.function_body(src, "readFromListener")
    oc = cxxscan.function_body(src, "onClient")
    pat_l = r"buf\.resize\(\s*_config\.ioReadChunk\s*\)\s*;.*?::recvfrom\(\s*lst->fd\s*,\s*buf\.data\(\)\s*,\s*\(int\)\s*buf\.size\(\)\s*,\s*0\s*,"
    pat_c = r"buf\.resize\(\s*_config\.ioReadChunk\s*\)\s*;.*?::recv\(\s*s->fd\s*,\s*buf\.data\(\)\s*,\s*\(int\)\s*buf\.size\(\)\s*,\s*0\s*\)"
    if not re.search(pat_l, rfl, re.S):
        raise TranslateError("readFromListener: receive buffer is not `buf.resize(_config.ioReadChunk)` offered whole to recvfrom(flags 0)")
    if not re.search(pat_c, oc, re.S):
        raise TranslateError("onClient: receive buffer is not `buf.resize(_config.ioReadChunk)` offered whole to recv(flags 0)")
    view = r"BufferView\s*\{\s*buf\.data\(\)\s*,\s*static_cast<std::size_t>\(\s*n\s*\)\s*\}"
    if not re.search(view, rfl) or not re.search(view, oc):
        raise TranslateError("data callback is not invoked with BufferView{buf.data(), n}")

    # ---- every function that mutates _peerIndex
    muts = {}
    for mm in re.finditer(r"_peerIndex\s*(?:\.\s*(emplace|erase|insert|clear|insert_or_assign|try_emplace|swap|extract|merge)\s*\(|\[)", src):
        # enclosing function = last "name(...) {"-style header among the engine's known private methods before this offset
        kind = mm.group(1) or "subscript"
        encl = None
        for fn in ("readFromListener", "viaDo", "closeNow", "shutdownDrain", "connectDo", "sendDo", "runGc", "process", "flushListener",
                   "writeClient", "onClient", "addListenerDo", "closeListenerNow", "start", "stop"):
            try:
                b = cxxscan.function_body(src, fn)
            except cxxscan.ScanError:
                continue
            at = src.find(b)
            if at <= mm.start() < at + len(b):
                encl = fn
                break
        if encl is None:
            raise TranslateError("_peerIndex is mutated (%s) outside the functions the model mirrors (offset %d)" % (kind, mm.start()))
        muts.setdefault(encl, []).append(kind)
    expect = {"readFromListener": ["emplace"], "viaDo": ["emplace"], "closeNow": ["erase"], "shutdownDrain": ["erase"]}
    if muts != expect:
        raise TranslateError("_peerIndex mutation sites changed: %r (model mirrors %r)" % (muts, expect))
    close_guard = _erase_site("closeNow", cxxscan.function_body(src, "closeNow"))
    drain_guard = _erase_site("shutdownDrain", cxxscan.function_body(src, "shutdownDrain"))
    # insertion guards
    if not re.search(r"if\s*\(\s*it\s*==\s*_peerIndex\.end\(\)\s*\)\s*\{.*?_peerIndex\.emplace\(\s*k\s*,\s*sid\s*\)\s*;", rfl, re.S):
        raise TranslateError("readFromListener: _peerIndex.emplace(k, sid) is not under `it == _peerIndex.end()`")
    via = cxxscan.function_body(src, "viaDo")
    if not re.search(r"bool\s+peerExists\s*=\s*\(\s*pit\s*!=\s*_peerIndex\.end\(\)\s*\)\s*;", via) or \
       not re.search(r"if\s*\(\s*!\s*peerExists\s*\)\s*\{\s*_peerIndex\.emplace\(\s*k\s*,\s*vr\.sid\s*\)\s*;\s*\}", via):
        raise TranslateError("viaDo: _peerIndex.emplace(k, vr.sid) is not under `!peerExists`")

    # ---- write-queue overflow tests in sendDo
    sd = cxxscan.function_body(src, "sendDo")
    ops = re.findall(r"if\s*\(\s*(s|lst)->wq\.size\(\)\s*(>=|>|==|<=|<|!=)\s*_config\.maxWriteQueue\s*\)", sd)
    if sorted(o[0] for o in ops) != ["lst", "s"]:
        raise TranslateError("sendDo: expected one overflow test per write queue (client, listener), found %r" % (ops,))
    ovf = dict(ops)
    for k, v in ovf.items():
        if v not in (">", ">="):
            raise TranslateError("sendDo: overflow test of %s->wq uses `%s`" % (k, v))

    t = HEADER % (F + ", " + T)
    t += "namespace Iora.Gen.Udp\n"
    t += "/-- `TransportConfig` defaults the UDP engine runs with (transport_types.hpp) -/\n"
    t += "def ioReadChunk : Nat := %d\n" % io_read_chunk
    t += "def maxWriteQueue : Nat := %d\n" % max_wq
    t += "def maxSessions : Nat := %d\n" % max_sessions
    t += "def idleTimeoutS : Nat := %d\n" % idle_s
    t += "def maxConnAgeS : Nat := %d\n" % age_s
    t += "def writeStallTimeoutMs : Nat := %d\n" % stall_ms
    t += "def gcIntervalS : Nat := %d\n" % gc_s
    t += "def closeOnBackpressure : Bool := %s\n" % _lb(cob)
    t += "def useEdgeTriggered : Bool := %s\n" % _lb(edge)
    t += "/-- `readFromListener` / `onClient`: the buffer is `buf.resize(_config.ioReadChunk)`, offered whole to recvfrom/recv with flags 0,\n"
    t += "    and the data callback gets `BufferView{buf.data(), n}` (checked shapes; a different shape is a translator error) -/\n"
    t += "def recvBufferIsIoReadChunk : Bool := true\n"
    t += "/-- `_peerIndex.erase` sites: (function, erase happens only when the entry maps to the closing session) -/\n"
    t += "def peerIndexEraseSites : List (String × Bool) := [(\"closeNow\", %s), (\"shutdownDrain\", %s)]\n" % (_lb(close_guard), _lb(drain_guard))
    t += "def closeNowEraseGuarded : Bool := %s\n" % _lb(close_guard)
    t += "def shutdownDrainEraseGuarded : Bool := %s\n" % _lb(drain_guard)
    t += "/-- `_peerIndex.emplace` sites and their guards (checked shapes): readFromListener under `it == end`, viaDo under `!peerExists` -/\n"
    t += "def peerIndexInsertSites : List (String × String) := [(\"readFromListener\", \"absent\"), (\"viaDo\", \"absent\")]\n"
    t += "/-- `sendDo`: the queue is over its cap when `wq.size() > maxWriteQueue` (true) or `>=` (false), tested after the push -/\n"
    t += "def clientOverflowStrict : Bool := %s\n" % _lb(ovf["s"] == ">")
    t += "def listenerOverflowStrict : Bool := %s\n" % _lb(ovf["lst"] == ">")
    # ---- anchors: every C++ function a model definition mirrors must still exist; its body hash is recorded (a changed hash is
    #      not an alarm — the lockstep decides — but it is visible in the evidence and in the diff of this file)
    anchors = []
    for fn in MIRRORED:
        try:
            anchors.append((fn, cxxscan.body_sha(cxxscan.function_body(src, fn))))
        except cxxscan.ScanError:
            raise TranslateError("mirrored function %s no longer exists in udp_engine.hpp" % fn)
    t += "/-- mirrored functions (udp_engine.hpp) with the SHA-256 prefix of their comment-stripped, whitespace-normalised bodies -/\n"
    t += "def anchors : List (String × String) := [%s]\n" % ", ".join('("%s", "%s")' % a for a in anchors)
    t += "end Iora.Gen.Udp\n"
    return "IoraModel/Gen/Udp.lean", t
