"""Translator unit `kv` -> Gen/Kv.lean (C11, C12): on-disk format constants of KVStore (magic, version, op letters,
field widths, replay bounds), API limits and configuration defaults, and the I/O skeleton of JsonFileStore::saveToFile.

Facts only; a shape that is not recognised raises TranslateError (never a default)."""
import re
import cxxscan
from translate import TranslateError, HEADER, read


def _env(src):
    """All `static constexpr <integral type> NAME = <expr>;` of the file, evaluated in order."""
    env = {}
    for m in re.finditer(r"static\s+constexpr\s+(?:std::)?(?:size_t|u?int\d+_t)\s+(\w+)\s*=\s*([^;]+);", src):
        name, expr = m.group(1), m.group(2)
        if "time_point::max()" in expr:
            # last whole millisecond of system_clock::time_point: evaluated for the int64-nanosecond clock of libstdc++/Linux
            # (the harness prints the value the compiler computed; the plugin compares it with the generated one)
            mm = re.fullmatch(r"\s*std::chrono::duration_cast<\s*std::chrono::milliseconds\s*>\(\s*std::chrono::system_clock::time_point::max\(\)"
                              r"\.time_since_epoch\(\)\s*\)\s*\.count\(\)\s*", expr)
            if not mm:
                raise TranslateError("constant %s: unsupported time_point expression %r" % (name, expr))
            env[name] = (2 ** 63 - 1) // 1000000
            continue
        mt = re.fullmatch(r"\s*(\w+)\s*<\s*([\d'uUlL]+)\s*\?\s*(\w+)\s*:\s*([\d'uUlL]+)\s*", expr)
        if mt and mt.group(1) == mt.group(3) and mt.group(2) == mt.group(4):
            if mt.group(1) not in env:
                raise TranslateError("constant %s: unknown name %s" % (name, mt.group(1)))
            env[name] = min(env[mt.group(1)], ceval(mt.group(2), env, name))
            continue
        if "numeric_limits" in expr:
            mm = re.fullmatch(r"\s*std::numeric_limits<\s*std::int64_t\s*>::min\(\)\s*", expr)
            if not mm:
                raise TranslateError("constant %s: unsupported numeric_limits expression %r" % (name, expr))
            env[name] = -(2 ** 63)
            continue
        env[name] = ceval(expr, env, name)
    return env


def ceval(expr, env, what):
    e = expr
    for k in sorted(env, key=len, reverse=True):
        e = re.sub(r"\b%s\b" % re.escape(k), "(%d)" % env[k], e)
    e = e.replace("u", "").replace("U", "") if re.fullmatch(r"[0-9uU\s*+\-()']+", e) else e
    try:
        return cxxscan.const_eval(e)
    except cxxscan.ScanError as ex:
        raise TranslateError("%s: %s" % (what, ex))


def _one(pattern, text, what, flags=re.S):
    ms = re.findall(pattern, text, flags)
    if len(ms) != 1:
        raise TranslateError("%s: expected exactly one match of %s, found %d" % (what, pattern, len(ms)))
    return ms[0]


def _calls(text, callee):
    """Argument texts of every call `callee(...)` in `text` (balanced parentheses)."""
    out = []
    for m in re.finditer(re.escape(callee) + r"\s*\(", text):
        i = m.end()
        depth = 1
        j = i
        while j < len(text) and depth:
            depth += text[j] == "("
            depth -= text[j] == ")"
            j += 1
        out.append(text[i:j - 1])
    return out


def _method(src, header_re, what):
    """Body of the member function whose header matches `header_re` (exactly one definition expected)."""
    ms = list(re.finditer(header_re + r"\s*(?:const\s*)?\{", src))
    if len(ms) != 1:
        raise TranslateError("%s: expected exactly one definition, found %d" % (what, len(ms)))
    k = ms[0].end() - 1
    return src[k + 1:cxxscan.match_brace(src, k)]


# ------------------------------------------------------------------ lock scopes (C12: get() ∥ writer, seed C12-c)
# Which RAII guard on _mutex / _cacheMutex is live at every access to _cache, _kv and _expiry.  A guard `std::xxx_lock<std::shared_mutex>
# v(m);` is live from its declaration to the end of the block that contains it; manual unlock/lock and guard-less locking are shapes
# this extraction does not have (TranslateError), except the one failure path of startTtlOrCleanup (unlock; shutdown(); throw;).
_KW = {"if", "while", "for", "switch", "catch", "return", "sizeof", "decltype", "noexcept", "alignas", "static_assert"}


def _class_methods(src, cls):
    """Every member-function definition written inside `class cls { ... }`: list of (name, header, body).  Overloads are kept apart.
    Nested types are skipped whole (their members are not member functions of `cls`)."""
    m = re.search(r"\bclass\s+%s\b[^;{]*\{" % re.escape(cls), src)
    if not m:
        raise TranslateError("class %s not found" % cls)
    lo, hi = m.end(), cxxscan.match_brace(src, m.end() - 1)
    out = []
    i = lo
    start = lo          # start of the current declaration
    while i < hi:
        c = src[i]
        if c == '"' or c == "'":
            q = c
            i += 1
            while i < hi and src[i] != q:
                i += 2 if src[i] == "\\" else 1
            i += 1
        elif c == ";":
            start = i + 1
            i += 1
        elif c == "{":
            end = cxxscan.match_brace(src, i)
            header = src[start:i]
            mh = None
            if not re.search(r"\b(struct|class|enum|union|namespace)\b", header) and not re.search(r"=\s*$", header):
                for mm in re.finditer(r"(~?\w+)\s*\(", header):
                    if mm.group(1) not in _KW:
                        mh = mm
                        break
            if mh:
                out.append((mh.group(1), " ".join(header.split()), src[i + 1:end]))
            # `T x{..};` / `T x = {..};` member initialisers and nested types end at the next ';'; a function body ends here
            i = end + 1
            if mh:
                start = i
        else:
            i += 1
    return out


def _scope_end(body, pos):
    """Index in `body` where the block enclosing `pos` ends (len(body) for the function's outermost block)."""
    depth = 0
    i = pos
    while i < len(body):
        c = body[i]
        if c == '"' or c == "'":
            q = c
            i += 1
            while i < len(body) and body[i] != q:
                i += 2 if body[i] == "\\" else 1
        elif c == "{":
            depth += 1
        elif c == "}":
            if depth == 0:
                return i
            depth -= 1
        i += 1
    return len(body)


_LOCK_RE = re.compile(r"std::(shared_lock|unique_lock|lock_guard|scoped_lock)\s*<\s*std::shared_mutex\s*>\s+(\w+)\s*\(\s*(_mutex|_cacheMutex)\s*\)\s*;")
_CACHE_WRITE_RE = re.compile(r"\b_cache\s*\.\s*(?:erase|clear|insert|emplace|try_emplace|insert_or_assign|swap|rehash|reserve|extract|merge)\s*\(|\b_cache\s*\[[^\]]*\]\s*=(?!=)|\b_cache\s*=(?!=)")
_CACHE_READ_RE = re.compile(r"\b_cache\s*\.\s*(?:find|count|at|size|empty|contains)\s*\(")
_STORE_WRITE_RE = re.compile(r"\b(?:_kv|_expiry)\s*\.\s*(?:erase|clear|insert|emplace|try_emplace|insert_or_assign|swap|extract|merge)\s*\(|\b(?:_kv|_expiry)\s*\[[^\]]*\]\s*=(?!=)|\b(?:_kv|_expiry)\s*=(?!=)")
_STORE_READ_RE = re.compile(r"\b(?:_kv|_expiry)\s*\.\s*(?:find|count|at|size|empty|contains|begin|end)\s*\(")


def locks_of(body):
    """(position, mode 'S'|'X', mutex, end of scope, variable) of every RAII lock on a std::shared_mutex declared in `body`."""
    out = []
    for m in _LOCK_RE.finditer(body):
        out.append((m.end(), "S" if m.group(1) == "shared_lock" else "X", m.group(3), _scope_end(body, m.end()), m.group(2)))
    return out


def held(locks, pos, mutex, modes):
    return [l for l in locks if l[2] == mutex and l[1] in modes and l[0] <= pos < l[3]]


def _lock_facts(src):
    ms = _class_methods(src, "KVStore")
    by_name = {}
    for name, header, body in ms:
        by_name.setdefault(name, []).append((header, body))
    # manual unlock/lock/release of a shared_mutex guard: only the failure path of startTtlOrCleanup (unlock; shutdown(); throw;)
    for n, h, b in ms:
        for mm in re.finditer(r"\b(\w+)\s*\.\s*(unlock|lock|release|try_lock)\s*\(\s*\)", b):
            var = mm.group(1)
            if re.search(r"std::(?:unique_lock|shared_lock)\s*<\s*std::shared_mutex\s*>\s*&?\s*%s\b" % re.escape(var), h + b):
                tail = re.sub(r"\s+", "", b[mm.end():mm.end() + 40])
                if not (n == "startTtlOrCleanup" and mm.group(2) == "unlock" and tail.startswith(";shutdown();throw;")):
                    raise TranslateError("lock scopes: manual %s.%s() in %s is a shape the lock-scope extraction does not have" % (var, mm.group(2), n))
    if re.search(r"\b(_mutex|_cacheMutex)\s*\.\s*(lock|unlock|lock_shared|unlock_shared|try_lock)\w*\s*\(", src):
        raise TranslateError("lock scopes: _mutex/_cacheMutex locked without an RAII guard")
    # ---- (1) every access to _cache happens under _cacheMutex (writes: exclusive) taken in the same function
    cache_fns = []
    cache_ok = True
    for name, header, body in ms:
        locks = locks_of(body)
        w = [m.start() for m in _CACHE_WRITE_RE.finditer(body)]
        r = [m.start() for m in _CACHE_READ_RE.finditer(body)]
        if w or r:
            cache_fns.append(name)
        for p in w:
            cache_ok &= bool(held(locks, p, "_cacheMutex", "X"))
        for p in r:
            cache_ok &= bool(held(locks, p, "_cacheMutex", "SX"))
    want_fns = ["clear", "compactLocked", "evictionCallback", "get", "invalidateCache", "remove", "set", "set", "setBatch", "setBatch", "updateCache"]
    if sorted(cache_fns) != want_fns:
        raise TranslateError("lock scopes: _cache is accessed in %r, expected %r" % (sorted(cache_fns), want_fns))
    # ---- (2) get(): the value/expiry lookup and the cache refill happen under ONE hold of _mutex
    if len(by_name.get("get", [])) != 1:
        raise TranslateError("lock scopes: expected exactly one get(), found %d" % len(by_name.get("get", [])))
    gh, gb = by_name["get"][0]
    glocks = locks_of(gb)
    refills = [m.start() for m in re.finditer(r"\bupdateCache\s*\(", gb)]
    if len(refills) != 1:
        raise TranslateError("lock scopes: get() calls updateCache %d times, expected once" % len(refills))
    store_reads = [m.start() for m in _STORE_READ_RE.finditer(gb)]
    if not store_reads or _STORE_WRITE_RE.search(gb):
        raise TranslateError("lock scopes: get() does not read _kv/_expiry, or writes them")
    hold = held(glocks, refills[0], "_mutex", "SX")
    get_ok = bool(hold) and all(any(l[0] <= p < l[3] for l in hold) for p in store_reads)
    # the fast path reads the cache under _cacheMutex only (no _mutex held): it blocks no writer
    fast = [m.start() for m in _CACHE_READ_RE.finditer(gb)]
    fast_ok = bool(fast) and all(not held(glocks, p, "_mutex", "SX") for p in fast)
    # ---- (3) every other function that touches the cache (directly or through updateCache/invalidateCache) and every function that
    # writes _kv/_expiry does so while _mutex is held exclusively: by a guard of its own, or (function without a guard on _mutex)
    # because every call site of it is.  load() and the expiry sweep run in the constructor only (no other thread has the object).
    def callers(fn):
        out = []
        for name, header, body in ms:
            for m in re.finditer(r"(?<![\w.>:])%s\s*\(" % re.escape(fn), body):
                out.append((name, header, body, m.start()))
        return out

    def under_x(name, body, pos, seen):
        locks = locks_of(body)
        if held(locks, pos, "_mutex", "X"):
            return True
        if any(l[2] == "_mutex" for l in locks):
            return False                      # has a guard on _mutex, but not around this site
        if name in seen:
            return False
        cs = callers(name)
        cs = [c for c in cs if c[0] != name]
        if not cs:
            return False
        return all(under_x(c[0], c[2], c[3], seen | {name}) for c in cs)

    mctor = re.search(r"load\(\);\s*(\w+)\(\);\s*openLogFile\(\);", src)
    ctor_only = {"load", "KVStore"} | ({mctor.group(1)} if mctor else set())
    writers_ok = True
    store_ok = True
    writer_fns = []
    for name, header, body in ms:
        if name in ("get", "updateCache", "invalidateCache"):
            continue
        sites = [m.start() for m in _CACHE_WRITE_RE.finditer(body)] + [m.start() for m in re.finditer(r"\b(?:updateCache|invalidateCache)\s*\(", body)]
        if sites:
            writer_fns.append(name)
        for p in sites:
            writers_ok &= under_x(name, body, p, frozenset())
        if name not in ctor_only:
            for m in _STORE_WRITE_RE.finditer(body):
                store_ok &= under_x(name, body, m.start(), frozenset())
    want_writers = ["clear", "compactLocked", "evictionCallback", "expireAt", "persist", "remove", "set", "set", "setBatch", "setBatch"]
    if sorted(writer_fns) != want_writers:
        raise TranslateError("lock scopes: the cache is updated in %r, expected %r" % (sorted(writer_fns), want_writers))
    # updateCache / invalidateCache are called from get() and from the writers only
    for fn in ("updateCache", "invalidateCache"):
        who = sorted(set(c[0] for c in callers(fn)))
        if not set(who) <= set(want_writers) | {"get"}:
            raise TranslateError("lock scopes: %s is called from %r" % (fn, who))
    # ---- (4) every READ of _kv/_expiry outside the constructor-only functions happens while _mutex is held (shared or exclusive): by a
    # guard of the function itself, or (function without a guard on _mutex) because every call site of it is
    def under_any(name, body, pos, seen):
        locks = locks_of(body)
        if held(locks, pos, "_mutex", "SX"):
            return True
        if any(l[2] == "_mutex" for l in locks):
            return False
        if name in seen:
            return False
        cs = [c for c in callers(name) if c[0] != name]
        if not cs:
            return False
        return all(under_any(c[0], c[2], c[3], seen | {name}) for c in cs)

    readers_ok = True
    reader_fns = []
    _rd = re.compile(r"\b(?:_kv|_expiry)\b(?!\s*=(?!=))")
    for name, header, body in ms:
        if name in ctor_only or name.startswith("~"):
            continue
        sites = [m.start() for m in _rd.finditer(body)]
        if sites:
            reader_fns.append(name)
        for p in sites:
            readers_ok &= under_any(name, body, p, frozenset())
    for need in ("exists", "ttl", "size", "get", "getBatch", "keys"):
        if need not in reader_fns:
            raise TranslateError("lock scopes: %s() does not mention _kv/_expiry any more (reader functions found: %r)" % (need, sorted(set(reader_fns))))
    return {"cache": cache_ok, "get": get_ok, "fast": fast_ok, "writers": writers_ok, "store": store_ok, "readers": readers_ok}



# ------------------------------------------------------------------ JsonFileStore: constructor limits and the lock scope of the save
def _json_ctor_limits(repo, jsrc):
    """The ParseLimits the constructor parses its own file with: `Json::parseOrThrow(content, ownFileLimits())` with every field of
    ownFileLimits() assigned explicitly, or `file >> _store` (operator>>: the ParseLimits defaults of json.hpp)."""
    psrc = read(repo, "include/iora/parsers/json.hpp")
    m = re.search(r"struct\s+ParseLimits\s*\{", psrc)
    if not m:
        raise TranslateError("json.hpp: struct ParseLimits not found")
    body = psrc[m.end():cxxscan.match_brace(psrc, m.end() - 1)]
    defaults = {}
    for mm in re.finditer(r"std::size_t\s+(\w+)\s*\{\s*([\d']+)\s*\}\s*;", body):
        defaults[mm.group(1)] = int(mm.group(2).replace("'", ""))
    fields = ["arrayItemsMax", "membersMax", "depthMax", "stringLengthMax"]
    if sorted(defaults) != sorted(fields):
        raise TranslateError("json.hpp: ParseLimits fields %r, expected %r" % (sorted(defaults), sorted(fields)))
    mc = re.search(r"explicit\s+JsonFileStore\s*\([^)]*\)[^{]*\{", jsrc)
    if not mc:
        raise TranslateError("JsonFileStore: constructor not found")
    ctor = jsrc[mc.end():cxxscan.match_brace(jsrc, mc.end() - 1)]
    reads = re.findall(r"file\s*>>\s*_store\s*;|_store\s*=\s*parsers::Json::parseOrThrow\(\s*content\s*,\s*ownFileLimits\(\)\s*\)\s*;|_store\s*=\s*parsers::Json::parse\w*\([^;]*;", ctor)
    if len(reads) != 1:
        raise TranslateError("JsonFileStore constructor: expected exactly one read of the file into _store, found %d" % len(reads))
    if not re.search(r"catch\s*\(const std::exception &\w+\)\s*\{[^}]*_store\s*=\s*parsers::Json::object\(\)\s*;", ctor):
        raise TranslateError("JsonFileStore constructor: the parse-error fall-back `_store = parsers::Json::object()` is not there (the model's openStore has it)")
    rd = re.sub(r"\s+", "", reads[0])
    if rd == "file>>_store;":
        return defaults
    if rd != "_store=parsers::Json::parseOrThrow(content,ownFileLimits());":
        raise TranslateError("JsonFileStore constructor: unrecognised read of the file %r" % reads[0])
    if not re.search(r"const std::string content\(\(std::istreambuf_iterator<char>\(file\)\),\s*std::istreambuf_iterator<char>\(\)\);", ctor):
        raise TranslateError("JsonFileStore constructor: `content` is not the whole file")
    ofl = _method(jsrc, r"static\s+parsers::ParseLimits\s+ownFileLimits\s*\(\s*\)", "ownFileLimits")
    out = dict(defaults)
    if not re.search(r"parsers::ParseLimits\s+limits\s*;", ofl) or not re.search(r"return\s+limits\s*;\s*$", ofl.strip()):
        raise TranslateError("ownFileLimits: unexpected shape")
    assigned = re.findall(r"limits\.(\w+)\s*=\s*([^;]+);", ofl)
    for name, expr in assigned:
        if name not in out:
            raise TranslateError("ownFileLimits: unknown field %s" % name)
        e = re.sub(r"\s+", "", expr)
        if e == "std::numeric_limits<std::size_t>::max()":
            out[name] = 2 ** 64 - 1
        elif re.fullmatch(r"[\d']+", e):
            out[name] = int(e.replace("'", ""))
        else:
            raise TranslateError("ownFileLimits: unsupported value %r for %s" % (expr, name))
    return out


def _json_lock_fact(jsrc, stf, via_tmp):
    """True iff (a) saveToFile itself opens <file>.tmp and renames it (the file operations are not handed to a helper), (b) every call of
    saveToFile() and the `_dirty = false` that follows it lie inside ONE `std::lock_guard<std::mutex> x(_mutex);` scope of the caller, with no
    manual unlock, (c) set / remove / flush / tryFlushIfDirty take that guard as their first statement."""
    ms = _class_methods(jsrc, "JsonFileStore")
    guard = re.compile(r"std::(?:lock_guard|unique_lock|scoped_lock)\s*<\s*std::mutex\s*>\s+(\w+)\s*\(\s*_mutex\s*\)\s*;")
    if re.search(r"\b_mutex\s*\.\s*(?:lock|unlock|try_lock)\s*\(", jsrc):
        raise TranslateError("JsonFileStore: _mutex locked without an RAII guard")
    ok = via_tmp
    # (a) all file operations on _filename / tmpName happen inside saveToFile
    for name, header, body in ms:
        if name in ("saveToFile", "JsonFileStore"):
            continue
        if re.search(r"std::ofstream|std::rename\s*\(|std::filesystem::rename\s*\(|\bfopen\s*\(|std::remove\s*\(", body):
            ok = False                                     # a helper writes the file: the lock scope of saveToFile's callers says nothing about it
    callers = []
    for name, header, body in ms:
        for m in re.finditer(r"(?<![\w.>:])saveToFile\s*\(\s*\)\s*;", body):
            callers.append((name, body, m.start(), m.end()))
    if sorted(c[0] for c in callers) != ["flush", "tryFlushIfDirty"]:
        raise TranslateError("JsonFileStore: saveToFile() is called from %r, expected flush and tryFlushIfDirty" % sorted(c[0] for c in callers))
    for name, body, a, b in callers:
        gs = [(g.end(), _scope_end(body, g.end()), g.group(1)) for g in guard.finditer(body)]
        live = [g for g in gs if g[0] <= a < g[1]]
        if not live:
            ok = False
            continue
        g0 = live[0]
        if re.search(r"\b%s\s*\.\s*(?:unlock|release)\s*\(" % re.escape(g0[2]), body):
            ok = False
        md = re.match(r"\s*_dirty\s*=\s*false\s*;", body[b:])
        if not md or not (b + md.end() <= g0[1]):
            ok = False                                     # `_dirty = false` is not the statement right after saveToFile(), inside the same guard
        if len(re.findall(r"\b_dirty\s*=\s*false\b", body)) != 1:
            ok = False
    # (c) the mutators and the two flushers take the guard first
    for fn in ("set", "remove", "flush", "tryFlushIfDirty"):
        bodies = [b for n, h, b in ms if n == fn]
        if not bodies:
            raise TranslateError("JsonFileStore: %s() not found" % fn)
        for b in bodies:
            if not guard.match(b.strip()):
                ok = False
    dtor = [b for n, h, b in ms if n == "~JsonFileStore"]
    if len(dtor) != 1 or not re.search(r"unregisterStore\(\);\s*flush\(\);", dtor[0]):
        raise TranslateError("JsonFileStore: the destructor is not `unregisterStore(); flush();`")
    return ok


def gen(repo):
    f = "include/iora/storage/kvstore.hpp"
    j = "include/iora/storage/json_file_store.hpp"
    src = read(repo, f)
    jsrc = read(repo, j)
    env = _env(src)
    for need in ("MAX_KEY_LENGTH", "MAX_VALUE_LENGTH", "NO_EXPIRY_SENTINEL", "kMaxPlausibleEpochMs"):
        if need not in env:
            raise TranslateError("constant %s not found" % need)

    # ---- KVStoreConfig defaults
    cfg_m = re.search(r"struct\s+KVStoreConfig\s*\{", src)
    if not cfg_m:
        raise TranslateError("struct KVStoreConfig not found")
    cfg = src[cfg_m.end():cxxscan.match_brace(src, cfg_m.end() - 1)]
    magic = ceval(_one(r"uint32_t\s+magicNumber\s*=\s*([^;]+);", cfg, "magicNumber"), env, "magicNumber")
    max_log = ceval(_one(r"uint32_t\s+maxLogSizeBytes\s*=\s*([^;]+);", cfg, "maxLogSizeBytes"), env, "maxLogSizeBytes")
    max_cache = ceval(_one(r"uint32_t\s+maxCacheSize\s*=\s*([^;]+);", cfg, "maxCacheSize"), env, "maxCacheSize")
    bg = _one(r"bool\s+enableBackgroundCompaction\s*=\s*(\w+)\s*;", cfg, "enableBackgroundCompaction")
    if bg not in ("true", "false"):
        raise TranslateError("enableBackgroundCompaction default: %r" % bg)

    # ---- writer: writeLogEntry (field order and widths, which ops carry which fields), writeHeader, writeKeyValue
    wle = _method(src, r"void\s+writeLogEntry\s*\([^)]*\)", "writeLogEntry")
    has_exp = sorted(re.findall(r"op\s*==\s*'(\w)'", _one(r"const\s+bool\s+hasExpiry\s*=\s*\(([^;]+)\)\s*;", wle, "hasExpiry")))
    has_val = sorted(re.findall(r"op\s*==\s*'(\w)'", _one(r"const\s+bool\s+hasValue\s*=\s*\(([^;]+)\)\s*;", wle, "hasValue")))
    # order of the appends into `buffer`
    order = []
    for m in re.finditer(r"buffer\.push_back\(static_cast<uint8_t>\(op\)\)|appendRaw\(buffer,\s*&(\w+),\s*(\d+)\)|buffer\.insert\(buffer\.end\(\),\s*(\w+)\.begin\(\)", wle):
        if m.group(0).startswith("buffer.push_back"):
            order.append(("op", 1))
        elif m.group(1):
            order.append((m.group(1), int(m.group(2))))
        else:
            order.append((m.group(3), 0))
    want = [("op", 1), ("keyLen", 4), ("key", 0), ("expiryMs", 8), ("valLen", 4), ("value", 0)]
    if order != want:
        raise TranslateError("writeLogEntry: field order/widths %r, expected %r" % (order, want))
    if not re.search(r"uint32_t\s+totalLen\s*=\s*static_cast<uint32_t>\(buffer\.size\(\)\)\s*\+\s*4\s*;", wle):
        raise TranslateError("writeLogEntry: totalLen is not buffer.size() + 4")
    writes = [re.sub(r"\s+", "", w) for w in _calls(wle, "_logStream.write")]
    if writes != ["reinterpret_cast<constchar*>(&totalLen),4", "reinterpret_cast<constchar*>(buffer.data()),buffer.size()",
                  "reinterpret_cast<constchar*>(&checksum),4"]:
        raise TranslateError("writeLogEntry: stream writes %r" % (writes,))
    if not re.search(r"uint32_t\s+checksum\s*=\s*crc32\(buffer\)\s*;", wle):
        raise TranslateError("writeLogEntry: checksum is not crc32(buffer)")
    if not re.search(r"_logStream\.flush\(\)\s*;\s*$", wle.strip()):
        raise TranslateError("writeLogEntry: does not end with _logStream.flush()")
    wh = _method(src, r"bool\s+writeHeader\s*\([^)]*\)", "writeHeader")
    snap_ver = ceval(_one(r"uint32_t\s+version\s*=\s*([^;]+);", wh, "writeHeader version"), env, "snapshot version")
    wkv = _method(src, r"bool\s+writeKeyValue\s*\([^)]*\)", "writeKeyValue")
    kv_order = re.findall(r"out\.write\((?:reinterpret_cast<const char \*>\()?&?(\w+)(?:\.data\(\))?\)?,\s*(sizeof\(\w+\)|\w+)\)", wkv)
    if [a for a, _ in kv_order] != ["keyLen", "key", "expiryMs", "valLen", "value"]:
        raise TranslateError("writeKeyValue: field order %r" % (kv_order,))
    # ---- op letters used by the public API
    letters = sorted(set(re.findall(r"writeLogEntry\('(\w)'", src)))
    # ---- reader: load()
    ld = _method(src, r"void\s+load\s*\(\s*\)", "load")
    versions = sorted(int(x) for x in re.findall(r"version\s*!=\s*(\d+)", _one(r"\(version\s*!=[^)]*\)", ld, "accepted snapshot versions")))
    # snapshot entry count: the repaired shape bounds it by what the rest of the file can hold at kMinSnapshotEntryBytes per entry
    # (`here` = position right after the count field, `fileEnd` = end of the file); the old shape is a constant ceiling
    cnt_sites = re.findall(r"\bcount\s*>\s*([^;{]+?)\)\s*\{\s*throw", ld)
    if len(cnt_sites) != 1:
        raise TranslateError("load: expected exactly one `count > ...` refusal of the snapshot entry count, found %d" % len(cnt_sites))
    cexpr = re.sub(r"\s+", "", cnt_sites[0])
    count_const = None
    count_from_size = False
    min_entry = 0
    mfs = re.fullmatch(r"static_cast<std::uint64_t>\(fileEnd-here\)/(\w+)", cexpr)
    if mfs:
        shape = re.search(r"snapshot\.read\(reinterpret_cast<char \*>\(&count\), sizeof\(count\)\)\)\s*\{[^}]*\}\s*(?://[^\n]*\n\s*)*\{\s*"
                          r"const std::streamoff here = static_cast<std::streamoff>\(snapshot\.tellg\(\)\);\s*"
                          r"snapshot\.seekg\(0, std::ios::end\);\s*"
                          r"const std::streamoff fileEnd = static_cast<std::streamoff>\(snapshot\.tellg\(\)\);\s*"
                          r"snapshot\.seekg\(here, std::ios::beg\);\s*"
                          r"if \(here < 0 \|\| fileEnd < here \|\|", ld)
        if not shape:
            raise TranslateError("load: the file-size bound of the snapshot count does not have the recognised shape (here = tellg right after the count, fileEnd = tellg at the end, seek back)")
        if mfs.group(1) not in env:
            raise TranslateError("load: snapshot count divisor %s is not a known constant" % mfs.group(1))
        min_entry = env[mfs.group(1)]
        count_from_size = True
    else:
        count_const = ceval(cnt_sites[0], env, "snapshot count bound")
    # compactLocked: the count field and the refusal of a count that does not fit it, before the temp file is opened
    cl = _method(src, r"void\s+compactLocked\s*\(\s*\)", "compactLocked")
    mcw = re.search(r"(u?int\d+_t)\s+count\s*=\s*static_cast<\1>\(survivors\.size\(\)\)\s*;", cl)
    if not mcw or mcw.group(1) != "uint32_t":
        raise TranslateError("compactLocked: the snapshot count is not written as `uint32_t count = static_cast<uint32_t>(survivors.size())`")
    if not re.search(r"out\.write\(reinterpret_cast<const char \*>\(&count\), sizeof\(count\)\)", cl):
        raise TranslateError("compactLocked: count is not written with sizeof(count)")
    mref = re.search(r"if\s*\(\s*(?:survivors|_kv)\.size\(\)\s*>\s*std::numeric_limits<uint32_t>::max\(\)\s*\)\s*\{\s*throw\b", cl)
    mopen = re.search(r"std::ofstream\s+out\(_tempPath", cl)
    if not mopen:
        raise TranslateError("compactLocked: open of the temp file not found")
    compact_refuses = bool(mref and mref.start() < mopen.start())
    # every comparison in which keyLen / valLen is the left operand, in source order: exactly the two key sites (snapshot, log)
    # and the three value sites (snapshot, 'S' arm, 'E' arm), each with the operator the model uses
    def sites(var):
        out = []
        for m in re.finditer(r"(?:\(|\|\|)\s*%s\s*(==|!=|>=|<=|>|<)\s*([^|)&;]+?)\s*(?=\)|\|\||&&)" % var, ld):
            out.append((m.group(1), ceval(m.group(2), env, var + " comparison")))
        return out
    ksites = sites("keyLen")
    if len(ksites) != 4 or ksites[0] != ("==", 0) or ksites[2] != ("==", 0) or ksites[1][0] != ">" or ksites[3] != ksites[1]:
        raise TranslateError("load: key length sites %r, expected [== 0, > N] at the snapshot site and at the log site" % (ksites,))
    vsites = sites("valLen")
    if len(vsites) != 3 or any(o != ">" for o, _ in vsites) or len(set(v for _, v in vsites)) != 1:
        raise TranslateError("load: value length sites %r, expected three `valLen > N` (snapshot, 'S' arm, 'E' arm)" % (vsites,))
    klens = {ksites[1][1]}
    vlens = {vsites[0][1]}
    # the remaining bounds checks of the arms (shape): value + crc within the buffer, expiry + valLen / crc within the buffer
    for pat, what in ((r"ptr\s*\+\s*valLen\s*\+\s*4\s*>\s*end", "value+crc bound"), (r"ptr\s*\+\s*8\s*\+\s*4\s*>\s*end", "expiry bound"),
                      (r"ptr\s*\+\s*keyLen\s*>\s*end", "key bound"), (r"ptr\s*\+\s*4\s*>\s*end", "length field bound")):
        n = len(re.findall(pat, ld))
        want = {"value+crc bound": 2, "expiry bound": 2, "key bound": 1, "length field bound": 2}[what]
        if n != want:
            raise TranslateError("load: %s occurs %d times, expected %d" % (what, n, want))
    tl = re.search(r"totalLen\s*<\s*([\w\s*+]+?)\s*\|\|\s*totalLen\s*>\s*([\w\s*+]+?)\s*\)", ld)
    if not tl:
        raise TranslateError("load: totalLen bounds not found")
    tl_min = ceval(tl.group(1), env, "totalLen lower bound")
    tl_max = ceval(tl.group(2), env, "totalLen upper bound")
    rd_ops = sorted(set(re.findall(r"op\s*!=\s*'(\w)'", _one(r"if\s*\(\s*(op\s*!=\s*'\w'[^)]*)\)", ld, "accepted op letters"))))
    vle = _method(src, r"bool\s+validateLogEntry\s*\([^)]*\)", "validateLogEntry")
    vmin = ceval(_one(r"buffer\.size\(\)\s*<\s*(\w+)", vle, "validateLogEntry minimum"), env, "validateLogEntry minimum")
    pl = _method(src, r"static\s+bool\s+isPlausibleEpochMs\s*\([^)]*\)", "isPlausibleEpochMs")
    if not re.fullmatch(r"\s*return\s+ms\s*!=\s*NO_EXPIRY_SENTINEL\s*&&\s*ms\s*>\s*0\s*&&\s*ms\s*<=\s*kMaxPlausibleEpochMs\s*;\s*", pl):
        raise TranslateError("isPlausibleEpochMs: unexpected shape %r" % pl.strip())
    # repairs the model depends on (shape facts; the behaviour itself is tied by lockstep on images)
    truncates_tail = bool(re.search(r"resize_file\s*\(\s*_logPath", ld))
    # how goodEnd (the torn-tail cut) is advanced: recognised shape = exactly one write to goodEnd inside the replay loop, namely
    # `goodEnd = <streamoff>(log.tellg());` as the statement right after the `if (!log.read(buffer...)) { break; }` block, i.e. before
    # any `continue` of the loop body; any other write to goodEnd, or a different position, is a shape the model does not have
    good_end_ok = False
    if truncates_tail:
        mw = re.search(r"while\s*\(\s*log\.peek\(\)\s*!=\s*EOF\s*\)\s*\{", ld)
        if not mw:
            raise TranslateError("load: replay loop `while (log.peek() != EOF)` not found")
        loop = ld[mw.end():cxxscan.match_brace(ld, mw.end() - 1)]
        writes = re.findall(r"\bgoodEnd\s*(?:=(?!=)|\+=|-=|\+\+|--)|(?:\+\+|--)\s*goodEnd\b", loop)
        after_read = re.search(r"if\s*\(\s*!\s*log\.read\(\s*reinterpret_cast<char \*>\(buffer\.data\(\)\)\s*,\s*totalLen\s*\)\s*\)\s*\{\s*break\s*;\s*\}\s*"
                               r"goodEnd\s*=\s*static_cast<std::streamoff>\(\s*log\.tellg\(\)\s*\)\s*;", loop)
        if len(writes) != 1 or not after_read or "continue" in loop[:after_read.end()]:
            raise TranslateError("load: goodEnd is not advanced by `goodEnd = static_cast<std::streamoff>(log.tellg());` right after the complete body read "
                                 "(writes to goodEnd in the loop: %d, expected statement %s, `continue` before it: %s) - the model's replayLoop counts every record that "
                                 "was read completely" % (len(writes), "found" if after_read else "NOT found", bool(after_read and "continue" in loop[:after_read.end()])))
        if len(re.findall(r"\bgoodEnd\b", ld.replace(loop, ""))) != 3:      # declaration, the comparison with fileSize, the resize_file argument
            raise TranslateError("load: goodEnd is used outside the loop in an unexpected way")
        good_end_ok = True
    # (a) load() itself never looks at the clock, (b) the constructor runs load(); <sweep>(); openLogFile(); and (c) the sweep
    # drops exactly the entries of _expiry with expiry <= now, from both maps
    sweeps_once = False
    mctor = re.search(r"load\(\);\s*(\w+)\(\);\s*openLogFile\(\);", src)
    if mctor and not re.search(r"\bnow\b", ld):
        try:
            sw = _method(src, r"void\s+%s\s*\(\s*\)" % re.escape(mctor.group(1)), mctor.group(1))
            sweeps_once = bool(re.search(r"it->second\.expiry\s*<=\s*now", sw) and re.search(r"_kv\.erase\(it->first\)", sw)
                               and re.search(r"it\s*=\s*_expiry\.erase\(it\)", sw) and re.search(r"system_clock::now\(\)", sw))
        except TranslateError:
            sweeps_once = False
    # ---- validateKeyValue
    vkv = _method(src, r"void\s+validateKeyValue\s*\([^)]*\)", "validateKeyValue")
    if not (re.search(r"key\.size\(\)\s*>\s*MAX_KEY_LENGTH", vkv) and re.search(r"value\.size\(\)\s*>\s*MAX_VALUE_LENGTH", vkv) and re.search(r"key\.empty\(\)", vkv)):
        raise TranslateError("validateKeyValue: unexpected shape")
    # ---- JsonFileStore::saveToFile skeleton
    stf = _method(jsrc, r"void\s+saveToFile\s*\(\s*\)", "saveToFile")
    opens = re.findall(r"std::ofstream\s+\w+\(([^)]*)\)", stf)
    renames = re.findall(r"(?:std::rename|std::filesystem::rename)\s*\(([^;]*?)\)\s*(?:==|;|\))", stf)
    in_place = any(o.split(",")[0].strip() == "_filename" for o in opens)
    via_tmp = (not in_place) and len(renames) == 1 and "_filename" in renames[0]
    if not opens:
        raise TranslateError("saveToFile: no ofstream open found")

    t = HEADER % (f + ", " + j)
    t += "namespace Iora.Gen.Kv\n"
    t += "/-- API limits (`MAX_KEY_LENGTH`, `MAX_VALUE_LENGTH`, checked by `validateKeyValue`) -/\n"
    t += "def maxKeyLength : Nat := %d\ndef maxValueLength : Nat := %d\n" % (env["MAX_KEY_LENGTH"], env["MAX_VALUE_LENGTH"])
    t += "/-- `KVStoreConfig::magicNumber` default (the other defaults are not part of the model: every theorem is for all maxCache/maxLog/inline) -/\n"
    t += "def magicDefault : Nat := %d\n" % magic
    t += "/-- snapshot version written by `writeHeader`, versions accepted by `load`, sanity bound on the entry count -/\n"
    t += "def snapVersionWritten : Nat := %d\ndef snapVersionsAccepted : List Nat := %s\n" % (snap_ver, "[" + ", ".join(map(str, versions)) + "]")
    t += ("/-- snapshot entry count: capacity of the `uint32_t count` field `compactLocked` writes; `load` refuses `count > (fileEnd - here) / kMinSnapshotEntryBytes`\n"
          "(`snapCountBoundFromFileSize`, divisor `snapMinEntryBytes`) instead of a constant ceiling (`snapCountConstBound`); `compactLocked` throws before opening the\n"
          "temp file when `survivors.size()` does not fit the field -/\n")
    t += "def snapCountFieldMax : Nat := %d\ndef snapMinEntryBytes : Nat := %d\ndef snapCountBoundFromFileSize : Bool := %s\ndef snapCountConstBound : Option Nat := %s\ndef compactRefusesCountOverflow : Bool := %s\n" % (
        2 ** 32 - 1, min_entry, str(count_from_size).lower(), "none" if count_const is None else "some %d" % count_const, str(compact_refuses).lower())
    t += "/-- op letters: written by the API, accepted by `load`; which carry an expiry / a value (`writeLogEntry`) -/\n"
    t += "def opsWritten : List Nat := %s\ndef opsAccepted : List Nat := %s\ndef opsWithExpiry : List Nat := %s\ndef opsWithValue : List Nat := %s\n" % tuple(
        "[" + ", ".join(str(ord(c)) for c in xs) + "]" for xs in (letters, rd_ops, has_exp, has_val))
    t += "/-- record layout of `writeLogEntry`: [totalLen:4][op:1][keyLen:4][key][expiryMs:8]?[valLen:4][value]?[crc:4], totalLen = body + 4 (checked shape) -/\n"
    t += "def lenWidth : Nat := 4\ndef keyLenWidth : Nat := 4\ndef expiryWidth : Nat := 8\ndef valLenWidth : Nat := 4\ndef crcWidth : Nat := 4\n"
    t += "/-- bounds applied by `load` to a log record: `totalLen` range, key length, value length, `validateLogEntry` minimum -/\n"
    t += "def loadTotalLenMin : Nat := %d\ndef loadTotalLenMax : Nat := %d\ndef loadKeyLenMax : Nat := %d\ndef loadValLenMax : Nat := %d\ndef validateMin : Nat := %d\n" % (
        tl_min, tl_max, klens.pop(), vlens.pop(), vmin)
    t += "/-- `NO_EXPIRY_SENTINEL` (two's complement of INT64_MIN as an integer) and the plausibility ceiling of a persisted expiry -/\n"
    t += "def noExpirySentinel : Int := %d\ndef maxPlausibleEpochMs : Int := %d\n" % (env["NO_EXPIRY_SENTINEL"], env["kMaxPlausibleEpochMs"])
    t += "/-- last whole millisecond a `system_clock::time_point` holds (int64 nanoseconds: libstdc++ on Linux; cross-checked against the value the harness prints) -/\n"
    t += "def timePointMaxMs : Int := %d\n" % ((2 ** 63 - 1) // 1000000)
    # set(key, value, ttl) / setBatch(batch, ttl): the deadline is computed by the saturating helper (true) or by a plain `now() + ttl` (false)
    sat = len(re.findall(r"const\s+auto\s+expiry\s*=\s*deadlineAfter\(ttl\)\s*;", src)) == 2 and not re.search(r"system_clock::now\(\)\s*\+\s*ttl", src.replace("return ttl > room ? last : now + ttl", ""))
    t += "/-- the TTL deadline saturates at the last persistable instant instead of overflowing -/\ndef ttlDeadlineSaturates : Bool := %s\n" % str(bool(sat)).lower()
    uc = _method(src, r"void\s+updateCache\s*\([^)]*\)", "updateCache")
    t += "/-- `updateCache` returns at once when `maxCacheSize == 0` (instead of erasing `begin()` of an empty map) -/\ndef cacheSizeZeroDisables : Bool := %s\n" % (
        str(bool(re.search(r"if\s*\(\s*_config\.maxCacheSize\s*==\s*0\s*\)\s*\{\s*return\s*;", uc))).lower())
    t += "/-- shape facts of `load`: cuts a torn log tail before the log is reopened for append; evaluates expiry once, after the replay -/\n"
    t += "def loadTruncatesTornTail : Bool := %s\ndef loadSweepsOnceAtEnd : Bool := %s\n" % (str(truncates_tail).lower(), str(sweeps_once).lower())
    t += "/-- goodEnd = stream position right after every completely read record body, before any `continue` (the only write to goodEnd in the loop) -/\n"
    t += "def loadGoodEndCountsEveryCompleteRecord : Bool := %s\n" % str(good_end_ok).lower()
    lf = _lock_facts(src)
    t += ("/-- lock scopes of `KVStore` (RAII guards on `_mutex` / `_cacheMutex`, live to the end of their block):\n"
          "  * `getRefillsCacheUnderStoreLock`: in `get()` the lookup of `_kv`/`_expiry` and the one call of `updateCache` lie inside ONE guard on `_mutex`;\n"
          "  * `getFastPathTakesCacheLockOnly`: the cache lookup at the top of `get()` holds `_cacheMutex` and not `_mutex`;\n"
          "  * `writersTouchCacheUnderStoreLock`: every other function that changes `_cache` (directly or through `updateCache`/`invalidateCache`:\n"
          "    set, set+ttl, remove, setBatch x2, expireAt, persist, clear, evictionCallback, compactLocked) does it while `_mutex` is held exclusively\n"
          "    (own guard, or a guard-less helper all of whose call sites are);\n"
          "  * `storeWritesUnderStoreLock`: the same for every write to `_kv` / `_expiry` outside the constructor-only functions;\n"
          "  * `cacheAccessUnderCacheLock`: every read of `_cache` holds `_cacheMutex`, every write holds it exclusively -/\n")
    t += "def getRefillsCacheUnderStoreLock : Bool := %s\ndef getFastPathTakesCacheLockOnly : Bool := %s\ndef writersTouchCacheUnderStoreLock : Bool := %s\n" % (
        str(lf["get"]).lower(), str(lf["fast"]).lower(), str(lf["writers"]).lower())
    t += "def storeWritesUnderStoreLock : Bool := %s\ndef cacheAccessUnderCacheLock : Bool := %s\n" % (str(lf["store"]).lower(), str(lf["cache"]).lower())
    t += "/-- every read of `_kv` / `_expiry` outside the constructor-only functions holds `_mutex` (shared or exclusive; own guard or every call site) -/\n"
    t += "def readersHoldStoreLock : Bool := %s\n" % str(lf["readers"]).lower()
    t += "/-- `JsonFileStore::saveToFile`: writes a sibling temp file and renames it over the target (true) / truncates the live file in place (false) -/\n"
    t += "def jsonSaveViaTempRename : Bool := %s\n" % str(via_tmp).lower()
    jl = _json_ctor_limits(repo, jsrc)
    t += "/-- the `ParseLimits` `JsonFileStore`'s constructor reads its own file with (`ownFileLimits()`; the `ParseLimits` defaults when it uses `operator>>`) -/\n"
    t += "def jsonCtorDepthMax : Nat := %d\ndef jsonCtorArrayItemsMax : Nat := %d\ndef jsonCtorMembersMax : Nat := %d\ndef jsonCtorStringLengthMax : Nat := %d\n" % (
        jl["depthMax"], jl["arrayItemsMax"], jl["membersMax"], jl["stringLengthMax"])
    dumps = re.findall(r"_store\.dump\(\s*(-?\d+)\s*\)", stf)
    if len(dumps) != 1:
        raise TranslateError("saveToFile: expected exactly one `_store.dump(<n>)`, found %d" % len(dumps))
    t += "/-- indentation argument of the `dump` call in `saveToFile` -/\ndef jsonSaveDumpIndent : Int := %s\n" % dumps[0]
    t += ("/-- every call of `saveToFile()` (from `flush()`, `tryFlushIfDirty()`; the destructor goes through `flush()`) and the `_dirty = false` after it lie inside ONE\n"
          "`std::lock_guard<std::mutex>` on `_mutex`, `saveToFile` itself opens `<file>.tmp` and renames it (no helper does it later), and `set`/`remove` change `_store` under `_mutex` -/\n")
    t += "def jsonSaveCallersHoldMutex : Bool := %s\n" % str(_json_lock_fact(jsrc, stf, via_tmp)).lower()
    ftf = _method(jsrc, r"static\s+void\s+flushThreadFunc\s*\(\s*\)", "flushThreadFunc")
    flusher_ok = bool(re.search(r"std::unique_lock<std::mutex>\s+lock\(registryMutex\(\),\s*std::try_to_lock\);\s*if\s*\(!lock\.owns_lock\(\)\)\s*\{\s*continue;\s*\}\s*for\s*\(auto \*store : registry\(\)\)", ftf)
                      and not re.search(r"lock_guard<std::mutex>\s+\w+\(registryMutex\(\)\)", ftf) and "storesToFlush" not in ftf)
    t += ("/-- `flushThreadFunc` flushes the registered stores while it HOLDS `registryMutex` (no store is destroyed while it is being flushed: the destructor waits in\n"
          "`unregisterStore()`), and takes that mutex with `try_to_lock` only (it never waits for it: `unregisterStore()` joins the thread while holding it) -/\n")
    t += "def jsonFlusherHoldsRegistryNeverWaits : Bool := %s\n" % str(flusher_ok).lower()
    t += "end Iora.Gen.Kv\n"
    return "IoraModel/Gen/Kv.lean", t
