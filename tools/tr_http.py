"""Translator unit `http` -> Gen/Http.lean (C15): limits, tables and literals of the HTTP/1.1 framing code.

Facts only (constants, tables, the shape of the receive loop); the algorithms are tied by the lockstep harness.
Any source shape that is not recognised raises TranslateError - never a default.
"""
import re
import cxxscan
from translate import TranslateError, HEADER, read, lean_nat_list


def _lean_str_list(xs):
    return "[" + ", ".join('"%s"' % x.replace("\\", "\\\\").replace('"', '\\"') for x in xs) + "]"


def gen(repo):
    fc = "include/iora/network/http_client.hpp"
    fs = "include/iora/network/http_server.hpp"
    fm = "include/iora/parsers/http_message.hpp"
    c, s, m = read(repo, fc), read(repo, fs), read(repo, fm)

    # ---------------------------------------------------------------- client
    ex = cxxscan.function_body(c, "executeRequest")
    read_size = cxxscan.find_int(r"char\s+buffer\s*\[\s*([^\]]+)\]", ex, "receive buffer size")
    # the shape of the receive loop: append, cap check (throw), then frameResponse - in this order
    loop = re.search(r"responseData\.append\(buffer,\s*len\);\s*if\s*\(\s*responseData\.size\(\)\s*>\s*effectiveCap\s*\)\s*\{\s*throw\s+HttpFramingError\([^;]*;\s*\}\s*"
                     r"complete\s*=\s*frameResponse\(", ex, re.S)
    if not loop:
        raise TranslateError("executeRequest: receive loop is not `append; if (size > effectiveCap) throw HttpFramingError; complete = frameResponse(...)`")
    if not re.search(r"effectiveCap\s*=\s*std::max\(\s*_config\.maxResponseBytes\s*,\s*_config\.jsonConfig\.maxPayloadSize\s*\)", ex):
        raise TranslateError("executeRequest: effectiveCap is not max(maxResponseBytes, jsonConfig.maxPayloadSize)")
    if not re.search(r"PeerClosed\s*\)\s*\{\s*if\s*\(\s*headersDone\s*&&\s*framing\.mode\s*==\s*BodyMode::CloseDelimited\s*\)\s*\{\s*resp\.body\s*=\s*responseData\.substr\(bodyStart\);\s*"
                     r"forceEvict\s*=\s*true;", ex, re.S):
        raise TranslateError("executeRequest: PeerClosed arm is not `if (headersDone && mode == CloseDelimited) { body = substr(bodyStart); forceEvict = true; ...`")
    phb = cxxscan.function_body(c, "parseHeaderBlock")
    max_code = cxxscan.find_int(r"code\s*>\s*(\w+)\s*\)", phb, "status code bound")
    versions = re.findall(r'version\s*!=\s*"([^"]+)"', phb)
    if len(versions) < 1 or not re.search(r'version\s*!=\s*"[^"]+"\s*&&\s*version\s*!=\s*"[^"]+"\s*\)', phb):
        raise TranslateError("parseHeaderBlock: version test is not `version != A && version != B`")
    df = cxxscan.function_body(c, "determineFraming")
    mm = re.search(r'method\s*==\s*"HEAD"\s*\|\|\s*((?:sc\s*==\s*\d+\s*\|\|\s*)+)\(\s*sc\s*>=\s*(\d+)\s*&&\s*sc\s*<\s*(\d+)\s*\)', df)
    if not mm:
        raise TranslateError("determineFraming: rule 1 is not `method == \"HEAD\" || sc == … || (sc >= lo && sc < hi)`")
    nobody = [int(x) for x in re.findall(r"sc\s*==\s*(\d+)", mm.group(1))]
    lo, hi = int(mm.group(2)), int(mm.group(3))
    fr = cxxscan.function_body(c, "frameResponse")
    m2 = re.search(r"resp\.statusCode\s*>=\s*(\d+)\s*&&\s*resp\.statusCode\s*<\s*(\d+)", fr)
    if not m2 or (int(m2.group(1)), int(m2.group(2))) != (lo, hi):
        raise TranslateError("frameResponse: interim range differs from determineFraming's")
    if not re.search(r'method\s*==\s*"CONNECT"', df):
        raise TranslateError("determineFraming: CONNECT guard missing")

    # ---------------------------------------------------------------- server
    def sconst(name):
        mm_ = re.search(r"static\s+constexpr\s+std::size_t\s+%s\s*=\s*([^;]+);" % name, s)
        if not mm_:
            raise TranslateError("SessionInfo::%s not found" % name)
        return cxxscan.const_eval(mm_.group(1))
    max_buf, max_hdr, max_body = sconst("MAX_BUFFER_SIZE"), sconst("MAX_HEADER_SIZE"), sconst("MAX_BODY_SIZE")
    hid = cxxscan.function_body(s, "handleIncomingData")
    for what, pat in [("buffer limit", r"buffer\.size\(\)\s*\+\s*dataStr\.size\(\)\s*>\s*SessionInfo::MAX_BUFFER_SIZE"),
                      ("header limit", r"headerEnd\s*>\s*SessionInfo::MAX_HEADER_SIZE"),
                      ("body limit", r"contentLength\s*>\s*SessionInfo::MAX_BODY_SIZE")]:
        if not re.search(pat, hid):
            raise TranslateError("handleIncomingData: %s check has an unexpected shape" % what)

    # the skeleton of the extraction loop: every statement of the `while (true)` pipelining loop that mentions the working
    # buffer or one of the offsets derived from it, in source order.  What each offset is relative to (the header terminator is
    # searched from offset 0 of a buffer that is trimmed after every request, the header section / request / chunk scan start
    # are taken from that same origin, the session buffer is the trimmed rest) is what the model's `extractOne`/`drainLoop`
    # assume; Props/C15.lean pins this list against the model's (`gen_extract_loop`), so any other shape breaks a named
    # obligation - and a loop that cannot be located at all is a TranslateError.
    m0 = re.search(r"dataStr\s*=\s*it->second\.buffer\s*;", hid)
    w0 = re.search(r"while\s*\(\s*true\s*\)\s*\{", hid[m0.end():]) if m0 else None
    if not m0 or not w0:
        raise TranslateError("handleIncomingData: pipelining loop `while (true)` after `dataStr = it->second.buffer` not found")
    lb = m0.end() + w0.end() - 1
    loop = hid[lb + 1:cxxscan.match_brace(hid, lb)]
    idents = re.compile(r"\b(dataStr|headerEnd|requestEndPos|totalExpectedLength|headerSection|requestData)\b")
    loop_skel = []
    for stmt in re.split(r"[;{}]", loop):
        st = re.sub(r"\s+", " ", stmt).strip()
        if st and idents.search(st):
            # the 503 answer on pool refusal may READ the request (FC16f: `isHeadRequest(requestData)` decides whether the answer
            # has a body - response formation, C16); it moves no offset and is no part of the extraction skeleton (that the call is
            # there, and what its completion does to the session, is checked further down)
            if re.match(r"sendErrorResponse\(\s*sid\s*,\s*503\b", st):
                continue
            # what is handed to the pool is `requestData`; further captures / arguments of the dispatch lambda (e.g. a restart
            # epoch) do not concern the framing and are normalised away
            st = re.sub(r"\[this, sid, requestData(?:, \w+)*\]", "[this, sid, requestData]", st)
            st = re.sub(r"processHttpRequest\(sid, requestData(?:, \w+)*\)", "processHttpRequest(sid, requestData)", st)
            loop_skel.append(st)
    if len(loop_skel) < 8 or not any("find(" in x for x in loop_skel):
        raise TranslateError("handleIncomingData: extraction loop has an unexpected shape: %r" % loop_skel[:4])

    # the four length parsers: statement skeletons (every statement that mentions the value being converted, the accumulator,
    # the conversion call, its overflow handling or the comparison with the cap).  The model's number parsers are written
    # over UNBOUNDED digit strings with an explicit `>= 2^64 => reject` (parseFullUInt) resp. a limit check on every prefix
    # value INSIDE the digit loop (sizeDigits); that is only what the code does if the conversion is std::stoull behind an
    # all-digits test with the out_of_range exception caught / std::from_chars with the errc and end-pointer test / an
    # accumulator that is compared with the cap before the next digit is shifted in.  Props/C15.lean pins these skeletons
    # against the model's (`gen_number_parsers`).
    def skel(text, ident_re, what, need):
        out = []
        for stmt in re.split(r"[;{}]", text):
            st = re.sub(r"\s+", " ", stmt).strip()
            if st and re.search(ident_re, st):
                out.append(st)
        for n_ in need:
            if not any(n_ in x for x in out):
                raise TranslateError("%s: expected `%s` in the length conversion, found %r" % (what, n_, out[:6]))
        return out
    mcl = re.search(r'if\s*\(\s*key\s*==\s*"content-length"\s*\)\s*\{', hid)
    if not mcl:
        raise TranslateError("handleIncomingData: `if (key == \"content-length\")` not found")
    cl_block = hid[mcl.end():cxxscan.match_brace(hid, mcl.end() - 1)]
    srv_cl = skel(cl_block, r"\b(value|parsedLength|contentLength|haveContentLength|try|catch)\b", "server Content-Length",
                  ["find_first_not_of(\"0123456789\")", "std::stoull(value)", "catch (...)", "contentLength > SessionInfo::MAX_BODY_SIZE"])
    pfu = cxxscan.function_body(c, "parseFullUInt")
    cli_num = skel(pfu, r".", "parseFullUInt", ["std::from_chars(b, e, out, base)", "r.ec == std::errc() && r.ptr == e"])
    pcl = cxxscan.function_body(c, "parseContentLength")
    cli_cl = skel(pcl, r"\b(parseFullUInt|val|result|have)\b", "parseContentLength", ["parseFullUInt(v.data() + a, v.data() + b + 1, 10, val)", "val != result"])
    adv = cxxscan.function_body(c, "advanceChunked")
    cli_chunk = skel(adv, r"\bchunkSize\b", "advanceChunked", ["parseFullUInt(buf.data() + p, buf.data() + hexEnd, 16, chunkSize)", "chunkSize > effectiveCap"])
    fce = cxxscan.function_body(s, "findChunkedRequestEnd")
    srv_chunk = skel(fce, r"\b(chunkSize|digits)\b", "findChunkedRequestEnd", ["chunkSize = chunkSize * 16 + v", "chunkSize > SessionInfo::MAX_BODY_SIZE", "data.length() - pos < chunkSize + 2"])
    # the limit check must sit INSIDE the digit loop, right after the shift (before the next digit can wrap the accumulator)
    i_shift = next(i for i, x in enumerate(srv_chunk) if "chunkSize = chunkSize * 16 + v" in x)
    if not any("chunkSize > SessionInfo::MAX_BODY_SIZE" in x for x in srv_chunk[i_shift + 1:i_shift + 3]):
        raise TranslateError("findChunkedRequestEnd: the chunk-size limit is not checked right after the accumulator is shifted")
    number_parsers = [("server Content-Length", srv_cl), ("client parseFullUInt", cli_num), ("client parseContentLength", cli_cl),
                      ("client chunk size", cli_chunk), ("server chunk size", srv_chunk)]

    # ---- the I/O thread's terminal closes (FC15b): every close `handleIncomingData` performs must forget the session first.
    # Skeleton = the close calls of handleIncomingData in source order + the statements of `rejectSession` that touch the
    # session map or close; Props/C15.lean pins it (`gen_io_close`): with a plain `closeSession(sid)` on any of these paths the
    # session outlives the request for a close, later reads are appended behind a buffer with a hole, and the model's
    # `alive := false` is not what the code does.
    io_calls = re.findall(r"\b(closeSession|rejectSession|_transport->close)\s*\(\s*sid\s*\)", hid)
    if not io_calls:
        raise TranslateError("handleIncomingData: no close call found")
    try:
        rej = cxxscan.function_body(s, "rejectSession")
    except Exception:
        rej = None
    rej_skel = []
    if rej is not None:
        for stmt in re.split(r"[;{}]", rej):
            st = re.sub(r"\s+", " ", stmt).strip()
            if st and re.search(r"\b(_sessionInfo|closeSession|_sessionMutex|_transport)\b", st):
                rej_skel.append(st)
    io_close = [("handleIncomingData", io_calls), ("rejectSession", rej_skel)]

    # ---- the upgrade hold (FC18f): every statement of handleIncomingData that mentions the hold or the Upgrade flag, in source
    # order, and the statements of handleSessionClosed that erase per-session state.  Pinned by `gen_upgrade_hold`: the model's
    # connDataU (hold branch at the head, `break` behind an Upgrade request, hold set where the rest is stored, released on
    # refusal) and connClosedU were written from exactly this shape.
    up_skel = []
    for stmt in re.split(r"[;{}]", hid):
        st = re.sub(r"\s+", " ", stmt).strip()
        if st and re.search(r"\b(_upgradePending|haveUpgrade|pendingOverflow)\b|key == \"upgrade\"", st):
            st = re.sub(r"\[this, sid, requestData(?:, \w+)*\]", "[this, sid, requestData, …]", st)
            st = re.sub(r"processHttpRequest\(sid, requestData(?:, \w+)*\)", "processHttpRequest(sid, requestData, …)", st)
            up_skel.append(st)
    # the `break` that ends the request loop behind an Upgrade request must be the body of the LAST `if (haveUpgrade)`
    last_up = [m_ for m_ in re.finditer(r"if\s*\(\s*haveUpgrade\s*\)\s*\{", hid)]
    up_break = False
    if last_up:
        b0 = last_up[-1].end() - 1
        body = hid[b0 + 1:cxxscan.match_brace(hid, b0)]
        up_break = bool(re.fullmatch(r"\s*break\s*;\s*", body))
    try:
        hsc = cxxscan.function_body(s, "handleSessionClosed")
    except Exception:
        hsc = None
    closed_skel = []
    if hsc is not None:
        for stmt in re.split(r"[;{}]", hsc):
            st = re.sub(r"\s+", " ", stmt).strip()
            if st and re.search(r"\.erase\(|onSessionClosed", st):
                closed_skel.append(st)

    # ---- case folding of field names / transfer codings in handleIncomingData (FC15c): the model folds ASCII only
    folds = re.findall(r"std::transform\(\s*(\w+)\.begin\(\)\s*,\s*\1\.end\(\)\s*,\s*\1\.begin\(\)\s*,\s*([^)]+?)\s*\)", hid)
    if len(folds) < 2:
        raise TranslateError("handleIncomingData: expected std::transform(x.begin(), x.end(), x.begin(), <fold>) for key and value")
    fold_fns = sorted(set(f for _, f in folds))
    if fold_fns == ["asciiLower"]:
        al = cxxscan.function_body(s, "asciiLower")
        al_n = re.sub(r"\s+", " ", al).strip()
        if al_n != "return (c >= 'A' && c <= 'Z') ? static_cast<char>(c - 'A' + 'a') : c;":
            raise TranslateError("asciiLower: unexpected body %r" % al_n)
        case_fold = "ascii"
    elif fold_fns == ["::tolower"]:
        case_fold = "ctype tolower applied to plain char"        # undefined for bytes >= 0x80 (signed char), locale dependent
    else:
        raise TranslateError("handleIncomingData: unrecognised case folding %r" % fold_fns)

    # ---- the worker pool's queue capacity (what `tryEnqueue` refuses beyond): HttpServer's ThreadPool constructor call +
    # ThreadPool's default; the driver's `sv hold k` arithmetic uses it and a lockstep case fills the queue to this size
    tp = re.search(r"_threadPool\(([^)]*(?:\([^)]*\)[^)]*)*)\)", s)
    if not tp:
        raise TranslateError("HttpServer: _threadPool(...) constructor call not found")
    tp_args = [a.strip() for a in re.split(r",(?![^()]*\))", tp.group(1)) if a.strip()]
    tpsrc = read(repo, "include/iora/core/thread_pool.hpp")
    if len(tp_args) >= 4:
        pool_queue = cxxscan.const_eval(tp_args[3])
    else:
        dq = re.search(r"std::size_t\s+maxQueueSize\s*=\s*([^,)]+)", tpsrc)
        if not dq:
            raise TranslateError("ThreadPool: default maxQueueSize not found")
        pool_queue = cxxscan.const_eval(dq.group(1))
    te_src = cxxscan.function_body(tpsrc, "tryEnqueueImpl")
    if not re.search(r"_tasks\.size\(\)\s*>=\s*_maxQueueSize", te_src):
        raise TranslateError("ThreadPool::tryEnqueueImpl: refusal test is not `_tasks.size() >= _maxQueueSize`")

    # ---- the 503 path of handleIncomingData and what the completion of sendErrorResponse does to the session
    if not re.search(r"if\s*\(\s*!_threadPool\.tryEnqueue\(", hid) or not re.search(r"sendErrorResponse\(\s*sid\s*,\s*503\b", hid):
        raise TranslateError("handleIncomingData: `if (!_threadPool.tryEnqueue(...)) sendErrorResponse(sid, 503, ...)` not found")
    ser = cxxscan.function_body(s, "sendErrorResponse")
    if not re.search(r"_transport->close\(session\);.*_sessionInfo\.erase\(session\);", ser, re.S):
        raise TranslateError("sendErrorResponse: completion is not `_transport->close(session); ... _sessionInfo.erase(session);`")

    # ---- req.params: the query conversion of processHttpRequest
    phr = None
    for nth in range(4):            # (an overload that only forwards may precede the real definition)
        try:
            cand = cxxscan.function_body(s, "processHttpRequest", nth=nth)
        except Exception:
            break
        if "queryPos" in cand:
            phr = cand
            break
    if phr is None:
        raise TranslateError("processHttpRequest: no definition with the query conversion (`queryPos`) found")
    qs = []
    mq = re.search(r"auto\s+queryPos\s*=\s*req\.path\.find\('\?'\)\s*;", phr)
    if not mq:
        raise TranslateError("processHttpRequest: `auto queryPos = req.path.find('?')` not found")
    qb = phr[mq.start():]
    qb = qb[:cxxscan.match_brace(qb, qb.index("{")) + 1]
    for stmt in re.split(r"[;{}]", qb):
        st = re.sub(r"\s+", " ", stmt).strip()
        if st and re.search(r"\b(queryPos|queryString|param|eqPos|key|value)\b", st):
            qs.append(st)

    # ---- client: how parseHeaderBlock stores a field line (assign = last line wins; which fields combine)
    store = []
    for stmt in re.split(r"[;{}]", phb):
        st = re.sub(r"\s+", " ", stmt).strip()
        if st and re.search(r"\bresp\.headers\b|\bprevConnection\b", st):
            store.append(st)
    if not store:
        raise TranslateError("parseHeaderBlock: no statement stores into resp.headers")

    # ---------------------------------------------------------------- message parser
    mt = re.search(r"static\s+constexpr\s+std::size_t\s+MAX_REQUEST_TARGET_SIZE\s*=\s*([^;]+);", m)
    if not mt:
        raise TranslateError("MAX_REQUEST_TARGET_SIZE not found")
    max_target = cxxscan.const_eval(mt.group(1))
    enum = cxxscan.enum_items(m, "HttpMethod")
    pm = cxxscan.function_body(m, "parseMethod")
    table = re.findall(r'if\s*\(\s*method\s*==\s*"(\w+)"\s*\)\s*\{\s*return\s+HttpMethod::(\w+);', pm)
    if not table or any(a != b for a, b in table):
        raise TranslateError("parseMethod: table is not `if (method == \"X\") return HttpMethod::X;`")
    names = [a for a, _ in table]
    if sorted(names) != sorted(n for n, _ in enum) or len(set(names)) != len(names):
        raise TranslateError("parseMethod table and enum HttpMethod differ")
    by_value = [n for n, _ in sorted(enum, key=lambda x: x[1])]
    if [v for _, v in sorted(enum, key=lambda x: x[1])] != list(range(len(enum))):
        raise TranslateError("enum HttpMethod is not 0..n-1")
    tc = re.search(r'kTcharPunct\s*=\s*"((?:[^"\\]|\\.)*)"', m)
    if not tc:
        raise TranslateError("isHttpToken: kTcharPunct not found")
    lv = re.search(r"kListValued\s*=\s*\{([^}]*)\}", m)
    if not lv:
        raise TranslateError("isListValuedHeader: kListValued not found")
    list_valued = re.findall(r'"([^"]+)"', lv.group(1))
    # whitespace between field name and colon (RFC 9112 5.1, FC15d): the header loop of fromWireFormat throws 400 before it trims
    fwf = cxxscan.function_body(m, "fromWireFormat")
    ws_colon = bool(re.search(r"if\s*\(\s*colonPos\s*>\s*0\s*&&\s*\(\s*line\[colonPos\s*-\s*1\]\s*==\s*' '\s*\|\|\s*line\[colonPos\s*-\s*1\]\s*==\s*'\\t'\s*\)\s*\)\s*"
                              r"\{\s*throw\s+HttpRequestError\(\s*400\b", fwf))
    if not re.search(r"const\s+auto\s+colonPos\s*=\s*line\.find\(':'\)", fwf):
        raise TranslateError("fromWireFormat: `const auto colonPos = line.find(':')` not found")
    fw = cxxscan.function_body(m, "fromWireFormat") + cxxscan.function_body(m, "parseRequestLine") + pm
    statuses = sorted(set(int(x) for x in re.findall(r"HttpRequestError\(\s*(\d+)\s*,", fw)))

    t = HEADER % ", ".join([fc, fs, fm])
    t += "namespace Iora.Gen.Http\n"
    t += "/-- `char buffer[N]` of the receive loop in `HttpClient::executeRequest` -/\ndef clientReadSize : Nat := %d\n" % read_size
    t += "/-- `code > N` bound in `parseHeaderBlock` -/\ndef clientMaxStatusCode : Nat := %d\n" % max_code
    t += "/-- accepted `HTTP/` versions in `parseHeaderBlock` -/\ndef clientVersions : List String := %s\n" % _lean_str_list(versions)
    t += "/-- statuses without a body in `determineFraming` rule 1 (besides the interim range) -/\ndef clientNoBodyStatuses : List Nat := %s\n" % lean_nat_list(nobody)
    t += "/-- interim range `sc >= lo && sc < hi` (determineFraming and frameResponse agree) -/\ndef clientInterimLo : Nat := %d\ndef clientInterimHi : Nat := %d\n" % (lo, hi)
    t += "/-- `parseHeaderBlock`: the statements that store a field line into `resp.headers`, in source order -/\n"
    t += "def clientHeaderStore : List String := %s\n" % _lean_str_list(store)
    t += "/-- `HttpServer::SessionInfo` limits -/\ndef serverMaxBufferSize : Nat := %d\ndef serverMaxHeaderSize : Nat := %d\ndef serverMaxBodySize : Nat := %d\n" % (max_buf, max_hdr, max_body)
    t += "/-- `handleIncomingData`: the statements of the pipelining loop that mention the working buffer `dataStr` or an offset\n"
    t += "derived from it, in source order (what every offset is relative to) -/\n"
    t += "def serverExtractLoop : List String := %s\n" % _lean_str_list(loop_skel)
    t += "/-- the length conversions of both endpoints: per parser, the statements that mention the converted value, the accumulator,\n"
    t += "the conversion call, its overflow handling and the comparison with the cap, in source order -/\n"
    t += "def numberParsers : List (String × List String) := [%s]\n" % ",\n  ".join('("%s", %s)' % (k, _lean_str_list(v)) for k, v in number_parsers)
    t += "/-- the terminal closes of the I/O thread: close calls of `handleIncomingData` in source order, and the statements of\n"
    t += "`rejectSession` that touch the session map / close -/\n"
    t += "def serverIoClose : List (String × List String) := [%s]\n" % ", ".join('("%s", %s)' % (k, _lean_str_list(v)) for k, v in io_close)
    t += "/-- the upgrade hold: statements of `handleIncomingData` that mention `_upgradePending` / `haveUpgrade` / `pendingOverflow`,\n"
    t += "in source order; whether the last `if (haveUpgrade)` of the request loop is exactly `break;`; the erasures of `handleSessionClosed` -/\n"
    t += "def serverUpgradeHold : List String := %s\n" % _lean_str_list(up_skel)
    t += "def serverUpgradeBreak : Bool := %s\n" % ("true" if up_break else "false")
    t += "def serverSessionClosed : List String := %s\n" % _lean_str_list(closed_skel)
    t += "/-- how `handleIncomingData` folds case in field names and transfer codings -/\ndef serverCaseFold : String := \"%s\"\n" % case_fold
    t += "/-- capacity of the worker pool's task queue (`tryEnqueue` refuses at `_tasks.size() >= _maxQueueSize`) -/\n"
    t += "def serverPoolQueueSize : Nat := %d\n" % pool_queue
    t += "/-- `processHttpRequest`: the statements of the query-string conversion, in source order -/\n"
    t += "def serverQueryParams : List String := %s\n" % _lean_str_list(qs)
    t += "/-- `HttpRequest::MAX_REQUEST_TARGET_SIZE` -/\ndef maxRequestTargetSize : Nat := %d\n" % max_target
    t += "/-- `parseMethod` table; index = `enum class HttpMethod` value -/\ndef methods : List String := %s\n" % _lean_str_list(by_value)
    t += "/-- `kTcharPunct` of `isHttpToken` -/\ndef tcharPunct : String := \"%s\"\n" % tc.group(1)
    t += "/-- `detail::isListValuedHeader` allow-list -/\ndef listValuedHeaders : List String := %s\n" % _lean_str_list(list_valued)
    t += "/-- `fromWireFormat` answers 400 to whitespace between a field name and the colon (before trimming the name) -/\n"
    t += "def requestRejectsWsBeforeColon : Bool := %s\n" % ("true" if ws_colon else "false")
    t += "/-- statuses thrown by the request parser (`HttpRequestError(status, …)`), sorted -/\ndef requestErrorStatuses : List Nat := %s\n" % lean_nat_list(statuses)
    t += "end Iora.Gen.Http\n"
    return "IoraModel/Gen/Http.lean", t
