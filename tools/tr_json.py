"""Translator unit `json` -> Gen/Json.lean (C13): ParseLimits / SerializeOptions defaults, the limit guards (operand and
comparison operator), the escape tables of the parser and of the serializer, the surrogate / UTF-8 constants of the
\\uXXXX branch, the double format recipe, the libc/libstdc++ primitives the parser delegates to, the insertion form of
object members, and the error messages of every parser function in source order.

The unit describes the code *as repaired* (F06/F07/F08/F36): the placeholder `\\u` branch, `std::to_string(double)` and a
`_parseString` without a bounds check are shapes it refuses (TranslateError = broken tie)."""
import re
import cxxscan
from translate import TranslateError, HEADER, read

F = "include/iora/parsers/json.hpp"

CHAR_ESC = {"b": 8, "f": 12, "n": 10, "r": 13, "t": 9, "\\": 92, '"': 34, "'": 39, "0": 0, "v": 11, "a": 7}


def char_lit(s):
    """value of the C++ character literal body `s` (text between the single quotes)"""
    if len(s) == 1:
        return ord(s)
    if len(s) == 2 and s[0] == "\\" and s[1] in CHAR_ESC:
        return CHAR_ESC[s[1]]
    raise TranslateError("unsupported character literal '%s'" % s)


def str_lit(s):
    """bytes of the C++ string literal body `s`"""
    out = []
    i = 0
    while i < len(s):
        if s[i] == "\\":
            if i + 1 >= len(s) or s[i + 1] not in CHAR_ESC:
                raise TranslateError("unsupported string literal \"%s\"" % s)
            out.append(CHAR_ESC[s[i + 1]])
            i += 2
        else:
            out.append(ord(s[i]))
            i += 1
    return out


def struct_body(src, name):
    m = re.search(r"struct\s+%s\s*\{" % re.escape(name), src)
    if not m:
        raise TranslateError("struct %s not found" % name)
    return src[m.end():cxxscan.match_brace(src, m.end() - 1)]


def fn_body(src, name):
    """body of the (unique) member function definition `<type> name(<params>) [const] {` (cxxscan.function_body also matches
    `if (name(...)) {`, which occurs for _parseValue)"""
    ms = list(re.finditer(r"\b(?:bool|void|std::string|ParseResult)\s+%s\s*\(([^()]*)\)\s*(?:const\s*)?\{" % re.escape(name), src))
    if len(ms) != 1:
        raise TranslateError("expected exactly one definition of %s, found %d" % (name, len(ms)))
    m = ms[0]
    return src[m.end():cxxscan.match_brace(src, m.end() - 1)]


def lean_str(s):
    return '"' + s.replace("\\", "\\\\").replace('"', '\\"').replace("\n", "\\n") + '"'


def nat_list(xs):
    return "[" + ", ".join(str(x) for x in xs) + "]"


def pair_list(xs):
    return "[" + ", ".join("(%d, %d)" % (a, b) for a, b in xs) + "]"


OPS = {">": "decide (lim < x)", ">=": "decide (lim ≤ x)"}


def guard(body, fn, operand, limit):
    ms = re.findall(r"if\s*\(\s*%s\s*(>=|<=|==|!=|>|<)\s*_limits\.%s\s*\)" % (re.escape(operand), limit), body)
    if len(ms) != 1:
        raise TranslateError("%s: expected exactly one guard `%s <op> _limits.%s`, found %d" % (fn, operand, limit, len(ms)))
    if len(re.findall(r"_limits\.%s\b" % limit, body)) != 1:
        raise TranslateError("%s: _limits.%s is used more than once" % (fn, limit))
    if ms[0] not in OPS:
        raise TranslateError("%s: guard `%s %s _limits.%s` is not an upper-bound check" % (fn, operand, ms[0], limit))
    return ms[0]


def switch_arms(body, what):
    """[(labels, statement text)] of the first `switch (c)` in body, plus the default arm text"""
    m = re.search(r"switch\s*\(\s*c\s*\)\s*\{", body)
    if not m:
        raise TranslateError("%s: switch (c) not found" % what)
    sw = body[m.end():cxxscan.match_brace(body, m.end() - 1)]
    # split at top-level `case`/`default` labels (brace depth 0 inside the switch)
    parts = []
    depth = 0
    i = 0
    cur = 0
    marks = []
    while i < len(sw):
        ch = sw[i]
        if ch in "\"'":
            q = ch
            i += 1
            while i < len(sw) and sw[i] != q:
                if sw[i] == "\\":
                    i += 1
                i += 1
        elif ch == "{":
            depth += 1
        elif ch == "}":
            depth -= 1
        elif depth == 0 and re.match(r"(case\b|default\s*:)", sw[i:]) and (i == 0 or not (sw[i - 1].isalnum() or sw[i - 1] == "_")):
            marks.append(i)
        i += 1
    marks.append(len(sw))
    arms = []
    pending = []
    default = None
    for a, b in zip(marks, marks[1:]):
        seg = sw[a:b]
        mm = re.match(r"case\s*'((?:\\.|[^'\\])+)'\s*:(.*)$", seg, re.S)
        if mm:
            pending.append(char_lit(mm.group(1)))
            rest = mm.group(2).strip()
            if rest:
                arms.append((pending, rest))
                pending = []
            continue
        mm = re.match(r"default\s*:(.*)$", seg, re.S)
        if mm:
            if pending:
                raise TranslateError("%s: case labels fall through into default" % what)
            default = mm.group(1).strip()
            continue
        raise TranslateError("%s: cannot parse switch arm %r" % (what, seg[:40]))
    if pending:
        raise TranslateError("%s: dangling case labels" % what)
    if default is None:
        raise TranslateError("%s: switch without default arm" % what)
    return arms, default


def hexnum(body, pat, what):
    return cxxscan.find_int(pat, body, what)


def gen(repo):
    src = read(repo, F)
    t = HEADER % F
    t += "namespace Iora.Gen.Json\n"

    # ---- ParseLimits / SerializeOptions defaults
    pl = struct_body(src, "ParseLimits")
    lims = dict(re.findall(r"std::size_t\s+(\w+)\s*\{([^}]*)\}\s*;", pl))
    want = ["arrayItemsMax", "membersMax", "depthMax", "stringLengthMax"]
    if sorted(lims) != sorted(want):
        raise TranslateError("ParseLimits members changed: %s" % sorted(lims))
    t += "/-- `struct ParseLimits` default member initialisers -/\n"
    for k in want:
        t += "def %sDefault : Nat := %d\n" % (k, cxxscan.const_eval(lims[k]))
    so = struct_body(src, "SerializeOptions")
    bools = dict(re.findall(r"bool\s+(\w+)\s*\{\s*(true|false)\s*\}\s*;", so))
    ind = re.search(r'std::string\s+indent\s*\{\s*"((?:\\.|[^"\\])*)"\s*\}\s*;', so)
    if sorted(bools) != ["pretty", "sortKeys"] or not ind:
        raise TranslateError("SerializeOptions members changed")
    t += "/-- `struct SerializeOptions` default member initialisers -/\n"
    t += "def prettyDefault : Bool := %s\ndef sortKeysDefault : Bool := %s\ndef indentDefault : List Nat := %s\n" % (
        bools["pretty"], bools["sortKeys"], nat_list(str_lit(ind.group(1))))

    # ---- limit guards (operand, operator)
    pv = fn_body(src, "_parseValue")
    ps = fn_body(src, "_parseString")
    pa = fn_body(src, "_parseArray")
    po = fn_body(src, "_parseObject")
    pn = fn_body(src, "_parseNumber")
    t += "/-- the four limit guards: `if (<x> <op> _limits.<lim>)` = error.  `x` is the nesting depth of the value about to be parsed,\n"
    t += "    `str.size()` before the next character is appended, `arr.size()` / `obj.size()` before the next element / member is parsed -/\n"
    for name, body, fn, operand, limit in (("depthExceeded", pv, "_parseValue", "depth", "depthMax"),
                                           ("stringExceeded", ps, "_parseString", "str.size()", "stringLengthMax"),
                                           ("arrayExceeded", pa, "_parseArray", "arr.size()", "arrayItemsMax"),
                                           ("membersExceeded", po, "_parseObject", "obj.size()", "membersMax")):
        op = guard(body, fn, operand, limit)
        t += "def %s (x lim : Nat) : Bool := %s   -- `%s %s _limits.%s`\n" % (name, OPS[op], operand, op, limit)
    # where the guards sit: first statement of _parseValue; first statement of the loops
    if not re.match(r"\s*if\s*\(\s*depth\s*>", pv):
        raise TranslateError("_parseValue: the depth guard is no longer the first statement")
    if not re.search(r"while\s*\(\s*_pos\s*<\s*_text\.size\(\)\s*&&\s*_text\[_pos\]\s*!=\s*'\"'\s*\)\s*\{\s*if\s*\(\s*str\.size\(\)", ps):
        raise TranslateError("_parseString: loop head / length guard shape changed")
    if not re.search(r"while\s*\(\s*true\s*\)\s*\{\s*if\s*\(\s*arr\.size\(\)", pa) or not re.search(r"while\s*\(\s*true\s*\)\s*\{\s*if\s*\(\s*obj\.size\(\)", po):
        raise TranslateError("_parseArray/_parseObject: the size guard is no longer the first statement of the loop")
    if not re.search(r"_parseValue\s*\(\s*element\s*,\s*depth\s*\+\s*1\s*\)", pa) or not re.search(r"_parseValue\s*\(\s*value\s*,\s*depth\s*\+\s*1\s*\)", po):
        raise TranslateError("_parseArray/_parseObject: children are no longer parsed at depth + 1")

    # ---- bounds check at the head of _parseString (repair F36)
    if not re.match(r"\s*if\s*\(\s*_pos\s*>=\s*_text\.size\(\)\s*\|\|\s*_text\[_pos\]\s*!=\s*'\"'\s*\)", ps):
        raise TranslateError("_parseString: first statement is not `if (_pos >= _text.size() || _text[_pos] != '\"')` "
                             "(reads _text[size()] when an object ends where a key is expected)")

    # ---- parser escape table
    arms, default = switch_arms(ps, "_parseString")
    simple = []
    uarm = None
    for labels, stmt in arms:
        if labels == [ord("u")]:
            uarm = stmt
            continue
        mm = re.fullmatch(r"str\s*\+=\s*'((?:\\.|[^'\\])+)'\s*;\s*break\s*;", stmt)
        if not mm or len(labels) != 1:
            raise TranslateError("_parseString: escape arm %r has an unexpected shape: %r" % (labels, stmt[:60]))
        simple.append((labels[0], char_lit(mm.group(1))))
    if not re.search(r"_error\s*=\s*\"Invalid escape sequence\"\s*;\s*return\s+false\s*;", default):
        raise TranslateError("_parseString: default escape arm no longer fails")
    if uarm is None:
        raise TranslateError("_parseString: no `case 'u'` arm")
    if "_parseHex4" not in uarm or "_appendUtf8" not in uarm:
        raise TranslateError("_parseString: the \\u arm does not decode the escape (placeholder implementation)")
    t += "/-- `_parseString` one-character escapes: (character after the backslash, byte appended) -/\n"
    t += "def parseEscapes : List (Nat × Nat) := %s\n" % pair_list(simple)
    # \u arm constants
    m1 = re.search(r"if\s*\(\s*!\s*_parseHex4\s*\(\s*_pos\s*\+\s*1\s*,\s*cp\s*\)\s*\)\s*\{\s*_error\s*=\s*\"Invalid unicode escape\"\s*;\s*return\s+false\s*;\s*\}\s*_pos\s*\+=\s*(\w+)\s*;", uarm)
    if not m1:
        raise TranslateError("\\u arm: hex read / error / advance shape changed")
    adv1 = cxxscan.const_eval(m1.group(1))
    m2 = re.search(r"if\s*\(\s*cp\s*>=\s*(\w+)\s*&&\s*cp\s*<=\s*(\w+)\s*\)\s*\{\s*std::uint32_t\s+lo\s*=\s*0\s*;\s*if\s*\(\s*_pos\s*\+\s*2\s*<\s*_text\.size\(\)\s*&&\s*"
                   r"_text\[_pos\s*\+\s*1\]\s*==\s*'\\\\'\s*&&\s*_text\[_pos\s*\+\s*2\]\s*==\s*'u'\s*&&\s*_parseHex4\s*\(\s*_pos\s*\+\s*3\s*,\s*lo\s*\)\s*&&\s*"
                   r"lo\s*>=\s*(\w+)\s*&&\s*lo\s*<=\s*(\w+)\s*\)\s*\{\s*cp\s*=\s*(\w+)\s*\+\s*\(\s*\(\s*cp\s*-\s*(\w+)\s*\)\s*<<\s*(\w+)\s*\)\s*\+\s*\(\s*lo\s*-\s*(\w+)\s*\)\s*;\s*"
                   r"_pos\s*\+=\s*(\w+)\s*;\s*\}\s*else\s*\{\s*cp\s*=\s*(\w+)\s*;\s*\}\s*\}\s*else\s+if\s*\(\s*cp\s*>=\s*(\w+)\s*&&\s*cp\s*<=\s*(\w+)\s*\)\s*\{\s*cp\s*=\s*(\w+)\s*;\s*\}\s*"
                   r"_appendUtf8\s*\(\s*str\s*,\s*cp\s*\)\s*;\s*break\s*;", uarm)
    if not m2:
        raise TranslateError("\\u arm: surrogate handling shape changed")
    g = [cxxscan.const_eval(x) for x in m2.groups()]
    hiLo, hiHi, loLo, loHi, base, subHi, shift, subLo, adv2, repl1, lo2, hi2, repl2 = g
    if subHi != hiLo or subLo != loLo or lo2 != loLo or hi2 != loHi or repl1 != repl2:
        raise TranslateError("\\u arm: inconsistent surrogate constants %s" % g)
    t += "/-- `\\u` arm: high-surrogate range, low-surrogate range, supplementary base, shift, replacement for a lone surrogate,\n"
    t += "    `_pos` advance over the hex digits and over a following `\\uXXXX` -/\n"
    t += "def hiSurrLo : Nat := %d\ndef hiSurrHi : Nat := %d\ndef loSurrLo : Nat := %d\ndef loSurrHi : Nat := %d\n" % (hiLo, hiHi, loLo, loHi)
    t += "def supplementaryBase : Nat := %d\ndef surrogateShift : Nat := %d\ndef replacementCp : Nat := %d\n" % (base, shift, repl1)
    t += "def hexAdvance : Nat := %d\ndef pairAdvance : Nat := %d\n" % (adv1, adv2)
    # _parseHex4
    ph = fn_body(src, "_parseHex4")
    if not re.search(r"if\s*\(\s*at\s*\+\s*4\s*>\s*_text\.size\(\)\s*\)\s*\{\s*return\s+false\s*;", ph) or not re.search(r"for\s*\(\s*std::size_t\s+k\s*=\s*0\s*;\s*k\s*<\s*4\s*;", ph):
        raise TranslateError("_parseHex4: bounds check / digit count shape changed")
    rng = re.findall(r"h\s*>=\s*'(.)'\s*&&\s*h\s*<=\s*'(.)'\s*\)\s*v\s*\|=\s*static_cast<std::uint32_t>\(\s*h\s*-\s*'(.)'\s*(?:\+\s*(\d+)\s*)?\)", ph)
    if len(rng) != 3 or not re.search(r"v\s*<<=\s*4\s*;", ph):
        raise TranslateError("_parseHex4: digit ranges shape changed")
    t += "/-- `_parseHex4` digit ranges: (first, last, value of first) -/\n"
    t += "def hexRanges : List (Nat × Nat × Nat) := [%s]\n" % ", ".join("(%d, %d, %d)" % (ord(a), ord(b), int(d or 0)) for a, b, c, d in rng)
    for a, b, c, d in rng:
        if a != c:
            raise TranslateError("_parseHex4: range '%s'..'%s' subtracts '%s'" % (a, b, c))
    # _appendUtf8
    au = fn_body(src, "_appendUtf8")
    lits = [cxxscan.const_eval(x) for x in re.findall(r"\b(0[xX][0-9a-fA-F]+|\d+)\b", au)]
    t += "/-- every integer literal of `_appendUtf8` in source order (thresholds, lead bytes, shifts, masks) -/\n"
    t += "def appendUtf8Literals : List Nat := %s\n" % nat_list(lits)
    th = re.findall(r"if\s*\(\s*cp\s*<=\s*(\w+)\s*\)", au)
    if len(th) != 3:
        raise TranslateError("_appendUtf8: expected three `cp <= N` thresholds")
    t += "def utf8Max1 : Nat := %d\ndef utf8Max2 : Nat := %d\ndef utf8Max3 : Nat := %d\n" % tuple(cxxscan.const_eval(x) for x in th)

    # ---- serializer escape table
    es = fn_body(src, "_escapeString")
    arms, default = switch_arms(es, "_escapeString")
    ser = []
    for labels, stmt in arms:
        mm = re.fullmatch(r"result\s*\+=\s*\"((?:\\.|[^\"\\])*)\"\s*;\s*break\s*;", stmt)
        if not mm or len(labels) != 1:
            raise TranslateError("_escapeString: arm %r has an unexpected shape" % labels)
        b = str_lit(mm.group(1))
        if len(b) != 2 or b[0] != 92:
            raise TranslateError("_escapeString: arm %r does not emit a two-character escape" % labels)
        ser.append((labels[0], b[1]))
    md = re.search(r"if\s*\(\s*static_cast<unsigned char>\(c\)\s*<\s*(\w+)\s*\)\s*\{\s*result\s*\+=\s*\"\\\\u\"\s*;\s*char\s+buf\[5\]\s*;\s*std::snprintf\s*\(\s*buf\s*,\s*sizeof\(buf\)\s*,\s*\"([^\"]*)\"\s*,"
                   r"\s*static_cast<unsigned char>\(c\)\s*\)\s*;\s*result\s*\+=\s*buf\s*;\s*\}\s*else\s*\{\s*result\s*\+=\s*c\s*;\s*\}", default)
    if not md:
        raise TranslateError("_escapeString: default arm shape changed")
    t += "/-- `_escapeString` arms: (byte, character emitted after the backslash); default arm: bytes below `serControlBelow` as\n"
    t += "    `\\u` + printf(serControlFormat), everything else verbatim -/\n"
    t += "def serEscapes : List (Nat × Nat) := %s\n" % pair_list(ser)
    t += "def serControlBelow : Nat := %d\ndef serControlFormat : String := %s\n" % (cxxscan.const_eval(md.group(1)), lean_str(md.group(2)))
    if not re.match(r"\s*std::string\s+result\s*=\s*\"\\\"\"\s*;", es) or not re.search(r"result\s*\+=\s*\"\\\"\"\s*;\s*return\s+result\s*;\s*$", es.strip()):
        raise TranslateError("_escapeString: the string is no longer wrapped in quotes")

    # ---- _serialize dispatch
    sz = fn_body(src, "_serialize")
    disp = dict(re.findall(r"case\s+JsonType::(\w+)\s*:\s*return\s+([^;]+);", sz))
    want = {"Null": '"null"', "Boolean": 'getBool() ? "true" : "false"', "Int": "std::to_string(getInt())", "Double": "_formatDouble(getDouble())",
            "String": "_escapeString(getString())", "Array": "_serializeArray(options, depth)", "Object": "_serializeObject(options, depth)"}
    for k, v in want.items():
        if re.sub(r"\s+", " ", disp.get(k, "")).strip() != v:
            raise TranslateError("_serialize: arm %s is `%s`, expected `%s`" % (k, disp.get(k), v))
    fd = fn_body(src, "_formatDouble")
    mf = re.search(r"if\s*\(\s*!\s*std::isfinite\s*\(\s*d\s*\)\s*\)\s*\{\s*return\s+\"(\w+)\"\s*;\s*\}.*std::string\s+out\s*;\s*for\s*\(\s*int\s+precision\s*=\s*(\d+)\s*;\s*precision\s*<=\s*(\d+)\s*;\s*\+\+precision\s*\)\s*\{\s*"
                   r"const\s+auto\s+res\s*=\s*([\w:]+)\s*\(\s*buf\s*,\s*buf\s*\+\s*sizeof\(buf\)\s*,\s*d\s*,\s*std::chars_format::(\w+)\s*,\s*precision\s*\)\s*;\s*out\.assign\s*\(\s*buf\s*,\s*res\.ptr\s*\)\s*;\s*"
                   r"if\s*\(\s*([\w:]+)\s*\(\s*out\s*\)\s*==\s*d\s*\)\s*\{\s*break\s*;\s*\}\s*\}\s*"
                   r"if\s*\(\s*out\.find_first_of\s*\(\s*\"([^\"]*)\"\s*\)\s*==\s*std::string::npos\s*\)\s*\{\s*out\s*\+=\s*\"([^\"]*)\"\s*;\s*\}\s*return\s+out\s*;", fd, re.S)
    if not mf:
        raise TranslateError("_formatDouble: shape changed (expected the std::to_chars(general, precision) loop that reads back with detail::jsonToDouble; "
                             "snprintf/strtod depend on LC_NUMERIC)")
    if mf.group(4) != "std::to_chars" or mf.group(5) != "general":
        raise TranslateError("_formatDouble: formats with %s(%s), expected std::to_chars(general)" % (mf.group(4), mf.group(5)))
    # the scratch buffer must be an automatic array: a `static`/`thread_local` one would be shared between calls (data race)
    bufs = re.findall(r"([^;{}]*?)\bchar\s+buf\s*\[\s*(\d+)\s*\]\s*;", fd)
    if len(bufs) != 1 or bufs[0][0].strip() != "":
        raise TranslateError("_formatDouble: the buffer is not declared as a plain automatic `char buf[N];` (found %r)" % (bufs,))
    # (the size itself is a fact: gen_conformance demands what %.17g needs, 24 characters, no terminator with to_chars)
    # ---- detail::jsonToDouble: the only place a double is read; independent of LC_NUMERIC
    mj = re.search(r"inline\s+double\s+jsonToDouble\s*\(\s*std::string_view\s+token\s*\)\s*\{", src)
    if not mj:
        raise TranslateError("detail::jsonToDouble not found (std::strtod on a JSON token depends on LC_NUMERIC)")
    jd = src[mj.end():cxxscan.match_brace(src, mj.end() - 1)]
    mjd = re.fullmatch(r"\s*std::string\s+text\s*\(\s*token\s*\)\s*;\s*const\s+char\s*\*\s*point\s*=\s*std::localeconv\(\)->decimal_point\s*;\s*"
                       r"if\s*\(\s*point\s*!=\s*nullptr\s*&&\s*point\[0\]\s*!=\s*'\\0'\s*&&\s*std::strcmp\s*\(\s*point\s*,\s*\"([^\"]*)\"\s*\)\s*!=\s*0\s*\)\s*\{\s*"
                       r"const\s+std::size_t\s+dot\s*=\s*text\.find\s*\(\s*'((?:\\.|[^'\\])+)'\s*\)\s*;\s*if\s*\(\s*dot\s*!=\s*std::string::npos\s*\)\s*\{\s*text\.replace\s*\(\s*dot\s*,\s*1\s*,\s*point\s*\)\s*;\s*\}\s*\}\s*"
                       r"return\s+([\w:]+)\s*\(\s*text\.c_str\(\)\s*,\s*nullptr\s*\)\s*;\s*", cxxscan.strip_comments(jd) if hasattr(cxxscan, "strip_comments") else re.sub(r"//[^\n]*", "", jd))
    if not mjd:
        raise TranslateError("detail::jsonToDouble: shape changed")
    if str_lit(mjd.group(1)) != [char_lit(mjd.group(2))]:
        raise TranslateError("detail::jsonToDouble: compares the locale's decimal point with \"%s\" but replaces '%s'" % (mjd.group(1), mjd.group(2)))
    if mf.group(6) not in ("detail::jsonToDouble", "jsonToDouble"):
        raise TranslateError("_formatDouble: reads the text back with %s, not with detail::jsonToDouble" % mf.group(6))
    others = [m.start() for m in re.finditer(r"\b(?:std::)?(?:strtod|strtold|strtof|atof|stod|sscanf)\s*\(", re.sub(r"//[^\n]*", "", src))]
    if len(others) != 1:
        raise TranslateError("a double is read from text in %d places; expected only the std::strtod call inside detail::jsonToDouble" % len(others))
    if re.search(r"\bsetlocale\s*\(|std::locale::global", re.sub(r"//[^\n]*", "", src)):
        raise TranslateError("json.hpp changes the process locale")
    t += "/-- `detail::jsonToDouble`: the JSON decimal point it replaces by `localeconv()->decimal_point`, and the libc function it calls -/\n"
    t += "def decimalPointByte : Nat := %d\ndef toDoublePrimitive : String := %s\n" % (char_lit(mjd.group(2)), lean_str(mjd.group(3)))
    t += "/-- `_formatDouble`: text for non-finite values, first and last precision tried, printf format, characters that mark a\n"
    t += "    double-shaped token, suffix appended when none is present -/\n"
    t += "def fmtNonFinite : String := %s\ndef fmtPrecLo : Nat := %s\ndef fmtPrecHi : Nat := %s\ndef fmtFormat : String := %s\n" % (
        lean_str(mf.group(1)), mf.group(2), mf.group(3), lean_str(mf.group(4) + "/" + mf.group(5)))
    t += "def fmtMarkers : List Nat := %s\ndef fmtSuffix : List Nat := %s\n" % (nat_list(str_lit(mf.group(7))), nat_list(str_lit(mf.group(8))))
    t += "/-- `_formatDouble`'s scratch buffer: automatic storage, size -/\n"
    t += "def fmtBufAutomatic : Bool := true\ndef fmtBufSize : Nat := %s\n" % bufs[0][1]

    # ---- public surface (Model/JsonApi.lean): constructors, container mutators, wrappers, JsonStreamParser - normalised statement text
    nc = cxxscan.strip_comments(src)

    def norm(x):
        return re.sub(r"\s+", " ", x).strip()

    def one(pat, what, flags=re.S):
        ms = re.findall(pat, nc, flags)
        if len(ms) != 1:
            raise TranslateError("%s: expected exactly one match, found %d" % (what, len(ms)))
        return ms[0]
    surface = []
    surface.append(("Json(integral T)", norm(one(r"Json\s*\(\s*T\s+i\s*\)\s*:\s*_value\s*\(([^{}]*)\)\s*\{\s*\}", "integral constructor"))))
    surface.append(("Json(float)", norm(one(r"Json\s*\(\s*float\s+f\s*\)\s*:\s*_value\s*\(([^{}]*)\)\s*\{\s*\}", "float constructor"))))
    surface.append(("Json(double)", norm(one(r"Json\s*\(\s*double\s+d\s*\)\s*:\s*_value\s*\(([^{}]*)\)\s*\{\s*\}", "double constructor"))))
    surface.append(("Json(initializer_list)", norm(one(r"Json\s*\(\s*std::initializer_list<Json>\s+init\s*\)\s*:\s*_value\s*\(([^{}]*)\)\s*\{\s*\}", "initializer-list constructor"))))
    surface.append(("operator=(const Json&)", norm(one(r"Json\s*&\s*operator=\s*\(\s*const\s+Json\s*&\s*other\s*\)\s*\{(.*?)return\s+\*this\s*;", "copy assignment"))))
    for sig, what in ((r"void\s+push_back\s*\(\s*const\s+Json\s*&\s*val\s*\)", "push_back(const Json&)"), (r"void\s+push_back\s*\(\s*Json\s*&&\s*val\s*\)", "push_back(Json&&)"),
                      (r"Json\s*&\s*operator\[\]\s*\(\s*std::size_t\s+index\s*\)", "operator[](size_t)"),
                      (r"Json\s*&\s*operator\[\]\s*\(\s*const\s+std::string\s*&\s*key\s*\)", "operator[](const std::string&)"),
                      (r"std::string\s+dump\s*\([^()]*\)\s*const", "dump"), (r"friend\s+std::istream\s*&\s*operator>>\s*\([^()]*\)", "operator>>"),
                      (r"friend\s+std::ostream\s*&\s*operator<<\s*\([^()]*\)", "operator<<"), (r"operator\s+std::string\s*\(\s*\)\s*const", "operator std::string"),
                      (r"inline\s+Json\s+Json::parseOrThrow\s*\([^()]*\)", "parseOrThrow"), (r"inline\s+Json\s+Json::safe_parse\s*\([^()]*\)", "safe_parse"),
                      (r"inline\s+Json\s+Json::parse\s*\(\s*const\s+std::string\s*&\s*text\s*,\s*std::nullptr_t\s*,\s*bool\s+allow_exceptions\s*\)", "parse(text, nullptr, bool)"),
                      (r"bool\s+feed\s*\(\s*std::string_view\s+chunk\s*\)", "JsonStreamParser::feed"), (r"bool\s+finish\s*\(\s*\)", "JsonStreamParser::finish")):
        ms = list(re.finditer(sig + r"\s*\{", nc))
        if len(ms) != 1:
            raise TranslateError("%s: expected exactly one definition, found %d" % (what, len(ms)))
        body = nc[ms[0].end():cxxscan.match_brace(nc, ms[0].end() - 1)]
        surface.append((what, norm(body)))
    for what, pat in (("parse(const std::string&)", r"static\s+Json\s+parse\s*\(\s*const\s+std::string\s*&\s*text\s*\)\s*\{([^{}]*)\}"),
                      ("parseString", r"static\s+Json\s+parseString\s*\(\s*const\s+std::string\s*&\s*text\s*\)\s*\{([^{}]*)\}"),
                      ("serialize", r"std::string\s+serialize\s*\(\s*const\s+SerializeOptions\s*&\s*options\s*=\s*\{\}\s*\)\s*const\s*\{([^{}]*)\}")):
        surface.append((what, norm(one(pat, what))))
    t += "/-- the public surface around the parser/serializer core: (function, its body / initialiser with white space normalised).  The model\n"
    t += "    (`Model/JsonApi.lean`) mirrors these by hand; `gen_conformance` pins every one, so an edit of any of them breaks the build -/\n"
    t += "def publicSurface : List (String × String) := [\n%s]\n" % ",\n".join("  (%s, %s)" % (lean_str(a), lean_str(b)) for a, b in surface)
    # separators of arrays/objects
    sa = fn_body(src, "_serializeArray")
    sob = fn_body(src, "_serializeObject")
    strs_a = re.findall(r"\"((?:\\.|[^\"\\])*)\"", sa)
    strs_o = re.findall(r"\"((?:\\.|[^\"\\])*)\"", sob)
    t += "/-- string literals of `_serializeArray` / `_serializeObject` in source order -/\n"
    t += "def serArrayLiterals : List String := [%s]\n" % ", ".join(lean_str(bytes(str_lit(x)).decode("latin-1")) for x in strs_a)
    t += "def serObjectLiterals : List String := [%s]\n" % ", ".join(lean_str(bytes(str_lit(x)).decode("latin-1")) for x in strs_o)
    if not re.search(r"if\s*\(\s*options\.sortKeys\s*\)\s*\{\s*std::sort\s*\(\s*keys\.begin\(\)\s*,\s*keys\.end\(\)\s*\)\s*;\s*\}", sob):
        raise TranslateError("_serializeObject: key sorting shape changed")
    for body, fn in ((sa, "_serializeArray"), (sob, "_serializeObject")):
        if len(re.findall(r"for\s*\(\s*int\s+j\s*=\s*0\s*;\s*j\s*<=\s*depth\s*;", body)) != 1 or len(re.findall(r"for\s*\(\s*int\s+j\s*=\s*0\s*;\s*j\s*<\s*depth\s*;", body)) != 1:
            raise TranslateError("%s: indentation loops changed" % fn)
        if not re.search(r"_serialize\s*\(\s*options\s*,\s*depth\s*\+\s*1\s*\)", body):
            raise TranslateError("%s: children are no longer serialized at depth + 1" % fn)

    # ---- delegated primitives, insertion form
    sk = fn_body(src, "_skipWhitespace")
    ARG = r"(static_cast<unsigned char>\(\s*_text\[_pos\]\s*\)|_text\[_pos\])"
    mw = re.fullmatch(r"\s*while\s*\(\s*_pos\s*<\s*_text\.size\(\)\s*&&\s*([\w:]+)\s*\(\s*" + ARG + r"\s*\)\s*\)\s*\{\s*\+\+_pos\s*;\s*\}\s*", sk)
    if not mw:
        raise TranslateError("_skipWhitespace: shape changed")
    calls = re.findall(r"(std::is\w+)\s*\(\s*" + ARG + r"\s*\)", pn)
    digs = set(c[0] for c in calls)
    if len(digs) != 1 or len(calls) != len(re.findall(r"std::is\w+\s*\(", pn)):
        raise TranslateError("_parseNumber: character class calls changed: %s" % sorted(digs))
    # the <cctype> functions are undefined for negative arguments other than EOF: every call must convert the (plain) char first
    argkinds = set("unsigned char" if a.startswith("static_cast") else "char" for a in [mw.group(2)] + [c[1] for c in calls])
    if len(argkinds) != 1:
        raise TranslateError("character class calls mix plain char and unsigned char arguments")
    mi = re.search(r"std::(\w+)\s+i\s*;\s*auto\s+result\s*=\s*([\w:]+)\s*\(\s*numStr\.data\(\)\s*,\s*numStr\.data\(\)\s*\+\s*numStr\.size\(\)\s*,\s*i\s*\)\s*;\s*if\s*\(\s*result\.ec\s*==\s*std::errc\{\}\s*\)", pn)
    dbl = set(re.findall(r"out\s*=\s*Json\s*\(\s*([\w:]+)\s*\(\s*numStr\s*\)\s*\)\s*;", pn))
    if not mi or len(dbl) != 1 or len(re.findall(r"out\s*=\s*Json\s*\(", pn)) != 3:
        raise TranslateError("_parseNumber: conversion calls changed")
    t += "/-- primitives the parser delegates to (their behaviour is a stated assumption of the model) -/\n"
    t += "def wsPredicate : String := %s\ndef digitPredicate : String := %s\n" % (lean_str(mw.group(1)), lean_str(sorted(digs)[0]))
    t += "/-- type of the argument handed to the <cctype> predicates (plain `char` is undefined behaviour for bytes >= 0x80) -/\n"
    t += "def charClassArg : String := %s\n" % lean_str(sorted(argkinds)[0])
    t += "def intType : String := %s\ndef intConversion : String := %s\ndef doubleConversion : String := %s\n" % (
        lean_str(mi.group(1)), lean_str(mi.group(2)), lean_str(sorted(dbl)[0]))
    ins = re.findall(r"obj\s*\[\s*key\.getString\(\)\s*\]\s*=\s*std::move\(value\)\s*;", po)
    if len(ins) != 1 or re.search(r"\b(emplace|insert|try_emplace)\s*\(", po):
        raise TranslateError("_parseObject: members are no longer stored with `obj[key] = value` (last duplicate wins)")
    t += "/-- `_parseObject` stores a member with `obj[key.getString()] = std::move(value)` -/\n"
    t += "def memberInsertion : String := \"operator[]-assign\"\n"
    lits = re.findall(r"_text\.substr\(_pos,\s*(\d+)\)\s*==\s*\"(\w+)\"\s*\)\s*\{\s*_pos\s*\+=\s*(\d+)\s*;", fn_body(src, "_parseNull") + fn_body(src, "_parseBool"))
    if sorted(x[1] for x in lits) != ["false", "null", "true"] or any(int(a) != len(w) or int(b) != len(w) for a, w, b in lits):
        raise TranslateError("_parseNull/_parseBool: literal comparison shape changed")
    t += "/-- literals of `_parseNull` / `_parseBool` in source order -/\n"
    t += "def literals : List String := [%s]\n" % ", ".join(lean_str(w) for a, w, b in lits)
    # dispatch of _parseValue
    arms, default = switch_arms(pv, "_parseValue")
    disp = []
    for labels, stmt in arms:
        mm = re.fullmatch(r"return\s+(_parse\w+)\s*\(\s*out\s*(?:,\s*depth\s*)?\)\s*;", stmt)
        if not mm:
            raise TranslateError("_parseValue: dispatch arm has an unexpected shape: %r" % stmt[:60])
        disp.append((mm.group(1), labels))
    t += "/-- `_parseValue` dispatch: (function, first bytes) -/\n"
    t += "def dispatch : List (String × List Nat) := [%s]\n" % ", ".join("(%s, %s)" % (lean_str(f), nat_list(l)) for f, l in disp)

    # ---- error messages, per function, in source order
    top = fn_body(src, "parse")
    if "result.error.message" not in top or "_skipWhitespace" not in top:
        raise TranslateError("JsonParser::parse() not found")
    msgs = [("parse", re.findall(r"result\.error\.message\s*=\s*(?:_error\.empty\(\)\s*\?\s*)?\"([^\"]*)\"", top))]
    for fn, body in (("_parseValue", pv), ("_parseNull", fn_body(src, "_parseNull")), ("_parseBool", fn_body(src, "_parseBool")),
                     ("_parseNumber", pn), ("_parseString", ps), ("_parseArray", pa), ("_parseObject", po)):
        msgs.append((fn, [bytes(str_lit(x)).decode("latin-1") for x in re.findall(r"_error\s*=\s*\"((?:\\.|[^\"\\])*)\"\s*;", body)]))
    t += "/-- error messages assigned in each parser function, in source order -/\n"
    t += "def errorMessages : List (String × List String) := [\n%s]\n" % ",\n".join("  (%s, [%s])" % (lean_str(f), ", ".join(lean_str(m) for m in ms)) for f, ms in msgs)
    t += "end Iora.Gen.Json\n"
    return "IoraModel/Gen/Json.lean", t
