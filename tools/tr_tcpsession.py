"""Translator unit `tcpsession` -> Gen/TcpSession.lean (C01): write-path limits/defaults, the lock discipline of the
command queue, and the offset/queue-end expressions of the requeue code in doSend / writePending.

Facts only (DESIGN §2.1).  What the expressions have to BE is stated in Lean (`Props/C01.lean`, `gen_conforms`), so a
changed offset shows up as an obligation that no longer builds; a shape this unit cannot find at all is a TranslateError."""
import re
import cxxscan
from translate import TranslateError, HEADER, read

TYPES = "include/iora/network/transport_types.hpp"
ENGINE = "include/iora/network/detail/tcp_engine.hpp"


def _bool(src, name):
    m = re.search(r"\bbool\s+%s\s*\{\s*(true|false)\s*\}" % name, src)
    if not m:
        raise TranslateError("TransportConfig::%s: default not found" % name)
    return m.group(1)


def _enclosing_block(body, pos):
    """(start, end) of the innermost brace block of `body` that contains `pos`; the whole body if none."""
    best = (0, len(body))
    stack = []
    i, n = 0, len(body)
    while i < n:
        c = body[i]
        if c == '"' or c == "'":
            q = c
            i += 1
            while i < n and body[i] != q:
                if body[i] == "\\":
                    i += 1
                i += 1
        elif c == "{":
            stack.append(i)
        elif c == "}":
            if not stack:
                raise TranslateError("unbalanced braces")
            a = stack.pop()
            if a < pos < i and (i - a) < (best[1] - best[0]):
                best = (a, i)
        i += 1
    return best


def _under_lock(body, what_re, mutex, fn):
    """Every match of `what_re` in `body` lies after a `lock_guard/unique_lock ... (mutex)` declared in an enclosing block."""
    hits = list(re.finditer(what_re, body))
    if not hits:
        raise TranslateError("%s: `%s` not found" % (fn, what_re))
    locks = [m.start() for m in re.finditer(r"std::(?:lock_guard|unique_lock|scoped_lock)\s*<[^>]*>\s*\w+\s*\(\s*%s\s*\)" % re.escape(mutex), body)]
    for h in hits:
        ok = False
        for l in locks:
            a, b = _enclosing_block(body, l)
            if a < h.start() < b and l < h.start():
                ok = True
        if not ok:
            return False
    return True


def _lean_strs(xs):
    return "[" + ", ".join('"%s"' % x.replace('"', "'") for x in xs) + "]"


def gen(repo):
    tsrc = read(repo, TYPES)
    esrc = read(repo, ENGINE)
    mwq = cxxscan.find_int(r"std::size_t\s+maxWriteQueue\s*\{([^}]*)\}", tsrc, "TransportConfig::maxWriteQueue")
    chunk = cxxscan.find_int(r"std::size_t\s+ioReadChunk\s*\{([^}]*)\}", tsrc, "TransportConfig::ioReadChunk")
    cob = _bool(tsrc, "closeOnBackpressure")
    et = _bool(tsrc, "useEdgeTriggered")

    # ---- command queue: both enqueue overloads push under _cmdMutex; process() swaps under it and walks the batch front to back
    enq = [cxxscan.function_body(esrc, "enqueue", signature_contains="const Command"), cxxscan.function_body(esrc, "enqueue", signature_contains="Command &&")]
    enq_locked = all(_under_lock(b, r"_cmds\s*\.\s*\w+\s*\(", "_cmdMutex", "enqueue") for b in enq)
    enq_push = []
    for b in enq:
        enq_push += re.findall(r"_cmds\s*\.\s*(\w+)\s*\(", b)
    proc = cxxscan.function_body(esrc, "process")
    swap_locked = _under_lock(proc, r"\bq\s*\.\s*swap\s*\(\s*_cmds\s*\)", "_cmdMutex", "process")
    m = re.search(r"for\s*\(\s*auto\s*&\s*(\w+)\s*:\s*(\w+)\s*\)", proc)
    if not m or m.group(2) != "q":
        raise TranslateError("process(): the dispatch loop `for (auto &c : q)` was not found")
    send_arm = re.search(r"case\s+Cmd::Send\s*:\s*(\w+)\s*\(\s*std::move\s*\(\s*%s\s*\.\s*s\s*\)\s*\)" % m.group(1), proc)
    if not send_arm:
        raise TranslateError("process(): the Cmd::Send arm was not recognised")

    # ---- process(): ONE call dispatches the WHOLE swapped batch, front to back — no budget, no early exit, nothing handed back
    m_loop = re.search(r"for\s*\(\s*auto\s*&\s*\w+\s*:\s*q\s*\)\s*\{", proc)
    loop_end = cxxscan.match_brace(proc, m_loop.end() - 1)
    loop_body = proc[m_loop.end():loop_end]
    m_sw = re.search(r"switch\s*\(\s*\w+\s*\.\s*t\s*\)\s*\{", loop_body)
    if not m_sw:
        raise TranslateError("process(): `switch (c.t)` inside the dispatch loop was not recognised")
    sw_end = cxxscan.match_brace(loop_body, m_sw.end() - 1)
    outside_switch = loop_body[:m_sw.start()] + loop_body[sw_end + 1:]
    loop_exits = len(re.findall(r"\b(?:break|continue|return|goto)\b", outside_switch))
    n_loops_proc = len(re.findall(r"\b(?:while|for|do)\b", re.sub(r'"(?:[^"\\\\]|\\\\.)*"', '""', proc)))
    proc_cmds_ops = re.findall(r"_cmds\s*\.\s*(\w+)\s*\(", proc) + ["swap-arg" for _ in re.findall(r"\.\s*swap\s*\(\s*_cmds\s*\)", proc)]
    proc_evt_writes = len(re.findall(r"::\s*write\s*\(\s*_eventFd\b", proc))
    proc_locks = len(re.findall(r"std::(?:lock_guard|unique_lock|scoped_lock)\s*<[^>]*>\s*\w+\s*\(\s*_cmdMutex\s*\)", proc))
    whole_batch = loop_exits == 0 and n_loops_proc == 1 and proc_cmds_ops == ["swap-arg"] and proc_evt_writes == 0 and proc_locks == 1
    # every mutation of `_cmds` and every eventfd write in the engine, by count (enqueue x2 push_back + write, process swap, shutdownDrain swap)
    cmds_mut = sorted(re.findall(r"_cmds\s*\.\s*(push_back|push_front|emplace_back|emplace_front|insert|erase|clear|pop_back|pop_front|swap|assign|resize)\s*\(", esrc)
                      + ["swap-arg" for _ in re.findall(r"\.\s*swap\s*\(\s*_cmds\s*\)", esrc)])
    evt_writes_total = len(re.findall(r"::\s*write\s*\(\s*_eventFd\b", esrc))

    # ---- send(): one command per call, private copy of all n bytes, n == 0 not enqueued
    snd = cxxscan.function_body(esrc, "send", signature_contains="const void")
    m0 = re.search(r"if\s*\(\s*n\s*==\s*0\s*\)\s*\{\s*return\s+(\w+)\s*;", snd)
    copy = re.search(r"ByteBuffer\s+(\w+)\s*\(\s*(\w+)\s*\)\s*;\s*std::memcpy\s*\(\s*\1\s*\.\s*data\s*\(\s*\)\s*,\s*data\s*,\s*(\w+)\s*\)", snd)
    if not copy:
        raise TranslateError("send(): the payload copy `ByteBuffer b(n); memcpy(b.data(), data, n)` was not recognised")
    n_enq = len(re.findall(r"\benqueue\s*\(", snd))
    n_loops = len(re.findall(r"\b(?:while|for|do)\b", re.sub(r'"(?:[^"\\\\]|\\\\.)*"', '""', snd)))        # one accepted send = one command: no chunking loop

    # ---- doSend: requeue of the unsent tail, and where whole payloads go
    ds = cxxscan.function_body(esrc, "doSend")
    tails = re.findall(r"ByteBuffer\s+remaining\s*\(\s*sr\s*\.\s*payload\s*\.\s*begin\s*\(\s*\)\s*\+\s*([^,]+?)\s*,\s*sr\s*\.\s*payload\s*\.\s*(\w+)\s*\(\s*\)\s*\)", ds)
    tail_push = re.findall(r"s\s*->\s*wq\s*\.\s*(\w+)\s*\(\s*std::move\s*\(\s*remaining\s*\)\s*\)", ds)
    whole_push = re.findall(r"s\s*->\s*wq\s*\.\s*(\w+)\s*\(\s*std::move\s*\(\s*sr\s*\.\s*payload\s*\)\s*\)", ds)
    short_tests = re.findall(r"if\s*\(\s*static_cast\s*<\s*size_t\s*>\s*\(\s*n\s*\)\s*([<>=!]+)\s*sr\s*\.\s*payload\s*\.\s*size\s*\(\s*\)\s*\)", ds)
    if not tails or not tail_push or not whole_push or not short_tests:
        raise TranslateError("doSend(): the requeue code (remaining(payload.begin() + n, payload.end()) / wq.emplace_front / wq.emplace_back) was not recognised")
    bp = re.search(r"if\s*\(\s*s\s*->\s*wq\s*\.\s*size\s*\(\s*\)\s*([<>=!]+)\s*_config\s*\.\s*maxWriteQueue\s*\)", ds)
    if not bp:
        raise TranslateError("doSend(): the backpressure test on wq.size() was not recognised")
    hs_guard = re.search(r"if\s*\(\s*s\s*->\s*tlsMode\s*!=\s*TlsMode::None\s*&&\s*s\s*->\s*tlsState\s*==\s*TlsState::Handshake\s*\)\s*\{", ds)
    if not hs_guard:
        raise TranslateError("doSend(): the TLS-handshake guard was not recognised")
    hs_end = cxxscan.match_brace(ds, hs_guard.end() - 1)
    hs_block = ds[hs_guard.end():hs_end]
    hs_writes = len(re.findall(r"::send\s*\(|SSL_write\s*\(", hs_block))
    first_write = min([m.start() for m in re.finditer(r"::send\s*\(|SSL_write\s*\(", ds)] or [-1])
    hs_before_writes = first_write > hs_guard.start()

    # ---- writePending: erase exactly the written prefix, pop a fully written buffer, always work on the front
    wp = cxxscan.function_body(esrc, "writePending")
    front = re.findall(r"ByteBuffer\s*&\s*d\s*=\s*s\s*->\s*wq\s*\.\s*(\w+)\s*\(\s*\)", wp)
    erase = re.findall(r"d\s*\.\s*erase\s*\(\s*d\s*\.\s*begin\s*\(\s*\)\s*(?:\+\s*([^,]+?)\s*)?,\s*d\s*\.\s*begin\s*\(\s*\)\s*\+\s*([^)]+?)\s*\)", wp)
    pop = re.findall(r"s\s*->\s*wq\s*\.\s*(pop_\w+)\s*\(\s*\)", wp)
    wp_short = re.findall(r"if\s*\(\s*static_cast\s*<\s*size_t\s*>\s*\(\s*n\s*\)\s*([<>=!]+)\s*d\s*\.\s*size\s*\(\s*\)\s*\)", wp)
    if not front or not erase or not pop or not wp_short:
        raise TranslateError("writePending(): front()/erase(begin, begin + n)/pop_front() were not recognised")

    # ---- updateInterest / modEpoll: the mask computation and the (un)conditional epoll_ctl(MOD) that T3 relies on
    ui = cxxscan.function_body(esrc, "updateInterest")
    norm = lambda x: re.sub(r"\s+", " ", x).strip()
    m_base = re.search(r"std::uint32_t\s+ev\s*=\s*([^;]+);", ui)
    m_et = re.search(r"if\s*\(\s*([^)]+?)\s*\)\s*\{?\s*ev\s*\|=\s*(\w+)\s*;", ui)
    m_need = re.search(r"bool\s+needWrite\s*=\s*([^;]+);", ui)
    m_hs = re.search(r"if\s*\(\s*(s\s*->\s*tlsState\s*==\s*TlsState::\w+)\s*\)\s*\{\s*needWrite\s*=\s*needWrite\s*\|\|\s*([^;]+);\s*\}\s*else\s*\{\s*needWrite\s*=\s*needWrite\s*\|\|\s*([^;]+);\s*\}", ui)
    m_out = re.search(r"if\s*\(\s*(\w+)\s*\)\s*\{\s*ev\s*\|=\s*(EPOLLOUT)\s*;\s*\}", ui)
    if not (m_base and m_et and m_need and m_hs and m_out):
        raise TranslateError("updateInterest(): the mask computation (ev = EPOLLIN; ET flag; needWrite; handshake/else addend; EPOLLOUT) was not recognised")
    n_ret = len(re.findall(r"\breturn\b", ui))
    mods = list(re.finditer(r"modEpoll\s*\(\s*s\s*->\s*fd\s*,\s*ev\s*\)", ui))
    def depth_at(body, pos):
        d = 0
        for ch in body[:pos]:
            if ch == "{":
                d += 1
            elif ch == "}":
                d -= 1
        return d
    plain_stmt = [m for m in mods if depth_at(ui, m.start()) == 0 and re.search(r"[;}]\s*$", ui[:m.start()]) and re.match(r"\s*;", ui[m.end():])]
    cache = re.search(r"if\s*\(\s*ev\s*==\s*s\s*->\s*(\w+)\s*\)\s*\{?\s*return\s*;", ui)
    if n_ret == 0 and len(mods) == 1 and len(plain_stmt) == 1:
        ui_skips = False
    elif cache and len(mods) == 1 and re.search(r"s\s*->\s*%s\s*=\s*ev\s*;" % cache.group(1), ui):
        ui_skips = True        # a per-session copy of the registered mask: MOD skipped when unchanged (the model follows; T3 does not hold then)
    else:
        raise TranslateError("updateInterest(): neither one unconditional `modEpoll(s->fd, ev);` nor a recognisable mask cache (%d return(s), %d modEpoll call(s))" % (n_ret, len(mods)))
    me = cxxscan.function_body(esrc, "modEpoll")
    m_me = re.search(r"return\s*::\s*epoll_ctl\s*\(\s*_epollFd\s*,\s*(\w+)\s*,\s*fd\s*,\s*&\s*e\s*\)\s*==\s*0\s*;", me)
    if not m_me or len(re.findall(r"\breturn\b|\bif\b", me)) != 1 or not re.search(r"e\s*\.\s*events\s*=\s*ev\s*;", me):
        raise TranslateError("modEpoll(): expected exactly `e.events = ev; ... return ::epoll_ctl(_epollFd, EPOLL_CTL_MOD, fd, &e) == 0;`")
    ui_sites = []
    for fn in ("doSend", "writePending", "readAvail", "driveHandshake", "onSession"):
        ui_sites.append((fn, len(re.findall(r"\bupdateInterest\s*\(\s*s\s*\)", cxxscan.function_body(esrc, fn, signature_contains="SendReq" if fn == "doSend" else "Session *s")))))
    total_sites = len(re.findall(r"\bupdateInterest\s*\(\s*s\s*\)\s*;", esrc))
    if total_sites != sum(n for _, n in ui_sites):
        raise TranslateError("updateInterest(s) is called %d times, %d of them outside doSend/writePending/readAvail/driveHandshake/onSession" % (total_sites, total_sites - sum(n for _, n in ui_sites)))

    # ---- TLS mode and TLS state move together (the model merges them into one field)
    tls_sites = []
    for fn in ("onListener", "doConnect", "driveHandshake"):
        b = cxxscan.function_body(esrc, fn, signature_contains={"onListener": "Listener *", "doConnect": "ConnectReq", "driveHandshake": "Session *s"}[fn])
        for m in re.finditer(r"->\s*(tlsMode|tlsState)\s*=\s*(?:TlsMode|TlsState)::(\w+)\s*;", b):
            tls_sites.append("%s:%s=%s" % (fn, m.group(1), m.group(2)))
    n_tls_assign = len(re.findall(r"(?:->|\.)\s*(?:tlsMode|tlsState)\s*=[^=]", esrc))
    if n_tls_assign != len(tls_sites):
        raise TranslateError("tlsMode/tlsState are assigned %d times, only %d inside onListener/doConnect/driveHandshake" % (n_tls_assign, len(tls_sites)))
    d_mode = re.search(r"TlsMode\s+tlsMode\s*\{\s*TlsMode::(\w+)\s*\}", esrc)
    d_state = re.search(r"TlsState\s+tlsState\s*\{\s*TlsState::(\w+)\s*\}", esrc)
    if not d_mode or not d_state:
        raise TranslateError("Session::tlsMode / tlsState default initialisers not found")

    # ---- sendAsync (engine) and the Transport-level send paths only delegate
    sa = cxxscan.function_body(esrc, "sendAsync")
    sa_calls = re.findall(r"=\s*send\s*\(\s*sid\s*,\s*data\s*,\s*len\s*\)", sa)
    isrc = read(repo, "include/iora/network/transport_impl.hpp")
    t_send = re.search(r"Transport::send\s*\(\s*SessionId\s+sid\s*,\s*iora::core::BufferView\s+data\s*\)\s*\{\s*return\s+_impl\s*->\s*engine\s*->\s*(\w+)\s*\(\s*sid\s*,\s*data\.data\(\)\s*,\s*data\.size\(\)\s*\)\s*;\s*\}", isrc)
    t_async = re.search(r"Transport::sendAsync\s*\([^)]*\)\s*\{\s*_impl\s*->\s*engine\s*->\s*(\w+)\s*\(\s*sid\s*,\s*data\.data\(\)\s*,\s*data\.size\(\)\s*,\s*std::move\s*\(\s*cb\s*\)\s*\)\s*;\s*\}", isrc)
    if not t_send or not t_async:
        raise TranslateError("Transport::send / Transport::sendAsync: expected plain delegation to the engine")

    # ---- the eventfd wake-up protocol: write after push_back inside the lock scope; drainEvt() before process() in both loops
    wake_ok = True
    for b in enq:
        pushes = [m.start() for m in re.finditer(r"_cmds\s*\.\s*push_back\s*\(", b)]
        writes = [m.start() for m in re.finditer(r"::\s*write\s*\(\s*_eventFd\b", b)]
        if len(pushes) != 1 or len(writes) != 1:
            raise TranslateError("enqueue(): expected exactly one `_cmds.push_back(` and one `::write(_eventFd, ...)` (found %d / %d)" % (len(pushes), len(writes)))
        if not (pushes[0] < writes[0] and _under_lock(b, r"::\s*write\s*\(\s*_eventFd\b", "_cmdMutex", "enqueue")):
            wake_ok = False
    lu = cxxscan.function_body(esrc, "loopUnbatched")
    m_evt = re.search(r"if\s*\(\s*fd\s*==\s*_eventFd\s*\)\s*\{", lu)
    if not m_evt:
        raise TranslateError("loopUnbatched(): the `if (fd == _eventFd)` arm was not recognised")
    evt_block = lu[m_evt.end():cxxscan.match_brace(lu, m_evt.end() - 1)]
    lb = cxxscan.function_body(esrc, "loopBatched")
    m_lam = re.search(r"\[\s*this\s*\]\s*\(\s*\)\s*\{([^{}]*\bprocess\s*\(\s*\)[^{}]*)\}", lb)
    if not m_lam:
        raise TranslateError("loopBatched(): the onEventFd lambda `[this]() { drainEvt(); process(); }` was not recognised")
    def _order(block, where):
        d = [m.start() for m in re.finditer(r"\bdrainEvt\s*\(\s*\)\s*;", block)]
        pr = [m.start() for m in re.finditer(r"\bprocess\s*\(\s*\)\s*;", block)]
        if len(d) != 1 or len(pr) != 1:
            raise TranslateError("%s: expected exactly one `drainEvt();` and one `process();` in the eventfd handler (found %d / %d)" % (where, len(d), len(pr)))
        return d[0] < pr[0]
    drain_first = _order(evt_block, "loopUnbatched") and _order(m_lam.group(1), "loopBatched")
    n_proc_calls = len(re.findall(r"\bprocess\s*\(\s*\)\s*;", esrc))
    de = cxxscan.function_body(esrc, "drainEvt")
    if not re.search(r"while\s*\(\s*::\s*read\s*\(\s*_eventFd\s*,[^;{]*?\)\s*>\s*0\s*\)", de) or "_cmdMutex" in de:
        raise TranslateError("drainEvt(): expected `while (::read(_eventFd, ...) > 0) {}` without taking _cmdMutex")
    # start(): the eventfd is created, PUBLISHED in `_eventFd` together with the reopening of the queue (`_cmdsClosed = false`) in one
    # `_cmdMutex` section, registered level-triggered, and only then the loop thread is created
    st = cxxscan.function_body(esrc, "start", signature_contains="")
    m_pub = re.search(r"\b_eventFd\s*=\s*(\w+)\s*;", st)
    m_open = re.search(r"\b_cmdsClosed\s*=\s*false\s*;", st)
    m_thr = re.search(r"\b_loop\s*=\s*std::thread\s*\(", st)
    if not m_thr:
        raise TranslateError("start(): the creation of the loop thread (`_loop = std::thread(`) was not found")
    if m_pub and m_open:
        efd_local = m_pub.group(1)
        blk = _enclosing_block(st, m_pub.start())
        same_block = blk[0] < m_open.start() < blk[1] and blk != (0, len(st))
        pub_locked = same_block and _under_lock(st, r"\b_eventFd\s*=\s*\w+\s*;", "_cmdMutex", "start") and _under_lock(st, r"\b_cmdsClosed\s*=\s*false\s*;", "_cmdMutex", "start")
        m_reg = re.search(r"addEpoll\s*\(\s*(?:%s|_eventFd)\s*,\s*([^)]+?)\s*\)" % re.escape(efd_local), st)
        if not re.search(r"\b(?:const\s+)?int\s+%s\s*=\s*::\s*eventfd\s*\(" % re.escape(efd_local), st):
            raise TranslateError("start(): `_eventFd = %s;` but `%s` is not the result of ::eventfd(...)" % (efd_local, efd_local))
    else:
        pub_locked = False      # the older shape: `_eventFd = ::eventfd(...)` assigned outside any lock
        m_reg = re.search(r"addEpoll\s*\(\s*_eventFd\s*,\s*([^)]+?)\s*\)", st)
        if not re.search(r"\b_eventFd\s*=\s*::\s*eventfd\s*\(", st):
            raise TranslateError("start(): neither `_eventFd = <local>; _cmdsClosed = false;` nor `_eventFd = ::eventfd(...)` was recognised")
    if not m_reg:
        raise TranslateError("start(): the epoll registration of the eventfd (`addEpoll(efd, EPOLLIN)` / `addEpoll(_eventFd, EPOLLIN)`) was not found")
    n_evt_reg = len(re.findall(r"addEpoll\s*\(\s*(?:efd|_eventFd)\b", esrc))
    reg_before_thread = m_reg.start() < m_thr.start()
    pub_before_reg = (m_pub.start() < m_reg.start()) if (m_pub and m_open) else True

    # ---- send(): callees and return statements (a delegation to a chunking helper changes both)
    KW = {"if", "while", "for", "switch", "return", "sizeof", "static_cast", "reinterpret_cast", "const_cast", "catch", "do"}
    snd_nostr = re.sub(r'"(?:[^"\\\\]|\\\\.)*"', '""', snd)
    callees = sorted(set(c for c in re.findall(r"([A-Za-z_][\w:]*(?:\s*\.\s*\w+)*)\s*\(", snd_nostr) if c.split("::")[-1] not in KW and c not in KW))
    callees = [re.sub(r"\s+", "", c) for c in callees]
    n_ret_send = len(re.findall(r"\breturn\b", snd_nostr))

    # ---- readAvail: the exit condition of the read loop
    ra = cxxscan.function_body(esrc, "readAvail", signature_contains="Session *s")
    ra_loops = re.findall(r"\b(for|while|do)\b", re.sub(r'"(?:[^"\\\\]|\\\\.)*"', '""', ra))
    if re.match(r"\s*for\s*\(\s*;\s*;\s*\)\s*\{", ra) and ra_loops == ["for"] and "useEdgeTriggered" not in ra:
        ra_drains = True
    elif "useEdgeTriggered" in ra and len([x for x in ra_loops if x in ("for", "do")]) <= 1 and (
            re.search(r"\}\s*while\s*\(\s*[!\w.]+\s*\)\s*;\s*$", ra) or re.match(r"\s*(?:const\s+)?(?:bool|auto)\s+\w+\s*=[^;]*useEdgeTriggered[^;]*;\s*(?:do|while|for)\b", ra)
            or re.match(r"\s*(?:while|for)\s*\([^)]*useEdgeTriggered", ra)):
        ra_drains = False        # the loop goes on only in edge-triggered mode: level-triggered = one read per readiness notification
    else:
        raise TranslateError("readAvail(): neither the unconditional `for (;;)` read loop nor a loop conditioned on useEdgeTriggered (loops: %s)" % ra_loops)
    ra_breaks = len(re.findall(r"\bbreak\s*;", ra))
    ra_returns = len(re.findall(r"\breturn\s*;", ra))

    # ---- process(): the stale-timeout guards of the Close arm
    guards = re.findall(r"if\s*\(\s*c\s*\.\s*closeOrigin\s*==\s*CloseOrigin::(\w+)\s*\)\s*\{\s*if\s*\(\s*([^;{}]+?)\s*\)\s*break\s*;\s*\}", proc)
    n_origin_tests = len(re.findall(r"closeOrigin\s*==", proc))
    if n_origin_tests != len(guards):
        raise TranslateError("process(): %d closeOrigin tests, only %d of the shape `if (c.closeOrigin == CloseOrigin::X) { if (COND) break; }`" % (n_origin_tests, len(guards)))
    m_close_arm = re.search(r"case\s+Cmd::Close\s*:", proc)
    if not m_close_arm or not re.search(r"closeNow\s*\(\s*s\s*,\s*c\s*\.\s*closeReason\s*,\s*c\s*\.\s*closeMsg\s*,\s*0\s*\)\s*;", proc[m_close_arm.end():]):
        raise TranslateError("process(): the Close arm `closeNow(s, c.closeReason, c.closeMsg, 0);` was not recognised")

    # ---- shutdownDrain: process(), close every open session with its callback, then close the queue and take the residual under the lock
    sd = cxxscan.function_body(esrc, "shutdownDrain")
    marks = [("process", r"\bprocess\s*\(\s*\)\s*;"), ("skip-closed", r"if\s*\(\s*!s\s*\|\|\s*s\s*->\s*closed\s*\)\s*continue\s*;"),
             ("mark-closed", r"s\s*->\s*closed\s*=\s*true\s*;"), ("epoll-del", r"delEpoll\s*\(\s*s\s*->\s*fd\s*\)\s*;"),
             ("close-fd", r"::\s*close\s*\(\s*s\s*->\s*fd\s*\)\s*;"), ("close-callback", r"closeCb\s*\(\s*s\s*->\s*id\s*,"),
             ("queue-closed", r"_cmdsClosed\s*=\s*true\s*;"), ("residual-swap", r"residual\s*\.\s*swap\s*\(\s*_cmds\s*\)\s*;")]
    pos = []
    for nm, rx in marks:
        hits = [m.start() for m in re.finditer(rx, sd)]
        if len(hits) != 1:
            raise TranslateError("shutdownDrain(): expected exactly one `%s` step, found %d" % (nm, len(hits)))
        pos.append((hits[0], nm))
    sd_steps = [nm for _, nm in sorted(pos)]
    sd_locked = _under_lock(sd, r"residual\s*\.\s*swap\s*\(\s*_cmds\s*\)", "_cmdMutex", "shutdownDrain") and _under_lock(sd, r"_cmdsClosed\s*=\s*true", "_cmdMutex", "shutdownDrain")
    sd_dispatch = len(re.findall(r"\bdoSend\s*\(|\bdoConnect\s*\(|\bdoAddListener\s*\(", sd))

    # ---- Transport::sendSync / ITransport::sendSyncCancellable only delegate (one engine->send, no loop)
    ss = cxxscan.function_body(isrc, "sendSync", signature_contains="BufferView data")
    ss_calls = re.findall(r"_impl\s*->\s*engine\s*->\s*(\w+)\s*\(\s*sid\s*,\s*data\.data\(\)\s*,\s*data\.size\(\)\s*\)", ss)
    ss_engine = [c for c in re.findall(r"_impl\s*->\s*engine\s*->\s*(\w+)\s*\(", ss) if c != "getIoThreadId"]
    ss_loops = len(re.findall(r"\b(?:while|for|do)\b", re.sub(r'"(?:[^"\\\\]|\\\\.)*"', '""', ss)))
    if ss_calls != ss_engine:
        raise TranslateError("Transport::sendSync: an engine call other than `engine->send(sid, data.data(), data.size())`: %s" % ss_engine)
    sc = cxxscan.function_body(isrc, "sendSyncCancellable", signature_contains="CancellationToken")
    sc_calls = re.findall(r"\b(sendSync|send|sendAsync)\s*\(\s*sid\s*,\s*data\s*[,)]", sc)
    sc_loops = len(re.findall(r"\b(?:while|for|do)\b", re.sub(r'"(?:[^"\\\\]|\\\\.)*"', '""', sc)))

    # ---- EventBatchProcessor::processBatch: special fds inline in the first pass, the others queued and handled in a second pass
    bsrc = read(repo, "include/iora/network/event_batch_processor.hpp")
    pb = cxxscan.function_body(bsrc, "processBatch", signature_contains="SpecialEventHandler")
    m_p1 = re.search(r"for\s*\(\s*int\s+i\s*=\s*0\s*;\s*i\s*<\s*n\s*;\s*\+\+i\s*\)\s*\{", pb)
    m_p2 = re.search(r"for\s*\(\s*const\s+auto\s*&\s*\[\s*fd\s*,\s*eventMask\s*\]\s*:\s*(\w+)\s*\)\s*\{", pb)
    if not m_p1 or not m_p2 or m_p2.start() < m_p1.start():
        raise TranslateError("processBatch(): the two passes (for i < n ... / for [fd, eventMask] : normalEvents) were not recognised")
    p1 = pb[m_p1.end():cxxscan.match_brace(pb, m_p1.end() - 1)]
    p2 = pb[m_p2.end():cxxscan.match_brace(pb, m_p2.end() - 1)]
    m_sp = re.search(r"if\s*\(\s*specialHandler\s*\(\s*fd\s*,\s*eventMask\s*\)\s*\)\s*\{\s*continue\s*;\s*\}", p1)
    m_q = re.search(r"(\w+)\s*\.\s*(\w+)\s*\(\s*fd\s*,\s*eventMask\s*\)\s*;", p1[m_sp.end():] if m_sp else "")
    if not m_sp or not m_q or "generalHandler" in p1 or not re.search(r"generalHandler\s*\(\s*fd\s*,\s*eventMask\s*\)\s*;", p2):
        raise TranslateError("processBatch(): expected `if (specialHandler(fd, eventMask)) continue; normalEvents.emplace_back(fd, eventMask);` then `generalHandler(fd, eventMask)` in the second pass")
    batch_shape = ["special-inline-first-pass", "%s.%s" % (m_q.group(1), m_q.group(2)), "second-pass-over:" + m_p2.group(1)]

    t = HEADER % (TYPES + ", " + ENGINE + ", include/iora/network/transport_impl.hpp, include/iora/network/event_batch_processor.hpp")
    t += "namespace Iora.Gen.TcpSession\n"
    t += "/-- `TransportConfig::maxWriteQueue` default -/\ndef maxWriteQueue : Nat := %d\n" % mwq
    t += "/-- `TransportConfig::ioReadChunk` default -/\ndef ioReadChunk : Nat := %d\n" % chunk
    t += "/-- `TransportConfig::closeOnBackpressure` default -/\ndef closeOnBackpressure : Bool := %s\n" % cob
    t += "/-- `TransportConfig::useEdgeTriggered` default -/\ndef useEdgeTriggered : Bool := %s\n" % et
    t += "/-- both `TcpEngine::enqueue` overloads: every `_cmds.push_back` lies inside the scope of a lock on `_cmdMutex` -/\n"
    t += "def enqueuePushUnderCmdMutex : Bool := %s\n" % ("true" if enq_locked else "false")
    t += "/-- the `_cmds` member functions called by the two `enqueue` overloads -/\n"
    t += "def enqueueQueueOps : List String := %s\n" % _lean_strs(enq_push)
    t += "/-- `TcpEngine::process`: `q.swap(_cmds)` lies inside the scope of a lock on `_cmdMutex`; the batch is walked by `for (auto &c : q)` -/\n"
    t += "def processSwapUnderCmdMutex : Bool := %s\n" % ("true" if swap_locked else "false")
    t += "/-- `TcpEngine::process`: true iff ONE call dispatches the whole swapped batch in order: the dispatch loop `for (auto &c : q)` is the only loop, has no break/continue/return outside `switch (c.t)`, `_cmds` is touched only by the locked `q.swap(_cmds)` (one `_cmdMutex` section), and process() does not write the eventfd (nothing is handed back to the queue) -/\n"
    t += "def processDispatchesWholeBatch : Bool := %s\n" % ("true" if whole_batch else "false")
    t += "/-- every mutation of `_cmds` in the engine (sorted; `swap-arg` = `x.swap(_cmds)`) and the number of `::write(_eventFd, ...)` statements (both in enqueue) -/\n"
    t += "def cmdsMutations : List String := %s\n" % _lean_strs(cmds_mut)
    t += "def eventFdWrites : Nat := %d\n" % evt_writes_total
    t += "/-- `TcpEngine::send`: value returned for `n == 0` without enqueueing (\"\" = no such early return), copy length, number of `enqueue` calls -/\n"
    t += "def sendEmptyReturns : String := \"%s\"\n" % (m0.group(1) if m0 else "")
    t += "def sendCopyLength : List String := %s\n" % _lean_strs([copy.group(2), copy.group(3)])
    t += "def sendEnqueueCalls : Nat := %d\n" % n_enq
    t += "/-- `TcpEngine::send`: number of loop statements (a payload is never queued in pieces) -/\n"
    t += "def sendLoopCount : Nat := %d\n" % n_loops
    t += "/-- `doSend`: for each short-write branch the offset added to `payload.begin()` and the end iterator of the requeued tail -/\n"
    t += "def doSendTailOffsets : List String := %s\n" % _lean_strs([a.strip() for a, _ in tails])
    t += "def doSendTailEnds : List String := %s\n" % _lean_strs([b for _, b in tails])
    t += "/-- `doSend`: the deque operation that stores the unsent tail / a whole payload -/\n"
    t += "def doSendTailPush : List String := %s\n" % _lean_strs(tail_push)
    t += "def doSendWholePush : List String := %s\n" % _lean_strs(whole_push)
    t += "/-- `doSend`: comparison operators of the short-write tests `size_t(n) ? payload.size()` and of the backpressure test `wq.size() ? maxWriteQueue` -/\n"
    t += "def doSendShortTests : List String := %s\n" % _lean_strs(short_tests)
    t += "def doSendBackpressureTest : String := \"%s\"\n" % bp.group(1)
    t += "/-- `doSend`: number of `::send`/`SSL_write` calls inside the TLS-handshake branch, and whether that branch precedes every write call -/\n"
    t += "def doSendHandshakeBranchWrites : Nat := %d\n" % hs_writes
    t += "def doSendHandshakeGuardFirst : Bool := %s\n" % ("true" if hs_before_writes else "false")
    t += "/-- `writePending`: which end of the queue is written, the erased range `[begin + a, begin + b)` (a = \"\" for none), the pop, the short-write test -/\n"
    t += "def writePendingBuffer : List String := %s\n" % _lean_strs(front)
    t += "def writePendingEraseFrom : List String := %s\n" % _lean_strs([a.strip() for a, _ in erase])
    t += "def writePendingEraseTo : List String := %s\n" % _lean_strs([b.strip() for _, b in erase])
    t += "def writePendingPop : List String := %s\n" % _lean_strs(pop)
    t += "def writePendingShortTests : List String := %s\n" % _lean_strs(wp_short)
    t += "/-- `updateInterest`: true iff it keeps a copy of the registered mask and skips `epoll_ctl(MOD)` when the mask is unchanged; false = exactly one unconditional `modEpoll(s->fd, ev);`, no early return -/\n"
    t += "def updateInterestSkipsUnchangedMask : Bool := %s\n" % ("true" if ui_skips else "false")
    t += "/-- `updateInterest`: base mask, [edge-trigger test, flag], initial `needWrite`, the state test with its addend and the addend of the else branch, [EPOLLOUT test, flag] -/\n"
    t += "def updateInterestBaseMask : String := \"%s\"\n" % norm(m_base.group(1))
    t += "def updateInterestEdge : List String := %s\n" % _lean_strs([norm(m_et.group(1)), m_et.group(2)])
    t += "def updateInterestNeedWrite : String := \"%s\"\n" % norm(m_need.group(1))
    t += "def updateInterestStateSplit : List String := %s\n" % _lean_strs([norm(m_hs.group(1)), norm(m_hs.group(2)), norm(m_hs.group(3))])
    t += "def updateInterestOut : List String := %s\n" % _lean_strs([m_out.group(1), m_out.group(2)])
    t += "/-- `modEpoll`: the epoll_ctl operation of its single unconditional call -/\n"
    t += "def modEpollOp : String := \"%s\"\n" % m_me.group(1)
    t += "/-- number of `updateInterest(s)` calls per function (no other call sites exist) -/\n"
    t += "def updateInterestCallSites : List (String × Nat) := [%s]\n" % ", ".join('("%s", %d)' % x for x in ui_sites)
    t += "/-- every assignment to `Session::tlsMode` / `tlsState` (function:field=value, in source order) and the two default initialisers -/\n"
    t += "def tlsAssignments : List String := %s\n" % _lean_strs(tls_sites)
    t += "def tlsDefaults : List String := %s\n" % _lean_strs([d_mode.group(1), d_state.group(1)])
    t += "/-- `TcpEngine::sendAsync`: number of `send(sid, data, len)` calls; `Transport::send` / `Transport::sendAsync`: the engine function they delegate to -/\n"
    t += "def sendAsyncSendCalls : Nat := %d\n" % len(sa_calls)
    t += "def transportSendDelegates : List String := %s\n" % _lean_strs([t_send.group(1), t_async.group(1)])
    t += "/-- both `enqueue` overloads: the `::write(_eventFd, ...)` follows `_cmds.push_back` and lies inside the same `_cmdMutex` scope -/\n"
    t += "def enqueueWakeAfterPushUnderLock : Bool := %s\n" % ("true" if wake_ok else "false")
    t += "/-- `loopUnbatched` (the `fd == _eventFd` arm) and `loopBatched` (the onEventFd lambda): `drainEvt();` textually precedes `process();`; number of `process();` call statements in the engine (2 loops + shutdownDrain) -/\n"
    t += "def loopDrainBeforeProcess : Bool := %s\n" % ("true" if drain_first else "false")
    t += "def processCallStatements : Nat := %d\n" % n_proc_calls
    t += "/-- the event mask `_eventFd` is registered with (no EPOLLET: level-triggered, reported while the counter is non-zero) -/\n"
    t += "def eventFdEpollMask : String := \"%s\"\n" % norm(m_reg.group(1))
    t += "/-- `start()`: `_eventFd = <the fresh eventfd>` and `_cmdsClosed = false` lie in ONE block under a lock on `_cmdMutex` (a command is accepted only together with a valid descriptor); the descriptor is published before it is registered; the registration precedes the creation of the loop thread (a command written before the registration is not lost: the counter is a level); number of eventfd registrations in the engine -/\n"
    t += "def startPublishesEventFdWithQueueReopenUnderCmdMutex : Bool := %s\n" % ("true" if pub_locked else "false")
    t += "def startPublishesEventFdBeforeRegistration : Bool := %s\n" % ("true" if pub_before_reg else "false")
    t += "def startRegistersEventFdBeforeLoopThread : Bool := %s\n" % ("true" if reg_before_thread else "false")
    t += "def eventFdRegistrations : Nat := %d\n" % n_evt_reg
    t += "/-- `TcpEngine::send`: every callee (sorted, distinct) and the number of `return` statements -/\n"
    t += "def sendCallees : List String := %s\n" % _lean_strs(callees)
    t += "def sendReturnCount : Nat := %d\n" % n_ret_send
    t += "/-- `readAvail`: true iff its read loop is the unconditional `for (;;)` (left only by break/return at EAGAIN / WANT_* / EOF / error) — also in level-triggered mode; false iff the loop goes on only when `_config.useEdgeTriggered`; number of `break;` / `return;` exits -/\n"
    t += "def readAvailDrainsLevelTriggered : Bool := %s\n" % ("true" if ra_drains else "false")
    t += "def readAvailBreaks : Nat := %d\n" % ra_breaks
    t += "def readAvailReturns : Nat := %d\n" % ra_returns
    t += "/-- `process()`, Close arm: for each `c.closeOrigin == CloseOrigin::X` test the condition under which the command is dropped (`break`) -/\n"
    t += "def processCloseGuards : List String := %s\n" % _lean_strs(["%s:%s" % (o, norm(cnd)) for o, cnd in guards])
    t += "/-- `Transport::sendSync`: the engine functions called with (sid, data.data(), data.size()) and its loop count; `ITransport::sendSyncCancellable`: the send functions it calls and its loop count -/\n"
    t += "def transportSendSyncDelegates : List String := %s\n" % _lean_strs(ss_calls)
    t += "def transportSendSyncLoops : Nat := %d\n" % ss_loops
    t += "def transportSendSyncCancellableDelegates : List String := %s\n" % _lean_strs(sc_calls)
    t += "def transportSendSyncCancellableLoops : Nat := %d\n" % sc_loops
    t += "/-- `EventBatchProcessor::processBatch`: special fds handled inside the first pass, where the other events go, what the second pass walks -/\n"
    t += "def batchProcessorShape : List String := %s\n" % _lean_strs(batch_shape)
    t += "/-- `shutdownDrain`: its steps in source order; queue closing and residual swap under `_cmdMutex`; number of doSend/doConnect/doAddListener calls (the residual is dropped, not dispatched) -/\n"
    t += "def shutdownDrainSteps : List String := %s\n" % _lean_strs(sd_steps)
    t += "def shutdownResidualUnderCmdMutex : Bool := %s\n" % ("true" if sd_locked else "false")
    t += "def shutdownDrainDispatchCalls : Nat := %d\n" % sd_dispatch
    t += "end Iora.Gen.TcpSession\n"
    return "IoraModel/Gen/TcpSession.lean", t
