"""Translator unit `tcpsession` -> Gen/TcpSession.lean (C01): write-path limits/defaults, the lock discipline of the
command queue, and the offset/queue-end expressions of the requeue code in doSend / writePending.

Facts only (DESIGN §2.1).  What the expressions have to BE is stated in Lean (`Props/C01.lean`, `gen_conforms`), so a
changed offset shows up as an obligation that no longer builds; a shape this unit cannot find at all is a TranslateError."""
import re
import cxxscan
from translate import TranslateError, HEADER, read

TYPES = "include/iora/network/transport_types.hpp"
ENGINE = "include/iora/network/detail/tcp_engine.hpp"


def _bool(src, name):
    m = re.search(r"\bbool\s+%s\s*\{\s*(true|false)\s*\}" % name, src)
    if not m:
        raise TranslateError("TransportConfig::%s: default not found" % name)
    return m.group(1)


def _enclosing_block(body, pos):
    """(start, end) of the innermost brace block of `body` that contains `pos`; the whole body if none."""
    best = (0, len(body))
    stack = []
    i, n = 0, len(body)
    while i < n:
        c = body[i]
        if c == '"' or c == "'":
            q = c
            i += 1
            while i < n and body[i] != q:
                if body[i] == "\\":
                    i += 1
                i += 1
        elif c == "{":
            stack.append(i)
        elif c == "}":
            if not stack:
                raise TranslateError("unbalanced braces")
            a = stack.pop()
            if a < pos < i and (i - a) < (best[1] - best[0]):
                best = (a, i)
        i += 1
    return best


def _under_lock(body, what_re, mutex, fn):
    """Every match of `what_re` in `body` lies after a `lock_guard/unique_lock ... (mutex)` declared in an enclosing block."""
    hits = list(re.finditer(what_re, body))
    if not hits:
        raise TranslateError("%s: `%s` not found" % (fn, what_re))
    locks = [m.start() for m in re.finditer(r"std::(?:lock_guard|unique_lock|scoped_lock)\s*<[^>]*>\s*\w+\s*\(\s*%s\s*\)" % re.escape(mutex), body)]
    for h in hits:
        ok = False
        for l in locks:
            a, b = _enclosing_block(body, l)
            if a < h.start() < b and l < h.start():
                ok = True
        if not ok:
            return False
    return True


def _lean_strs(xs):
    return "[" + ", ".join('"%s"' % x.replace('"', "'") for x in xs) + "]"


def gen(repo):
    tsrc = read(repo, TYPES)
    esrc = read(repo, ENGINE)
    mwq = cxxscan.find_int(r"std::size_t\s+maxWriteQueue\s*\{([^}]*)\}", tsrc, "TransportConfig::maxWriteQueue")
    chunk = cxxscan.find_int(r"std::size_t\s+ioReadChunk\s*\{([^}]*)\}", tsrc, "TransportConfig::ioReadChunk")
    cob = _bool(tsrc, "closeOnBackpressure")
    et = _bool(tsrc, "useEdgeTriggered")

    # ---- command queue: both enqueue overloads push under _cmdMutex; process() swaps under it and walks the batch front to back
    enq = [cxxscan.function_body(esrc, "enqueue", signature_contains="const Command"), cxxscan.function_body(esrc, "enqueue", signature_contains="Command &&")]
    enq_locked = all(_under_lock(b, r"_cmds\s*\.\s*\w+\s*\(", "_cmdMutex", "enqueue") for b in enq)
    enq_push = []
    for b in enq:
        enq_push += re.findall(r"_cmds\s*\.\s*(\w+)\s*\(", b)
    proc = cxxscan.function_body(esrc, "process")
    swap_locked = _under_lock(proc, r"\bq\s*\.\s*swap\s*\(\s*_cmds\s*\)", "_cmdMutex", "process")
    m = re.search(r"for\s*\(\s*auto\s*&\s*(\w+)\s*:\s*(\w+)\s*\)", proc)
    if not m or m.group(2) != "q":
        raise TranslateError("process(): the dispatch loop `for (auto &c : q)` was not found")
    send_arm = re.search(r"case\s+Cmd::Send\s*:\s*(\w+)\s*\(\s*std::move\s*\(\s*%s\s*\.\s*s\s*\)\s*\)" % m.group(1), proc)
    if not send_arm:
        raise TranslateError("process(): the Cmd::Send arm was not recognised")

    # ---- send(): one command per call, private copy of all n bytes, n == 0 not enqueued
    snd = cxxscan.function_body(esrc, "send", signature_contains="const void")
    m0 = re.search(r"if\s*\(\s*n\s*==\s*0\s*\)\s*\{\s*return\s+(\w+)\s*;", snd)
    copy = re.search(r"ByteBuffer\s+(\w+)\s*\(\s*(\w+)\s*\)\s*;\s*std::memcpy\s*\(\s*\1\s*\.\s*data\s*\(\s*\)\s*,\s*data\s*,\s*(\w+)\s*\)", snd)
    if not copy:
        raise TranslateError("send(): the payload copy `ByteBuffer b(n); memcpy(b.data(), data, n)` was not recognised")
    n_enq = len(re.findall(r"\benqueue\s*\(", snd))
    n_loops = len(re.findall(r"\b(?:while|for|do)\b", re.sub(r'"(?:[^"\\\\]|\\\\.)*"', '""', snd)))        # one accepted send = one command: no chunking loop

    # ---- doSend: requeue of the unsent tail, and where whole payloads go
    ds = cxxscan.function_body(esrc, "doSend")
    tails = re.findall(r"ByteBuffer\s+remaining\s*\(\s*sr\s*\.\s*payload\s*\.\s*begin\s*\(\s*\)\s*\+\s*([^,]+?)\s*,\s*sr\s*\.\s*payload\s*\.\s*(\w+)\s*\(\s*\)\s*\)", ds)
    tail_push = re.findall(r"s\s*->\s*wq\s*\.\s*(\w+)\s*\(\s*std::move\s*\(\s*remaining\s*\)\s*\)", ds)
    whole_push = re.findall(r"s\s*->\s*wq\s*\.\s*(\w+)\s*\(\s*std::move\s*\(\s*sr\s*\.\s*payload\s*\)\s*\)", ds)
    short_tests = re.findall(r"if\s*\(\s*static_cast\s*<\s*size_t\s*>\s*\(\s*n\s*\)\s*([<>=!]+)\s*sr\s*\.\s*payload\s*\.\s*size\s*\(\s*\)\s*\)", ds)
    if not tails or not tail_push or not whole_push or not short_tests:
        raise TranslateError("doSend(): the requeue code (remaining(payload.begin() + n, payload.end()) / wq.emplace_front / wq.emplace_back) was not recognised")
    bp = re.search(r"if\s*\(\s*s\s*->\s*wq\s*\.\s*size\s*\(\s*\)\s*([<>=!]+)\s*_config\s*\.\s*maxWriteQueue\s*\)", ds)
    if not bp:
        raise TranslateError("doSend(): the backpressure test on wq.size() was not recognised")
    hs_guard = re.search(r"if\s*\(\s*s\s*->\s*tlsMode\s*!=\s*TlsMode::None\s*&&\s*s\s*->\s*tlsState\s*==\s*TlsState::Handshake\s*\)\s*\{", ds)
    if not hs_guard:
        raise TranslateError("doSend(): the TLS-handshake guard was not recognised")
    hs_end = cxxscan.match_brace(ds, hs_guard.end() - 1)
    hs_block = ds[hs_guard.end():hs_end]
    hs_writes = len(re.findall(r"::send\s*\(|SSL_write\s*\(", hs_block))
    first_write = min([m.start() for m in re.finditer(r"::send\s*\(|SSL_write\s*\(", ds)] or [-1])
    hs_before_writes = first_write > hs_guard.start()

    # ---- writePending: erase exactly the written prefix, pop a fully written buffer, always work on the front
    wp = cxxscan.function_body(esrc, "writePending")
    front = re.findall(r"ByteBuffer\s*&\s*d\s*=\s*s\s*->\s*wq\s*\.\s*(\w+)\s*\(\s*\)", wp)
    erase = re.findall(r"d\s*\.\s*erase\s*\(\s*d\s*\.\s*begin\s*\(\s*\)\s*(?:\+\s*([^,]+?)\s*)?,\s*d\s*\.\s*begin\s*\(\s*\)\s*\+\s*([^)]+?)\s*\)", wp)
    pop = re.findall(r"s\s*->\s*wq\s*\.\s*(pop_\w+)\s*\(\s*\)", wp)
    wp_short = re.findall(r"if\s*\(\s*static_cast\s*<\s*size_t\s*>\s*\(\s*n\s*\)\s*([<>=!]+)\s*d\s*\.\s*size\s*\(\s*\)\s*\)", wp)
    if not front or not erase or not pop or not wp_short:
        raise TranslateError("writePending(): front()/erase(begin, begin + n)/pop_front() were not recognised")

    # ---- updateInterest / modEpoll: the mask computation and the (un)conditional epoll_ctl(MOD) that T3 relies on
    ui = cxxscan.function_body(esrc, "updateInterest")
    norm = lambda x: re.sub(r"\s+", " ", x).strip()
    m_base = re.search(r"std::uint32_t\s+ev\s*=\s*([^;]+);", ui)
    m_et = re.search(r"if\s*\(\s*([^)]+?)\s*\)\s*\{?\s*ev\s*\|=\s*(\w+)\s*;", ui)
    m_need = re.search(r"bool\s+needWrite\s*=\s*([^;]+);", ui)
    m_hs = re.search(r"if\s*\(\s*(s\s*->\s*tlsState\s*==\s*TlsState::\w+)\s*\)\s*\{\s*needWrite\s*=\s*needWrite\s*\|\|\s*([^;]+);\s*\}\s*else\s*\{\s*needWrite\s*=\s*needWrite\s*\|\|\s*([^;]+);\s*\}", ui)
    m_out = re.search(r"if\s*\(\s*(\w+)\s*\)\s*\{\s*ev\s*\|=\s*(EPOLLOUT)\s*;\s*\}", ui)
    if not (m_base and m_et and m_need and m_hs and m_out):
        raise TranslateError("updateInterest(): the mask computation (ev = EPOLLIN; ET flag; needWrite; handshake/else addend; EPOLLOUT) was not recognised")
    n_ret = len(re.findall(r"\breturn\b", ui))
    mods = list(re.finditer(r"modEpoll\s*\(\s*s\s*->\s*fd\s*,\s*ev\s*\)", ui))
    def depth_at(body, pos):
        d = 0
        for ch in body[:pos]:
            if ch == "{":
                d += 1
            elif ch == "}":
                d -= 1
        return d
    plain_stmt = [m for m in mods if depth_at(ui, m.start()) == 0 and re.search(r"[;}]\s*$", ui[:m.start()]) and re.match(r"\s*;", ui[m.end():])]
    cache = re.search(r"if\s*\(\s*ev\s*==\s*s\s*->\s*(\w+)\s*\)\s*\{?\s*return\s*;", ui)
    if n_ret == 0 and len(mods) == 1 and len(plain_stmt) == 1:
        ui_skips = False
    elif cache and len(mods) == 1 and re.search(r"s\s*->\s*%s\s*=\s*ev\s*;" % cache.group(1), ui):
        ui_skips = True        # a per-session copy of the registered mask: MOD skipped when unchanged (the model follows; T3 does not hold then)
    else:
        raise TranslateError("updateInterest(): neither one unconditional `modEpoll(s->fd, ev);` nor a recognisable mask cache (%d return(s), %d modEpoll call(s))" % (n_ret, len(mods)))
    me = cxxscan.function_body(esrc, "modEpoll")
    m_me = re.search(r"return\s*::\s*epoll_ctl\s*\(\s*_epollFd\s*,\s*(\w+)\s*,\s*fd\s*,\s*&\s*e\s*\)\s*==\s*0\s*;", me)
    if not m_me or len(re.findall(r"\breturn\b|\bif\b", me)) != 1 or not re.search(r"e\s*\.\s*events\s*=\s*ev\s*;", me):
        raise TranslateError("modEpoll(): expected exactly `e.events = ev; ... return ::epoll_ctl(_epollFd, EPOLL_CTL_MOD, fd, &e) == 0;`")
    ui_sites = []
    for fn in ("doSend", "writePending", "readAvail", "driveHandshake", "onSession"):
        ui_sites.append((fn, len(re.findall(r"\bupdateInterest\s*\(\s*s\s*\)", cxxscan.function_body(esrc, fn, signature_contains="SendReq" if fn == "doSend" else "Session *s")))))
    total_sites = len(re.findall(r"\bupdateInterest\s*\(\s*s\s*\)\s*;", esrc))
    if total_sites != sum(n for _, n in ui_sites):
        raise TranslateError("updateInterest(s) is called %d times, %d of them outside doSend/writePending/readAvail/driveHandshake/onSession" % (total_sites, total_sites - sum(n for _, n in ui_sites)))

    # ---- TLS mode and TLS state move together (the model merges them into one field)
    tls_sites = []
    for fn in ("onListener", "doConnect", "driveHandshake"):
        b = cxxscan.function_body(esrc, fn, signature_contains={"onListener": "Listener *", "doConnect": "ConnectReq", "driveHandshake": "Session *s"}[fn])
        for m in re.finditer(r"->\s*(tlsMode|tlsState)\s*=\s*(?:TlsMode|TlsState)::(\w+)\s*;", b):
            tls_sites.append("%s:%s=%s" % (fn, m.group(1), m.group(2)))
    n_tls_assign = len(re.findall(r"(?:->|\.)\s*(?:tlsMode|tlsState)\s*=[^=]", esrc))
    if n_tls_assign != len(tls_sites):
        raise TranslateError("tlsMode/tlsState are assigned %d times, only %d inside onListener/doConnect/driveHandshake" % (n_tls_assign, len(tls_sites)))
    d_mode = re.search(r"TlsMode\s+tlsMode\s*\{\s*TlsMode::(\w+)\s*\}", esrc)
    d_state = re.search(r"TlsState\s+tlsState\s*\{\s*TlsState::(\w+)\s*\}", esrc)
    if not d_mode or not d_state:
        raise TranslateError("Session::tlsMode / tlsState default initialisers not found")

    # ---- sendAsync (engine) and the Transport-level send paths only delegate
    sa = cxxscan.function_body(esrc, "sendAsync")
    sa_calls = re.findall(r"=\s*send\s*\(\s*sid\s*,\s*data\s*,\s*len\s*\)", sa)
    isrc = read(repo, "include/iora/network/transport_impl.hpp")
    t_send = re.search(r"Transport::send\s*\(\s*SessionId\s+sid\s*,\s*iora::core::BufferView\s+data\s*\)\s*\{\s*return\s+_impl\s*->\s*engine\s*->\s*(\w+)\s*\(\s*sid\s*,\s*data\.data\(\)\s*,\s*data\.size\(\)\s*\)\s*;\s*\}", isrc)
    t_async = re.search(r"Transport::sendAsync\s*\([^)]*\)\s*\{\s*_impl\s*->\s*engine\s*->\s*(\w+)\s*\(\s*sid\s*,\s*data\.data\(\)\s*,\s*data\.size\(\)\s*,\s*std::move\s*\(\s*cb\s*\)\s*\)\s*;\s*\}", isrc)
    if not t_send or not t_async:
        raise TranslateError("Transport::send / Transport::sendAsync: expected plain delegation to the engine")

    t = HEADER % (TYPES + ", " + ENGINE)
    t += "namespace Iora.Gen.TcpSession\n"
    t += "/-- `TransportConfig::maxWriteQueue` default -/\ndef maxWriteQueue : Nat := %d\n" % mwq
    t += "/-- `TransportConfig::ioReadChunk` default -/\ndef ioReadChunk : Nat := %d\n" % chunk
    t += "/-- `TransportConfig::closeOnBackpressure` default -/\ndef closeOnBackpressure : Bool := %s\n" % cob
    t += "/-- `TransportConfig::useEdgeTriggered` default -/\ndef useEdgeTriggered : Bool := %s\n" % et
    t += "/-- both `TcpEngine::enqueue` overloads: every `_cmds.push_back` lies inside the scope of a lock on `_cmdMutex` -/\n"
    t += "def enqueuePushUnderCmdMutex : Bool := %s\n" % ("true" if enq_locked else "false")
    t += "/-- the `_cmds` member functions called by the two `enqueue` overloads -/\n"
    t += "def enqueueQueueOps : List String := %s\n" % _lean_strs(enq_push)
    t += "/-- `TcpEngine::process`: `q.swap(_cmds)` lies inside the scope of a lock on `_cmdMutex`; the batch is walked by `for (auto &c : q)` -/\n"
    t += "def processSwapUnderCmdMutex : Bool := %s\n" % ("true" if swap_locked else "false")
    t += "/-- `TcpEngine::send`: value returned for `n == 0` without enqueueing (\"\" = no such early return), copy length, number of `enqueue` calls -/\n"
    t += "def sendEmptyReturns : String := \"%s\"\n" % (m0.group(1) if m0 else "")
    t += "def sendCopyLength : List String := %s\n" % _lean_strs([copy.group(2), copy.group(3)])
    t += "def sendEnqueueCalls : Nat := %d\n" % n_enq
    t += "/-- `TcpEngine::send`: number of loop statements (a payload is never queued in pieces) -/\n"
    t += "def sendLoopCount : Nat := %d\n" % n_loops
    t += "/-- `doSend`: for each short-write branch the offset added to `payload.begin()` and the end iterator of the requeued tail -/\n"
    t += "def doSendTailOffsets : List String := %s\n" % _lean_strs([a.strip() for a, _ in tails])
    t += "def doSendTailEnds : List String := %s\n" % _lean_strs([b for _, b in tails])
    t += "/-- `doSend`: the deque operation that stores the unsent tail / a whole payload -/\n"
    t += "def doSendTailPush : List String := %s\n" % _lean_strs(tail_push)
    t += "def doSendWholePush : List String := %s\n" % _lean_strs(whole_push)
    t += "/-- `doSend`: comparison operators of the short-write tests `size_t(n) ? payload.size()` and of the backpressure test `wq.size() ? maxWriteQueue` -/\n"
    t += "def doSendShortTests : List String := %s\n" % _lean_strs(short_tests)
    t += "def doSendBackpressureTest : String := \"%s\"\n" % bp.group(1)
    t += "/-- `doSend`: number of `::send`/`SSL_write` calls inside the TLS-handshake branch, and whether that branch precedes every write call -/\n"
    t += "def doSendHandshakeBranchWrites : Nat := %d\n" % hs_writes
    t += "def doSendHandshakeGuardFirst : Bool := %s\n" % ("true" if hs_before_writes else "false")
    t += "/-- `writePending`: which end of the queue is written, the erased range `[begin + a, begin + b)` (a = \"\" for none), the pop, the short-write test -/\n"
    t += "def writePendingBuffer : List String := %s\n" % _lean_strs(front)
    t += "def writePendingEraseFrom : List String := %s\n" % _lean_strs([a.strip() for a, _ in erase])
    t += "def writePendingEraseTo : List String := %s\n" % _lean_strs([b.strip() for _, b in erase])
    t += "def writePendingPop : List String := %s\n" % _lean_strs(pop)
    t += "def writePendingShortTests : List String := %s\n" % _lean_strs(wp_short)
    t += "/-- `updateInterest`: true iff it keeps a copy of the registered mask and skips `epoll_ctl(MOD)` when the mask is unchanged; false = exactly one unconditional `modEpoll(s->fd, ev);`, no early return -/\n"
    t += "def updateInterestSkipsUnchangedMask : Bool := %s\n" % ("true" if ui_skips else "false")
    t += "/-- `updateInterest`: base mask, [edge-trigger test, flag], initial `needWrite`, the state test with its addend and the addend of the else branch, [EPOLLOUT test, flag] -/\n"
    t += "def updateInterestBaseMask : String := \"%s\"\n" % norm(m_base.group(1))
    t += "def updateInterestEdge : List String := %s\n" % _lean_strs([norm(m_et.group(1)), m_et.group(2)])
    t += "def updateInterestNeedWrite : String := \"%s\"\n" % norm(m_need.group(1))
    t += "def updateInterestStateSplit : List String := %s\n" % _lean_strs([norm(m_hs.group(1)), norm(m_hs.group(2)), norm(m_hs.group(3))])
    t += "def updateInterestOut : List String := %s\n" % _lean_strs([m_out.group(1), m_out.group(2)])
    t += "/-- `modEpoll`: the epoll_ctl operation of its single unconditional call -/\n"
    t += "def modEpollOp : String := \"%s\"\n" % m_me.group(1)
    t += "/-- number of `updateInterest(s)` calls per function (no other call sites exist) -/\n"
    t += "def updateInterestCallSites : List (String × Nat) := [%s]\n" % ", ".join('("%s", %d)' % x for x in ui_sites)
    t += "/-- every assignment to `Session::tlsMode` / `tlsState` (function:field=value, in source order) and the two default initialisers -/\n"
    t += "def tlsAssignments : List String := %s\n" % _lean_strs(tls_sites)
    t += "def tlsDefaults : List String := %s\n" % _lean_strs([d_mode.group(1), d_state.group(1)])
    t += "/-- `TcpEngine::sendAsync`: number of `send(sid, data, len)` calls; `Transport::send` / `Transport::sendAsync`: the engine function they delegate to -/\n"
    t += "def sendAsyncSendCalls : Nat := %d\n" % len(sa_calls)
    t += "def transportSendDelegates : List String := %s\n" % _lean_strs([t_send.group(1), t_async.group(1)])
    t += "end Iora.Gen.TcpSession\n"
    return "IoraModel/Gen/TcpSession.lean", t
