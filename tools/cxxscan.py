"""Small comment/string-aware C++ scanner used by the translator (DESIGN §2.1): strips comments,
finds a function/enum body by name with brace matching, evaluates simple integer constant expressions."""
import hashlib, re


class ScanError(Exception):
    pass


def strip_comments(src):
    """Replace comments by spaces (newlines kept); string/char literals are kept intact."""
    out = []
    i, n = 0, len(src)
    while i < n:
        c = src[i]
        if c == '"' or c == "'":
            q = c
            j = i + 1
            while j < n and src[j] != q:
                if src[j] == "\\":
                    j += 1
                j += 1
            out.append(src[i:j + 1])
            i = j + 1
        elif src.startswith("//", i):
            j = src.find("\n", i)
            j = n if j < 0 else j
            out.append(" " * (j - i))
            i = j
        elif src.startswith("/*", i):
            j = src.find("*/", i + 2)
            j = n if j < 0 else j + 2
            out.append("".join("\n" if ch == "\n" else " " for ch in src[i:j]))
            i = j
        else:
            out.append(c)
            i += 1
    return "".join(out)


def match_brace(src, open_idx):
    """src[open_idx] == '{' -> index of the matching '}' (string-aware; src must be comment-stripped)."""
    depth = 0
    i, n = open_idx, len(src)
    while i < n:
        c = src[i]
        if c == '"' or c == "'":
            q = c
            i += 1
            while i < n and src[i] != q:
                if src[i] == "\\":
                    i += 1
                i += 1
        elif c == "{":
            depth += 1
        elif c == "}":
            depth -= 1
            if depth == 0:
                return i
        i += 1
    raise ScanError("unbalanced braces")


def function_body(src, name, nth=0, signature_contains=None):
    """Body text (between the outer braces) of the nth definition of function `name` in comment-stripped `src`."""
    hits = []
    for m in re.finditer(r"\b%s\s*\(" % re.escape(name), src):
        # find the closing paren of the parameter list
        i = m.end() - 1
        depth = 0
        j = i
        while j < len(src):
            if src[j] == "(":
                depth += 1
            elif src[j] == ")":
                depth -= 1
                if depth == 0:
                    break
            j += 1
        k = j + 1
        # skip qualifiers / initializer lists up to '{' or ';'
        while k < len(src) and src[k] not in "{;":
            if src[k] == "(":   # initializer list item: skip balanced parens
                d2 = 0
                while k < len(src):
                    if src[k] == "(":
                        d2 += 1
                    elif src[k] == ")":
                        d2 -= 1
                        if d2 == 0:
                            break
                    k += 1
            k += 1
        if k < len(src) and src[k] == "{":
            between = src[j + 1:k]
            if re.search(r"[=]", between.split(":")[0]) :
                continue
            # a call inside an expression is followed by ';' or operators, not '{' — but `if (f(x)) {` is: require a plausible header
            head = src[max(0, m.start() - 200):m.start()]
            last = re.split(r"[;{}]", head)[-1]
            if re.search(r"\b(if|while|for|switch|return|else)\b[^;{}]*$", last) and not re.search(r"\)\s*$", last.strip() + ")"):
                pass
            if re.search(r"\b(if|while|for|switch|return)\s*\($", last.rstrip() + "(") and False:
                continue
            sig = src[m.start():k]
            if signature_contains and signature_contains not in sig:
                continue
            if re.search(r"\b(if|while|for|switch|return|catch)\s*$", last.rstrip()):
                continue
            end = match_brace(src, k)
            hits.append((m.start(), src[k + 1:end], sig))
    if len(hits) <= nth:
        raise ScanError("function %s (occurrence %d) not found" % (name, nth))
    return hits[nth][1]


def enum_items(src, name):
    m = re.search(r"enum\s+(?:class\s+)?%s\b[^{;]*\{" % re.escape(name), src)
    if not m:
        raise ScanError("enum %s not found" % name)
    end = match_brace(src, m.end() - 1)
    body = src[m.end():end]
    items = []
    nxt = 0
    for part in body.split(","):
        part = part.strip()
        if not part:
            continue
        mm = re.match(r"(\w+)\s*(?:=\s*(.+))?$", part, re.S)
        if not mm:
            raise ScanError("enum %s: cannot parse enumerator %r" % (name, part))
        val = const_eval(mm.group(2)) if mm.group(2) else nxt
        items.append((mm.group(1), val))
        nxt = val + 1
    return items


def const_eval(expr):
    """Evaluate a C++ integer constant expression made of literals, + - * / << >> | & ( )."""
    e = expr.strip()
    e = re.sub(r"\b(0[xX][0-9a-fA-F']+|\d[\d']*)(?:[uU]?[lL]{0,2}|[lL]{1,2}[uU]?)\b", lambda m: m.group(1).replace("'", ""), e)
    e = re.sub(r"static_cast<[^>]+>", "", e)
    e = re.sub(r"std::size_t|std::uint\d+_t|size_t|uint\d+_t", "", e)
    if not re.fullmatch(r"[0-9a-fA-FxX\s+\-*/()<>|&]+", e):
        raise ScanError("not a constant expression: %r" % expr)
    e = e.replace("/", "//")
    try:
        return int(eval(e, {"__builtins__": {}}, {}))
    except Exception as ex:
        raise ScanError("cannot evaluate %r: %s" % (expr, ex))


def body_sha(body):
    return hashlib.sha256(re.sub(r"\s+", " ", body).strip().encode()).hexdigest()[:16]


def find_int(pattern, text, what, group=1):
    m = re.search(pattern, text, re.S)
    if not m:
        raise ScanError("pattern for %s not found: %s" % (what, pattern))
    return const_eval(m.group(group))
