#!/usr/bin/env python3
"""usage: manifest_add.py <Cnn> <json file with level_text, level_note, technique[, category, design_ref]>  — adds/replaces a check entry."""
import json, sys, os
HERE = os.path.dirname(os.path.dirname(os.path.abspath(__file__)))
pid = sys.argv[1]
d = json.load(open(sys.argv[2]))
mp = os.path.join(HERE, "MANIFEST.json")
m = json.load(open(mp))
entry = {"property_id": pid, "quick_cmd": "python3 check.py %s quick" % pid, "thorough_cmd": "python3 check.py %s thorough" % pid,
         "evidence_file": "/verif/evidence/%s.json" % pid, "replay_cmd_template": "python3 check.py %s quick --replay {path}" % pid,
         "engine": "lean4-proof+lockstep",
         "level_claimed": {"category": d.get("category", "proof"), "text": d["level_text"], "design_ref": d.get("design_ref", "DESIGN.md §7 %s, §12" % pid)},
         "level_note": d["level_note"], "technique": d.get("technique", "Lean 4 proof over a hand-written model + translator-regenerated facts + lockstep differential correspondence")}
m["checks"] = [c for c in m["checks"] if c["property_id"] != pid] + [entry]
m["checks"].sort(key=lambda c: c["property_id"])
m["not_applicable"] = [x for x in m.get("not_applicable", []) if x["property_id"] != pid]
for e in m.get("engines", []):
    if pid not in e["serves_properties"]:
        e["serves_properties"].append(pid)
        e["serves_properties"].sort()
json.dump(m, open(mp, "w"), indent=1)
print("manifest: %d checks, %d not_applicable" % (len(m["checks"]), len(m["not_applicable"])))
