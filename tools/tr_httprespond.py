"""Translator unit `httprespond` -> Gen/HttpRespond.lean (C16): every literal and table that the response path of
HttpServer::processHttpRequest depends on — status texts, the method table, the statuses thrown by the request parser,
the three hard-wired error responses (error arm, shutdown arm, pool overflow), the default headers, the shape of the
Connection decision (tokenised or whole-string), HEAD reconciliation statuses, pool sizes.  Unknown shape => TranslateError."""
import re
import cxxscan
from translate import TranslateError, HEADER, read


def lstr(s):
    if any(ord(c) < 32 or ord(c) > 126 for c in s):
        raise TranslateError("non-printable string literal %r" % s)
    return '"' + s.replace("\\", "\\\\").replace('"', '\\"') + '"'


def need(pat, text, what, flags=re.S):
    m = re.search(pat, text, flags)
    if not m:
        raise TranslateError("%s: shape not recognised (pattern %s)" % (what, pat))
    return m


def cunescape(s):
    if "\\" in s:
        raise TranslateError("escape sequence in literal %r not expected here" % s)
    return s


def set_headers(block, var):
    """ordered list of <var>.setHeader("K", <expr>) calls in a block: (K, literal or None, raw expr)"""
    out = []
    for m in re.finditer(r"\b%s\s*\.\s*setHeader\s*\(\s*\"([^\"]*)\"\s*,\s*(.*?)\)\s*;" % re.escape(var), block, re.S):
        expr = m.group(2).strip()
        lit = re.fullmatch(r"\"([^\"]*)\"", expr)
        out.append((m.group(1), cunescape(lit.group(1)) if lit else None, expr))
    return out


def gen(repo):
    fs = "include/iora/network/http_server.hpp"
    fm = "include/iora/parsers/http_message.hpp"
    ft = "include/iora/core/thread_pool.hpp"
    src = read(repo, fs)
    msg = read(repo, fm)
    tp = read(repo, ft)

    # ---------------------------------------------------------------- http_message.hpp
    methods = [n for n, _ in cxxscan.enum_items(msg, "HttpMethod")]
    pm = cxxscan.function_body(msg, "parseMethod")
    table = re.findall(r"if\s*\(\s*method\s*==\s*\"([^\"]+)\"\s*\)\s*\{\s*return\s+HttpMethod::(\w+)\s*;\s*\}", pm)
    if not table or any(e not in methods for _, e in table):
        raise TranslateError("parseMethod: table shape not recognised")
    rest = pm
    for tok, e in table:
        rest = re.sub(r"if\s*\(\s*method\s*==\s*\"%s\"\s*\)\s*\{\s*return\s+HttpMethod::%s\s*;\s*\}" % (re.escape(tok), e), "", rest, count=1)
    m = need(r"^\s*if\s*\(\s*!\s*isHttpToken\s*\(\s*method\s*\)\s*\)\s*\{\s*throw\s+HttpRequestError\s*\(\s*(\d+)\s*,[^;]*;\s*\}\s*throw\s+HttpRequestError\s*\(\s*(\d+)\s*,[^;]*;\s*$",
             rest, "parseMethod tail (400 for a non-token, 501 for an unknown token)")
    st_bad_token, st_unknown_method = int(m.group(1)), int(m.group(2))
    tok_body = cxxscan.function_body(msg, "isHttpToken")
    punct = need(r"kTcharPunct\s*=\s*\"((?:[^\"\\]|\\.)*)\"", tok_body, "isHttpToken punctuation").group(1)
    if "\\" in punct:
        raise TranslateError("isHttpToken: escape in kTcharPunct")
    need(r"c\s*>=\s*'A'\s*&&\s*c\s*<=\s*'Z'\s*\)\s*\|\|\s*\(\s*c\s*>=\s*'a'\s*&&\s*c\s*<=\s*'z'\s*\)\s*\|\|\s*\(\s*c\s*>=\s*'0'\s*&&\s*c\s*<=\s*'9'\s*\)",
         tok_body, "isHttpToken alnum ranges")
    max_target = cxxscan.find_int(r"MAX_REQUEST_TARGET_SIZE\s*=\s*([^;]+);", msg, "MAX_REQUEST_TARGET_SIZE")
    prl = cxxscan.function_body(msg, "parseRequestLine")
    thrown = [int(x) for x in re.findall(r"throw\s+HttpRequestError\s*\(\s*(\d+)", prl)]
    # order of the checks in parseRequestLine: shape, method ws, version ws, target length, target ctl, [parseMethod], version syntax, major
    if len(thrown) != 7:
        raise TranslateError("parseRequestLine: expected 7 throw sites, found %d (%s)" % (len(thrown), thrown))
    need(r"p1\s*==\s*std::string::npos\s*\|\|\s*p2\s*==\s*std::string::npos\s*\|\|\s*p1\s*==\s*0\s*\|\|\s*p2\s*==\s*p1\s*\+\s*1\s*\|\|\s*p2\s*\+\s*1\s*>=\s*line\.size\(\)",
         prl, "parseRequestLine shape test")
    need(r"for\s*\(char c : methodStr\)\s*\{\s*if\s*\(static_cast<unsigned char>\(c\)\s*<\s*0x21\)", prl, "method whitespace test")
    need(r"for\s*\(char c : versionStr\)\s*\{\s*if\s*\(static_cast<unsigned char>\(c\)\s*<\s*0x21\)", prl, "version whitespace test")
    need(r"target\.size\(\)\s*>\s*MAX_REQUEST_TARGET_SIZE\s*\)\s*\{\s*throw\s+HttpRequestError\s*\(\s*%d" % thrown[3], prl, "target length test")
    need(r"u\s*<\s*0x20\s*\|\|\s*u\s*==\s*0x7F", prl, "target control-character test")
    major = need(r"request\.version\.major\s*!=\s*(\d+)\s*\)\s*\{\s*throw\s+HttpRequestError\s*\(\s*(\d+)", prl, "major version test")
    if int(major.group(2)) != thrown[6]:
        raise TranslateError("parseRequestLine: major-version status mismatch")
    # order: request.uri assigned, then parseMethod, then version
    i_m, i_v = prl.find("parseMethod(methodStr)"), prl.find("HttpVersion::parse(versionStr)")
    i_t = prl.find("target.size() > MAX_REQUEST_TARGET_SIZE")
    if not (0 <= i_t < i_m < i_v):
        raise TranslateError("parseRequestLine: order target-length < parseMethod < version not recognised")
    vp = cxxscan.function_body(msg, "parse", signature_contains="const std::string &version")
    need(r"version\.size\(\)\s*!=\s*8\s*\|\|\s*version\.compare\(0,\s*5,\s*\"HTTP/\"\)\s*!=\s*0\s*\|\|\s*version\[5\]\s*<\s*'0'\s*\|\|\s*version\[5\]\s*>\s*'9'\s*\|\|\s*version\[6\]\s*!=\s*'\.'\s*\|\|\s*version\[7\]\s*<\s*'0'\s*\|\|\s*version\[7\]\s*>\s*'9'",
         vp, "HttpVersion::parse shape")
    fw = cxxscan.function_body(msg, "fromWireFormat")          # first = HttpRequest::fromWireFormat
    if "parseRequestLine" not in fw:
        raise TranslateError("first fromWireFormat is not the request parser")
    fthrown = [int(x) for x in re.findall(r"throw\s+HttpRequestError\s*\(\s*(\d+)", fw)]
    # RFC 9112 5.1 (FC15d): a field line with SP / HTAB right before its first colon is rejected — present or not, the model follows
    ws_colon = re.search(r"if\s*\(\s*colonPos\s*!=\s*std::string::npos\s*\)\s*\{\s*if\s*\(\s*colonPos\s*>\s*0\s*&&\s*\(\s*line\[colonPos\s*-\s*1\]\s*==\s*' '\s*\|\|\s*line\[colonPos\s*-\s*1\]\s*==\s*'\\t'\s*\)\s*\)\s*\{\s*throw\s+HttpRequestError\s*\(\s*(\d+)", fw, re.S)
    if ws_colon and len(fthrown) == 5 and fthrown[1] == int(ws_colon.group(1)):
        st_ws_colon = fthrown.pop(1)
        reject_ws_colon = True
    elif not ws_colon and len(fthrown) == 4:
        st_ws_colon = 400
        reject_ws_colon = False
    else:
        raise TranslateError("HttpRequest::fromWireFormat: HttpRequestError sites not recognised: %s (whitespace-before-colon test %s)" % (fthrown, bool(ws_colon)))
    need(r"line\.front\(\)\s*==\s*' '\s*\|\|\s*line\.front\(\)\s*==\s*'\\t'", fw, "obs-fold test")
    need(r"hostCount\s*>\s*1", fw, "multiple Host test")
    need(r"request\.version\.minor\s*>=\s*1\s*&&\s*hostCount\s*==\s*0", fw, "missing Host test")
    need(r"hostIt\s*!=\s*request\.headers\.end\(\)\s*&&\s*hostIt->second\.empty\(\)", fw, "empty Host test")
    need(r"throw\s+std::invalid_argument\s*\(\s*\"Invalid HTTP request: missing header terminator\"", fw, "missing terminator throw (non-HttpRequestError)")
    lv = cxxscan.function_body(msg, "isListValuedHeader")
    listv = re.findall(r"\"([^\"]+)\"", need(r"kListValued\s*=\s*\{([^}]*)\}", lv, "kListValued").group(1))
    rw = None
    for nth in range(0, 4):
        try:
            b = cxxscan.function_body(msg, "toWireFormat", nth=nth)
        except cxxscan.ScanError:
            break
        if "statusCode" in b:
            rw = b
            break
    if rw is None:
        raise TranslateError("HttpResponse::toWireFormat not found")
    need(r"ss\s*<<\s*version\.toString\(\)\s*<<\s*\" \"\s*<<\s*statusCode\s*<<\s*\" \"\s*<<\s*statusText\s*<<\s*\"\\r\\n\"\s*;", rw, "status line shape")
    need(r"ss\s*<<\s*key\s*<<\s*\": \"\s*<<\s*value\s*<<\s*\"\\r\\n\"\s*;", rw, "header line shape")
    need(r"ss\s*<<\s*\"\\r\\n\"\s*;\s*ss\s*<<\s*body\s*;", rw, "header terminator + body shape")
    need(r"class\s+HttpResponse\s*\{\s*public:\s*HttpVersion\s+version\s*\{\s*1\s*,\s*1\s*\}\s*;", msg, "HttpResponse default version 1.1")
    need(r"return\s+\"HTTP/\"\s*\+\s*std::to_string\(major\)\s*\+\s*\"\.\"\s*\+\s*std::to_string\(minor\)\s*;", msg, "HttpVersion::toString")

    # ---------------------------------------------------------------- http_server.hpp
    gst = cxxscan.function_body(src, "getStatusText")
    texts = [(int(a), cunescape(b)) for a, b in re.findall(r"case\s+(\d+)\s*:\s*return\s+\"([^\"]*)\"\s*;", gst)]
    dflt = need(r"default\s*:\s*return\s+\"([^\"]*)\"\s*;", gst, "getStatusText default").group(1)
    if len(texts) < 5 or len(set(c for c, _ in texts)) != len(texts):
        raise TranslateError("getStatusText: table not recognised")
    leftover = re.sub(r"case\s+\d+\s*:\s*return\s+\"[^\"]*\"\s*;", "", gst)
    leftover = re.sub(r"default\s*:\s*return\s+\"[^\"]*\"\s*;", "", leftover)
    if not re.fullmatch(r"\s*switch\s*\(\s*code\s*\)\s*\{\s*\}\s*", leftover):
        raise TranslateError("getStatusText: unexpected statements %r" % leftover.strip()[:80])

    sc = [cxxscan.function_body(src, "set_content", nth=0), cxxscan.function_body(src, "set_content", nth=1)]
    for b in sc:
        need(r"headers\[\"Content-Type\"\]\s*=\s*contentType\s*;", b, "set_content Content-Type")
        need(r"headers\[\"Content-Length\"\]\s*=\s*std::to_string\(content\.size\(\)\)\s*;", b, "set_content Content-Length")
        need(r"body\s*=\s*(content|std::move\(content\))\s*;", b, "set_content body")

    ST = r"(?:\s*&&\s*sameTransport\(\))?"      # optional generation check in a transport guard
    # the worker function: with the generation check there is a two-argument forwarding overload in front of it
    try:
        php = cxxscan.function_body(src, "processHttpRequest", signature_contains="std::uint64_t epoch")
        fwd = cxxscan.function_body(src, "processHttpRequest", nth=0)
        if not re.fullmatch(r"\s*processHttpRequest\(sid,\s*requestData,\s*_transportEpoch\.load\(\)\)\s*;\s*", fwd):
            raise TranslateError("processHttpRequest: two-argument overload is not a plain forwarder")
    except cxxscan.ScanError:
        php = cxxscan.function_body(src, "processHttpRequest")
    # shutdown arm
    sh = need(r"if\s*\(\s*_shutdown\.load\(\)\s*\)\s*\{(.*?)return\s*;\s*\}\s*try", php, "shutdown arm").group(1)
    shm = need(r"HttpResponse\s+shutdownRes\s*\(\s*(\d+)\s*,\s*\"([^\"]*)\"\s*\)\s*;", sh, "shutdown response ctor")
    sh_hdrs = set_headers(sh, "shutdownRes")
    sh_body = need(r"shutdownRes\.body\s*=\s*\"([^\"]*)\"\s*;", sh, "shutdown body").group(1)
    if [(k, v) for k, v, _ in sh_hdrs if v is not None] != [("Content-Type", "text/plain"), ("Connection", "close")] or \
       [e for k, v, e in sh_hdrs if v is None] != ["std::to_string(shutdownRes.body.size())"]:
        raise TranslateError("shutdown arm: header list not recognised: %s" % sh_hdrs)
    if len(re.findall(r"if\s*\(\s*_transport%s\s*\)" % ST, sh)) != 2 or "_transport->close(sid)" not in sh:
        raise TranslateError("shutdown arm: send/close guards not recognised")

    # error arm
    # the arm that ends processHttpRequest's try: `catch (const std::exception &ex)` (non-std exceptions of the subclass seams escape:
    # the unrepaired code) or `catch (...)` classifying by rethrow (every exception gets the terminal error response)
    tail = r"\{(.*)\}\s*iora::core::Logger::debug\(\"HttpServer::processHttpRequest\(\) - Exiting"
    m_std = re.search(r"\}\s*catch\s*\(\s*const\s+std::exception\s*&ex\s*\)\s*" + tail, php, re.S)
    m_all = re.search(r"\}\s*catch\s*\(\s*\.\.\.\s*\)\s*" + tail, php, re.S)
    # the LAST catch before "Exiting" decides; m_all's lazy start may sit on an inner catch(...) of a lambda, so test the std form first
    if m_std and "catch (...)" not in m_std.group(1).split("int errStatus")[0]:
        ea = m_std.group(1)
        err_catches_all = False
        need(r"dynamic_cast<const\s+HttpRequestError\s*\*>\s*\(\s*&ex\s*\)\s*\)\s*\{\s*errStatus\s*=\s*reqErr->status\(\)\s*;", ea, "error arm status mapping")
    elif m_all:
        ea = php[php.rfind("catch (...)", 0, php.find("int errStatus")):]
        ea = need(r"catch\s*\(\s*\.\.\.\s*\)\s*" + tail, ea, "error arm (catch-all)").group(1)
        err_catches_all = True
        need(r"try\s*\{\s*throw\s*;\s*\}\s*catch\s*\(\s*const\s+HttpRequestError\s*&reqErr\s*\)\s*\{\s*errStatus\s*=\s*reqErr\.status\(\)\s*;[^{}]*\}\s*"
             r"catch\s*\(\s*const\s+std::exception\s*&ex\s*\)\s*\{[^{}]*\}\s*catch\s*\(\s*\.\.\.\s*\)\s*\{\s*\}", ea, "error arm classification by rethrow")
    else:
        raise TranslateError("error arm: neither `catch (const std::exception &ex)` nor `catch (...)` closes processHttpRequest's try")
    if len(re.findall(r"int\s+errStatus\s*=", php)) != 1:
        raise TranslateError("error arm: expected exactly one `int errStatus =`")
    err_default = int(need(r"int\s+errStatus\s*=\s*(\d+)\s*;", ea, "error arm default status").group(1))
    need(r"HttpResponse\s+errorRes\s*\(\s*errStatus\s*,\s*getStatusText\(errStatus\)\s*\)\s*;", ea, "error response ctor")
    ea_hdrs = set_headers(ea, "errorRes")
    if [(k, v) for k, v, _ in ea_hdrs if v is not None] != [("Content-Type", "text/plain"), ("Connection", "close")] or \
       [e for k, v, e in ea_hdrs if v is None] != ["std::to_string(errorRes.body.size())"]:
        raise TranslateError("error arm: header list not recognised: %s" % ea_hdrs)
    need(r"errorRes\.body\s*=\s*getStatusText\(errStatus\)\s*;", ea, "error arm body")
    need(r"errorSendOk\s*=\s*true\s*;", ea, "error arm send flag")
    need(r"if\s*\(\s*errorSendOk\s*\)\s*\{\s*std::lock_guard<std::mutex>\s+lock\(_mutex\)\s*;\s*if\s*\(\s*_transport\s*&&\s*!_shutdown" + ST + r"\s*\)\s*\{\s*_transport->close\(sid\)\s*;", ea, "error arm close")

    # default response, categories
    need(r"Response\s+res\s*;\s*res\.status\s*=\s*404\s*;\s*res\.set_content\(\s*\"Not Found\"\s*,\s*\"text/plain\"\s*\)\s*;", php, "default 404 response")
    cats = {}
    for cat in ("MATCHED", "MATCHED_AS_HEAD", "AUTO_OPTIONS", "OPTIONS_STAR", "METHOD_NOT_ALLOWED", "NO_ROUTE"):
        cats[cat] = need(r"case\s+DispatchDecision::Cat::%s\s*:(.*?)break\s*;\s*(?=case\s+DispatchDecision|\})" % cat, php, "dispatch case " + cat).group(1)
    def cat_status(c):
        return int(need(r"res\.status\s*=\s*(\d+)\s*;", cats[c], "status of category " + c).group(1))
    st_matched, st_head, st_autoopt, st_optstar, st_405 = (cat_status(c) for c in ("MATCHED", "MATCHED_AS_HEAD", "AUTO_OPTIONS", "OPTIONS_STAR", "METHOD_NOT_ALLOWED"))
    need(r"res\.body\.clear\(\)\s*;\s*res\.headers\.erase\(\"Content-Length\"\)\s*;\s*res\.headers\.erase\(\"Content-Type\"\)\s*;\s*res\.headers\[\"Allow\"\]\s*=\s*decision\.allow\s*;", cats["AUTO_OPTIONS"], "AUTO_OPTIONS body")
    need(r"res\.body\.clear\(\)\s*;\s*res\.headers\.erase\(\"Allow\"\)\s*;\s*res\.headers\.erase\(\"Content-Type\"\)\s*;\s*res\.headers\[\"Content-Length\"\]\s*=\s*\"0\"\s*;", cats["OPTIONS_STAR"], "OPTIONS_STAR body")
    b405 = need(r"res\.set_content\(\s*\"([^\"]*)\"\s*,\s*\"text/plain\"\s*\)\s*;\s*res\.headers\[\"Allow\"\]\s*=\s*decision\.allow\s*;", cats["METHOD_NOT_ALLOWED"], "405 body").group(1)
    need(r"invokeWithSafetyNet\(decision\.handler,\s*req,\s*res\)\s*;\s*ranHandler\s*=\s*true\s*;", cats["MATCHED"], "MATCHED invokes the handler")
    need(r"invokeWithSafetyNet\(decision\.handler,\s*req,\s*res\)\s*;\s*if\s*\(\s*res\._suppressSend\s*\)\s*\{.*?res\._suppressSend\s*=\s*false\s*;\s*\}", cats["MATCHED_AS_HEAD"], "MATCHED_AS_HEAD ignores suppression")
    nr = cats["NO_ROUTE"]
    need(r"if\s*\(\s*decision\.hasHandler\s*\)\s*\{\s*res\.status\s*=\s*%d\s*;\s*invokeWithSafetyNet\(decision\.handler,\s*req,\s*res\)\s*;\s*ranHandler\s*=\s*true\s*;\s*\}\s*else\s*\{\s*res\.status\s*=\s*404\s*;\s*res\.set_content\(\s*\"Not Found\"\s*,\s*\"text/plain\"\s*\)\s*;" % st_matched, nr, "NO_ROUTE case")
    need(r"if\s*\(\s*ranHandler\s*&&\s*\(\s*res\._suppressSend\s*\|\|\s*onResponseSuppressed\(req\.sid,\s*req,\s*res\)\s*\)\s*\)\s*\{.*?return\s*;\s*\}", php, "suppression check")
    hd_old = re.search(r"if\s*\(\s*req\.method\s*==\s*HttpMethod::HEAD\s*\)\s*\{\s*res\.body\.clear\(\)\s*;\s*if\s*\(([^)]*)\)\s*\{\s*res\.headers\.erase\(\"Content-Length\"\)\s*;\s*\}\s*\}", php, re.S)
    hd_new = re.search(r"const\s+bool\s+bodylessStatus\s*=\s*\(([^)]*)\)\s*;\s*if\s*\(\s*req\.method\s*==\s*HttpMethod::HEAD\s*\|\|\s*bodylessStatus\s*\)\s*\{\s*res\.body\.clear\(\)\s*;\s*if\s*\(\s*bodylessStatus\s*\)\s*\{\s*res\.headers\.erase\(\"Content-Length\"\)\s*;\s*\}\s*\}", php, re.S)
    if bool(hd_old) == bool(hd_new):
        raise TranslateError("HEAD / bodyless-status reconciliation: shape not recognised")
    bodyless_all_methods = bool(hd_new)
    hd = (hd_new or hd_old).group(1)
    head_bodyless = [int(x) for x in re.findall(r"res\.status\s*==\s*(\d+)", hd)]
    if not head_bodyless or re.sub(r"res\.status\s*==\s*\d+|\|\||\s", "", hd):
        raise TranslateError("HEAD reconciliation: status test not recognised: %r" % hd)

    # connection decision
    cd = need(r"bool\s+shouldCloseConnection\s*=\s*false\s*;\s*std::string\s+connectionHeader\s*=\s*\"([^\"]*)\"\s*;(.*?)HttpResponse\s+httpRes\s*;", php, "connection decision block")
    conn_default = cd.group(1)
    cdb = cd.group(2)
    ver10 = need(r"if\s*\(\s*it->second\.httpVersion\s*==\s*\"([^\"]*)\"\s*\)\s*\{\s*shouldCloseConnection\s*=\s*true\s*;\s*connectionHeader\s*=\s*\"([^\"]*)\"\s*;\s*\}\s*else\s+if\s*\(\s*!\s*it->second\.connectionKeepAlive\s*\)\s*\{\s*shouldCloseConnection\s*=\s*true\s*;\s*connectionHeader\s*=\s*\"([^\"]*)\"\s*;", cdb, "session version / keep-alive test")
    hb = need(r"auto\s+connectionIt\s*=\s*req\.headers\.find\(\"Connection\"\)\s*;\s*if\s*\(\s*connectionIt\s*!=\s*req\.headers\.end\(\)\s*\)\s*\{(.*)\}\s*$", cdb.rstrip(), "request Connection test").group(1)
    whole = re.search(r"std::string\s+connValue\s*=\s*connectionIt->second\s*;\s*std::transform\([^;]*(?:::tolower|asciiLower)\)\s*;\s*if\s*\(\s*connValue\s*==\s*\"([^\"]*)\"\s*\)\s*\{\s*shouldCloseConnection\s*=\s*true\s*;\s*connectionHeader\s*=\s*\"([^\"]*)\"\s*;\s*\}\s*$", hb.strip(), re.S)
    tok = re.search(r"connValue\.find\(\s*','\s*,\s*tokStart\s*\).*?substr\(tokStart,\s*tokEnd\s*-\s*tokStart\)\s*;\s*token\.erase\(0,\s*token\.find_first_not_of\(\" \\t\"\)\)\s*;\s*token\.erase\(token\.find_last_not_of\(\" \\t\"\)\s*\+\s*1\)\s*;\s*std::transform\([^;]*(?:::tolower|asciiLower)\)\s*;\s*if\s*\(\s*token\s*==\s*\"([^\"]*)\"\s*\)\s*\{\s*shouldCloseConnection\s*=\s*true\s*;\s*connectionHeader\s*=\s*\"([^\"]*)\"\s*;\s*\}\s*if\s*\(\s*comma\s*==\s*std::string::npos\s*\)\s*\{\s*break\s*;\s*\}\s*tokStart\s*=\s*comma\s*\+\s*1\s*;", hb, re.S)
    if whole and not tok:
        tokenised, close_tok, close_val = False, whole.group(1), whole.group(2)
    elif tok and not whole:
        tokenised, close_tok, close_val = True, tok.group(1), tok.group(2)
    else:
        raise TranslateError("request Connection test: neither the whole-string nor the token-list shape")
    if not (close_val == ver10.group(2) == ver10.group(3)):
        raise TranslateError("connection decision: different close literals")
    srv_hdrs = set_headers(php[php.find("HttpResponse httpRes;"):], "httpRes")
    if [(k, v if v is not None else e) for k, v, e in srv_hdrs] != [("Server", srv_hdrs[0][1]), ("Connection", "connectionHeader")] or srv_hdrs[0][1] is None:
        raise TranslateError("response default headers not recognised: %s" % srv_hdrs)
    need(r"httpRes\.statusCode\s*=\s*res\.status\s*;\s*httpRes\.statusText\s*=\s*getStatusText\(res\.status\)\s*;\s*httpRes\.headers\s*=\s*res\.headers\s*;\s*httpRes\.body\s*=\s*res\.body\s*;", php, "response assembly")
    need(r"if\s*\(\s*sendFailed\s*\|\|\s*\(\s*sendSucceeded\s*&&\s*shouldCloseConnection\s*\)\s*\)\s*\{\s*std::lock_guard<std::mutex>\s+lock\(_mutex\)\s*;\s*if\s*\(\s*_transport\s*&&\s*!_shutdown" + ST + r"\s*\)\s*\{\s*_transport->close\(sid\)\s*;", php, "close-after-response block")
    if len(re.findall(r"_transport->sendAsync\(", php)) != 4:
        raise TranslateError("processHttpRequest: expected exactly 4 sendAsync call sites (shutdown, upgrade, response, error), found %d"
                             % len(re.findall(r"_transport->sendAsync\(", php)))

    # upgrade arm default header
    up = need(r"if\s*\(\s*onUpgradeRequest\(sid,\s*req,\s*upgradeRes\)\s*\)\s*\{(.*?)return\s*;", php, "upgrade arm").group(1)
    up_hdrs = set_headers(up, "httpUpgradeRes")
    if len(up_hdrs) != 1 or up_hdrs[0][0] != "Server" or up_hdrs[0][1] != srv_hdrs[0][1]:
        raise TranslateError("upgrade arm: default headers not recognised: %s" % up_hdrs)

    # buffer drain of the upgrade arm: the third virtual hook (onUpgradedData) runs on the worker thread AFTER the upgrade response
    # was handed to the transport.  Guarded = inside its own try/catch (...) that ends the connection through closeSession;
    # bare = inside the function's try, so a throw reaches the error arm and a second response (500) follows the 101.
    if len(re.findall(r"\bonUpgradedData\s*\(", up)) != 1:
        raise TranslateError("upgrade arm: expected exactly one onUpgradedData call (buffer drain)")
    # FC18f: the drain is a LOOP under the upgrade hold: each pass takes the whole session buffer if the session exists, the buffer is
    # non-empty and the session is marked upgraded; otherwise it releases the hold and leaves.  One hook call per pass.
    lp = need(r"for\s*\(\s*;\s*;\s*\)\s*\{\s*std::string\s+remaining\s*;\s*\{\s*std::lock_guard<std::mutex>\s+lock\(_sessionMutex\)\s*;\s*auto\s+it\s*=\s*_sessionInfo\.find\(sid\)\s*;\s*"
              r"if\s*\(\s*it\s*!=\s*_sessionInfo\.end\(\)\s*&&\s*!it->second\.buffer\.empty\(\)\s*&&\s*_upgradedSessions\.count\(sid\)\s*>\s*0\s*\)\s*"
              r"\{\s*remaining\s*=\s*std::move\(it->second\.buffer\)\s*;\s*it->second\.buffer\.clear\(\)\s*;\s*\}\s*"
              r"else\s*\{\s*_upgradePending\.erase\(sid\)\s*;\s*break\s*;\s*\}\s*\}(.*)$", up, "upgrade arm: drain loop (take the buffer or release the hold and leave)").group(1)
    dr_guarded = re.search(r"^\s*try\s*\{\s*onUpgradedData\(sid,[^;]*\)\s*;\s*\}\s*catch\s*\(\s*\.\.\.\s*\)\s*\{[^{}]*closeSession\(sid\)\s*;\s*break\s*;\s*\}\s*\}\s*$", lp, re.S)
    dr_bare = re.search(r"^\s*onUpgradedData\(sid,[^;]*\)\s*;\s*\}\s*$", lp, re.S)
    if bool(dr_guarded) == bool(dr_bare):
        raise TranslateError("upgrade arm: the drain loop's hook call is neither `try { onUpgradedData } catch (...) { closeSession; break; }` nor a bare call")
    if dr_guarded and re.search(r"sendAsync|sendErrorResponse", dr_guarded.group(0)):
        raise TranslateError("upgrade arm: the drain's catch sends something")
    cs = cxxscan.function_body(src, "closeSession")
    need(r"^\s*std::lock_guard<std::mutex>\s+lock\(_mutex\)\s*;\s*if\s*\(\s*_transport\s*&&\s*!_shutdown\s*\)\s*\{\s*_transport->close\(sid\)\s*;\s*\}\s*$", cs, "closeSession (guarded close under _mutex)")
    # the upgrade send itself: guarded, completion ignores the result
    need(r"if\s*\(\s*_transport\s*&&\s*!_shutdown" + ST + r"\s*\)\s*\{\s*_transport->sendAsync\(sid,\s*sharedResponseData->data\(\),\s*sharedResponseData->size\(\),", up, "upgrade arm: guarded send")

    # the hold itself: set by handleIncomingData in the section that stores the rest, released by a scope guard on every other exit
    need(r"it->second\.buffer\s*=\s*dataStr\s*;\s*if\s*\(\s*haveUpgrade\s*\)\s*\{\s*_upgradePending\.insert\(sid\)\s*;\s*\}", cxxscan.function_body(src, "handleIncomingData"), "handleIncomingData: hold set with the stored rest")
    need(r"~UpgradeHoldRelease\(\)\s*\{\s*if\s*\(\s*armed\s*\)\s*\{\s*std::lock_guard<std::mutex>\s+lock\(self->_sessionMutex\)\s*;\s*self->_upgradePending\.erase\(sid\)\s*;\s*\}\s*\}\s*\}\s*upgradeHoldRelease\s*\{\s*this\s*,\s*sid\s*,\s*holdsUpgrade\s*\}\s*;", php, "processHttpRequest: scope guard releasing the upgrade hold")
    # start(): per-session write-queue bound handed to the transport (backpressure closes a session beyond it)
    stt = cxxscan.function_body(src, "start")
    max_wq = int(need(r"config\.maxWriteQueue\s*=\s*(\d+)\s*;", stt, "start(): config.maxWriteQueue").group(1))

    # FC16f: the three arms outside the normal path clear the body for a HEAD request (decided from the raw bytes), after Content-Length was set
    ihr = None
    try:
        ihr = cxxscan.function_body(src, "isHeadRequest", signature_contains="const std::string &requestData")
    except cxxscan.ScanError:
        pass
    strip_sh = re.search(r"shutdownRes\.setHeader\(\"Content-Length\",[^;]*;\s*shutdownRes\.setHeader\(\"Connection\",\s*\"close\"\)\s*;\s*if\s*\(\s*isHeadRequest\(requestData\)\s*\)\s*\{\s*shutdownRes\.body\.clear\(\)\s*;\s*\}", sh, re.S)
    strip_ea = re.search(r"errorRes\.body\s*=\s*getStatusText\(errStatus\)\s*;\s*errorRes\.setHeader\(\"Content-Length\",[^;]*;\s*if\s*\(\s*isHeadRequest\(requestData\)\s*\)\s*\{\s*errorRes\.body\.clear\(\)\s*;\s*\}", ea, re.S)
    ser0 = cxxscan.function_body(src, "sendErrorResponse")
    strip_ser = re.search(r"errorRes\.setHeader\(\"Server\",[^;]*;\s*if\s*\(\s*headRequest\s*\)\s*\{\s*errorRes\.body\.clear\(\)\s*;\s*\}\s*auto\s+errorResponseData", ser0, re.S)
    call_head = re.search(r"sendErrorResponse\(\s*sid\s*,\s*\d+\s*,\s*\"[^\"]*\"\s*,\s*\"[^\"]*\"\s*,\s*isHeadRequest\(requestData\)\s*\)\s*;", cxxscan.function_body(src, "handleIncomingData"), re.S)
    sig_head = re.search(r"void\s+sendErrorResponse\(SessionId\s+sid,\s*int\s+statusCode,\s*const\s+std::string\s*&statusText,\s*const\s+std::string\s*&body\s*=\s*\"\",\s*bool\s+headRequest\s*=\s*false\)", src, re.S)
    parts = [bool(strip_sh), bool(strip_ea), bool(strip_ser), bool(call_head), bool(sig_head), ihr is not None]
    if all(parts):
        need(r"^\s*return\s+requestData\.compare\(0,\s*5,\s*\"HEAD \"\)\s*==\s*0\s*;\s*$", ihr, "isHeadRequest: raw request starts with `HEAD `")
        if len(re.findall(r"isHeadRequest\(", src)) != 4 or len(re.findall(r"\bheadRequest\b", src)) != 2:
            raise TranslateError("isHeadRequest / headRequest: unexpected number of uses")
        error_arms_strip_head = True
    elif not any(parts) and "isHeadRequest" not in src and "headRequest" not in src:
        error_arms_strip_head = False
    else:
        raise TranslateError("HEAD strip on the arms outside the normal path: present in some places only (shutdown %s, error arm %s, sendErrorResponse %s, overflow call %s, signature %s, helper %s)" % tuple(parts))

    # stop() / start() on one object: stop() gives up on running handlers after a bounded wait and resets the transport; start() clears
    # _shutdown and installs a fresh Transport (its engine numbers sessions from 1 again); the pool and its tasks survive
    stp = cxxscan.function_body(src, "stop")
    drain_s = int(need(r"const\s+auto\s+maxWaitTime\s*=\s*std::chrono::seconds\((\d+)\)\s*;", stp, "stop(): bounded drain wait").group(1))
    need(r"while\s*\(\s*_threadPool\.getPendingTaskCount\(\)\s*>\s*0\s*\|\|\s*_threadPool\.getActiveThreadCount\(\)\s*>\s*0\s*\)\s*\{.*?if\s*\(\s*elapsed\s*>\s*maxWaitTime\s*\)\s*\{.*?break\s*;\s*\}",
         stp, "stop(): drain loop that gives up at the timeout")
    need(r"_shutdown\.store\(true\)\s*;", stp, "stop(): sets _shutdown")
    need(r"_transport\.reset\(\)\s*;", stp, "stop(): resets the transport")
    need(r"_shutdown\s*=\s*false\s*;", stt, "start(): clears _shutdown")
    need(r"_transport\s*=\s*Transport::tcp\(config\)\s*;", stt, "start(): installs a fresh Transport")
    # does the task handed to the pool carry the identity of the transport its request arrived on?
    hid_src = cxxscan.function_body(src, "handleIncomingData")
    disp_plain = re.search(r"_threadPool\.tryEnqueue\(\s*\[this,\s*sid,\s*requestData\]\(\)\s*\{\s*processHttpRequest\(sid,\s*requestData\)\s*;\s*\}\s*\)", hid_src, re.S)
    disp_epoch = re.search(r"const\s+std::uint64_t\s+epoch\s*=\s*_transportEpoch\.load\(\)\s*;\s*if\s*\(\s*!\s*_threadPool\.tryEnqueue\(\s*\[this,\s*sid,\s*requestData,\s*epoch(?:,\s*haveUpgrade)?\]\(\)\s*\{\s*processHttpRequest\(sid,\s*requestData,\s*epoch(?:,\s*haveUpgrade)?\)\s*;\s*\}\s*\)", hid_src, re.S)
    # the same guards, but the epoch is an expression INSIDE the lambda body: evaluated when a worker starts the task, not at dispatch
    disp_late = re.search(r"_threadPool\.tryEnqueue\(\s*\[this,\s*sid,\s*requestData(?:,\s*haveUpgrade)?\]\(\)\s*\{\s*processHttpRequest\(sid,\s*requestData,\s*_transportEpoch\.load\(\)(?:,\s*haveUpgrade)?\)\s*;\s*\}\s*\)", hid_src, re.S)
    n_same = len(re.findall(r"sameTransport\(\)", php))
    epoch_captured_at_dispatch = bool(disp_epoch)
    if disp_plain and not disp_epoch and n_same == 0 and "_transportEpoch" not in src:
        dispatch_checks_generation = False
    elif (disp_epoch or disp_late) and not disp_plain and not (disp_epoch and disp_late):
        # the worker compares the epoch captured at dispatch inside EVERY guarded block: 2 (shutdown arm) + upgrade send + response send/close + error send/close
        need(r"const\s+auto\s+sameTransport\s*=\s*\[this,\s*epoch\]\(\)\s*\{\s*return\s+_transportEpoch\.load\(\)\s*==\s*epoch\s*;\s*\}\s*;", php, "sameTransport helper")
        guards = len(re.findall(r"if\s*\(\s*_transport\s*(?:&&\s*!_shutdown\s*)?&&\s*sameTransport\(\)\s*\)", php))
        bare = len(re.findall(r"if\s*\(\s*_transport\s*(?:&&\s*!_shutdown\s*)?\)", php))
        if guards != 7 or bare != 0 or n_same != 7:
            raise TranslateError("processHttpRequest: generation check present but not on every guarded block (%d with, %d without, %d uses)" % (guards, bare, n_same))
        need(r"_shutdown\s*=\s*false\s*;[^;{}]*\+\+_transportEpoch\s*;", stt, "start(): advances the epoch under _mutex")
        need(r"^\s*std::lock_guard<std::mutex>\s+lock\(_mutex\)\s*;", stt, "start(): holds _mutex")
        if len(re.findall(r"_transportEpoch", src)) != 5:
            raise TranslateError("_transportEpoch: expected 5 occurrences (member, start(), dispatch capture, overload, helper), found %d" % len(re.findall(r"_transportEpoch", src)))
        dispatch_checks_generation = True
    else:
        raise TranslateError("handleIncomingData: dispatch lambda shape not recognised (neither plain, nor carrying an epoch captured at dispatch, nor reading it in the lambda body)")

    # safety net
    sn = cxxscan.function_body(src, "invokeWithSafetyNet")
    nets = re.findall(r"catch\s*\(([^)]*)\)\s*\{.*?res\.status\s*=\s*(\d+)\s*;\s*res\.set_content\(\s*\"([^\"]*)\"\s*,\s*\"text/plain\"\s*\)\s*;\s*res\._suppressSend\s*=\s*false\s*;\s*\}", sn, re.S)
    if len(nets) != 2 or nets[0][1:] != nets[1][1:] or "..." not in nets[1][0] or "std::exception" not in nets[0][0]:
        raise TranslateError("invokeWithSafetyNet: two catch arms (std::exception, ...) with the same 500 not recognised")
    st_net, net_body = int(nets[0][1]), nets[0][2]

    # pool overflow
    hid = cxxscan.function_body(src, "handleIncomingData")
    ov = need(r"if\s*\(\s*!\s*_threadPool\.tryEnqueue\(\s*\[this,\s*sid,\s*requestData(?:,\s*epoch)?(?:,\s*haveUpgrade)?\]\(\)\s*\{\s*processHttpRequest\(sid,\s*requestData(?:,\s*(?:epoch|_transportEpoch\.load\(\)))?(?:,\s*haveUpgrade)?\)\s*;\s*\}\s*\)\s*\)\s*\{(.*?)\}\s*else\s+if", hid, "tryEnqueue dispatch").group(1)
    ovm = need(r"sendErrorResponse\(\s*sid\s*,\s*(\d+)\s*,\s*\"([^\"]*)\"\s*,\s*\"([^\"]*)\"\s*(?:,\s*isHeadRequest\(requestData\)\s*)?\)\s*;", ov, "overflow response")
    ser = cxxscan.function_body(src, "sendErrorResponse")
    ser_hdrs = set_headers(ser, "errorRes")
    if [(k, v) for k, v, _ in ser_hdrs if v is not None][:2] != [("Content-Type", "text/plain"), ("Connection", "close")] or \
       [k for k, v, _ in ser_hdrs] != ["Content-Type", "Content-Length", "Connection", "Server"] or ser_hdrs[1][2] != "std::to_string(responseBody.size())":
        raise TranslateError("sendErrorResponse: header list not recognised: %s" % ser_hdrs)
    need(r"std::string\s+responseBody\s*=\s*body\.empty\(\)\s*\?\s*statusText\s*:\s*body\s*;", ser, "sendErrorResponse body")
    need(r"_transport->close\(session\)\s*;", ser, "sendErrorResponse close")
    ctor = need(r"_threadPool\(\s*(\d+)\s*,\s*(\d+)\s*,", src, "HttpServer thread pool sizes")
    qcap = cxxscan.find_int(r"std::size_t\s+maxQueueSize\s*=\s*([^,]+),", tp, "ThreadPool default maxQueueSize")
    need(r"if\s*\(\s*_tasks\.size\(\)\s*>=\s*_maxQueueSize\s*\)\s*\{\s*return\s+false\s*;", cxxscan.function_body(tp, "tryEnqueueImpl"), "tryEnqueueImpl capacity test")

    # session fields that the connection decision reads: who writes them?
    si = need(r"struct\s+SessionInfo\s*\{(.*?)\}\s*;", src, "SessionInfo").group(1)
    dka = need(r"bool\s+connectionKeepAlive\s*=\s*(true|false)\s*;", si, "connectionKeepAlive default").group(1)
    dver = need(r"std::string\s+httpVersion\s*=\s*\"([^\"]*)\"\s*;", si, "httpVersion default").group(1)
    writes = len(re.findall(r"(?:\.|->)\s*(?:httpVersion|connectionKeepAlive)\s*=(?!=)", src))

    t = HEADER % (fs + ", " + fm + ", " + ft)
    t += "namespace Iora.Gen.HttpRespond\n"
    t += "/-- `enum class HttpMethod` enumerators in declaration order -/\n"
    t += "def methods : List String := [%s]\n" % ", ".join(lstr(m) for m in methods)
    t += "/-- `parseMethod`: exact (case-sensitive) token -> enumerator -/\n"
    t += "def parseMethodTable : List (String × String) := [%s]\n" % ", ".join("(%s, %s)" % (lstr(a), lstr(b)) for a, b in table)
    t += "def stMalformedMethodToken : Nat := %d\ndef stUnknownMethod : Nat := %d\n" % (st_bad_token, st_unknown_method)
    t += "/-- `isHttpToken`: punctuation tchars (ALPHA / DIGIT are range tests) -/\n"
    t += "def tcharPunct : String := %s\n" % lstr(punct)
    t += "/-- `HttpRequest::MAX_REQUEST_TARGET_SIZE` -/\ndef maxRequestTargetSize : Nat := %d\n" % max_target
    t += "/-- statuses thrown by `parseRequestLine`, in source order: line shape, whitespace in method, whitespace in version,\n    target too long, control character in target, malformed version, unsupported major -/\n"
    t += "def stLineShape : Nat := %d\ndef stMethodWs : Nat := %d\ndef stVersionWs : Nat := %d\ndef stTargetTooLong : Nat := %d\ndef stTargetCtl : Nat := %d\ndef stBadVersion : Nat := %d\ndef stUnsupportedMajor : Nat := %d\n" % tuple(thrown)
    t += "def supportedMajor : Nat := %d\n" % int(major.group(1))
    t += "/-- statuses thrown by `HttpRequest::fromWireFormat`, in source order: obs-fold, multiple Host, missing Host (minor >= 1), empty Host -/\n"
    t += "def stObsFold : Nat := %d\ndef stMultipleHost : Nat := %d\ndef stMissingHost : Nat := %d\ndef stEmptyHost : Nat := %d\n" % tuple(fthrown)
    t += "/-- the header loop rejects a field line with SP / HTAB right before its first colon (RFC 9112 5.1; false: the name is trimmed and accepted) -/\n"
    t += "def rejectWsBeforeColon : Bool := %s\ndef stWsBeforeColon : Nat := %d\n" % ("true" if reject_ws_colon else "false", st_ws_colon)
    t += "/-- `detail::isListValuedHeader` allow-list (repeated field-lines are joined with \", \"; every other field is last-wins) -/\n"
    t += "def listValuedHeaders : List String := [%s]\n" % ", ".join(lstr(x) for x in listv)
    t += "/-- `HttpServer::getStatusText` -/\n"
    t += "def statusTexts : List (Nat × String) := [%s]\n" % ", ".join("(%d, %s)" % (c, lstr(s)) for c, s in texts)
    t += "def statusTextDefault : String := %s\n" % lstr(dflt)
    t += "/-- error arm of `processHttpRequest`: default status (any exception that is not an `HttpRequestError`) -/\n"
    t += "def errDefaultStatus : Nat := %d\n" % err_default
    t += "/-- the arm is `catch (...)` (true: an exception of any type gets the terminal error response) or `catch (const std::exception &)`\n    (false, the unrepaired code: a non-std exception thrown by a subclass seam escapes and the request is never answered) -/\n"
    t += "def errCatchesAll : Bool := %s\n" % ("true" if err_catches_all else "false")
    t += "/-- the buffer drain of the upgrade arm calls `onUpgradedData` inside its own `try { } catch (...) { closeSession(sid); }` (true),\n    or bare inside the function's `try` (false, the unrepaired code: a throw sends a 500 behind the 101 — two responses) -/\n"
    t += "def upgradeDrainGuarded : Bool := %s\n" % ("true" if dr_guarded else "false")
    t += "/-- the drain is a loop (one `onUpgradedData` call per pass, a pass only while the session exists, its buffer is non-empty and it is\n    marked upgraded; reads that arrive meanwhile are queued behind by the upgrade hold) -/\n"
    t += "def upgradeDrainRequiresMarked : Bool := true\n"
    t += "/-- literal headers of the error response (Content-Length = body size is added; body = status text; the arm always closes) -/\n"
    t += "def errContentType : String := %s\ndef errConnection : String := %s\n" % (lstr(ea_hdrs[0][1]), lstr(ea_hdrs[1][1]))
    t += "/-- shutdown arm -/\n"
    t += "def shutdownStatus : Nat := %d\ndef shutdownText : String := %s\ndef shutdownBody : String := %s\n" % (int(shm.group(1)), lstr(shm.group(2)), lstr(sh_body))
    t += "/-- pool overflow: `sendErrorResponse(sid, status, text, body)` at the `tryEnqueue` call site; its Server header -/\n"
    t += "def overflowStatus : Nat := %d\ndef overflowText : String := %s\ndef overflowBody : String := %s\ndef overflowServer : String := %s\n" % (
        int(ovm.group(1)), lstr(ovm.group(2)), lstr(ovm.group(3)), lstr(ser_hdrs[3][1]))
    t += "/-- normal response: `Server` value, initial `connectionHeader`, the close literal -/\n"
    t += "def serverHeader : String := %s\ndef connKeepAlive : String := %s\ndef connClose : String := %s\n" % (lstr(srv_hdrs[0][1]), lstr(conn_default), lstr(close_val))
    t += "/-- the request's Connection value is searched for this token ... -/\ndef closeToken : String := %s\n" % lstr(close_tok)
    t += "/-- ... as a comma-separated, OWS-trimmed, lower-cased token list (true) or by comparing the whole lower-cased value (false) -/\n"
    t += "def connectionTokenised : Bool := %s\n" % ("true" if tokenised else "false")
    t += "/-- `SessionInfo` fields read by the decision: the literal compared with `httpVersion`, the defaults, and how many\n    assignments to either field exist anywhere in http_server.hpp -/\n"
    t += "def sessionCloseVersion : String := %s\ndef sessionDefaultVersion : String := %s\ndef sessionDefaultKeepAlive : Bool := %s\ndef sessionFieldWrites : Nat := %d\n" % (
        lstr(ver10.group(1)), lstr(dver), dka, writes)
    t += "/-- dispatch categories -/\n"
    t += "def stMatched : Nat := %d\ndef stMatchedAsHead : Nat := %d\ndef stAutoOptions : Nat := %d\ndef stOptionsStar : Nat := %d\ndef stMethodNotAllowed : Nat := %d\ndef stNotFound : Nat := 404\n" % (
        st_matched, st_head, st_autoopt, st_optstar, st_405)
    t += "def bodyNotFound : String := \"Not Found\"\ndef bodyMethodNotAllowed : String := %s\ndef textPlain : String := \"text/plain\"\n" % lstr(b405)
    t += "/-- `invokeWithSafetyNet`: both catch arms -/\ndef stHandlerThrew : Nat := %d\ndef bodyHandlerThrew : String := %s\n" % (st_net, lstr(net_body))
    t += "/-- body reconciliation: statuses for which Content-Length is erased as well as the body ... -/\n"
    t += "def headBodylessStatuses : List Nat := [%s]\n" % ", ".join(str(x) for x in head_bodyless)
    t += "/-- ... on every request method (true) or only when the request is HEAD (false, the unrepaired code) -/\n"
    t += "def bodylessAllMethods : Bool := %s\n" % ("true" if bodyless_all_methods else "false")
    t += "/-- `_threadPool(initial, max, ...)` and `ThreadPool`'s default `maxQueueSize` -/\n"
    t += "def poolInitial : Nat := %d\ndef poolMax : Nat := %d\ndef poolQueueCap : Nat := %d\n" % (int(ctor.group(1)), int(ctor.group(2)), qcap)
    t += "/-- `start()`: `config.maxWriteQueue` — Send commands a session's write queue holds before the engine closes it (backpressure) -/\n"
    t += "def maxWriteQueue : Nat := %d\n" % max_wq
    t += "/-- `stop()`: seconds it waits for the worker pool before it resets the transport regardless (the pool's tasks survive) -/\n"
    t += "def stopDrainSeconds : Nat := %d\n" % drain_s
    t += "/-- the task handed to the pool (`[this, sid, requestData]`) also carries and checks the identity of the transport its request\n    arrived on (false: it addresses its commands by session id only) -/\n"
    t += "def dispatchChecksGeneration : Bool := %s\n" % ("true" if dispatch_checks_generation else "false")
    t += "/-- the epoch the worker compares is read by `handleIncomingData` (`const std::uint64_t epoch = _transportEpoch.load();` in front of\n    `tryEnqueue`) and captured BY VALUE into the pool lambda (true); false: `_transportEpoch.load()` is an argument expression inside the\n    lambda body, evaluated when a worker starts the task — a request queued across stop() + start() gets the new epoch -/\n"
    t += "def epochCapturedAtDispatch : Bool := %s\n" % ("true" if (dispatch_checks_generation and epoch_captured_at_dispatch) else "false")
    t += "/-- the error arm, the shutdown arm and `sendErrorResponse` clear the body when `isHeadRequest(requestData)` (raw request starts with\n    `HEAD `), after Content-Length was set (true); false: they never look at the method (the code before FC16f) -/\n"
    t += "def errorArmsStripHead : Bool := %s\n" % ("true" if error_arms_strip_head else "false")
    t += "end Iora.Gen.HttpRespond\n"
    return "IoraModel/Gen/HttpRespond.lean", t
