#!/usr/bin/env python3
"""Regression matrix of the seeded changes (DESIGN §12.2):  python3 tools/seed_matrix.py [Cnn|Cnn-x ...] [--seed N] [--jobs K]

For every kept change under /verif/seeded/<id>/ it makes a scratch worktree of /repo's HEAD outside /repo and /verif, applies
patch.diff, runs the property's QUICK check against it (VERIF_REPO=<worktree>, a private copy of the lake project, replays and
evidence kept out of /verif's committed places) and records the outcome: exit code, VIOLATION lines, whether a failing input was
found, and which layers objected (VIOLATION-CANDIDATE kinds).  Results: seeded/MATRIX.json and seeded/MATRIX.md.
Nothing here is evidence for a property; it documents which check catches which change and is re-run after a check is changed."""
import json, os, re, shutil, subprocess, sys, time
from concurrent.futures import ThreadPoolExecutor

HERE = os.path.dirname(os.path.dirname(os.path.abspath(__file__)))
SCR = os.environ.get("SEEDM_SCRATCH", "/tmp/seedm")


def sh(cmd, **kw):
    return subprocess.run(cmd, shell=True, stdout=subprocess.PIPE, stderr=subprocess.STDOUT, text=True, **kw)


def run_one(sid, seed, slot):
    d = os.path.join(HERE, "seeded", sid)
    meta = json.load(open(os.path.join(d, "meta.json")))
    prop = meta.get("breaks_property") or meta.get("property")
    wt = os.path.join(SCR, "wt_" + sid)
    lean = os.path.join(SCR, "lean_%d" % slot)
    rep = os.path.join(SCR, "replays_" + sid)
    sh("git -C /repo worktree remove --force %s" % wt)
    shutil.rmtree(wt, ignore_errors=True)
    r = sh("git -C /repo worktree add --detach %s HEAD" % wt)
    res = {"seed_id": sid, "property": prop, "summary": meta.get("summary", ""), "needs": meta.get("needs", "")}
    try:
        a = sh("git -C %s apply %s" % (wt, os.path.join(d, "patch.diff")))
        if a.returncode != 0:
            a = sh("git -C %s apply -3 %s" % (wt, os.path.join(d, "patch.diff")))
        if a.returncode != 0:
            res.update(outcome=("NEUTRALISED-patch-no-longer-applies" if meta.get("neutralised_by") else "PATCH-DOES-NOT-APPLY"), detail=a.stdout[-400:])
            return res
        if not os.path.isdir(lean):
            sh("cp -a %s %s" % (os.path.join(HERE, "lean"), lean))
        else:
            sh("rsync -a --exclude .lake --delete %s/ %s/" % (os.path.join(HERE, "lean"), lean))
        shutil.rmtree(rep, ignore_errors=True)
        os.makedirs(rep)
        env = dict(os.environ, VERIF_REPO=wt, VERIF_LEAN=lean, VERIF_SEED=str(seed), VERIF_REPLAY_DIR=rep)
        t0 = time.time()
        p = subprocess.Popen(["python3", "check.py", prop, "quick"], cwd=HERE, env=env, stdout=subprocess.PIPE, stderr=subprocess.STDOUT, text=True)
        try:
            out, _ = p.communicate(timeout=3600)
        except subprocess.TimeoutExpired:
            p.kill()
            out, _ = p.communicate()
            out += "\nSEED-MATRIX: timed out\n"
        shutil.rmtree(os.path.join(HERE, ".work", "%s-quick-%d" % (prop, p.pid)), ignore_errors=True)
        open(os.path.join(SCR, "log_%s.txt" % sid), "w").write(out)
        viol = [l for l in out.splitlines() if l.startswith("VIOLATION ")]
        cands = re.findall(r"VIOLATION-CANDIDATE kind=(\S+).*?found_input=(True|False)", out)
        kinds = {}
        for k, f in cands:
            kinds["%s/%s" % (k, "input" if f == "True" else "no-input")] = kinds.get("%s/%s" % (k, "input" if f == "True" else "no-input"), 0) + 1
        found = [l for l in viol if not l.rstrip().endswith("no-failing-input-found")]
        first = ""
        for l in out.splitlines():
            if "VIOLATION-CANDIDATE" in l and "found_input=True" in l:
                first = l[:300]
                break
        res.update(rc=p.returncode, wall_s=round(time.time() - t0), violation_lines=len(viol), with_found_input=len(found),
                   layers=kinds, first_found=first,
                   outcome=(("NEUTRALISED-silent-as-it-should-be" if p.returncode == 0 else "NEUTRALISED-BUT-INPUT-FOUND" if found else "NEUTRALISED-pinned-shape-alarm-no-input") if meta.get("neutralised_by") else "CAUGHT-with-input" if found else "CAUGHT-no-input" if viol else "MISSED" if p.returncode == 0 else "MACHINERY-rc%d" % p.returncode))
        return res
    finally:
        sh("git -C /repo worktree remove --force %s" % wt)
        shutil.rmtree(wt, ignore_errors=True)
        shutil.rmtree(rep, ignore_errors=True)


def main():
    argv = sys.argv[1:]
    args = [a for i, a in enumerate(argv) if not a.startswith("--") and not (i > 0 and argv[i - 1] in ("--seed", "--jobs"))]
    seed = int(sys.argv[sys.argv.index("--seed") + 1]) if "--seed" in sys.argv else 1
    jobs = int(sys.argv[sys.argv.index("--jobs") + 1]) if "--jobs" in sys.argv else 4
    ids = sorted(x for x in os.listdir(os.path.join(HERE, "seeded")) if os.path.isdir(os.path.join(HERE, "seeded", x)))
    if args:
        ids = [i for i in ids if any(i == a or i.startswith(a + "-") for a in args)]
    os.makedirs(SCR, exist_ok=True)
    slots = list(range(jobs))
    import queue
    q = queue.Queue()
    for s in slots:
        q.put(s)

    def work(sid):
        s = q.get()
        try:
            r = run_one(sid, seed, s)
        except Exception as e:
            r = {"seed_id": sid, "outcome": "ERROR", "detail": repr(e)}
        finally:
            q.put(s)
        print("%-7s %-22s rc=%s viol=%s found=%s %s" % (sid, r.get("outcome"), r.get("rc"), r.get("violation_lines"), r.get("with_found_input"), r.get("layers")), flush=True)
        return r

    with ThreadPoolExecutor(jobs) as ex:
        results = list(ex.map(work, ids))
    mpath = os.path.join(HERE, "seeded", "MATRIX.json")
    old = {}
    if os.path.exists(mpath):
        old = {r["seed_id"]: r for r in json.load(open(mpath))["results"]}
    for r in results:
        old[r["seed_id"]] = r
    head = sh("git -C /repo rev-parse --short HEAD").stdout.strip()
    vh = sh("git -C %s rev-parse --short HEAD" % HERE).stdout.strip()
    allr = [old[k] for k in sorted(old)]
    json.dump({"repo_head": head, "verif_head_at_last_run": vh, "check_seed": seed, "results": allr}, open(mpath, "w"), indent=1)
    with open(os.path.join(HERE, "seeded", "MATRIX.md"), "w") as f:
        f.write("# Seeded changes × checks (written by tools/seed_matrix.py; quick tier, VERIF_SEED=%d)\n\n" % seed)
        f.write("| seed | property | outcome | VIOLATION lines (with a found input) | layers that objected | wall s |\n|---|---|---|---|---|---|\n")
        for r in allr:
            f.write("| %s | %s | %s | %s (%s) | %s | %s |\n" % (r["seed_id"], r.get("property"), r.get("outcome"), r.get("violation_lines"),
                                                            r.get("with_found_input"), ", ".join("%s×%d" % kv for kv in sorted((r.get("layers") or {}).items())), r.get("wall_s")))
    bad = [r["seed_id"] for r in results if r.get("outcome") not in ("CAUGHT-with-input", "NEUTRALISED-silent-as-it-should-be", "NEUTRALISED-pinned-shape-alarm-no-input", "NEUTRALISED-patch-no-longer-applies")]
    print("not caught with a found input:", bad)
    shutil.rmtree(SCR, ignore_errors=True) if "--keep" not in sys.argv else None
    return 0


if __name__ == "__main__":
    sys.exit(main())
