"""Translator unit `closesites` -> Gen/CloseSites.lean (C02).

For tcp_engine.hpp and udp_engine.hpp: every lifecycle-relevant site
    closeCb(..)            the engine-level close callback is invoked
    closeNow(..)           the idempotent close routine is called
    <x>->closed = true     the closed flag is set
    sessionsCurrent--      the gauge is decremented
    bumpSess()             the gauge is incremented
    _nextSessionId++       a session id is allocated
    acceptCb( / connectCb( / dataCb(     announce / data callbacks
with the enclosing member function and the *guard* of the site: the chain of enclosing control-structure
headers (if/else-if/else with the negated earlier arms, for/while, switch case labels, lambdas) plus every
PURE early exit (an `if (c) return/continue/break;` whose body contains no site itself) that precedes the site
in one of its enclosing blocks.  The guard text is whitespace-normalised and hashed; the model's table
(`Iora.Lifecycle.Sites`) must equal the generated list (theorem `closeSites_covered`, by `decide`), so adding,
removing, moving or un-guarding a site breaks the build.

Also extracted (facts the model is parameterised by / pinned against):
  * the call skeletons of loopUnbatched / loopBatched / handleFdEvent / process / shutdownDrain / connect()
    (ordered occurrences of a fixed token set),
  * whether `_peerIndex.erase` in UdpEngine::closeNow / shutdownDrain is guarded by `->second == <sid>` (F17),
  * the order of the Transport-level close fan-out in transport_impl.hpp (onClose lambda of setupEngineCallbacks),
  * observe / unobserve / setSessionData skeletons.
A shape that is not recognised raises TranslateError.
"""
import hashlib, re
import cxxscan
from translate import TranslateError, HEADER, read

TCP = "include/iora/network/detail/tcp_engine.hpp"
UDP = "include/iora/network/detail/udp_engine.hpp"
TIM = "include/iora/network/transport_impl.hpp"

SITE_RE = re.compile(
    r"(?P<closeCb>\bcloseCb\s*\()|(?P<closeNow>\bcloseNow\s*\()|(?P<closedTrue>(?:->|\.)\s*closed\s*=\s*true\b)"
    r"|(?P<gaugeDec>\bsessionsCurrent\s*--|--\s*_atomicStats\s*\.\s*sessionsCurrent|sessionsCurrent\s*\.\s*fetch_sub\s*\(|sessionsCurrent\s*-=)"
    r"|(?P<gaugeInc>\bbumpSess\s*\(\s*\))|(?P<idAlloc>\b_nextSessionId\s*\+\+|\+\+\s*_nextSessionId|_nextSessionId\s*\.\s*fetch_add\s*\()"
    r"|(?P<acceptCb>\bacceptCb\s*\()|(?P<connectCb>\bconnectCb\s*\()|(?P<dataCb>\bdataCb\s*\()"
    r"|(?P<pendingClear>(?:->|\.)\s*connectPending\s*=\s*false\b)"
    r"|(?P<gaugeSet>_atomicStats\s*\.\s*sessionsCurrent\s*(?:\.\s*(?:store|exchange)\s*\(|=[^=]))"
    r"|(?P<idSet>\b_nextSessionId\s*(?:\.\s*(?:store|exchange|fetch_sub|compare_exchange_\w+)\s*\(|=[^=]|-=|\+=|--)|--\s*_nextSessionId)")

CTRL = ("if", "else", "for", "while", "switch", "do", "try", "catch")
JUMP_RE = re.compile(r"\b(return|continue|break|throw)\b")


def norm(s):
    """whitespace-free text; string literal contents and log statements dropped (harmless edits must not alarm)"""
    s = re.sub(r'"(?:[^"\\]|\\.)*"', '""', s)
    s = re.sub(r"\b(IORA_LOG_\w+|core::Logger::\w+|iora::core::Logger::\w+)\s*\((?:[^;]|\n)*?\)\s*;", "", s)
    return re.sub(r"\s+", "", s)


def paren_group(src, i):
    """src[i] == '(' -> index just after the matching ')'"""
    d = 0
    n = len(src)
    while i < n:
        c = src[i]
        if c in "\"'":
            q = c
            i += 1
            while i < n and src[i] != q:
                if src[i] == "\\":
                    i += 1
                i += 1
        elif c == "(":
            d += 1
        elif c == ")":
            d -= 1
            if d == 0:
                return i + 1
        i += 1
    raise TranslateError("unbalanced parentheses")


class Node:
    """A statement-level node of a function body: a block `{...}` with a header, or a simple statement."""
    def __init__(self, kind, head, start, end):
        self.kind = kind      # 'block' | 'stmt'
        self.head = head      # header text (block) or the statement text up to its terminator
        self.start = start
        self.end = end        # exclusive
        self.children = []    # for blocks: nodes of the body; for if-statements without braces: the sub statement
        self.cond = None      # for if / else if: condition text
        self.is_else = False
        self.ctl = None       # control keyword


def skip_ws(src, i, end):
    while i < end and src[i].isspace():
        i += 1
    return i


def parse_stmt(src, i, end):
    """Parse one statement starting at i (after whitespace). Returns Node."""
    i = skip_ws(src, i, end)
    if i >= end:
        return None
    start = i
    if src[i] == "{":
        j = cxxscan.match_brace(src, i)
        nd = Node("block", "", start, j + 1)
        nd.ctl = "plain"
        nd.children = parse_seq(src, i + 1, j)
        return nd
    m = re.match(r"(else\s+if|if|else|for|while|switch|do|try|catch)\b", src[i:end])
    if m:
        kw = re.sub(r"\s+", " ", m.group(1))
        k = i + m.end()
        cond = None
        if kw in ("if", "else if", "for", "while", "switch", "catch"):
            k = skip_ws(src, k, end)
            if kw == "if" and src.startswith("constexpr", k):
                k = skip_ws(src, k + 9, end)
            if k >= end or src[k] != "(":
                raise TranslateError("control statement without '(' near: %r" % src[i:i + 60])
            k2 = paren_group(src, k)
            cond = src[k + 1:k2 - 1]
            k = k2
        body = parse_stmt(src, k, end)
        if body is None:
            raise TranslateError("control statement without a body near: %r" % src[i:i + 60])
        nd = Node("block", src[i:k], start, body.end)
        nd.ctl = kw
        nd.cond = cond
        nd.is_else = kw.startswith("else")
        nd.children = [body]
        if kw == "do":
            # do { } while (c);
            k = skip_ws(src, body.end, end)
            mm = re.match(r"while\b", src[k:end])
            if mm:
                k = skip_ws(src, k + 5, end)
                k2 = paren_group(src, k)
                k2 = skip_ws(src, k2, end)
                if k2 < end and src[k2] == ";":
                    k2 += 1
                nd.end = k2
        return nd
    # case / default labels are treated as statements of their own ("label")
    m = re.match(r"(case\b[^:;{}]*(?:::[^:;{}]*)*:(?!:)|default\s*:)", src[i:end])
    if m:
        nd = Node("stmt", src[i:i + m.end()], start, i + m.end())
        nd.ctl = "label"
        return nd
    # simple statement: up to ';' at depth 0, or a declaration/expression containing braces/lambdas
    k = i
    while k < end:
        c = src[k]
        if c in "\"'":
            q = c
            k += 1
            while k < end and src[k] != q:
                if src[k] == "\\":
                    k += 1
                k += 1
        elif c == "(":
            k = paren_group_with_braces(src, k) - 1
        elif c == "{":
            k = cxxscan.match_brace(src, k)
            # `Type x{...};` or lambda body or init list: continue to ';' unless this closes a statement-like block
        elif c == ";":
            nd = Node("stmt", src[i:k + 1], start, k + 1)
            nd.ctl = "simple"
            # lambdas inside the statement: parse their bodies as children so that sites inside are located
            nd.children = lambda_bodies(src, i, k + 1)
            return nd
        k += 1
    nd = Node("stmt", src[i:end], start, end)
    nd.ctl = "simple"
    nd.children = lambda_bodies(src, i, end)
    return nd


def paren_group_with_braces(src, i):
    return paren_group(src, i)


def lambda_bodies(src, a, b):
    """Blocks `[...] (...) {...}` inside a simple statement: parsed as nested plain blocks with a lambda header."""
    out = []
    for m in re.finditer(r"\[[^\[\]]*\]\s*(\([^()]*\))?\s*(mutable\s*)?(->\s*[\w:<>]+\s*)?\{", src[a:b]):
        ob = a + m.end() - 1
        try:
            cb = cxxscan.match_brace(src, ob)
        except Exception:
            continue
        if cb >= b:
            continue
        nd = Node("block", "lambda", a + m.start(), cb + 1)
        nd.ctl = "lambda"
        nd.children = parse_seq(src, ob + 1, cb)
        out.append(nd)
    # keep only outermost
    res = []
    for nd in out:
        if not any(o is not nd and o.start <= nd.start and nd.end <= o.end for o in out):
            res.append(nd)
    return res


def parse_seq(src, a, b):
    out = []
    i = a
    while True:
        i = skip_ws(src, i, b)
        if i >= b:
            break
        nd = parse_stmt(src, i, b)
        if nd is None:
            break
        out.append(nd)
        if nd.end <= i:
            raise TranslateError("parser made no progress near %r" % src[i:i + 40])
        i = nd.end
    return out


def strip_lambdas(txt):
    """jump statements inside lambda bodies do not leave the enclosing block"""
    out = txt
    for m in list(re.finditer(r"\[[^\[\]]*\]\s*(\([^()]*\))?\s*\{", txt)):
        try:
            cb = cxxscan.match_brace(txt, m.end() - 1)
        except Exception:
            continue
        out = out[:m.end()] + " " * (cb - m.end()) + out[cb:]
    return out


def contains_site(src, nd):
    return SITE_RE.search(src, nd.start, nd.end) is not None


def is_exit_block(src, nd):
    """An if-statement (no else handling needed) whose body ends in return/continue/break/throw."""
    if nd.kind != "block" or nd.ctl not in ("if", "else if"):
        return False
    body = nd.children[0]
    txt = src[body.start:body.end].strip()
    if txt.startswith("{"):
        inner = body.children
        if not inner:
            return False
        last = inner[-1]
        return last.kind == "stmt" and JUMP_RE.match(src[last.start:last.end].strip()) is not None
    return JUMP_RE.match(txt) is not None


RET_RE = re.compile(r"\b(return|throw)\b")


def inner_exits(src, nd):
    """conditions of the if-blocks nested in `nd` whose last statement leaves the FUNCTION (return/throw)"""
    out = []

    def walk(n):
        if n.kind == "block":
            if n.ctl in ("if", "else if") and n.children:
                body = n.children[0]
                txt = src[body.start:body.end].strip()
                last = txt
                if txt.startswith("{") and body.children:
                    l = body.children[-1]
                    last = src[l.start:l.end].strip()
                if RET_RE.match(last):
                    out.append("unless(" + norm(n.cond) + ")")
            for ch in n.children:
                walk(ch)
        elif n.kind == "stmt":
            for ch in n.children:
                walk(ch)
    for ch in nd.children:
        walk(ch)
    return out


def guard_of(src, seq, pos, acc):
    """Walk the statement sequence `seq` to the node containing pos; append guard items to acc."""
    chain = []      # conditions of the current if / else-if chain (for else arms)
    for idx, nd in enumerate(seq):
        if nd.start <= pos < nd.end:
            if nd.kind == "stmt":
                if nd.ctl == "simple":
                    for ch in nd.children:
                        if ch.start <= pos < ch.end:
                            acc.append("lambda")
                            return guard_of(src, ch.children, pos, acc)
                return True
            # block
            if nd.ctl == "plain":
                return guard_of(src, nd.children, pos, acc)
            if nd.ctl == "lambda":
                acc.append("lambda")
                return guard_of(src, nd.children, pos, acc)
            if nd.ctl in ("if", "else if", "else"):
                if nd.is_else:
                    for c in chain:
                        acc.append("not(" + norm(c) + ")")
                if nd.cond is not None:
                    # the site may be inside the condition itself
                    acc.append("if(" + norm(nd.cond) + ")")
            elif nd.ctl in ("for", "while", "switch", "catch"):
                acc.append(nd.ctl + "(" + norm(nd.cond or "") + ")")
            else:
                acc.append(nd.ctl)
            body = nd.children[0]
            if body.start <= pos < body.end:
                if body.kind == "block" and body.ctl == "plain":
                    return guard_of(src, body.children, pos, acc)
                return guard_of(src, [body], pos, acc)
            return True
        # a node before the site
        if nd.kind == "block" and nd.ctl in ("if", "else if", "else"):
            if nd.ctl == "if":
                chain = [nd.cond]
            elif nd.ctl == "else if":
                chain = chain + [nd.cond]
            else:
                chain = []
            if is_exit_block(src, nd):
                # every preceding if-block that ENDS in a jump guards what follows - also when it reports a close itself
                # (`closeCb(..); return false;`): dropping that `return` un-guards the later sites
                acc.append("unless(" + norm(nd.cond) + ")")
            elif contains_site(src, nd):
                inner = inner_exits(src, nd)
                if inner:
                    acc.append("exits[" + ";".join(inner) + "]")
            elif JUMP_RE.search(strip_lambdas(src[nd.start:nd.end])):
                # a site-free conditional that can leave the block somewhere inside (e.g. the stale-timer re-validation)
                acc.append("exits{" + norm(src[nd.start:nd.end]) + "}")
        elif nd.kind == "block" and nd.ctl in ("for", "while", "do", "plain", "try", "switch"):
            chain = []
            if contains_site(src, nd):
                inner = inner_exits(src, nd)
                if inner:
                    acc.append("exits[" + ";".join(inner) + "]")
        elif nd.kind == "stmt" and nd.ctl == "label":
            # a new case label: earlier statements of the switch body belong to other arms
            acc[:] = [a for a in acc if not a.startswith("unless@case")]
            lbl = nd.head.strip()
            lbl = lbl[4:] if lbl.startswith("case") else lbl
            acc.append("case(" + norm(lbl.rstrip(":")) + ")")
            chain = []
        else:
            chain = []
    return False


def case_filter(items):
    """Within a switch body only the LAST case label before the site applies (earlier arms end in break)."""
    out = []
    for it in items:
        if it.startswith("case("):
            # drop everything collected since the enclosing switch( item (guards of other arms)
            while out and not out[-1].startswith("switch("):
                out.pop()
        out.append(it)
    return out


def functions(src):
    """(name, body_open, body_close) of every member function with a body (class/struct/namespace parents only)."""
    res = []
    stack = []   # (open_idx, kind)
    i, n = 0, len(src)
    last_boundary = 0
    while i < n:
        c = src[i]
        if c in "\"'":
            q = c
            i += 1
            while i < n and src[i] != q:
                if src[i] == "\\":
                    i += 1
                i += 1
        elif c == "{":
            head = src[last_boundary:i]
            kind = "other"
            if re.search(r"\b(class|struct|namespace|union)\b[^;(){}]*$", head) and not re.search(r"\)\s*(const)?\s*$", head.strip()):
                kind = "scope"
            elif re.search(r"\benum\b", head):
                kind = "enum"
            else:
                m = re.search(r"([~\w]+)\s*\(", head)
                parent_ok = (not stack) or stack[-1][1] == "scope"
                if m and parent_ok and re.search(r"\)\s*(const)?\s*(noexcept)?\s*(override)?\s*(:[^{}]*)?$", head.strip()):
                    # function name = identifier before the first top-level '(' of the declarator
                    name = None
                    for mm in re.finditer(r"([~\w]+)\s*\(", head):
                        if mm.group(1) not in CTRL and mm.group(1) not in ("decltype", "noexcept", "alignas", "sizeof"):
                            name = mm.group(1)
                            break
                    if name:
                        kind = "fn:" + name
            stack.append((i, kind))
            last_boundary = i + 1
        elif c == "}":
            if stack:
                oi, kind = stack.pop()
                if kind.startswith("fn:"):
                    res.append((kind[3:], oi, i))
            last_boundary = i + 1
        elif c == ";":
            last_boundary = i + 1
        elif c == ":" and stack and stack[-1][1] == "scope" and re.search(r"\b(public|private|protected)\s*$", src[last_boundary:i]):
            last_boundary = i + 1
        i += 1
    return res


def kind_of(m):
    for k in ("closeCb", "closeNow", "closedTrue", "gaugeDec", "gaugeInc", "idAlloc", "acceptCb", "connectCb", "dataCb", "pendingClear", "gaugeSet", "idSet"):
        if m.group(k):
            return k
    raise TranslateError("unclassified site")


def scan_sites(repo, rel):
    src = read(repo, rel)
    fns = functions(src)
    sites = []
    for m in SITE_RE.finditer(src):
        pos = m.start()
        kind = kind_of(m)
        # skip the definitions `void closeNow(` / `void bumpSess(`
        before = src[max(0, pos - 40):pos]
        if re.search(r"\bvoid\s*$", before):
            continue
        encl = [f for f in fns if f[1] < pos < f[2]]
        if not encl and kind == "pendingClear":
            # (UdpEngine's constructor resets the flag inside a timer lambda: not a member-function body the scanner models)
            sites.append({"fn": "<ctor>", "kind": kind, "guard": "", "hash": hashlib.sha256(b"").hexdigest()[:8], "line": src.count("\n", 0, pos) + 1})
            continue
        if not encl:
            raise TranslateError("%s: lifecycle site outside any member function at offset %d: %r" % (rel, pos, src[pos:pos + 40]))
        name, a, b = max(encl, key=lambda f: f[1])
        seq = parse_seq(src, a + 1, b)
        acc = []
        if not guard_of(src, seq, pos, acc):
            raise TranslateError("%s::%s: cannot locate site %r in the statement tree" % (rel, name, src[pos:pos + 30]))
        acc = case_filter(acc)
        g = ";".join(acc)
        sites.append({"fn": name, "kind": kind, "guard": g, "hash": hashlib.sha256(g.encode()).hexdigest()[:8],
                      "line": src.count("\n", 0, pos) + 1})
    if not sites:
        raise TranslateError("%s: no lifecycle sites found" % rel)
    return src, sites


def skeleton(src, fn, tokens, what, nth=0, signature_contains=None):
    """Ordered occurrences of the given token regexes inside function `fn`."""
    try:
        body = cxxscan.function_body(src, fn, nth=nth, signature_contains=signature_contains)
    except cxxscan.ScanError as e:
        raise TranslateError("%s: %s" % (what, e))
    hits = []
    for name, rx in tokens:
        for m in re.finditer(rx, body):
            hits.append((m.start(), name))
    hits.sort()
    return [h[1] for h in hits]


LOOP_TOKENS = [("epoll_wait", r"::epoll_wait\s*\("), ("batch", r"processBatchWithSpecialFDs\s*\("), ("drainEvt", r"\bdrainEvt\s*\(\s*\)"),
               ("process", r"\bprocess\s*\(\s*\)"), ("drainTim", r"\bdrainTim\s*\(\s*\)"), ("runGc", r"\brunGc\s*\(\s*\)"),
               ("handleFdEvent", r"\bhandleFdEvent\s*\("), ("shutdownDrain", r"\bshutdownDrain\s*\(\s*\)"),
               ("whileRunning", r"while\s*\(\s*_running\s*\.\s*load\s*\(\s*\)\s*\)")]
DRAIN_TOKENS = [("process", r"\bprocess\s*\(\s*\)"), ("forToClose", r"for\s*\(\s*auto\s*\*\s*s\s*:\s*toClose\s*\)"),
                ("skipClosed", r"if\s*\(\s*!\s*s\s*\|\|\s*s->closed\s*\)\s*continue"),
                ("closedTrue", r"s->closed\s*=\s*true"), ("gaugeDec", r"sessionsCurrent\s*--"), ("closeCb", r"\bcloseCb\s*\("),
                ("sessionsClear", r"_sessions\s*\.\s*clear\s*\(\s*\)"), ("queueClosed", r"\b(_cmdsClosed|_qClosed)\s*=\s*true"),
                ("residualSwap", r"residual\s*\.\s*swap\s*\("), ("forResidual", r"for\s*\(\s*auto\s*&\s*c\s*:\s*residual\s*\)"),
                ("promiseFail", r"listenerReady->set_value\s*\(\s*false\s*\)")]
PROC_TOKENS = [("swap", r"\.swap\s*\(\s*(_cmds|_q)\s*\)"), ("caseShutdown", r"case\s+\w+::Shutdown\s*:"), ("runningFalse", r"_running\s*\.\s*store\s*\(\s*false\s*\)"),
               ("caseAddListener", r"case\s+\w+::AddListener\s*:"), ("caseConnect", r"case\s+\w+::Connect\s*:"), ("doConnect", r"\b(doConnect|connectDo)\s*\("),
               ("caseVia", r"case\s+\w+::Via\s*:"), ("viaDo", r"\bviaDo\s*\("),
               ("caseSend", r"case\s+\w+::Send\s*:"), ("doSend", r"\b(doSend|sendDo)\s*\("), ("caseClose", r"case\s+\w+::Close\s*:"),
               ("find", r"_sessions\s*\.\s*find\s*\(\s*c\s*\.\s*closeSid\s*\)"), ("closeNow", r"\bcloseNow\s*\(")]
HFE_TOKENS = [("tagFind", r"(_fdTags|_tags)\s*\.\s*find\s*\(\s*fd\s*\)"), ("notFoundReturn", r"==\s*(_fdTags|_tags)\s*\.\s*end\s*\(\s*\)\s*\)\s*return"),
              ("onListener", r"\bonListener\s*\("), ("onSession", r"\b(onSession|onClient)\s*\(")]
CONNECT_TOKENS = [("idAlloc", r"_nextSessionId\s*\+\+"), ("enqueue", r"\benqueue\s*\("), ("retErr", r"ConnectResult::err\s*\("), ("retOk", r"ConnectResult::ok\s*\(\s*sid\s*\)")]
ENQ_TOKENS = [("lock", r"lock_guard<std::mutex>\s+g\s*\(\s*(_cmdMutex|_qmx)\s*\)"), ("closedCheck", r"if\s*\(\s*(_cmdsClosed|_qClosed)\s*\)"), ("retFalse", r"return\s+false"),
              ("push", r"(_cmds|_q)\s*\.\s*push_back\s*\("), ("retTrue", r"return\s+true")]
FANOUT_TOKENS = [("lockSync", r"lock_guard<std::mutex>\s+lk\s*\(\s*syncMutex\s*\)"), ("lockCallback", r"lock_guard<std::mutex>\s+lk\s*\(\s*callbackMutex\s*\)"),
                 ("lockObserver", r"lock_guard<std::mutex>\s+lk\s*\(\s*observerMutex\s*\)"), ("lockUserData", r"lock_guard<std::mutex>\s+lk\s*\(\s*userDataMutex\s*\)"),
                 ("pendingFind", r"pendingConnects\s*\.\s*find\s*\(\s*sid\s*\)"), ("pendingErase", r"pendingConnects\s*\.\s*erase\s*\("),
                 ("suppressReturn", r"op->cv\.notify_one\s*\(\s*\)\s*;[^}]*?return\s*;"),
                 ("copyGlobal", r"closeCb\s*=\s*onCloseCb"), ("callGlobal", r"\bcloseCb\s*\(\s*sid\s*,\s*reason\s*\)"),
                 ("observersFind", r"observers\s*\.\s*find\s*\(\s*sid\s*\)"), ("observersCopy", r"sessionObservers\s*=\s*it->second"),
                 ("obsIndexErase", r"observerToSession\s*\.\s*erase\s*\(\s*obsId\s*\)"), ("observersErase", r"observers\s*\.\s*erase\s*\(\s*it\s*\)"),
                 ("forObservers", r"for\s*\(\s*auto\s*&\s*\[\s*obsId\s*,\s*obsCb\s*\]\s*:\s*sessionObservers\s*\)"), ("callObserver", r"\bobsCb\s*\(\s*sid\s*,\s*reason\s*\)"),
                 ("tombstone", r"receiveBuffers\s*\.\s*find\s*\(\s*sid\s*\)"),
                 ("dataFind", r"sessionData\s*\.\s*find\s*\(\s*sid\s*\)"), ("dataErase", r"sessionData\s*\.\s*erase\s*\(\s*it\s*\)"),
                 ("cleanupGuard", r"if\s*\(\s*ud\.cleanup\s*&&\s*ud\.data\s*\)"), ("callCleanup", r"ud\.cleanup\s*\(\s*ud\.data\s*\)")]


START_TOKENS = [("runningCas", r"_running\s*\.\s*compare_exchange_strong\s*\(\s*exp\s*,\s*true\s*\)"), ("retAlreadyRunning", r"already running"),
                ("queueOpen", r"\b(_cmdsClosed|_qClosed)\s*=\s*false"), ("initTls", r"\binitTls\s*\(\s*\)"),
                ("epollCreate", r"::epoll_create1\s*\("), ("eventfd", r"::eventfd\s*\("),
                ("lockCmd", r"lock_guard<std::mutex>\s+g\s*\(\s*_cmdMutex\s*\)"), ("publishEventFd", r"\b_eventFd\s*=\s*efd\b"), ("timerfd", r"::timerfd_create\s*\("),
                ("ioThread", r"_loop\s*=\s*std::thread\s*\("), ("retOk", r"StartResult::ok\s*\(\s*\)"),
                ("mapsTouched", r"\b(_sessions|_fdTags|_tags|_peerIndex)\s*\.\s*(clear|erase|emplace|insert)\s*\("), ("idCounter", r"\b_nextSessionId\b")]


def next_id_census(src, what):
    """every textual use of `_nextSessionId`: the declaration (with its initial value), the post-increments (idAlloc sites) - and anything else
    (a store / assignment / reset would let ids be reused, e.g. after a restart)"""
    uses = [m.start() for m in re.finditer(r"\b_nextSessionId\b", src)]
    decl = re.findall(r"std::atomic\s*<\s*SessionId\s*>\s*_nextSessionId\s*\{\s*(\d+)\s*\}\s*;", src)
    if len(decl) != 1:
        raise TranslateError("%s: declaration `std::atomic<SessionId> _nextSessionId{n};` not found exactly once" % what)
    allocs = len(re.findall(r"\b_nextSessionId\s*\+\+", src))
    return int(decl[0]), allocs, len(uses) - 1 - allocs


def body_statements(src, fn, what, signature_contains=None):
    """the whole body of a (small) member function, statement by statement, normalised"""
    try:
        body = cxxscan.function_body(src, fn, signature_contains=signature_contains)
    except cxxscan.ScanError as e:
        raise TranslateError("%s: %s" % (what, e))
    return flat_block(body, parse_seq(body, 0, len(body)), 0, [])


def lean_strs(xs):
    return "[" + ", ".join('"%s"' % x.replace("\\", "\\\\").replace('"', '\\"') for x in xs) + "]"


def lean_list(xs):
    return "[" + ", ".join('"%s"' % x for x in xs) + "]"


def fanout_skeleton(repo):
    src = read(repo, TIM)
    m = re.search(r"cbs\s*\.\s*onClose\s*=\s*\[this\]\s*\([^)]*\)\s*\{", src)
    if not m:
        raise TranslateError("transport_impl.hpp: cbs.onClose lambda not found in setupEngineCallbacks")
    ob = m.end() - 1
    cb = cxxscan.match_brace(src, ob)
    body = src[ob + 1:cb]
    hits = []
    for name, rx in FANOUT_TOKENS:
        for mm in re.finditer(rx, body, re.S):
            hits.append((mm.start(), name))
    hits.sort()
    fan = [h[1] for h in hits]
    obs = skeleton(src, "observe", [("idAlloc", r"nextObserverId\s*\.\s*fetch_add\s*\("), ("lockObserver", r"lock_guard<std::mutex>\s+lk\s*\(\s*_impl->observerMutex\s*\)"), ("append", r"observers\s*\[\s*sid\s*\]\s*\.\s*emplace_back\s*\("),
                                    ("index", r"observerToSession\s*\[\s*id\s*\]\s*=\s*sid")], "Transport::observe", signature_contains="CloseCallback")
    unobs = skeleton(src, "unobserve", [("lockObserver", r"lock_guard<std::mutex>\s+lk\s*\(\s*_impl->observerMutex\s*\)"), ("indexFind", r"observerToSession\s*\.\s*find\s*\(\s*id\s*\)"), ("retFalse", r"return\s+false"),
                                        ("indexErase", r"observerToSession\s*\.\s*erase\s*\("), ("removeIf", r"remove_if\s*\("),
                                        ("eraseEmpty", r"observers\s*\.\s*erase\s*\(\s*obsIt\s*\)"), ("retTrue", r"return\s+true")], "Transport::unobserve")
    setd = skeleton(src, "setSessionData", [("lockUserData", r"lock_guard<std::mutex>\s+lk\s*\(\s*_impl->userDataMutex\s*\)"), ("assign", r"sessionData\s*\[\s*sid\s*\]\s*=\s*\{\s*data\s*,")], "Transport::setSessionData", signature_contains="cleanup")
    return fan, obs, unobs, setd


def flat_block(src, nodes, depth, out):
    """statement-level text of a block, whitespace-free, one entry per statement / control header: `<depth>:<text>`"""
    for nd in nodes:
        if nd.kind == "stmt":
            out.append("%d:%s" % (depth, norm(nd.head)))
        elif nd.ctl == "plain":
            out.append("%d:{" % depth)
            flat_block(src, nd.children, depth + 1, out)
        else:
            out.append("%d:%s%s" % (depth, nd.ctl.replace(" ", ""), "(" + norm(nd.cond) + ")" if nd.cond is not None else ""))
            body = nd.children[0]
            if body.kind == "block" and body.ctl == "plain":
                flat_block(src, body.children, depth + 1, out)
            else:
                flat_block(src, [body], depth + 1, out)
    return out


def delivery_facts(repo):
    """Transport-level delivery around a close (Model/CloseDeliver.lean): step 6 of the close handler and the first critical
    section of setReadMode, statement by statement, plus the two variant flags the model is instantiated with."""
    src = read(repo, TIM)
    m = re.search(r"cbs\s*\.\s*onClose\s*=\s*\[this\]\s*\([^)]*\)\s*\{", src)
    if not m:
        raise TranslateError("transport_impl.hpp: cbs.onClose lambda not found in setupEngineCallbacks")
    ob = m.end() - 1
    cb = cxxscan.match_brace(src, ob)
    top = parse_seq(src, ob + 1, cb)
    blocks = [nd for nd in top if nd.kind == "block" and nd.ctl == "plain" and
              re.search(r"receiveBuffers\s*\.\s*find\s*\(\s*sid\s*\)", src[nd.start:nd.end])]
    if len(blocks) != 1:
        raise TranslateError("cbs.onClose: expected exactly one top-level block that looks up receiveBuffers (step 6), found %d" % len(blocks))
    step6 = flat_block(src, blocks[0].children, 0, [])
    if not step6 or not re.match(r"0:std::lock_guard<std::mutex>lk\(syncMutex\);$", step6[0]):
        raise TranslateError("cbs.onClose step 6: the block does not start by taking syncMutex")
    erases = [x for x in step6 if re.search(r"readModes\.erase\(", x)]
    if not erases:
        raise TranslateError("cbs.onClose step 6: no readModes.erase found")
    erase_always = erases == ["0:readModes.erase(sid);"]
    # readModes is touched nowhere else in the handler
    if len(re.findall(r"\breadModes\b", src[ob:cb])) != len(re.findall(r"\breadModes\b", src[blocks[0].start:blocks[0].end])):
        raise TranslateError("cbs.onClose: readModes is used outside step 6")
    # ---- order of the handler (FC03c): the syncMutex block (closed flag / tombstone / readModes.erase) relative to the user code it
    # runs - the global close callback call and the observer loop.  Both calls exactly once, both at the top level of the lambda
    # (not inside the block), the block entirely before both or entirely after both.
    calls = [m2.start() + ob for m2 in re.finditer(r"\bcloseCb\s*\(\s*sid\s*,\s*reason\s*\)", src[ob:cb])]
    loops = [m2.start() + ob for m2 in re.finditer(r"for\s*\(\s*auto\s*&\s*\[\s*obsId\s*,\s*obsCb\s*\]\s*:\s*sessionObservers\s*\)", src[ob:cb])]
    ocalls = [m2.start() + ob for m2 in re.finditer(r"\bobsCb\s*\(\s*sid\s*,\s*reason\s*\)", src[ob:cb])]
    if len(calls) != 1 or len(loops) != 1 or len(ocalls) != 1:
        raise TranslateError("cbs.onClose: expected exactly one closeCb(sid, reason) call, one observer loop and one obsCb(sid, reason) call, found %d/%d/%d" % (len(calls), len(loops), len(ocalls)))
    user = [calls[0], loops[0], ocalls[0]]
    if any(blocks[0].start <= p <= blocks[0].end for p in user):
        raise TranslateError("cbs.onClose: a close callback is invoked inside the syncMutex block")
    if all(blocks[0].end <= p for p in user):
        mark_first = True
    elif all(p <= blocks[0].start for p in user):
        mark_first = False
    else:
        raise TranslateError("cbs.onClose: the syncMutex block (closed flag / tombstone / readModes.erase) stands BETWEEN the global close callback and the observers")
    # nothing between the pendingConnects suppression and the first of {block, callbacks} may return early: the statements between are
    # pinned by the `fanout` token skeleton (Model/LifecycleSites.lean)
    # ---- setReadMode: statements up to and including the first syncMutex section
    try:
        body = cxxscan.function_body(src, "setReadMode")
    except cxxscan.ScanError as e:
        raise TranslateError("Transport::setReadMode: %s" % e)
    seq = parse_seq(body, 0, len(body))
    first = None
    for i, nd in enumerate(seq):
        if nd.kind == "block" and nd.ctl == "plain" and re.search(r"lock_guard<std::mutex>\s+lk\s*\(\s*_impl->syncMutex\s*\)", body[nd.start:nd.end]):
            first = i
            break
    if first is None:
        raise TranslateError("Transport::setReadMode: first syncMutex section not found")
    entry = flat_block(body, seq[:first + 1], 0, [])
    sec = flat_block(body, seq[first].children, 0, [])
    # tombstone guard (FC02a): directly after the lock, before readModes is read or written; a vacuous success
    guard = False
    if len(sec) >= 4 and re.match(r"0:auto(\w+)=_impl->receiveBuffers\.find\(sid\);$", sec[1]):
        v = re.match(r"0:auto(\w+)=", sec[1]).group(1)
        if sec[2] == "0:if(%s!=_impl->receiveBuffers.end()&&%s->second->closed)" % (v, v) and sec[3] == "1:returntrue;":
            guard = True
    if not guard and any("closed" in x for x in sec):
        raise TranslateError("Transport::setReadMode: unrecognised use of the closed flag in the first critical section")
    return step6, erase_always, entry, guard, mark_first


def peer_erase_guarded(src, fn, what):
    body = cxxscan.function_body(src, fn)
    m = re.search(r"_peerIndex\s*\.\s*erase\s*\(", body)
    if not m:
        raise TranslateError("%s: no _peerIndex.erase found" % what)
    if re.search(r"_peerIndex\s*\.\s*erase\s*\(\s*(s->)?pkey\s*\)", body):
        return False
    if re.search(r"_peerIndex\s*\.\s*find\s*\(\s*(s->)?pkey\s*\)", body) and re.search(r"->second\s*==\s*(s->id|sid)", body) and \
            re.search(r"_peerIndex\s*\.\s*erase\s*\(\s*\w+\s*\)", body):
        return True
    raise TranslateError("%s: unrecognised _peerIndex.erase shape" % what)


def gen(repo):
    tsrc, tcp = scan_sites(repo, TCP)
    usrc, udp = scan_sites(repo, UDP)
    t = HEADER % (TCP + ", " + UDP + ", " + TIM)
    t += "namespace Iora.Gen.CloseSites\n"
    t += "/-- a lifecycle site: enclosing member function, kind, hash of the normalised guard text -/\n"
    t += "structure Site where\n  fn : String\n  kind : String\n  guard : String\n  deriving DecidableEq, Repr\n\n"
    for nm, rel, sites in (("tcpSites", TCP, tcp), ("udpSites", UDP, udp)):
        t += "/-- %s : %d sites, in source order -/\n" % (rel, len(sites))
        t += "def %s : List Site := [\n" % nm
        rows = []
        for s in sites:
            rows.append('  -- %s\n  ⟨"%s", "%s", "%s"⟩' % (s["guard"].replace("\n", " ")[:900] or "(unguarded)", s["fn"], s["kind"], s["hash"]))
        t += ",\n".join(rows) + "]\n\n"
    for pre, src in (("tcp", tsrc), ("udp", usrc)):
        t += "def %sLoopUnbatched : List String := %s\n" % (pre, lean_list(skeleton(src, "loopUnbatched", LOOP_TOKENS, pre + " loopUnbatched")))
        t += "def %sLoopBatched : List String := %s\n" % (pre, lean_list(skeleton(src, "loopBatched", LOOP_TOKENS, pre + " loopBatched")))
        t += "def %sHandleFdEvent : List String := %s\n" % (pre, lean_list(skeleton(src, "handleFdEvent", HFE_TOKENS, pre + " handleFdEvent")))
        t += "def %sProcess : List String := %s\n" % (pre, lean_list(skeleton(src, "process", PROC_TOKENS, pre + " process")))
        t += "def %sShutdownDrain : List String := %s\n" % (pre, lean_list(skeleton(src, "shutdownDrain", DRAIN_TOKENS, pre + " shutdownDrain")))
        t += "def %sConnect : List String := %s\n" % (pre, lean_list(skeleton(src, "connect", CONNECT_TOKENS, pre + " connect", signature_contains="TlsMode")))
        t += "def %sEnqueue : List String := %s\n" % (pre, lean_list(skeleton(src, "enqueue", ENQ_TOKENS, pre + " enqueue", signature_contains="&&")))
    t += "def udpConnectVia : List String := %s\n" % lean_list(skeleton(usrc, "connectViaListener", CONNECT_TOKENS, "udp connectViaListener"))
    g1 = peer_erase_guarded(usrc, "closeNow", "UdpEngine::closeNow")
    g2 = peer_erase_guarded(usrc, "shutdownDrain", "UdpEngine::shutdownDrain")
    t += "/-- `_peerIndex.erase` only when the entry maps to the closing session (F17 repaired) - closeNow / shutdownDrain -/\n"
    t += "def udpPeerEraseGuardedCloseNow : Bool := %s\ndef udpPeerEraseGuardedDrain : Bool := %s\n" % (str(g1).lower(), str(g2).lower())
    # F35: the shutdown drain must drop the fd tag of every session it frees (restart would otherwise dispatch to freed sessions)
    tbody = cxxscan.function_body(tsrc, "shutdownDrain")
    ubody = cxxscan.function_body(usrc, "shutdownDrain")
    m = re.search(r"for\s*\(\s*auto\s*\*\s*s\s*:\s*toClose\s*\)\s*\{", tbody)
    if not m:
        raise TranslateError("TcpEngine::shutdownDrain: session loop not found")
    loop = tbody[m.end() - 1:cxxscan.match_brace(tbody, m.end() - 1)]
    t_erase = bool(re.search(r"_fdTags\s*\.\s*erase\s*\(", loop)) or bool(re.search(r"_fdTags\s*\.\s*clear\s*\(\s*\)", tbody))
    m = re.search(r"for\s*\(\s*auto\s*\*\s*s\s*:\s*toClose\s*\)\s*\{", ubody)
    if not m:
        raise TranslateError("UdpEngine::shutdownDrain: session loop not found")
    loop = ubody[m.end() - 1:cxxscan.match_brace(ubody, m.end() - 1)]
    u_erase = bool(re.search(r"_tags\s*\.\s*erase\s*\(", loop)) or bool(re.search(r"_tags\s*\.\s*clear\s*\(\s*\)", ubody))
    t += "/-- the session loop of shutdownDrain erases the fd tag of every session it frees (tcp `_fdTags`, udp `_tags`) -/\n"
    t += "def tcpDrainErasesTags : Bool := %s\ndef udpDrainErasesTags : Bool := %s\n" % (str(t_erase).lower(), str(u_erase).lower())
    # ---- the epoll interest of a connecting socket (the kernel can only report EPOLLOUT - the connect completion - if it is registered)
    dbody = cxxscan.function_body(tsrc, "doConnect")
    m = re.search(r"std::uint32_t\s+ev\s*=\s*([A-Z_|\s]+);(?:(?!addEpoll).)*?addEpoll\s*\(\s*cfd\s*,\s*ev\s*\)", dbody, re.S)
    if not m:
        raise TranslateError("TcpEngine::doConnect: `ev = ...; addEpoll(cfd, ev)` not found")
    cmask = sorted(x.strip() for x in m.group(1).split("|"))
    ui = skeleton(tsrc, "updateInterest", [("base", r"bool\s+needWrite\s*=\s*s->wantWrite\s*\|\|\s*!\s*s->wq\.empty\s*\(\s*\)"),
                                           ("ifHandshake", r"if\s*\(\s*s->tlsState\s*==\s*TlsState::Handshake\s*\)"),
                                           ("orTlsWantWrite", r"needWrite\s*=\s*needWrite\s*\|\|\s*s->tlsWantWrite"),
                                           ("else", r"\belse\b"),
                                           ("orConnectPending", r"needWrite\s*=\s*needWrite\s*\|\|\s*s->connectPending"),
                                           ("ifNeedWrite", r"if\s*\(\s*needWrite\s*\)"), ("outBit", r"ev\s*\|=\s*EPOLLOUT"),
                                           ("modEpoll", r"modEpoll\s*\(\s*s->fd\s*,\s*ev\s*\)")], "TcpEngine::updateInterest")
    t += "/-- TcpEngine::doConnect registers the connecting socket with this epoll mask; updateInterest keeps EPOLLOUT while connectPending -/\n"
    t += "def tcpConnectEpollMask : List String := %s\ndef tcpUpdateInterest : List String := %s\n" % (lean_list(cmask), lean_list(ui))
    # ---- id counter is atomic in both engines
    t += "def tcpNextIdAtomic : Bool := %s\ndef udpNextIdAtomic : Bool := %s\n" % (
        str(bool(re.search(r"std::atomic\s*<\s*SessionId\s*>\s*_nextSessionId\b", tsrc))).lower(),
        str(bool(re.search(r"std::atomic\s*<\s*SessionId\s*>\s*_nextSessionId\b", usrc))).lower())
    # ---- every direct close-callback call works on its own copy of `_cbs.onClose` taken under `_cbMutex`
    for nm, src_, sites_ in (("tcp", tsrc, tcp), ("udp", usrc, udp)):
        ncall = len([x for x in sites_ if x["kind"] == "closeCb"])
        ncopy = len(re.findall(r"lock_guard<std::mutex>\s+g\s*\(\s*_cbMutex\s*\)\s*;\s*closeCb\s*=\s*_cbs\.onClose", src_))
        t += "def %sCloseCbCalls : Nat := %d\ndef %sOnCloseCopies : Nat := %d\n" % (nm, ncall, nm, ncopy)
    # ---- F3: close(sid) of both engines is exactly one enqueue of a Close command for that id (an accepted request is queued FIFO)
    t += "/-- the whole body of TcpEngine::close / UdpEngine::close, statement by statement -/\n"
    t += "def tcpClose : List String := %s\ndef udpClose : List String := %s\n" % (
        lean_strs(body_statements(tsrc, "close", "TcpEngine::close", signature_contains="SessionId sid")),
        lean_strs(body_statements(usrc, "close", "UdpEngine::close", signature_contains="SessionId sid")))
    # ---- F6(c): the three timer handlers (TimerService thread) are one enqueue of a Close with the matching origin - nothing else
    th = []
    for fn in ("handleConnectTimeout", "handleHandshakeTimeout", "handleWriteStallTimeout"):
        st = body_statements(tsrc, fn, "TcpEngine::" + fn)
        m = re.match(r'^0:enqueue\(Command::close\(sid,TransportError::(\w+),"([^"]*)",CloseOrigin::(\w+)\)\);$', st[0]) if len(st) == 1 else None
        th.append('("%s", "%s", "%s")' % (fn, m.group(3), m.group(1)) if m else '("%s", "?", "%s")' % (fn, " ".join(st).replace("\\", "").replace('"', "'")[:200]))
    t += "/-- (handler, CloseOrigin, TransportError) of the three TimerService handlers when the body is exactly `enqueue(Command::close(sid, err, msg, origin));` -/\n"
    t += "def tcpTimerHandlers : List (String × String × String) := [%s]\n" % ", ".join(th)
    # ---- F4: start() (restart) and the id counter
    t += "def tcpStart : List String := %s\ndef udpStart : List String := %s\n" % (
        lean_list(skeleton(tsrc, "start", START_TOKENS, "TcpEngine::start")), lean_list(skeleton(usrc, "start", START_TOKENS, "UdpEngine::start")))
    ti, ta, to = next_id_census(tsrc, "tcp_engine.hpp")
    ui, ua, uo = next_id_census(usrc, "udp_engine.hpp")
    t += "/-- `_nextSessionId`: initial value of the declaration, number of post-increments, number of ANY other textual use (store, assignment, ...) -/\n"
    t += "def tcpNextIdInit : Nat := %d\ndef tcpNextIdAllocs : Nat := %d\ndef tcpNextIdOtherUses : Nat := %d\n" % (ti, ta, to)
    t += "def udpNextIdInit : Nat := %d\ndef udpNextIdAllocs : Nat := %d\ndef udpNextIdOtherUses : Nat := %d\n" % (ui, ua, uo)
    fan, obs, unobs, setd = fanout_skeleton(repo)
    t += "/-- order of the Transport-level close handler (transport_impl.hpp, cbs.onClose) -/\n"
    t += "def fanout : List String := %s\n" % lean_list(fan)
    t += "def observe : List String := %s\ndef unobserve : List String := %s\ndef setSessionData : List String := %s\n" % (lean_list(obs), lean_list(unobs), lean_list(setd))
    step6, erase_always, entry, guard, mark_first = delivery_facts(repo)
    t += "/-- step 6 of the Transport close handler (the syncMutex block that closes the receive buffer or leaves a tombstone), statement by\nstatement with nesting depth -/\n"
    t += "def closeStep6 : List String := [\n  %s]\n" % ",\n  ".join('"%s"' % x.replace("\\", "\\\\").replace('"', '\\"') for x in step6)
    t += "/-- `readModes.erase(sid)` is the only use of readModes in the handler and sits at the top level of step 6 (unconditional) -/\n"
    t += "def closeErasesModeAlways : Bool := %s\n" % str(erase_always).lower()
    t += "/-- Transport::setReadMode from its first statement to the end of its first syncMutex section -/\n"
    t += "def setReadModeEntry : List String := [\n  %s]\n" % ",\n  ".join('"%s"' % x.replace("\\", "\\\\").replace('"', '\\"') for x in entry)
    t += "/-- setReadMode returns (true, no effect) for a closed tombstone before it reads or writes readModes (repair FC02a) -/\n"
    t += "def setReadModeRefusesTombstone : Bool := %s\n" % str(guard).lower()
    t += "/-- the close handler runs its syncMutex block (closed flag / tombstone / readModes.erase) BEFORE the global close callback and the observers (repair FC03c) -/\n"
    t += "def closeMarksBeforeCallbacks : Bool := %s\n" % str(mark_first).lower()
    t += "end Iora.Gen.CloseSites\n"
    return "IoraModel/Gen/CloseSites.lean", t
