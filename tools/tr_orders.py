"""Translator unit `orders` -> Gen/Orders.lean (C10): every atomic access to `_head`/`_tail` AND every access to the slot array
`_buffer` in both ring classes of include/iora/core/ring_buffer.hpp, per method and in SOURCE ORDER, as
(class, method#overload, variable, load|store|read|write|assign, memory order | plain).  The Lean obligation `C10_orders`
pins the exact event sequence of every method (counter loads, then slot accesses, then one store of the own counter) and the
orders; any member function the unit does not know is a broken tie."""
import re
import cxxscan
from translate import TranslateError, HEADER, read

FILE = "include/iora/core/ring_buffer.hpp"
CLASSES = ["RingBuffer", "DynamicRingBuffer"]
METHODS = [("tryPush", 2), ("tryPop", 1), ("peek", 1), ("tryPushBatch", 1), ("tryPopBatch", 1), ("size", 1), ("clear", 1)]
DYN_ONLY = [("resize", 1)]
# member functions without any access to the counters or the slots (checked), and special members
PURE = {"empty", "full", "capacity", "nextPowerOfTwo"}
STATE = ["_head", "_tail", "_buffer", "_capacity", "_mask"]
ORDERS = {"relaxed", "consume", "acquire", "release", "acq_rel", "seq_cst"}


def class_body(src, name):
    m = re.search(r"\bclass\s+%s\b[^;{]*\{" % re.escape(name), src)
    if not m:
        raise TranslateError("class %s not found in %s" % (name, FILE))
    end = cxxscan.match_brace(src, m.end() - 1)
    return src[m.end():end]


def accesses(body, where):
    """Events on _head/_tail/_buffer in source order: (position, var, kind, order)."""
    out = []
    covered = set()
    for m in re.finditer(r"\b(_head|_tail)\s*\.\s*(\w+)\s*\(", body):
        var, fn = m.group(1), m.group(2)
        i = m.end() - 1
        depth = 0
        j = i
        while j < len(body):
            if body[j] == "(":
                depth += 1
            elif body[j] == ")":
                depth -= 1
                if depth == 0:
                    break
            j += 1
        args = body[i + 1:j]
        if fn not in ("load", "store"):
            raise TranslateError("%s: %s.%s(...) is not a plain load/store (read-modify-write operations are outside the modelled fragment)" % (where, var, fn))
        mo = re.findall(r"std::memory_order_(\w+)|std::memory_order::(\w+)", args)
        if mo:
            if len(mo) != 1:
                raise TranslateError("%s: cannot read the memory order of %s.%s(%s)" % (where, var, fn, args.strip()))
            order = mo[0][0] or mo[0][1]
        else:
            nargs = 0 if not args.strip() else 1 + args.count(",")
            if (fn == "load" and nargs != 0) or (fn == "store" and nargs != 1):
                raise TranslateError("%s: memory order of %s.%s(%s) is not a std::memory_order_* literal" % (where, var, fn, args.strip()))
            order = "seq_cst"
        if order not in ORDERS:
            raise TranslateError("%s: unknown memory order %s" % (where, order))
        out.append((m.start(), var, fn, order))
        covered.add(m.start())
    for m in re.finditer(r"\b(_head|_tail)\b", body):
        if m.start() not in covered:
            raise TranslateError("%s: access to %s that is not .load()/.store(): %r" % (where, m.group(1), body[max(0, m.start() - 20):m.end() + 20].strip()))
    # slot array: `_buffer[expr] = ...` is a write, `_buffer[expr]` elsewhere a read, `_buffer = ...` replaces the array (resize)
    for m in re.finditer(r"\b_buffer\b", body):
        k = m.end()
        while k < len(body) and body[k] in " \t\r\n":
            k += 1
        if k < len(body) and body[k] == "[":
            depth = 0
            j = k
            while j < len(body):
                if body[j] == "[":
                    depth += 1
                elif body[j] == "]":
                    depth -= 1
                    if depth == 0:
                        break
                j += 1
            r = j + 1
            while r < len(body) and body[r] in " \t\r\n":
                r += 1
            is_write = r < len(body) and body[r] == "=" and body[r:r + 2] != "=="
            if r < len(body) and re.match(r"(\+=|-=|\*=|/=|\|=|&=|\^=|\+\+|--|\.)", body[r:]):
                raise TranslateError("%s: compound access to a slot: %r" % (where, body[m.start():r + 3]))
            out.append((m.start(), "_buffer", "write" if is_write else "read", "plain"))
        elif k < len(body) and body[k] == "=" and body[k:k + 2] != "==":
            out.append((m.start(), "_buffer", "assign", "plain"))
        else:
            raise TranslateError("%s: use of _buffer in a shape the scanner does not know: %r" % (where, body[max(0, m.start() - 20):m.end() + 20].strip()))
    out.sort()
    return [(v, f, o) for _, v, f, o in out]


# ---------------------------------------------------------------------------------------------- arithmetic shapes
def strip_comments(t):
    t = re.sub(r"/\*.*?\*/", " ", t, flags=re.S)
    return re.sub(r"//[^\n]*", " ", t)


NPOT_RE = re.compile(r"^\s*if\s*\(\s*v\s*==\s*0\s*\)\s*\{?\s*return\s+1\s*;\s*\}?\s*v\s*--\s*;\s*"
                     r"((?:v\s*\|=\s*v\s*>>\s*\d+\s*;\s*)*)return\s+v\s*\+\s*1\s*;\s*$")


def npot_shifts(cb):
    """`nextPowerOfTwo` must be exactly `if (v == 0) return 1; v--; (v |= v >> K;)* return v + 1;` over a `std::size_t v`:
    the list of K, in source order, is what the Lean model's nextPowerOfTwo is DEFINED from."""
    m = re.search(r"static\s+std::size_t\s+nextPowerOfTwo\s*\(\s*std::size_t\s+v\s*\)\s*\{", cb)
    if not m:
        raise TranslateError("DynamicRingBuffer::nextPowerOfTwo is not `static std::size_t nextPowerOfTwo(std::size_t v)`")
    body = strip_comments(cb[m.end():cxxscan.match_brace(cb, m.end() - 1)])
    mm = NPOT_RE.match(body)
    if not mm:
        raise TranslateError("nextPowerOfTwo: body is not `if (v == 0) return 1; v--; v |= v >> K; ... return v + 1;`: %r" % " ".join(body.split()))
    ks = [int(k) for k in re.findall(r">>\s*(\d+)", mm.group(1))]
    if any(k >= 64 for k in ks):
        raise TranslateError("nextPowerOfTwo: shift by %s on a 64-bit value" % ks)
    return ks


class _P:
    """tiny expression parser: E := C ['?' E ':' E] ; C := A [('<'|'>') A] ; A := T {('-'|'+') T} ; T := name | number | '(' E ')'"""
    def __init__(self, text, names, where):
        self.t = re.findall(r"[A-Za-z_]\w*|\d+|[()?:<>+\-]|\S", text)
        self.i = 0
        self.names = names
        self.where = where

    def fail(self, why):
        raise TranslateError("%s: cannot read expression `%s` (%s)" % (self.where, " ".join(self.t), why))

    def peek(self):
        return self.t[self.i] if self.i < len(self.t) else None

    def eat(self, x=None):
        tok = self.peek()
        if tok is None or (x is not None and tok != x):
            self.fail("expected %s at token %d" % (x, self.i))
        self.i += 1
        return tok

    def expr(self):
        c = self.cmp()
        if self.peek() == "?":
            if c[0] != "cmp":
                self.fail("condition of ?: is not a comparison")
            self.eat("?")
            a = self.expr()
            self.eat(":")
            b = self.expr()
            return ("ite", c[1], c[2], c[3], a, b)
        if c[0] == "cmp":
            self.fail("bare comparison")
        return c

    def cmp(self):
        a = self.arith()
        if self.peek() in ("<", ">"):
            op = self.eat()
            b = self.arith()
            return ("cmp", op, a, b)
        return a

    def arith(self):
        a = self.term()
        while self.peek() in ("-", "+"):
            op = self.eat()
            b = self.term()
            a = ("sub" if op == "-" else "add", a, b)
        return a

    def term(self):
        tok = self.eat()
        if tok == "(":
            e = self.expr()
            self.eat(")")
            return e
        if tok.isdigit():
            return ("n", int(tok))
        if re.match(r"[A-Za-z_]\w*$", tok):
            if tok not in self.names:
                self.fail("unknown name %s" % tok)
            return ("v", tok)
        self.fail("unexpected token %r" % tok)


def _expr_top(self):
    # condition may be parenthesised: try `( C ) ? ...` first
    save = self.i
    if self.peek() == "(":
        self.eat("(")
        c = self.cmp()
        if c[0] == "cmp" and self.peek() == ")":
            self.eat(")")
            if self.peek() == "?":
                self.eat("?")
                a = self.expr()
                self.eat(":")
                b = self.expr()
                e = ("ite", c[1], c[2], c[3], a, b)
                if self.peek() is not None:
                    self.fail("trailing tokens")
                return e
        self.i = save
    e = self.expr()
    if self.peek() is not None:
        self.fail("trailing tokens")
    return e


_P.expr_top = _expr_top


def lean_expr(e):
    k = e[0]
    if k == "v":
        return '(.v "%s")' % e[1]
    if k == "n":
        return "(.n %d)" % e[1]
    if k in ("sub", "add"):
        return "(.%s %s %s)" % (k, lean_expr(e[1]), lean_expr(e[2]))
    if k == "ite":
        return "(.ite %s %s %s %s %s)" % ("true" if e[1] == "<" else "false", lean_expr(e[2]), lean_expr(e[3]), lean_expr(e[4]), lean_expr(e[5]))
    raise TranslateError("internal: expression node %r" % (e,))


def resize_shape(cb):
    """The arithmetic of DynamicRingBuffer::resize as expression trees (count, toCopy, startTail, dropped, the two final
    stores); everything around them (names, loop, buffer swap, order of statements) is pinned literally."""
    body = " ".join(strip_comments(cxxscan.function_body(cb, "resize", nth=0)).split())
    pat = (r"^auto newCapacity = nextPowerOfTwo\(newRequestedCapacity\); auto newMask = newCapacity - 1; "
           r"auto newBuffer = std::make_unique<T\[\]>\(newCapacity\); "
           r"auto tail = _tail\.load\(std::memory_order_relaxed\); auto head = _head\.load\(std::memory_order_relaxed\); "
           r"std::size_t count = (?P<count>[^;]+); std::size_t toCopy = (?P<toCopy>[^;]+); auto startTail = (?P<start>[^;]+); "
           r"for \(std::size_t i = 0; i < toCopy; \+\+i\) \{ newBuffer\[i\] = std::move\(_buffer\[\(startTail \+ i\) & _mask\]\); \} "
           r"std::size_t dropped = (?P<dropped>[^;]+); "
           r"_buffer = std::move\(newBuffer\); _capacity = newCapacity; _mask = newMask; "
           r"_tail\.store\((?P<newTail>[^,;]+), std::memory_order_relaxed\); _head\.store\((?P<newHead>[^,;]+), std::memory_order_relaxed\); "
           r"return dropped;$")
    m = re.match(pat, body)
    if not m:
        raise TranslateError("DynamicRingBuffer::resize no longer has the modelled statement sequence (names, copy loop "
                             "`newBuffer[i] = std::move(_buffer[(startTail + i) & _mask])` for i < toCopy, buffer/capacity/mask swap, two stores): %r" % body[:600])
    out = {}
    names = ["head", "tail", "newCapacity"]
    for key, var in (("count", "count"), ("toCopy", "toCopy"), ("start", "startTail"), ("dropped", None), ("newTail", None), ("newHead", None)):
        out[key] = _P(m.group(key), names, "resize::" + key).expr_top()
        if var:
            names = names + [var]
    return out


def mask_pins(src):
    """`kMask = Capacity - 1`, `_mask(_capacity - 1)` with `_capacity(nextPowerOfTwo(requestedCapacity))`, and the power-of-two
    static_assert of the static class - the model's `mask := capacity - 1` / `mkDynamic` rest on these."""
    s = " ".join(strip_comments(src).split())
    for what, pat in (("static constexpr std::size_t kMask = Capacity - 1;", r"static constexpr std::size_t kMask = Capacity - 1;"),
                      ("static_assert((Capacity & (Capacity - 1)) == 0", r"static_assert\(\(Capacity & \(Capacity - 1\)\) == 0,"),
                      ("static_assert(Capacity > 0", r"static_assert\(Capacity > 0,"),
                      ("DynamicRingBuffer ctor init list",
                       r"explicit DynamicRingBuffer\(std::size_t requestedCapacity\) : _capacity\(nextPowerOfTwo\(requestedCapacity\)\) , "
                       r"_mask\(_capacity - 1\) , _buffer\(std::make_unique<T\[\]>\(_capacity\)\) , _head\{0\} , _tail\{0\} \{ \}"),
                      ("RingBuffer ctor", r"RingBuffer\(\) noexcept : _head\{0\}, _tail\{0\} \{\}"),
                      ("member order _capacity before _mask before _buffer", r"std::size_t _capacity; std::size_t _mask; std::unique_ptr<T\[\]> _buffer;")):
        if not re.search(pat, s):
            raise TranslateError("ring_buffer.hpp: `%s` not found in the modelled form (mask = capacity - 1, capacity = nextPowerOfTwo(request))" % what)


def gen(repo):
    src = read(repo, FILE)
    mask_pins(src)
    dyn_cb = class_body(src, "DynamicRingBuffer")
    shifts = npot_shifts(dyn_cb)
    rz = resize_shape(dyn_cb)
    rows = []
    for cls in CLASSES:
        cb = class_body(src, cls)
        for name, count in METHODS + (DYN_ONLY if cls == "DynamicRingBuffer" else []):
            for k in range(count):
                body = cxxscan.function_body(cb, name, nth=k)
                where = "%s::%s#%d" % (cls, name, k)
                acc = accesses(body, where)
                if not acc:
                    raise TranslateError("%s: no atomic access found" % where)
                for var, fn, order in acc:
                    rows.append((cls, "%s#%d" % (name, k), var, fn, order))
            # one more overload than expected = unknown shape
            try:
                cxxscan.function_body(cb, name, nth=count)
            except cxxscan.ScanError:
                pass
            else:
                raise TranslateError("%s::%s has more than %d overload(s)" % (cls, name, count))
        # every member function of the class must be known: a new method is a broken tie (it may touch the state from any thread)
        known = {n for n, _ in METHODS + DYN_ONLY}
        for m in re.finditer(r"(?<![\w~:.>])(~?\w+)\s*\([^()]*\)\s*(?:const\s*)?(?:noexcept\s*(?:\([^{};]*\))?\s*)?(?::[^{};]*)?\{", cb):
            fname = m.group(1)
            if fname in ("if", "for", "while", "switch", "catch", "return", "sizeof"):
                continue
            if fname in known:
                continue
            end = cxxscan.match_brace(cb, m.end() - 1)
            fb = cb[m.end():end]
            if fname in (cls, "~" + cls):
                continue        # constructors: run before the object is shared
            if fname in PURE:
                if re.search(r"\b(_head|_tail|_buffer)\b", fb) or re.search(r"\b(_capacity|_mask)\s*(=(?!=)|\+\+|--|\+=|-=)", fb):
                    raise TranslateError("%s::%s is expected not to touch the counters/slots and not to write _capacity/_mask" % (cls, fname))
                continue
            raise TranslateError("%s::%s is not a known member function of the ring (every method must be part of the model)" % (cls, fname))
        # _capacity/_mask are written only by resize (dynamic class)
        for name, count in METHODS:
            for k in range(count):
                fb = cxxscan.function_body(cb, name, nth=k)
                if re.search(r"\b(_capacity|_mask)\s*(=(?!=)|\+\+|--|\+=|-=)", fb):
                    raise TranslateError("%s::%s writes _capacity/_mask" % (cls, name))
    t = HEADER % FILE
    t += "namespace Iora.Gen.Orders\n"
    t += "/-- every access to the ring counters and to the slot array, per method in source order:\n(class, method#overload, variable, load|store|read|write|assign, memory order or `plain`) -/\n"
    t += "def ring : List (String × String × String × String × String) := [\n"
    t += ",\n".join('  ("%s", "%s", "%s", "%s", "%s")' % r for r in rows)
    t += "]\n"
    t += "/-- `DynamicRingBuffer::nextPowerOfTwo` is `if (v == 0) return 1; v--; v |= v >> K (for K in this list, in order); return v + 1`\n(shape enforced by the translator) on a 64-bit `std::size_t` -/\n"
    t += "def npotShifts : List UInt64 := [%s]\n" % ", ".join(str(k) for k in shifts)
    t += "/-- expression trees of the arithmetic in `DynamicRingBuffer::resize` (64-bit unsigned; `.ite true a b t e` = `a < b ? t : e`,\n`.ite false a b t e` = `a > b ? t : e`) -/\n"
    t += "inductive RE where\n  | v (name : String) | n (k : Nat) | sub (a b : RE) | add (a b : RE) | ite (lt : Bool) (a b t e : RE)\n  deriving Repr\n"
    for key, nm in (("count", "resizeCount"), ("toCopy", "resizeToCopy"), ("start", "resizeStart"), ("dropped", "resizeDropped"),
                    ("newTail", "resizeNewTail"), ("newHead", "resizeNewHead")):
        t += "def %s : RE := %s\n" % (nm, lean_expr(rz[key]))
    t += "end Iora.Gen.Orders\n"
    return "IoraModel/Gen/Orders.lean", t
