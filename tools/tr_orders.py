"""Translator unit `orders` -> Gen/Orders.lean (C10): every atomic access to `_head`/`_tail` AND every access to the slot array
`_buffer` in both ring classes of include/iora/core/ring_buffer.hpp, per method and in SOURCE ORDER, as
(class, method#overload, variable, load|store|read|write|assign, memory order | plain).  The Lean obligation `C10_orders`
pins the exact event sequence of every method (counter loads, then slot accesses, then one store of the own counter) and the
orders; any member function the unit does not know is a broken tie."""
import re
import cxxscan
from translate import TranslateError, HEADER, read

FILE = "include/iora/core/ring_buffer.hpp"
CLASSES = ["RingBuffer", "DynamicRingBuffer"]
METHODS = [("tryPush", 2), ("tryPop", 1), ("peek", 1), ("tryPushBatch", 1), ("tryPopBatch", 1), ("size", 1), ("clear", 1)]
DYN_ONLY = [("resize", 1)]
# member functions without any access to the counters or the slots (checked), and special members
PURE = {"empty", "full", "capacity", "nextPowerOfTwo"}
STATE = ["_head", "_tail", "_buffer", "_capacity", "_mask"]
ORDERS = {"relaxed", "consume", "acquire", "release", "acq_rel", "seq_cst"}


def class_body(src, name):
    m = re.search(r"\bclass\s+%s\b[^;{]*\{" % re.escape(name), src)
    if not m:
        raise TranslateError("class %s not found in %s" % (name, FILE))
    end = cxxscan.match_brace(src, m.end() - 1)
    return src[m.end():end]


def accesses(body, where):
    """Events on _head/_tail/_buffer in source order: (position, var, kind, order)."""
    out = []
    covered = set()
    for m in re.finditer(r"\b(_head|_tail)\s*\.\s*(\w+)\s*\(", body):
        var, fn = m.group(1), m.group(2)
        i = m.end() - 1
        depth = 0
        j = i
        while j < len(body):
            if body[j] == "(":
                depth += 1
            elif body[j] == ")":
                depth -= 1
                if depth == 0:
                    break
            j += 1
        args = body[i + 1:j]
        if fn not in ("load", "store"):
            raise TranslateError("%s: %s.%s(...) is not a plain load/store (read-modify-write operations are outside the modelled fragment)" % (where, var, fn))
        mo = re.findall(r"std::memory_order_(\w+)|std::memory_order::(\w+)", args)
        if mo:
            if len(mo) != 1:
                raise TranslateError("%s: cannot read the memory order of %s.%s(%s)" % (where, var, fn, args.strip()))
            order = mo[0][0] or mo[0][1]
        else:
            nargs = 0 if not args.strip() else 1 + args.count(",")
            if (fn == "load" and nargs != 0) or (fn == "store" and nargs != 1):
                raise TranslateError("%s: memory order of %s.%s(%s) is not a std::memory_order_* literal" % (where, var, fn, args.strip()))
            order = "seq_cst"
        if order not in ORDERS:
            raise TranslateError("%s: unknown memory order %s" % (where, order))
        out.append((m.start(), var, fn, order))
        covered.add(m.start())
    for m in re.finditer(r"\b(_head|_tail)\b", body):
        if m.start() not in covered:
            raise TranslateError("%s: access to %s that is not .load()/.store(): %r" % (where, m.group(1), body[max(0, m.start() - 20):m.end() + 20].strip()))
    # slot array: `_buffer[expr] = ...` is a write, `_buffer[expr]` elsewhere a read, `_buffer = ...` replaces the array (resize)
    for m in re.finditer(r"\b_buffer\b", body):
        k = m.end()
        while k < len(body) and body[k] in " \t\r\n":
            k += 1
        if k < len(body) and body[k] == "[":
            depth = 0
            j = k
            while j < len(body):
                if body[j] == "[":
                    depth += 1
                elif body[j] == "]":
                    depth -= 1
                    if depth == 0:
                        break
                j += 1
            r = j + 1
            while r < len(body) and body[r] in " \t\r\n":
                r += 1
            is_write = r < len(body) and body[r] == "=" and body[r:r + 2] != "=="
            if r < len(body) and re.match(r"(\+=|-=|\*=|/=|\|=|&=|\^=|\+\+|--|\.)", body[r:]):
                raise TranslateError("%s: compound access to a slot: %r" % (where, body[m.start():r + 3]))
            out.append((m.start(), "_buffer", "write" if is_write else "read", "plain"))
        elif k < len(body) and body[k] == "=" and body[k:k + 2] != "==":
            out.append((m.start(), "_buffer", "assign", "plain"))
        else:
            raise TranslateError("%s: use of _buffer in a shape the scanner does not know: %r" % (where, body[max(0, m.start() - 20):m.end() + 20].strip()))
    out.sort()
    return [(v, f, o) for _, v, f, o in out]


def gen(repo):
    src = read(repo, FILE)
    rows = []
    for cls in CLASSES:
        cb = class_body(src, cls)
        for name, count in METHODS + (DYN_ONLY if cls == "DynamicRingBuffer" else []):
            for k in range(count):
                body = cxxscan.function_body(cb, name, nth=k)
                where = "%s::%s#%d" % (cls, name, k)
                acc = accesses(body, where)
                if not acc:
                    raise TranslateError("%s: no atomic access found" % where)
                for var, fn, order in acc:
                    rows.append((cls, "%s#%d" % (name, k), var, fn, order))
            # one more overload than expected = unknown shape
            try:
                cxxscan.function_body(cb, name, nth=count)
            except cxxscan.ScanError:
                pass
            else:
                raise TranslateError("%s::%s has more than %d overload(s)" % (cls, name, count))
        # every member function of the class must be known: a new method is a broken tie (it may touch the state from any thread)
        known = {n for n, _ in METHODS + DYN_ONLY}
        for m in re.finditer(r"(?<![\w~:.>])(~?\w+)\s*\([^()]*\)\s*(?:const\s*)?(?:noexcept\s*(?:\([^{};]*\))?\s*)?(?::[^{};]*)?\{", cb):
            fname = m.group(1)
            if fname in ("if", "for", "while", "switch", "catch", "return", "sizeof"):
                continue
            if fname in known:
                continue
            end = cxxscan.match_brace(cb, m.end() - 1)
            fb = cb[m.end():end]
            if fname in (cls, "~" + cls):
                continue        # constructors: run before the object is shared
            if fname in PURE:
                if re.search(r"\b(_head|_tail|_buffer)\b", fb) or re.search(r"\b(_capacity|_mask)\s*(=(?!=)|\+\+|--|\+=|-=)", fb):
                    raise TranslateError("%s::%s is expected not to touch the counters/slots and not to write _capacity/_mask" % (cls, fname))
                continue
            raise TranslateError("%s::%s is not a known member function of the ring (every method must be part of the model)" % (cls, fname))
        # _capacity/_mask are written only by resize (dynamic class)
        for name, count in METHODS:
            for k in range(count):
                fb = cxxscan.function_body(cb, name, nth=k)
                if re.search(r"\b(_capacity|_mask)\s*(=(?!=)|\+\+|--|\+=|-=)", fb):
                    raise TranslateError("%s::%s writes _capacity/_mask" % (cls, name))
    t = HEADER % FILE
    t += "namespace Iora.Gen.Orders\n"
    t += "/-- every access to the ring counters and to the slot array, per method in source order:\n(class, method#overload, variable, load|store|read|write|assign, memory order or `plain`) -/\n"
    t += "def ring : List (String × String × String × String × String) := [\n"
    t += ",\n".join('  ("%s", "%s", "%s", "%s", "%s")' % r for r in rows)
    t += "]\nend Iora.Gen.Orders\n"
    return "IoraModel/Gen/Orders.lean", t
