"""Translator unit `orders` -> Gen/Orders.lean (C10): every atomic access to `_head`/`_tail` in both ring classes of
include/iora/core/ring_buffer.hpp as (class, method#overload, variable, load|store, memory order), in textual order."""
import re
import cxxscan
from translate import TranslateError, HEADER, read

FILE = "include/iora/core/ring_buffer.hpp"
CLASSES = ["RingBuffer", "DynamicRingBuffer"]
METHODS = [("tryPush", 2), ("tryPop", 1), ("peek", 1), ("tryPushBatch", 1), ("tryPopBatch", 1), ("size", 1), ("clear", 1)]
DYN_ONLY = [("resize", 1)]
ORDERS = {"relaxed", "consume", "acquire", "release", "acq_rel", "seq_cst"}


def class_body(src, name):
    m = re.search(r"\bclass\s+%s\b[^;{]*\{" % re.escape(name), src)
    if not m:
        raise TranslateError("class %s not found in %s" % (name, FILE))
    end = cxxscan.match_brace(src, m.end() - 1)
    return src[m.end():end]


def accesses(body, where):
    out = []
    covered = []
    for m in re.finditer(r"\b(_head|_tail)\s*\.\s*(\w+)\s*\(", body):
        var, fn = m.group(1), m.group(2)
        # argument list
        i = m.end() - 1
        depth = 0
        j = i
        while j < len(body):
            if body[j] == "(":
                depth += 1
            elif body[j] == ")":
                depth -= 1
                if depth == 0:
                    break
            j += 1
        args = body[i + 1:j]
        if fn not in ("load", "store"):
            raise TranslateError("%s: %s.%s(...) is not a plain load/store (read-modify-write operations are outside the modelled fragment)" % (where, var, fn))
        mo = re.findall(r"std::memory_order_(\w+)|std::memory_order::(\w+)", args)
        if mo:
            if len(mo) != 1:
                raise TranslateError("%s: cannot read the memory order of %s.%s(%s)" % (where, var, fn, args.strip()))
            order = mo[0][0] or mo[0][1]
        else:
            nargs = 0 if not args.strip() else 1 + args.count(",")
            if (fn == "load" and nargs != 0) or (fn == "store" and nargs != 1):
                raise TranslateError("%s: memory order of %s.%s(%s) is not a std::memory_order_* literal" % (where, var, fn, args.strip()))
            order = "seq_cst"
        if order not in ORDERS:
            raise TranslateError("%s: unknown memory order %s" % (where, order))
        out.append((var, fn, order))
        covered.append((m.start(), m.start() + len(var)))
    # any other mention of the counters (implicit conversion, ++, =, fetch_add through a reference ...) is an unrecognised shape
    for m in re.finditer(r"\b(_head|_tail)\b", body):
        if not any(a == m.start() for a, _ in covered):
            raise TranslateError("%s: access to %s that is not .load()/.store(): %r" % (where, m.group(1), body[max(0, m.start() - 20):m.end() + 20].strip()))
    return out


def gen(repo):
    src = read(repo, FILE)
    rows = []
    for cls in CLASSES:
        cb = class_body(src, cls)
        for name, count in METHODS + (DYN_ONLY if cls == "DynamicRingBuffer" else []):
            for k in range(count):
                body = cxxscan.function_body(cb, name, nth=k)
                where = "%s::%s#%d" % (cls, name, k)
                acc = accesses(body, where)
                if not acc:
                    raise TranslateError("%s: no atomic access found" % where)
                for var, fn, order in acc:
                    rows.append((cls, "%s#%d" % (name, k), var, fn, order))
            # one more overload than expected = unknown shape
            try:
                cxxscan.function_body(cb, name, nth=count)
            except cxxscan.ScanError:
                pass
            else:
                raise TranslateError("%s::%s has more than %d overload(s)" % (cls, name, count))
        # methods touching the counters that the unit does not know
        known = {n for n, _ in METHODS + DYN_ONLY}
        for m in re.finditer(r"\b(\w+)\s*\([^()]*\)\s*(?:const\s*)?(?:noexcept\s*(?:\([^{};]*\))?\s*)?\{", cb):
            fname = m.group(1)
            if fname in known or fname in ("if", "for", "while", "switch", "RingBuffer", "DynamicRingBuffer"):
                continue
            end = cxxscan.match_brace(cb, m.end() - 1)
            if re.search(r"\b(_head|_tail)\b", cb[m.end():end]):
                raise TranslateError("%s::%s touches _head/_tail but is not a known method" % (cls, fname))
    t = HEADER % FILE
    t += "namespace Iora.Gen.Orders\n"
    t += "/-- every atomic access to the ring counters: (class, method#overload, variable, load|store, memory order), textual order -/\n"
    t += "def ring : List (String × String × String × String × String) := [\n"
    t += ",\n".join('  ("%s", "%s", "%s", "%s", "%s")' % r for r in rows)
    t += "]\nend Iora.Gen.Orders\n"
    return "IoraModel/Gen/Orders.lean", t
