"""Translator unit `xml` -> Gen/Xml.lean (C14): TokenKind enumerators, Options defaults, the predefined-entity chain of
decodeEntities, the white-space set, the name-character classes, encodeUtf8's range bounds, every fail()/Error message."""
import re
import cxxscan
from translate import TranslateError, HEADER, read, lean_str_nat_list, lean_nat_list

F = "include/iora/parsers/xml.hpp"


def char_lit(tok):
    """value of a C++ character literal token such as '<', '\\'', '\\t'"""
    m = re.fullmatch(r"'(\\?.)'", tok.strip())
    if not m:
        raise TranslateError("not a character literal: %r" % tok)
    s = m.group(1)
    if len(s) == 1:
        return ord(s)
    esc = {"n": 10, "t": 9, "r": 13, "0": 0, "'": 39, '"': 34, "\\": 92}
    if s[1] not in esc:
        raise TranslateError("unknown escape in %r" % tok)
    return esc[s[1]]


CH = r"'(?:\\.|[^'\\])'"


def lean_str(s):
    return '"' + s.replace("\\", "\\\\").replace('"', '\\"') + '"'


def struct_body(src, name):
    m = re.search(r"\bstruct\s+%s\s*\{" % re.escape(name), src)
    if not m:
        raise TranslateError("struct %s not found" % name)
    end = cxxscan.match_brace(src, m.end() - 1)
    return src[m.end():end]


def param_name(src, fn):
    """name of the single `char` parameter of `fn` (the check must not depend on what the parameter is called)"""
    m = re.search(r"\b%s\s*\(\s*char\s+(\w+)\s*\)\s*const" % re.escape(fn), src)
    if not m:
        raise TranslateError("%s: signature `(char <name>) const` not found" % fn)
    return m.group(1)


def char_class(body, what, v="ch"):
    """`return (ch == ':' || ch == '_' || (ch >= 'A' && ch <= 'Z') ...)` -> (singles, ranges); any other shape is an error"""
    m = re.search(r"return\s*(.*?);", body, re.S)
    if not m:
        raise TranslateError("%s: no return expression" % what)
    e = m.group(1)
    v = re.escape(v)
    singles = [char_lit(x) for x in re.findall(r"\b%s\s*==\s*(%s)" % (v, CH), e)]
    ranges = [(char_lit(a), char_lit(b)) for a, b in re.findall(r"\b%s\s*>=\s*(%s)\s*&&\s*%s\s*<=\s*(%s)" % (v, CH, v, CH), e)]
    rest = re.sub(r"\b%s\s*==\s*%s" % (v, CH), "", e)
    rest = re.sub(r"\b%s\s*>=\s*%s\s*&&\s*%s\s*<=\s*%s" % (v, CH, v, CH), "", rest)
    rest = re.sub(r"isNameStart\s*\(\s*%s\s*\)" % v, "", rest)
    if re.sub(r"[\s()|]", "", rest):
        raise TranslateError("%s: unexpected shape: %r" % (what, e.strip()))
    return sorted(singles), sorted(ranges)


READ_FUNCS = ["next", "peek", "get", "skipSpaces", "skipWhitespaceOutsideText", "matchString", "matchWordCaseInsensitive", "readName", "readUntil",
              "readQuotedValue", "readAttributes", "readProcessingInstruction", "readComment", "readCData", "readDoctype", "readEndTag",
              "readStartOrEmptyTag", "readText", "emitEof"]
READ_RE = re.compile(r"peek\(\)|_input\[[^\]]*\]")
GUARD_RE = re.compile(r"!?eof\(\)|[A-Za-z_][\w]*(?:\s*\+\s*\w+)?\s*(?:<=|>=|<|>)\s*_input\.size\(\)")


def read_sites(src):
    """(function, read expression, guard, code between the two) for every raw read of `_input` in the tokenizer.  The guard is the
    nearest comparison with the input size (`eof()`, `x < _input.size()`, ...) that precedes the read inside the same function; `none`
    when there is none.  The code between guard and read is part of the fact: it is what makes the guard dominate the read (`&&`, `||`,
    `) { return ...; }`), so a guard that is dropped, moved or bypassed changes the table.  The model's table `Iora.Xml.readSites`
    must equal this list (gen_conformance)."""
    out = []
    for fn in READ_FUNCS:
        if fn == "next":
            body = cxxscan.function_body(src, "next", signature_contains="next()")
        elif fn in ("matchString", "matchWordCaseInsensitive"):
            body = cxxscan.function_body(src, fn, signature_contains="const char")
        else:
            body = cxxscan.function_body(src, fn)
        body = re.sub(r"\s+", " ", body)
        guards = [(m.end(), re.sub(r"\s+", " ", m.group(0))) for m in GUARD_RE.finditer(body)]
        for m in READ_RE.finditer(body):
            g, between = "none", ""
            for end, txt in guards:
                if end <= m.start():
                    g, between = txt, body[end:m.start()].strip()
            out.append((fn, m.group(0), g, between))
    if not out:
        raise TranslateError("no read sites found")
    return out


def gen(repo):
    src = read(repo, F)
    kinds = cxxscan.enum_items(src, "TokenKind")
    ob = struct_body(src, "Options")
    fields = re.findall(r"(bool|std::size_t)\s+(\w+)\s*\{([^}]*)\}\s*;", ob)
    names = [f[1] for f in fields]
    want = ["permissive", "namespaceProcessing", "maxDepth", "maxAttrsPerElement", "maxNameLength", "maxTextSpan", "maxTotalTokens"]
    if names != want:
        raise TranslateError("struct Options: fields %r, expected %r" % (names, want))
    dflt = {}
    for ty, nm, init in fields:
        if ty == "bool":
            if init.strip() not in ("true", "false"):
                raise TranslateError("Options::%s: initialiser %r" % (nm, init))
            dflt[nm] = init.strip()
        else:
            try:
                dflt[nm] = cxxscan.const_eval(init)
            except cxxscan.ScanError as e:
                raise TranslateError("Options::%s: %s" % (nm, e))
    # the two boolean options are declared but read nowhere: the model ignores them, so that must stay true
    code_wo_struct = src.replace(ob, "")
    unused = [n for n in ("permissive", "namespaceProcessing") if not re.search(r"\b%s\b" % n, code_wo_struct)]
    # predefined entities: the if/else-if chain of decodeEntities
    dec = cxxscan.function_body(src, "decodeEntities", signature_contains="std::string &out")
    chain = re.findall(r'if\s*\(\s*ent\s*==\s*"(\w+)"\s*\)\s*\{?\s*out\.push_back\(\s*(%s)\s*\)\s*;\s*\}?' % CH, dec)
    n_eq = len(re.findall(r"ent\s*==", dec))
    if not chain or n_eq != len(chain):
        raise TranslateError("decodeEntities: entity chain not recognised (%d comparisons, %d recognised)" % (n_eq, len(chain)))
    ents = [(n, char_lit(c)) for n, c in chain]
    if not re.search(r"else\s+if\s*\(\s*!\s*ent\.empty\(\)\s*&&\s*ent\[0\]\s*==\s*'#'\s*\)", dec):
        raise TranslateError("decodeEntities: numeric-reference branch not recognised")
    if "find(';', i + 1)" not in re.sub(r"\s+", " ", dec):
        raise TranslateError("decodeEntities: terminator search not recognised")
    # white space (skipSpaces), name classes
    sp = cxxscan.function_body(src, "skipSpaces")
    m = re.search(r"if\s*\(([^{}]*?)\)\s*\{\s*advance\(\);", sp, re.S)
    if not m:
        raise TranslateError("skipSpaces: shape not recognised")
    mv = re.search(r"char\s+(\w+)\s*=\s*peek\(\)\s*;", sp)
    if not mv:
        raise TranslateError("skipSpaces: `char <v> = peek();` not found")
    wv = re.escape(mv.group(1))
    ws = sorted(char_lit(x) for x in re.findall(r"\b%s\s*==\s*(%s)" % (wv, CH), m.group(1)))
    if re.sub(r"\b%s\s*==\s*%s|[\s|]" % (wv, CH), "", m.group(1)):
        raise TranslateError("skipSpaces: unexpected condition %r" % m.group(1))
    ns_v = param_name(src, "isNameStart")
    ns_s, ns_r = char_class(cxxscan.function_body(src, "isNameStart"), "isNameStart", ns_v)
    nc_v = param_name(src, "isNameChar")
    nc_body = cxxscan.function_body(src, "isNameChar")
    if not re.search(r"return\s+isNameStart\s*\(\s*%s\s*\)\s*\|\|" % re.escape(nc_v), nc_body):
        raise TranslateError("isNameChar: does not start from isNameStart")
    nc_s, nc_r = char_class(nc_body, "isNameChar", nc_v)
    # encodeUtf8 thresholds
    enc = cxxscan.function_body(src, "encodeUtf8", signature_contains="uint32_t cp")
    bounds = [cxxscan.const_eval(x) for x in re.findall(r"if\s*\(\s*cp\s*<=\s*(0x[0-9A-Fa-f]+)u?\s*\)", enc)]
    sur = re.search(r"cp\s*>=\s*(0x[0-9A-Fa-f]+)u?\s*&&\s*cp\s*<=\s*(0x[0-9A-Fa-f]+)u?", enc)
    if len(bounds) != 4 or not sur:
        raise TranslateError("encodeUtf8: range chain not recognised (%r)" % bounds)
    # appendCharRef: accumulator type and the two update expressions
    acr = cxxscan.function_body(src, "appendCharRef", signature_contains="entBody")
    if not re.search(r"uint32_t\s+code\s*=\s*0\s*;", acr):
        raise TranslateError("appendCharRef: accumulator is not `uint32_t code = 0`")
    if not re.search(r"code\s*=\s*\(\s*code\s*<<\s*4\s*\)\s*\|\s*v\s*;", acr) or not re.search(r"code\s*=\s*code\s*\*\s*10u?\s*\+", acr):
        raise TranslateError("appendCharRef: accumulator updates not recognised")
    # every message handed to fail() / stored in an Error, in source order
    msgs = []
    for mm in re.finditer(r'\bfail\(\s*"((?:[^"\\]|\\.)*)"\s*\)', src):
        msgs.append(bytes(mm.group(1), "utf-8").decode("unicode_escape"))
    for mm in re.finditer(r'std::string\s+(\w+)\s*=\s*"((?:[^"\\]|\\.)*)"', src):
        if re.search(r"fail\(\s*%s\.c_str\(\)\s*\)" % mm.group(1), src):
            msgs.append(bytes(mm.group(2), "utf-8").decode("unicode_escape"))
    for mm in re.finditer(r'\{[^{}"]*,\s*"((?:[^"\\]|\\.)*)"\s*\}', src):
        msgs.append(bytes(mm.group(1), "utf-8").decode("unicode_escape"))
    n_fail_calls = len(re.findall(r"\bfail\(", src)) - 1      # minus the definition
    n_fail_seen = len(re.findall(r'\bfail\(\s*"', src)) + len(re.findall(r"\bfail\(\s*\w+\.c_str\(\)\s*\)", src))
    if n_fail_calls != n_fail_seen:
        raise TranslateError("fail(): %d call sites, %d with a recognisable message" % (n_fail_calls, n_fail_seen))
    seen = []
    for s in msgs:
        if s not in seen:
            seen.append(s)
    # strings the tokenizer matches literally
    nxt = cxxscan.function_body(src, "next")
    lits = re.findall(r'match(?:String|WordCaseInsensitive)\(\s*"([^"]*)"\s*\)', nxt)
    until = re.findall(r'readUntil\(\s*"([^"]*)"', src)
    pi_end = re.findall(r'_input\.find\(\s*"([^"]*)"\s*,\s*_cur\s*\)', src)
    if lits != ["--", "[CDATA[", "DOCTYPE"] or until != ["-->", "]]>"] or pi_end != ["?>"]:
        raise TranslateError("markup literals changed: %r %r %r" % (lits, until, pi_end))
    sites = read_sites(src)
    t = HEADER % F
    t += "namespace Iora.Gen.Xml\n"
    t += "/-- `enum class TokenKind` enumerators (name, value) -/\n"
    t += "def tokenKinds : List (String × Nat) := %s\n" % lean_str_nat_list(kinds)
    t += "/-- `struct Options` default member initialisers -/\n"
    t += "def defaultMaxDepth : Nat := %d\ndef defaultMaxAttrsPerElement : Nat := %d\ndef defaultMaxNameLength : Nat := %d\n" % (
        dflt["maxDepth"], dflt["maxAttrsPerElement"], dflt["maxNameLength"])
    t += "def defaultMaxTextSpan : Nat := %d\ndef defaultMaxTotalTokens : Nat := %d\n" % (dflt["maxTextSpan"], dflt["maxTotalTokens"])
    t += "def defaultPermissive : Bool := %s\ndef defaultNamespaceProcessing : Bool := %s\n" % (dflt["permissive"], dflt["namespaceProcessing"])
    t += "/-- option fields that are declared but read nowhere in the header (the model has no such inputs) -/\n"
    t += "def unusedOptionFields : List String := [%s]\n" % ", ".join(lean_str(x) for x in unused)
    t += "/-- the `ent == \"...\"` chain of `decodeEntities` in source order: (name, byte pushed) -/\n"
    t += "def entityTable : List (String × Nat) := %s\n" % lean_str_nat_list(ents)
    t += "/-- the same chain with the names as byte values (what the model's lookup uses) -/\n"
    t += "def entityBytes : List (List Nat × Nat) := [%s]\n" % ", ".join("(%s, %d)" % (lean_nat_list(list(n.encode())), c) for n, c in ents)
    t += "/-- bytes `skipSpaces` treats as white space -/\n"
    t += "def whitespace : List Nat := %s\n" % lean_nat_list(ws)
    t += "/-- `isNameStart`: single characters and inclusive ranges; `isNameChar` adds these singles and ranges -/\n"
    t += "def nameStartSingles : List Nat := %s\n" % lean_nat_list(ns_s)
    t += "def nameStartRanges : List (Nat × Nat) := [%s]\n" % ", ".join("(%d, %d)" % r for r in ns_r)
    t += "def nameCharSingles : List Nat := %s\n" % lean_nat_list(nc_s)
    t += "def nameCharRanges : List (Nat × Nat) := [%s]\n" % ", ".join("(%d, %d)" % r for r in nc_r)
    t += "/-- `encodeUtf8`: upper bounds of the 1/2/3/4-byte branches and the excluded surrogate range -/\n"
    t += "def utf8Bounds : List Nat := %s\n" % lean_nat_list(bounds)
    t += "def surrogateLo : Nat := %d\ndef surrogateHi : Nat := %d\n" % (cxxscan.const_eval(sur.group(1)), cxxscan.const_eval(sur.group(2)))
    t += "/-- every message passed to `fail()` or stored in an `Error`, first occurrence order -/\n"
    t += "def errorMessages : List String := [%s]\n" % ",\n  ".join(lean_str(x) for x in seen)
    t += "/-- every raw read of the input in the tokenizer (`peek()`, `_input[...]`) in source order, with the guard that dominates it:\n"
    t += "(function, read, nearest preceding comparison with the input size in that function or `none`, the code between the two) -/\n"
    t += "def readSites : List (String × String × String × String) := [%s]\n" % ",\n  ".join(
        "(%s, %s, %s, %s)" % (lean_str(a), lean_str(b), lean_str(c), lean_str(d)) for a, b, c, d in sites)
    t += "end Iora.Gen.Xml\n"
    return "IoraModel/Gen/Xml.lean", t
