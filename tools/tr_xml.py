"""Translator unit `xml` -> Gen/Xml.lean (C14): TokenKind enumerators, Options defaults, the predefined-entity chain of
decodeEntities, the white-space set, the name-character classes, encodeUtf8's range bounds, every fail()/Error message."""
import re
import cxxscan
from translate import TranslateError, HEADER, read, lean_str_nat_list, lean_nat_list

F = "include/iora/parsers/xml.hpp"


def char_lit(tok):
    """value of a C++ character literal token such as '<', '\\'', '\\t'"""
    m = re.fullmatch(r"'(\\?.)'", tok.strip())
    if not m:
        raise TranslateError("not a character literal: %r" % tok)
    s = m.group(1)
    if len(s) == 1:
        return ord(s)
    esc = {"n": 10, "t": 9, "r": 13, "0": 0, "'": 39, '"': 34, "\\": 92}
    if s[1] not in esc:
        raise TranslateError("unknown escape in %r" % tok)
    return esc[s[1]]


CH = r"'(?:\\.|[^'\\])'"


def lean_str(s):
    return '"' + s.replace("\\", "\\\\").replace('"', '\\"') + '"'


def struct_body(src, name):
    m = re.search(r"\bstruct\s+%s\s*\{" % re.escape(name), src)
    if not m:
        raise TranslateError("struct %s not found" % name)
    end = cxxscan.match_brace(src, m.end() - 1)
    return src[m.end():end]


def param_name(src, fn):
    """name of the single `char` parameter of `fn` (the check must not depend on what the parameter is called)"""
    m = re.search(r"\b%s\s*\(\s*char\s+(\w+)\s*\)\s*const" % re.escape(fn), src)
    if not m:
        raise TranslateError("%s: signature `(char <name>) const` not found" % fn)
    return m.group(1)


def char_class(body, what, v="ch"):
    """`return (ch == ':' || ch == '_' || (ch >= 'A' && ch <= 'Z') ...)` -> (singles, ranges); any other shape is an error"""
    m = re.search(r"return\s*(.*?);", body, re.S)
    if not m:
        raise TranslateError("%s: no return expression" % what)
    e = m.group(1)
    v = re.escape(v)
    singles = [char_lit(x) for x in re.findall(r"\b%s\s*==\s*(%s)" % (v, CH), e)]
    ranges = [(char_lit(a), char_lit(b)) for a, b in re.findall(r"\b%s\s*>=\s*(%s)\s*&&\s*%s\s*<=\s*(%s)" % (v, CH, v, CH), e)]
    rest = re.sub(r"\b%s\s*==\s*%s" % (v, CH), "", e)
    rest = re.sub(r"\b%s\s*>=\s*%s\s*&&\s*%s\s*<=\s*%s" % (v, CH, v, CH), "", rest)
    rest = re.sub(r"isNameStart\s*\(\s*%s\s*\)" % v, "", rest)
    if re.sub(r"[\s()|]", "", rest):
        raise TranslateError("%s: unexpected shape: %r" % (what, e.strip()))
    return sorted(singles), sorted(ranges)


READ_FUNCS = ["next", "peek", "get", "skipSpaces", "skipWhitespaceOutsideText", "matchString", "matchWordCaseInsensitive", "readName", "readUntil",
              "readQuotedValue", "readAttributes", "readProcessingInstruction", "readComment", "readCData", "readDoctype", "readEndTag",
              "readStartOrEmptyTag", "readText", "emitEof"]
READ_RE = re.compile(r"peek\(\)|_input\[[^\]]*\]")
GUARD_RE = re.compile(r"!?eof\(\)|[A-Za-z_][\w]*(?:\s*\+\s*\w+)?\s*(?:<=|>=|<|>)\s*_input\.size\(\)")


def read_sites(src):
    """(function, read expression, guard, code between the two) for every raw read of `_input` in the tokenizer.  The guard is the
    nearest comparison with the input size (`eof()`, `x < _input.size()`, ...) that precedes the read inside the same function; `none`
    when there is none.  The code between guard and read is part of the fact: it is what makes the guard dominate the read (`&&`, `||`,
    `) { return ...; }`), so a guard that is dropped, moved or bypassed changes the table.  The model's table `Iora.Xml.readSites`
    must equal this list (gen_conformance)."""
    out = []
    for fn in READ_FUNCS:
        if fn == "next":
            body = cxxscan.function_body(src, "next", signature_contains="next()")
        elif fn in ("matchString", "matchWordCaseInsensitive"):
            body = cxxscan.function_body(src, fn, signature_contains="const char")
        else:
            body = cxxscan.function_body(src, fn)
        body = re.sub(r"\s+", " ", body)
        guards = [(m.end(), re.sub(r"\s+", " ", m.group(0))) for m in GUARD_RE.finditer(body)]
        for m in READ_RE.finditer(body):
            g, between = "none", ""
            for end, txt in guards:
                if end <= m.start():
                    g, between = txt, body[end:m.start()].strip()
            out.append((fn, m.group(0), g, between))
    if not out:
        raise TranslateError("no read sites found")
    return out


def ws_chars(cond, var, what, extra_ok=()):
    """`v == ' ' || v == '\t' ...` -> sorted byte values; any other shape is an error"""
    v = re.escape(var)
    vals = sorted(char_lit(x) for x in re.findall(r"\b%s\s*==\s*(%s)" % (v, CH), cond))
    if re.sub(r"\b%s\s*==\s*%s|[\s|()!]" % (v, CH), "", cond):
        raise TranslateError("%s: unexpected condition %r" % (what, cond))
    return vals


def norm(s):
    return re.sub(r"\s+", " ", s).strip()


def switch_cases(body, what):
    """`switch (t.kind) { case TokenKind::A: case TokenKind::B: <code> break; ... }` -> [(labels, code)] in source order"""
    m = re.search(r"switch\s*\(\s*t\.kind\s*\)\s*\{", body)
    if not m:
        raise TranslateError("%s: switch (t.kind) not found" % what)
    end = cxxscan.match_brace(body, m.end() - 1)
    sw = body[m.end():end]
    # split at top level of the switch body on case/default labels
    out = []
    depth = 0
    i = 0
    cur_labels, cur_code = [], []
    tok = re.compile(r"case\s+TokenKind::(\w+)\s*:|default\s*:|[{}]")
    pos = 0
    for mm in tok.finditer(sw):
        if mm.group(0) == "{":
            depth += 1
            continue
        if mm.group(0) == "}":
            depth -= 1
            continue
        if depth != 0:
            continue
        code = sw[pos:mm.start()]
        if code.strip():
            if not cur_labels:
                raise TranslateError("%s: code before the first case label" % what)
            out.append((cur_labels, norm(code)))
            cur_labels = []
        cur_labels.append(mm.group(1) or "default")
        pos = mm.end()
    code = sw[pos:]
    if cur_labels:
        out.append((cur_labels, norm(code)))
    return out


def sax_switch(src):
    body = cxxscan.function_body(src, "runSax", signature_contains="SaxCallbacks")
    if not re.search(r"while\s*\(\s*parser\.next\(\)\s*\)", body) or not re.search(r"return\s+parser\.error\(\)\s*==\s*nullptr\s*;", body):
        raise TranslateError("runSax: loop / result shape not recognised")
    out = []
    for labels, code in switch_cases(body, "runSax"):
        m = re.fullmatch(r"if \(cb\.(\w+)\) \{ cb\.(\w+)\(t\); \} break;", code)
        if m and m.group(1) == m.group(2) and len(labels) == 1:
            out.append((labels[0], m.group(1)))
        elif code == "break;":
            for l in labels:
                out.append((l, "-"))
        else:
            raise TranslateError("runSax: case %r has an unexpected body %r" % (labels, code[:80]))
    return out


def dom_cases(src):
    """DomBuilder::build: per `case`, the NodeType it creates and where the node's value / attribute values come from"""
    body = cxxscan.function_body(src, "build", signature_contains="Parser &parser")
    out = []
    for labels, code in switch_cases(body, "DomBuilder::build"):
        types = sorted(set(re.findall(r"->type\s*=\s*NodeType::(\w+)", code)))
        if len(types) > 1:
            raise TranslateError("DomBuilder::build: case %r creates several node types" % labels)
        ty = types[0] if types else "-"
        decl = len(re.findall(r"std::string v\s*;", code))
        dec = re.findall(r"Parser::decodeEntities\(\s*([\w.]+)\s*,\s*(\w+)\s*,\s*&tmp\s*\)", code)
        if len(dec) != decl or any(t != "v" for _, t in dec):
            raise TranslateError("DomBuilder::build: case %r: every decodeEntities call must decode into its own fresh `std::string v;` (%d declarations, calls %r)"
                                 % (labels, decl, dec))
        if dec:
            # the fresh string must be declared in the same block, right before the call's statement
            for srcv, _ in dec:
                if not re.search(r"std::string v\s*;\s*Error tmp\{\}\s*;\s*if\s*\(\s*!\s*Parser::decodeEntities\(\s*%s\s*,\s*v\s*,\s*&tmp\s*\)\s*\)" % re.escape(srcv), code):
                    raise TranslateError("DomBuilder::build: case %r: `std::string v; Error tmp{}; if (!Parser::decodeEntities(%s, v, &tmp))` not found" % (labels, srcv))
            val = "decoded:" + ",".join(s for s, _ in dec)
            if not re.search(r"std::move\(v\)", code):
                raise TranslateError("DomBuilder::build: case %r: the decoded string is not moved into the node" % labels)
        else:
            raw = re.findall(r"->value\s*=\s*std::string\(\s*([\w.]+)\s*\)", code)
            val = ("raw:" + ",".join(raw)) if raw else "-"
        guard = re.findall(r"if\s*\(\s*(!?\s*v\.[^)]*\)[^)]*)\)\s*\{\s*auto n", code)
        g = norm(guard[0]) if guard else "-"
        for l in labels:
            out.append((l, ty, val, g))
    return out


def limit_tests(src):
    """every `if (...)` condition of the Parser that mentions an `_opt.` member: (function, normalised condition), source order"""
    out = []
    for fn in READ_FUNCS:
        if fn == "next":
            body = cxxscan.function_body(src, "next", signature_contains="next()")
        elif fn in ("matchString", "matchWordCaseInsensitive"):
            body = cxxscan.function_body(src, fn, signature_contains="const char")
        else:
            body = cxxscan.function_body(src, fn)
        for m in re.finditer(r"\bif\s*\(", body):
            j = m.end() - 1
            depth = 0
            k = j
            while k < len(body):
                if body[k] == "(":
                    depth += 1
                elif body[k] == ")":
                    depth -= 1
                    if depth == 0:
                        break
                k += 1
            cond = norm(body[j + 1:k])
            if "_opt." in cond:
                out.append((fn, cond))
    n_opt = len(re.findall(r"_opt\.\w+", re.sub(r"Parser\(std::string_view input[^{]*\{", "", src)))
    n_seen = sum(len(re.findall(r"_opt\.\w+", c)) for _, c in out)
    if n_opt != n_seen:
        raise TranslateError("Options members are read %d times in the header, %d times inside recognised `if` conditions" % (n_opt, n_seen))
    return out


DEC_READ_RE = re.compile(r"\b(?:in|ent|entBody)\[[^\]]*\]")
DEC_GUARD_RE = re.compile(r"\b\w+\.size\(\)\s*(?:<=|>=|<|>)\s*\w+|\b\w+\s*(?:<=|>=|<|>)\s*\w+\.size\(\)|!\s*\w+\.empty\(\)")


def decode_read_sites(src):
    """the same table as read_sites for the indexed reads of decodeEntities / appendCharRef (`in[i]`, `ent[0]`, `entBody[...]`)"""
    out = []
    for fn, sig in (("decodeEntities", "std::string &out"), ("appendCharRef", "entBody")):
        body = re.sub(r"\s+", " ", cxxscan.function_body(src, fn, signature_contains=sig))
        guards = [(m.end(), re.sub(r"\s+", " ", m.group(0))) for m in DEC_GUARD_RE.finditer(body)]
        for m in DEC_READ_RE.finditer(body):
            g, between = "none", ""
            for end, txt in guards:
                if end <= m.start():
                    g, between = txt, body[end:m.start()].strip()
            out.append((fn, m.group(0), g, between))
    if len(out) < 4:
        raise TranslateError("decodeEntities/appendCharRef: indexed reads not recognised")
    return out


def gen(repo):
    src = read(repo, F)
    kinds = cxxscan.enum_items(src, "TokenKind")
    ob = struct_body(src, "Options")
    fields = re.findall(r"(bool|std::size_t)\s+(\w+)\s*\{([^}]*)\}\s*;", ob)
    names = [f[1] for f in fields]
    want = ["permissive", "namespaceProcessing", "maxDepth", "maxAttrsPerElement", "maxNameLength", "maxTextSpan", "maxTotalTokens"]
    if names != want:
        raise TranslateError("struct Options: fields %r, expected %r" % (names, want))
    dflt = {}
    for ty, nm, init in fields:
        if ty == "bool":
            if init.strip() not in ("true", "false"):
                raise TranslateError("Options::%s: initialiser %r" % (nm, init))
            dflt[nm] = init.strip()
        else:
            try:
                dflt[nm] = cxxscan.const_eval(init)
            except cxxscan.ScanError as e:
                raise TranslateError("Options::%s: %s" % (nm, e))
    # the two boolean options are declared but read nowhere: the model ignores them, so that must stay true
    code_wo_struct = src.replace(ob, "")
    unused = [n for n in ("permissive", "namespaceProcessing") if not re.search(r"\b%s\b" % n, code_wo_struct)]
    # predefined entities: the if/else-if chain of decodeEntities
    dec = cxxscan.function_body(src, "decodeEntities", signature_contains="std::string &out")
    chain = re.findall(r'if\s*\(\s*ent\s*==\s*"(\w+)"\s*\)\s*\{?\s*out\.push_back\(\s*(%s)\s*\)\s*;\s*\}?' % CH, dec)
    n_eq = len(re.findall(r"ent\s*==", dec))
    if not chain or n_eq != len(chain):
        raise TranslateError("decodeEntities: entity chain not recognised (%d comparisons, %d recognised)" % (n_eq, len(chain)))
    ents = [(n, char_lit(c)) for n, c in chain]
    if not re.search(r"else\s+if\s*\(\s*!\s*ent\.empty\(\)\s*&&\s*ent\[0\]\s*==\s*'#'\s*\)", dec):
        raise TranslateError("decodeEntities: numeric-reference branch not recognised")
    if "find(';', i + 1)" not in re.sub(r"\s+", " ", dec):
        raise TranslateError("decodeEntities: terminator search not recognised")
    # white space (skipSpaces), name classes
    sp = cxxscan.function_body(src, "skipSpaces")
    m = re.search(r"if\s*\(([^{}]*?)\)\s*\{\s*advance\(\);", sp, re.S)
    if not m:
        raise TranslateError("skipSpaces: shape not recognised")
    mv = re.search(r"char\s+(\w+)\s*=\s*peek\(\)\s*;", sp)
    if not mv:
        raise TranslateError("skipSpaces: `char <v> = peek();` not found")
    wv = re.escape(mv.group(1))
    ws = sorted(char_lit(x) for x in re.findall(r"\b%s\s*==\s*(%s)" % (wv, CH), m.group(1)))
    if re.sub(r"\b%s\s*==\s*%s|[\s|]" % (wv, CH), "", m.group(1)):
        raise TranslateError("skipSpaces: unexpected condition %r" % m.group(1))
    ns_v = param_name(src, "isNameStart")
    ns_s, ns_r = char_class(cxxscan.function_body(src, "isNameStart"), "isNameStart", ns_v)
    nc_v = param_name(src, "isNameChar")
    nc_body = cxxscan.function_body(src, "isNameChar")
    if not re.search(r"return\s+isNameStart\s*\(\s*%s\s*\)\s*\|\|" % re.escape(nc_v), nc_body):
        raise TranslateError("isNameChar: does not start from isNameStart")
    nc_s, nc_r = char_class(nc_body, "isNameChar", nc_v)
    # encodeUtf8 thresholds
    enc = cxxscan.function_body(src, "encodeUtf8", signature_contains="uint32_t cp")
    bounds = [cxxscan.const_eval(x) for x in re.findall(r"if\s*\(\s*cp\s*<=\s*(0x[0-9A-Fa-f]+)u?\s*\)", enc)]
    sur = re.search(r"cp\s*>=\s*(0x[0-9A-Fa-f]+)u?\s*&&\s*cp\s*<=\s*(0x[0-9A-Fa-f]+)u?", enc)
    if len(bounds) != 4 or not sur:
        raise TranslateError("encodeUtf8: range chain not recognised (%r)" % bounds)
    # appendCharRef: accumulator type and the two update expressions
    acr = cxxscan.function_body(src, "appendCharRef", signature_contains="entBody")
    if not re.search(r"uint32_t\s+code\s*=\s*0\s*;", acr):
        raise TranslateError("appendCharRef: accumulator is not `uint32_t code = 0`")
    if not re.search(r"code\s*=\s*\(\s*code\s*<<\s*4\s*\)\s*\|\s*v\s*;", acr) or not re.search(r"code\s*=\s*code\s*\*\s*10u?\s*\+", acr):
        raise TranslateError("appendCharRef: accumulator updates not recognised")
    # every message handed to fail() / stored in an Error, in source order
    msgs = []
    for mm in re.finditer(r'\bfail\(\s*"((?:[^"\\]|\\.)*)"\s*\)', src):
        msgs.append(bytes(mm.group(1), "utf-8").decode("unicode_escape"))
    for mm in re.finditer(r'std::string\s+(\w+)\s*=\s*"((?:[^"\\]|\\.)*)"', src):
        if re.search(r"fail\(\s*%s\.c_str\(\)\s*\)" % mm.group(1), src):
            msgs.append(bytes(mm.group(2), "utf-8").decode("unicode_escape"))
    for mm in re.finditer(r'\{[^{}"]*,\s*"((?:[^"\\]|\\.)*)"\s*\}', src):
        msgs.append(bytes(mm.group(1), "utf-8").decode("unicode_escape"))
    n_fail_calls = len(re.findall(r"\bfail\(", src)) - 1      # minus the definition
    n_fail_seen = len(re.findall(r'\bfail\(\s*"', src)) + len(re.findall(r"\bfail\(\s*\w+\.c_str\(\)\s*\)", src))
    if n_fail_calls != n_fail_seen:
        raise TranslateError("fail(): %d call sites, %d with a recognisable message" % (n_fail_calls, n_fail_seen))
    seen = []
    for s in msgs:
        if s not in seen:
            seen.append(s)
    # strings the tokenizer matches literally
    nxt = cxxscan.function_body(src, "next")
    lits = re.findall(r'match(?:String|WordCaseInsensitive)\(\s*"([^"]*)"\s*\)', nxt)
    until = re.findall(r'readUntil\(\s*"([^"]*)"', src)
    pi_end = re.findall(r'_input\.find\(\s*"([^"]*)"\s*,\s*_cur\s*\)', src)
    if lits != ["--", "[CDATA[", "DOCTYPE"] or until != ["-->", "]]>"] or pi_end != ["?>"]:
        raise TranslateError("markup literals changed: %r %r %r" % (lits, until, pi_end))
    sites = read_sites(src)
    # the white-space tests that are written out separately from skipSpaces
    swo = cxxscan.function_body(src, "skipWhitespaceOutsideText")
    m2 = re.search(r"char\s+(\w+)\s*=\s*_input\[p\]\s*;\s*if\s*\(([^{}]*?)\)\s*\{\s*\+\+p\s*;", swo, re.S)
    if not m2:
        raise TranslateError("skipWhitespaceOutsideText: scan loop not recognised")
    ws_outside = ws_chars(m2.group(2), m2.group(1), "skipWhitespaceOutsideText")
    if not re.search(r"if\s*\(\s*p\s*<\s*_input\.size\(\)\s*&&\s*_input\[p\]\s*!=\s*'<'\s*\)\s*\{\s*return\s*;", swo):
        raise TranslateError("skipWhitespaceOutsideText: the `only before markup or the end` test not recognised")
    mw = cxxscan.function_body(src, "matchWordCaseInsensitive", signature_contains="const char")
    m3 = re.search(r"if\s*\(\s*!\s*\(([^{}]*?)\)\s*\)\s*\{\s*return false;", mw, re.S)
    if not m3 or not re.search(r"char\s+next\s*=\s*\(\s*pos\s*\+\s*i\s*<\s*_input\.size\(\)\s*\?\s*_input\[pos\s*\+\s*i\]\s*:\s*'\\0'\s*\)", mw):
        raise TranslateError("matchWordCaseInsensitive: word-boundary test not recognised")
    boundary = ws_chars(m3.group(1), "next", "matchWordCaseInsensitive boundary")
    # eof(), fail() and the compile-time switch
    meof = re.search(r"bool\s+eof\(\)\s*const\s*\{([^{}]*)\}", src)
    if not meof:
        raise TranslateError("eof(): definition not found")
    eof_body = norm(meof.group(1))
    fail_body = norm(cxxscan.function_body(src, "fail", signature_contains="const char"))
    mthrow = re.search(r"#ifndef\s+IORA_XML_THROW_ON_ERROR\s*\n\s*#define\s+IORA_XML_THROW_ON_ERROR\s+(\d+)", src)
    if not mthrow:
        raise TranslateError("IORA_XML_THROW_ON_ERROR default not found")
    mf = re.fullmatch(r"_hasError = true; _error\.offset = _cur; _error\.line = _line; _error\.column = _col; _error\.message = msg; "
                      r"#if IORA_XML_THROW_ON_ERROR throw std::runtime_error\(_error\.message\); #else \(void\)msg; #endif return false;", fail_body)
    if not mf:
        raise TranslateError("fail(): body not recognised (the error must be recorded before the conditional throw): %r" % fail_body)
    n_throw = len(re.findall(r"\bthrow\b", src))
    if n_throw != 1:
        raise TranslateError("%d throw statements in the header (the model knows the one in fail())" % n_throw)
    # decodeEntities starts from an empty output
    first = norm(dec).split(";")[0] + ";"
    # the public next(): the two latches come first
    nb = norm(nxt)
    if not nb.startswith("if (_hasError) { return false; } if (_emittedEof) { return false; } if (_opt.maxTotalTokens"):
        raise TranslateError("next(): the `_hasError` / `_emittedEof` latches are not the first two tests")
    sax = sax_switch(src)
    domc = dom_cases(src)
    lims = limit_tests(src)
    dsites = decode_read_sites(src)
    mdt = re.search(r"~Node\(\)\s*\{", src)
    if not mdt:
        raise TranslateError("~Node(): user-provided destructor not found (FC14a: the implicit one recurses per nesting level)")
    dtor = norm(src[mdt.end():cxxscan.match_brace(src, mdt.end() - 1)])
    t = HEADER % F
    t += "namespace Iora.Gen.Xml\n"
    t += "/-- `enum class TokenKind` enumerators (name, value) -/\n"
    t += "def tokenKinds : List (String × Nat) := %s\n" % lean_str_nat_list(kinds)
    t += "/-- `struct Options` default member initialisers -/\n"
    t += "def defaultMaxDepth : Nat := %d\ndef defaultMaxAttrsPerElement : Nat := %d\ndef defaultMaxNameLength : Nat := %d\n" % (
        dflt["maxDepth"], dflt["maxAttrsPerElement"], dflt["maxNameLength"])
    t += "def defaultMaxTextSpan : Nat := %d\ndef defaultMaxTotalTokens : Nat := %d\n" % (dflt["maxTextSpan"], dflt["maxTotalTokens"])
    t += "/-- option fields that are declared but read nowhere in the header (the model has no such inputs) -/\n"
    t += "def unusedOptionFields : List String := [%s]\n" % ", ".join(lean_str(x) for x in unused)
    t += "/-- the `ent == \"...\"` chain of `decodeEntities` in source order: (name as byte values, byte pushed) — what the model's lookup uses -/\n"
    t += "def entityBytes : List (List Nat × Nat) := [%s]\n" % ", ".join("(%s, %d)" % (lean_nat_list(list(n.encode())), c) for n, c in ents)
    t += "/-- bytes `skipSpaces` treats as white space -/\n"
    t += "def whitespace : List Nat := %s\n" % lean_nat_list(ws)
    t += "/-- `isNameStart`: single characters and inclusive ranges; `isNameChar` adds these singles and ranges -/\n"
    t += "def nameStartSingles : List Nat := %s\n" % lean_nat_list(ns_s)
    t += "def nameStartRanges : List (Nat × Nat) := [%s]\n" % ", ".join("(%d, %d)" % r for r in ns_r)
    t += "def nameCharSingles : List Nat := %s\n" % lean_nat_list(nc_s)
    t += "def nameCharRanges : List (Nat × Nat) := [%s]\n" % ", ".join("(%d, %d)" % r for r in nc_r)
    t += "/-- `encodeUtf8`: upper bounds of the 1/2/3/4-byte branches and the excluded surrogate range -/\n"
    t += "def utf8Bounds : List Nat := %s\n" % lean_nat_list(bounds)
    t += "def surrogateLo : Nat := %d\ndef surrogateHi : Nat := %d\n" % (cxxscan.const_eval(sur.group(1)), cxxscan.const_eval(sur.group(2)))
    t += "/-- every message passed to `fail()` or stored in an `Error`, first occurrence order -/\n"
    t += "def errorMessages : List String := [%s]\n" % ",\n  ".join(lean_str(x) for x in seen)
    t += "/-- every raw read of the input in the tokenizer (`peek()`, `_input[...]`) in source order, with the guard that dominates it:\n"
    t += "(function, read, nearest preceding comparison with the input size in that function or `none`, the code between the two) -/\n"
    t += "def readSites : List (String × String × String × String) := [%s]\n" % ",\n  ".join(
        "(%s, %s, %s, %s)" % (lean_str(a), lean_str(b), lean_str(c), lean_str(d)) for a, b, c, d in sites)
    def quad(xs):
        return "[%s]" % ",\n  ".join("(" + ", ".join(lean_str(y) for y in x) + ")" for x in xs)
    t += "/-- the white-space test written out in `skipWhitespaceOutsideText` (a separate copy of the one in `skipSpaces`) -/\n"
    t += "def whitespaceOutsideText : List Nat := %s\n" % lean_nat_list(ws_outside)
    t += "/-- the bytes `matchWordCaseInsensitive` accepts after the word (its own copy of the white-space set, plus `>` and `[`) -/\n"
    t += "def doctypeBoundary : List Nat := %s\n" % lean_nat_list(boundary)
    t += "/-- `eof()` -/\n"
    t += "def eofBody : String := %s\n" % lean_str(eof_body)
    t += "/-- default of the compile-time switch IORA_XML_THROW_ON_ERROR; `fail()` records the error and then throws iff it is non-zero\n(the body of `fail()` is matched literally by the translator; it is the only `throw` in the header) -/\n"
    t += "def throwOnErrorDefault : Nat := %s\n" % mthrow.group(1)
    t += "/-- first statement of `decodeEntities` -/\n"
    t += "def decodeFirstStatement : String := %s\n" % lean_str(first)
    t += "/-- body of `Node::~Node()` (FC14a: iterative work-list destruction) -/\n"
    t += "def nodeDtorBody : String := %s\n" % lean_str(dtor)
    t += "/-- every indexed read in `decodeEntities` / `appendCharRef` with the guard that dominates it (same format as `readSites`) -/\n"
    t += "def decodeReadSites : List (String × String × String × String) := %s\n" % quad(dsites)
    t += "/-- every `if` condition of the tokenizer that reads an `Options` member: (function, condition) -/\n"
    t += "def limitTests : List (String × String) := %s\n" % quad(lims)
    t += "/-- the `switch (t.kind)` of `runSax`: (case label, member invoked or `-`) -/\n"
    t += "def saxSwitch : List (String × String) := %s\n" % quad(sax)
    t += "/-- the `switch (t.kind)` of `DomBuilder::build`: (case label, NodeType created or `-`, where the value comes from — `decoded:<slice>` = a FRESH\nstring filled by `decodeEntities` and moved into the node, `raw:<slice>` = copied —, the guard on creating the node or `-`) -/\n"
    t += "def domCases : List (String × String × String × String) := %s\n" % quad(domc)
    t += "end Iora.Gen.Xml\n"
    return "IoraModel/Gen/Xml.lean", t
