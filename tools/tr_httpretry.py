"""Translator unit `httpretry` -> Gen/HttpRetry.lean (C17).

Extracts from include/iora/network/http_client.hpp the *retry-classification facts* the model of
performRequest/executeRequest is defined from:
  * the idempotent-method table (isIdempotentMethod), and the method literal + default budget of every public entry point,
  * the two exception classes and their direct bases,
  * performRequest: the catch clauses IN ORDER with their action, the disjuncts of `retryEligible`, the budget test,
    the attempt increment and the back-off constants,
  * executeRequest: what runs before the pre-send region, what runs inside it, its catch clauses (order + action), the
    position of sendSync relative to it, what a send failure does, the branch table of the receive loop
    (TransportError code -> thrown type / close-delimited completion), the cap check, the conjuncts of `reusable`,
    and which exits evict the connection (dropConnection),
  * dropConnection / acquireConnection / acquireLease / releaseLease bookkeeping shape, Config defaults.
A shape that is not recognised raises TranslateError (never a default).
"""
import re
import cxxscan
from cxxscan import ScanError
from translate import TranslateError, HEADER, read

F = "include/iora/network/http_client.hpp"
F_POOL = "include/iora/network/http_client_pool.hpp"
CXX_KEYWORDS = {"if", "while", "for", "switch", "catch", "return", "sizeof", "decltype", "alignof", "static_assert", "noexcept", "throw",
                "operator", "defined", "alignas", "typeid", "new", "delete"}


def function_defs(src):
    """[(name, body_start, body_end)] of every `name(params) [const|noexcept|override|-> T|: inits] { ... }` in comment-stripped src
    (functions, constructors, lambdas are NOT included: a lambda has no name and belongs to the function around it)."""
    out = []
    for fm in re.finditer(r"\b([A-Za-z_~]\w*)\s*\(", src):
        name = fm.group(1)
        if name in CXX_KEYWORDS:
            continue
        try:
            p1 = _match_paren(src, fm.end() - 1)
        except ScanError:
            continue
        k = p1 + 1
        m2 = re.match(r"(\s|const\b|noexcept\b|override\b|final\b|mutable\b|->\s*[\w:<>,\s&*]+?(?=\s*\{))*", src[k:])
        k += m2.end() if m2 else 0
        if k < len(src) and src[k] == ":" and not src.startswith("::", k):
            # constructor initialiser list: skip to the first `{` that is not inside parentheses / a brace initialiser of a member
            d = 0
            j = k + 1
            while j < len(src):
                ch = src[j]
                if ch == "(":
                    d += 1
                elif ch == ")":
                    d -= 1
                elif ch == "{" and d == 0:
                    prev = src[:j].rstrip()
                    if prev and (prev[-1] == ")" or prev[-1] == "}"):
                        break
                    j = cxxscan.match_brace(src, j)
                elif ch == ";" and d == 0:
                    break
                j += 1
            k = j
        if k < len(src) and src[k] == "{":
            # a call followed by a block (`foo(x) {`) does not occur in C++ outside definitions and control statements
            out.append((name, k + 1, cxxscan.match_brace(src, k)))
    return out


def enclosing_function(defs, pos):
    best = None
    for name, b0, b1 in defs:
        if b0 <= pos < b1 and (best is None or b1 - b0 < best[2] - best[1]):
            best = (name, b0, b1)
    return best[0] if best else None


def call_sites(src, callee):
    """positions of every textual CALL of `callee` (not its definition, not a member of another object)"""
    defs = function_defs(src)
    def_starts = set()
    for m in re.finditer(r"\b%s\s*\(" % re.escape(callee), src):
        for name, b0, b1 in defs:
            if name == callee:
                try:
                    p1 = _match_paren(src, m.end() - 1)
                except ScanError:
                    continue
                if p1 < b0 and not re.search(r"[;{}]", src[p1 + 1:b0 - 1]):
                    def_starts.add(m.start())
    out = []
    for m in re.finditer(r"(?<![\w.>:])%s\s*\(" % re.escape(callee), src):
        if m.start() in def_starts:
            continue
        out.append((m.start(), enclosing_function(defs, m.start())))
    return out


# ------------------------------------------------------------------ small structural helpers (comment-stripped text)
def _match_paren(s, i):
    """s[i] == '(' -> index of the matching ')' (string aware)."""
    d = 0
    n = len(s)
    while i < n:
        c = s[i]
        if c in "\"'":
            q = c
            i += 1
            while i < n and s[i] != q:
                if s[i] == "\\":
                    i += 1
                i += 1
        elif c == "(":
            d += 1
        elif c == ")":
            d -= 1
            if d == 0:
                return i
        i += 1
    raise ScanError("unbalanced parentheses")


def _skip_ws(s, i):
    while i < len(s) and s[i].isspace():
        i += 1
    return i


def split_top(expr, op):
    """Split `expr` at top-level occurrences of the operator `op` (outside parentheses/strings/templates)."""
    parts, d, i, last = [], 0, 0, 0
    n = len(expr)
    while i < n:
        c = expr[i]
        if c in "\"'":
            q = c
            i += 1
            while i < n and expr[i] != q:
                if expr[i] == "\\":
                    i += 1
                i += 1
        elif c in "([{":
            d += 1
        elif c in ")]}":
            d -= 1
        elif d == 0 and expr.startswith(op, i):
            parts.append(expr[last:i])
            i += len(op)
            last = i
            continue
        i += 1
    parts.append(expr[last:])
    return [p.strip() for p in parts]


def norm(s):
    return re.sub(r"\s+", "", s)


def strip_outer_parens(e):
    e = e.strip()
    while e.startswith("(") and _match_paren(e, 0) == len(e) - 1:
        e = e[1:-1].strip()
    return e


def try_blocks(body):
    """Top-level-in-order list of (start, try_body, [(catch_type, catch_body)], end) for every `try { } catch ...` in `body`
    (nested ones included, in textual order)."""
    out = []
    for m in re.finditer(r"\btry\s*\{", body):
        b0 = m.end() - 1
        b1 = cxxscan.match_brace(body, b0)
        clauses = []
        k = b1 + 1
        while True:
            k2 = _skip_ws(body, k)
            mm = re.match(r"catch\s*\(", body[k2:])
            if not mm:
                break
            p0 = k2 + mm.end() - 1
            p1 = _match_paren(body, p0)
            c0 = _skip_ws(body, p1 + 1)
            if body[c0] != "{":
                raise ScanError("catch without a block")
            c1 = cxxscan.match_brace(body, c0)
            clauses.append((catch_type(body[p0 + 1:p1]), body[c0 + 1:c1]))
            k = c1 + 1
        if not clauses:
            raise ScanError("try without catch")
        out.append((m.start(), body[b0 + 1:b1], clauses, k))
    return out


def catch_type(decl):
    d = decl.strip()
    if d == "...":
        return "..."
    d = re.sub(r"\bconst\b", "", d)
    d = re.sub(r"&\s*\w*\s*$", "", d).strip()
    if not re.fullmatch(r"[\w:]+", d):
        raise ScanError("unrecognised catch declaration %r" % decl)
    return d


def calls_in(text, names):
    """Ordered list of the given call names as they occur in text."""
    hits = []
    for n in names:
        for m in re.finditer(r"(?<![\w])%s\s*\(" % re.escape(n), text):
            hits.append((m.start(), n))
    return [n for _, n in sorted(hits)]


def thrown_types(text):
    """Every `throw X(...)` / `throw;` in text, in order ('rethrow' for a bare throw)."""
    out = []
    for m in re.finditer(r"\bthrow\b\s*([\w:]*)\s*([;(])", text):
        out.append("rethrow" if (m.group(1) == "" and m.group(2) == ";") else m.group(1))
    return out


def if_chain(text, start):
    """Parse `if (c) {b} else if (c) {b} ... [else {b}]` starting at text[start:] == 'if'. Returns ([(cond, body)], end)."""
    out = []
    i = start
    while True:
        m = re.match(r"if\s*\(", text[i:])
        if not m:
            raise ScanError("if-chain: expected `if (`")
        p0 = i + m.end() - 1
        p1 = _match_paren(text, p0)
        b0 = _skip_ws(text, p1 + 1)
        if text[b0] != "{":
            raise ScanError("if-chain: branch without braces")
        b1 = cxxscan.match_brace(text, b0)
        out.append((text[p0 + 1:p1], text[b0 + 1:b1]))
        j = _skip_ws(text, b1 + 1)
        m2 = re.match(r"else\b", text[j:])
        if not m2:
            return out, b1 + 1
        j = _skip_ws(text, j + m2.end())
        if text[j] == "{":
            e1 = cxxscan.match_brace(text, j)
            out.append((None, text[j + 1:e1]))
            return out, e1 + 1
        i = j


SEND_CALLS = ["sendSync", "sendAsync", "send"]
STD_EXN = {"std::exception", "std::runtime_error", "std::invalid_argument", "std::logic_error"}


def lean_strs(xs):
    return "[" + ", ".join('"%s"' % x for x in xs) + "]"


def lean_pairs(xs):
    return "[" + ", ".join('("%s", "%s")' % (a, b) for a, b in xs) + "]"


def lean_triples(xs):
    return "[" + ", ".join('("%s", "%s", "%s")' % t for t in xs) + "]"


def lean_bool(b):
    return "true" if b else "false"


# ------------------------------------------------------------------ the unit
F_TRANSPORT = "include/iora/network/transport_impl.hpp"
_REPO = [None]


def read_transport(fx):
    return read(_REPO[0], F_TRANSPORT)


def gen(repo):
    _REPO[0] = repo
    src = read(repo, F)
    try:
        facts = extract(src)
    except TranslateError:
        raise
    except (ValueError, IndexError, KeyError, AttributeError, TypeError, ScanError) as e:
        # e.g. `str.index` on a fragment that is no longer there: a source shape the unit does not recognise is a verdict, not a crash
        raise TranslateError("a source shape the unit does not recognise (%s: %s)" % (type(e).__name__, str(e)[:200]))
    return "IoraModel/Gen/HttpRetry.lean", render(facts)


def extract(src):
    fx = {}
    # ---- isIdempotentMethod: a pure `||` chain of `method == "LIT"`
    b = cxxscan.function_body(src, "isIdempotentMethod")
    m = re.fullmatch(r"\s*return\s+(.*?);\s*", b, re.S)
    if not m:
        raise TranslateError("isIdempotentMethod: body is not a single return: %r" % b.strip())
    methods = []
    for d in split_top(m.group(1), "||"):
        mm = re.fullmatch(r'method\s*==\s*"([^"\\]*)"', strip_outer_parens(d))
        if not mm:
            raise TranslateError("isIdempotentMethod: unrecognised disjunct %r (expected method == \"LITERAL\")" % d)
        methods.append(mm.group(1))
    fx["idempotent"] = methods
    # ---- exception classes and their direct bases
    bases = []
    for cls in ("HttpFramingError", "HttpRequestNotSentError"):
        mm = re.search(r"class\s+%s\s*:\s*public\s+([\w:]+)\s*\{" % cls, src)
        if not mm:
            raise TranslateError("class %s: declaration with a single public base not found" % cls)
        bases.append((cls, mm.group(1)))
    fx["bases"] = bases
    # ---- public entry points: method literal and default budget
    # ---- public entry points: every function with an `int retries` parameter other than performRequest itself.
    # Its body must issue the request through EXACTLY ONE call — performRequest("LITERAL", …, retries) or another entry point
    # (…, retries) — that is not inside a try block or a loop, with the caller's `retries` passed on unchanged.
    fdefs = []
    for fm in re.finditer(r"\b(\w+)\s*\(", src):
        try:
            p1 = _match_paren(src, fm.end() - 1)
        except ScanError:
            continue
        params = src[fm.end():p1]
        if not re.search(r"\bint\s+retries\b", params):
            continue
        b0 = _skip_ws(src, p1 + 1)
        if b0 < len(src) and src[b0] == "{":
            fdefs.append((fm.group(1), params, src[b0 + 1:cxxscan.match_brace(src, b0)]))
    names = [f[0] for f in fdefs]
    if "performRequest" not in names:
        raise TranslateError("performRequest(…, int retries) not found")
    if len(set(names)) != len(names):
        raise TranslateError("two functions with an `int retries` parameter share a name: %s" % sorted(n for n in names if names.count(n) > 1))
    entry_names = [n for n in names if n != "performRequest"]
    entries = []
    for name, params, body in fdefs:
        if name == "performRequest":
            continue
        dm = re.search(r"\bint\s+retries\s*=\s*(-?\d+)\s*$", params.strip())
        if not dm:
            raise TranslateError("%s: `int retries` is not the last parameter with a literal default" % name)
        if re.search(r"\btry\b|\bcatch\b|\bgoto\b", body):
            raise TranslateError("%s: a public entry point must not contain try/catch (it would re-issue or hide the request)" % name)
        calls = []
        for callee in ["performRequest"] + entry_names:
            for cm in re.finditer(r"(?<![\w.>:])%s\s*\(" % re.escape(callee), body):
                calls.append((cm.start(), callee, cm.end() - 1))
        calls.sort()
        if len(calls) != 1:
            raise TranslateError("%s: expected exactly one request-issuing call, found %s" % (name, [c[1] for c in calls]))
        pos, callee, p0 = calls[0]
        args = split_top(body[p0 + 1:_match_paren(body, p0)], ",")
        if norm(args[-1]) != "retries":
            raise TranslateError("%s: the budget passed to %s is `%s`, not the caller's `retries`" % (name, callee, args[-1].strip()))
        if re.search(r"\bretries\s*(=[^=]|\+\+|--|\+=|-=|\*=)|(\+\+|--)\s*retries\b", body):
            raise TranslateError("%s: `retries` is modified" % name)
        # the call must not sit inside a loop
        for lm in re.finditer(r"\b(for|while|do)\b", body):
            j = body.find("{", lm.end())
            if lm.group(1) != "do" and j >= 0:
                pe = _match_paren(body, body.find("(", lm.end()))
                j = _skip_ws(body, pe + 1)
            if j >= 0 and j < len(body) and body[j] == "{":
                if j < pos < cxxscan.match_brace(body, j):
                    raise TranslateError("%s: the request is issued inside a loop" % name)
            elif lm.start() < pos:
                raise TranslateError("%s: loop without braces before the request" % name)
        method = ""
        if callee == "performRequest":
            lm = re.fullmatch(r'"([^"\\]*)"', args[0].strip())
            if not lm:
                raise TranslateError("%s: the method passed to performRequest is not a string literal" % name)
            method = lm.group(1)
        entries.append((name, callee, method, int(dm.group(1))))
        # what else the entry point may throw: before the call (no request is issued at all) or after it (on the returned response)
        for tm in re.finditer(r"\bthrow\b", body):
            if tm.start() > pos:
                g = re.search(r"if\s*\(\s*!\s*response\.success\(\)\s*\)\s*\{\s*throw\s+std::runtime_error\s*\(", body[pos:])
                if not g or len(re.findall(r"\bthrow\b", body[pos:])) != 1:
                    raise TranslateError("%s: a throw after the request that is not `if (!response.success()) throw std::runtime_error`" % name)
                fx.setdefault("failsOnNon2xx", []).append(name)
    if not entries:
        raise TranslateError("no public entry point found")
    fx["entries"] = entries
    # ---- EVERY call site of performRequest / executeRequest (and of every entry point) in the file: the caller of executeRequest is
    # performRequest alone; a caller of performRequest — or of an entry point — is itself a row of the table above (whose body was
    # checked: one call, no try/catch, no loop, the caller's budget). Anything else is a second path to the wire: a wrapper that
    # catches and calls again, an overload without a budget, a helper that re-issues the request.
    row = {e[0]: e for e in entries}
    callers = []
    for pos, fn in call_sites(src, "executeRequest"):
        if fn != "performRequest":
            raise TranslateError("executeRequest is called from `%s` (only performRequest may call it: every other call bypasses the retry discipline)" % fn)
        callers.append((fn, "executeRequest"))
    for pos, fn in call_sites(src, "performRequest"):
        if fn not in row or row[fn][1] != "performRequest":
            raise TranslateError("performRequest is called from `%s`, which is not a checked public entry point (a function with an `int retries` "
                                 "parameter whose body issues exactly one request): a wrapper that re-issues the request would double-submit" % fn)
        callers.append((fn, "performRequest"))
    for name in entry_names:
        for pos, fn in call_sites(src, name):
            if fn not in row or row[fn][1] != name:
                raise TranslateError("the entry point %s is called from `%s`, which is not a checked public entry point delegating to it" % (name, fn))
    if len(callers) != len(set(callers)):
        raise TranslateError("a function contains two calls of performRequest/executeRequest: %s" % sorted(c for c in callers if callers.count(c) > 1))
    try:
        pool = read(_REPO[0], F_POOL) if _REPO[0] else ""
    except TranslateError:
        pool = ""
    for callee in ("performRequest", "executeRequest"):
        if re.search(r"\b%s\s*\(" % callee, pool):
            raise TranslateError("%s calls %s directly" % (F_POOL, callee))
    fx["requestCallers"] = callers
    fx.setdefault("failsOnNon2xx", [])
    if not re.search(r"bool\s+success\s*\(\s*\)\s*const\s*\{\s*return\s+statusCode\s*>=\s*200\s*&&\s*statusCode\s*<\s*300\s*;\s*\}", src):
        raise TranslateError("Response::success() is not `statusCode >= 200 && statusCode < 300`")
    # ---- performRequest
    pb = cxxscan.function_body(src, "performRequest")
    npb = norm(pb)
    if not npb.startswith("{std::lock_guard<std::mutex>lock(_mutex);ensureInitialized();}") or npb.count("ensureInitialized()") != 1:
        raise TranslateError("performRequest: does not start with `{ std::lock_guard<std::mutex> lock(_mutex); ensureInitialized(); }` (once, before the loop)")
    eith = thrown_types(cxxscan.function_body(src, "ensureInitialized"))
    if eith != ["std::runtime_error"]:
        raise TranslateError("ensureInitialized: throws %s (expected exactly one throw std::runtime_error: transport start failure)" % eith)
    fx["startFailThrow"] = eith[0]
    if not re.search(r"\bint\s+attempt\s*=\s*0\s*;\s*while\s*\(\s*true\s*\)\s*\{", pb):
        raise TranslateError("performRequest: `int attempt = 0; while (true) {` not found")
    tbs = try_blocks(pb)
    if len(tbs) != 1:
        raise TranslateError("performRequest: expected exactly one try block, found %d" % len(tbs))
    _, tbody, clauses, _ = tbs[0]
    if calls_in(tbody, ["executeRequest"]) != ["executeRequest"] or not re.search(r"\breturn\s+response\s*;", tbody):
        raise TranslateError("performRequest: try body is not `executeRequest(...) ... return response;`")
    if calls_in(pb, ["executeRequest"]) != ["executeRequest"]:
        raise TranslateError("performRequest: executeRequest must be called exactly once (inside the try)")
    if thrown_types(tbody):
        raise TranslateError("performRequest: unexpected throw inside the try body")
    order, actions = [], []
    retry = None
    for ty, cb in clauses:
        order.append(ty)
        if re.search(r"\b(continue|break|return|goto)\b", cb):
            raise TranslateError("performRequest: catch (%s) contains a jump statement" % ty)
        if "retryEligible" not in cb:
            th = thrown_types(cb)
            if th != ["rethrow"] or re.search(r"attempt\s*(\+\+|\+=|=)|sleep_for", cb):
                raise TranslateError("performRequest: catch (%s) is neither a plain rethrow nor the retry clause" % ty)
            # the rethrow must be unconditional (last statement of the clause)
            if not re.search(r"throw\s*;\s*$", cb.strip()) or re.search(r"\bif\s*\(", cb):
                raise TranslateError("performRequest: catch (%s): rethrow is conditional" % ty)
            actions.append("rethrow")
            continue
        if retry is not None:
            raise TranslateError("performRequest: more than one retry clause")
        actions.append("retry")
        retry = parse_retry_clause(cb)
    if retry is None:
        raise TranslateError("performRequest: no retry clause found")
    fx["catchOrder"], fx["catchActions"], fx["retry"] = order, actions, retry
    # nothing after the try/catch inside the loop may bump `attempt`
    if len(re.findall(r"attempt\s*\+\+|\+\+\s*attempt|attempt\s*\+=", pb)) != 1:
        raise TranslateError("performRequest: `attempt` must be incremented exactly once")
    # ---- executeRequest
    fx.update(extract_execute(src))
    # ---- the response-framing functions (owned by C15; here only: WHAT TYPE do they throw)
    fthrows = []
    for fn in ("frameResponse", "parseHeaderBlock", "determineFraming", "parseContentLength", "advanceChunked",
               "transferEncodingFinalIsChunked", "responseRequestsClose"):
        for t in thrown_types(cxxscan.function_body(src, fn)):
            if t not in fthrows:
                fthrows.append(t)
    fx["framingFnThrows"] = fthrows
    # ---- advanceChunked: WHERE an announced chunk-size is rejected. The byte-level model (C15's sizeLine, linked by Lemmas/HttpRetryFraming)
    # answers Malformed in the iteration that parses the size line when the number does not parse OR exceeds the cap; a cap test that only
    # runs once the chunk data is complete turns a deterministic framing error into a wait for data that never comes (time-out / close: retried)
    ac = cxxscan.function_body(src, "advanceChunked")
    cm_ = re.search(r"std::uint64_t\s+chunkSize\s*=\s*0\s*;\s*if\s*\(", ac)
    if not cm_:
        raise TranslateError("advanceChunked: `std::uint64_t chunkSize = 0; if (...)` (the rejection right after the size is parsed) not found")
    ce_ = _match_paren(ac, cm_.end() - 1)
    cb0_ = _skip_ws(ac, ce_ + 1)
    if ac[cb0_] != "{" or norm(ac[cb0_:cxxscan.match_brace(ac, cb0_) + 1]) != "{returnFrameStatus::Malformed;}":
        raise TranslateError("advanceChunked: the branch after the chunk-size parse is not `{ return FrameStatus::Malformed; }`")
    fx["chunkSizeReject"] = [norm(d) for d in split_top(ac[cm_.end():ce_], "||")]
    wait_ = norm(ac).find("buf.size()-dataStart<chunkSize")
    if wait_ < 0:
        raise TranslateError("advanceChunked: the wait for the chunk data (`buf.size() - dataStart < chunkSize` -> NeedMore) not found")
    fx["chunkRejectBeforeDataWait"] = norm(ac).find("std::uint64_tchunkSize=0;if(") < wait_
    # ---- bookkeeping helpers
    db = cxxscan.function_body(src, "dropConnection")
    if not re.search(r"it\s*!=\s*_connections\.end\(\)\s*&&\s*it->second\.id\s*==\s*sessionId", db) or \
       "_connections.erase(it)" not in norm(db) or calls_in(db, ["close"]) != ["close"]:
        raise TranslateError("dropConnection: expected `find; if (found && id == sessionId) erase; _transport->close(sessionId)`")
    if norm(db).index("_connections.erase(it)") > norm(db).index("_transport->close(sessionId)"):
        raise TranslateError("dropConnection: close before erase")
    fx["dropErasesOnlyMatching"] = True
    ab = cxxscan.function_body(src, "acquireConnection")
    na = norm(ab)
    need = ["_connections.find(hostPort)", "now-it->second.lastUsed<_config.connectionIdleTimeout", "returnit->second.id;",
            "_transport->close(it->second.id);", "_connections.erase(it);", "_transport->connectSync(", "connectResult.isErr()",
            "_connections[hostPort]=ConnectionEntry{sessionId,"]
    pos = -1
    for t in need:
        p = na.find(t, pos + 1)
        if p < 0:
            raise TranslateError("acquireConnection: expected fragment %r not found in order" % t)
        pos = p
    if calls_in(ab, SEND_CALLS):
        raise TranslateError("acquireConnection transmits data (%s)" % calls_in(ab, SEND_CALLS))
    th = thrown_types(ab)
    if th != ["std::runtime_error"]:
        raise TranslateError("acquireConnection: expected exactly one throw std::runtime_error (connect failure), got %s" % th)
    fx["connectFailThrow"] = th[0]
    lb = cxxscan.function_body(src, "acquireLease")
    nl = norm(lb)
    if "_closing||_leasedHosts.find(hostPort)==_leasedHosts.end()" not in nl or "_leasedHosts.insert(hostPort);" not in nl:
        raise TranslateError("acquireLease: availability predicate / insert not recognised")
    lth = thrown_types(lb)
    if not lth or any(t != "std::runtime_error" for t in lth):
        raise TranslateError("acquireLease: throws %s (expected only std::runtime_error)" % lth)
    fx["leaseFailThrow"] = "std::runtime_error"
    if nl.index("if(_closing)") > nl.index("_leasedHosts.insert(hostPort);"):
        raise TranslateError("acquireLease: insert before the _closing test")
    if not nl.startswith("std::unique_lock<std::mutex>lock(_mutex);"):
        raise TranslateError("acquireLease: the first statement is not `std::unique_lock<std::mutex> lock(_mutex);` (predicate, wait and insert must be one critical section)")
    if nl.count("_mutex") != 1 or "lock.unlock()" in nl or "lock.release()" in nl:
        raise TranslateError("acquireLease: _mutex is released or re-taken inside the function")
    rb = cxxscan.function_body(src, "releaseLease")
    if norm(rb) != "{std::lock_guard<std::mutex>lock(_mutex);_leasedHosts.erase(hostPort);}_cv.notify_all();":
        raise TranslateError("releaseLease: body is not `{ std::lock_guard<std::mutex> lock(_mutex); _leasedHosts.erase(hostPort); } _cv.notify_all();` "
                             "(the erase must happen under _mutex, else a waiter can miss the wake-up or read the set while it changes)")
    # every other access to the cache / the lease set is under _mutex too: the functions that touch them start a guarded block first
    for fn_, frag in (("dropConnection", "std::lock_guard<std::mutex>lock(_mutex);autoit=_connections.find(hostPort);"),
                      ("cleanup", "std::lock_guard<std::mutex>lock(_mutex);")):
        if not norm(cxxscan.function_body(src, fn_)).startswith(frag):
            raise TranslateError("%s: does not start with a lock_guard on _mutex" % fn_)
    if na.count("std::lock_guard<std::mutex>lock(_mutex);") != 2 or \
       not re.search(r"\{std::lock_guard<std::mutex>lock\(_mutex\);autoit=_connections\.find\(hostPort\);", na) or \
       not re.search(r"\{std::lock_guard<std::mutex>lock\(_mutex\);_connections\[hostPort\]=ConnectionEntry\{", na):
        raise TranslateError("acquireConnection: the cache look-up and the publication are not each inside a lock_guard block on _mutex")
    rel = cxxscan.function_body(src, "release")
    if "_owner->releaseLease(_hostPort);" not in norm(rel):
        raise TranslateError("ConnectionLease::release does not call releaseLease")
    if not re.search(r"~ConnectionLease\s*\(\s*\)\s*\{\s*release\(\)\s*;\s*\}", src):
        raise TranslateError("~ConnectionLease does not release")
    pu = cxxscan.function_body(src, "parseUrl")
    pth = thrown_types(pu)
    if pth != ["std::invalid_argument"]:
        raise TranslateError("parseUrl: throws %s (expected std::invalid_argument)" % pth)
    fx["urlFailThrow"] = pth[0]
    npu = norm(pu)
    if "parsed.port=static_cast<std::uint16_t>(std::stoi(match[3].str()));" not in npu:
        raise TranslateError("parseUrl: the port is not `static_cast<std::uint16_t>(std::stoi(match[3].str()))`")
    dm_ = re.search(r'parsed\.port=\(parsed\.scheme=="https"\)\?(\d+):(\d+);', npu)
    if not dm_:
        raise TranslateError("parseUrl: default ports not recognised")
    fx["defaultPortHttps"], fx["defaultPortHttp"] = int(dm_.group(1)), int(dm_.group(2))
    fx["portParseMax"] = 2 ** 31 - 1          # std::stoi returns `int` (32 bits on every supported ABI) and throws std::out_of_range beyond it
    fx["portCastModulus"] = 2 ** 16           # static_cast<std::uint16_t>
    fx["portRangeThrow"] = "std::out_of_range"
    if re.search(r"\btry\b|\bcatch\b", pu):
        raise TranslateError("parseUrl: contains try/catch (the model lets std::stoi's exception escape)")
    # ---- cleanup(): its steps in source order; `_closing` is never reset
    cb_ = norm(cxxscan.function_body(src, "cleanup"))
    steps = []
    for frag, nm in (("std::lock_guard<std::mutex>lock(_mutex);", "lock"), ("_closing=true;", "closing"), ("_cv.notify_all();", "notify_all"),
                     ("_transport->close(entry.id);", "closeAll"), ("_transport->stop();", "stop"), ("_connections.clear();", "clear"),
                     ("_dnsClient->stop();", "dnsStop")):
        p_ = cb_.find(frag)
        if p_ >= 0:
            steps.append((p_, nm))
    fx["cleanupSteps"] = [nm for _, nm in sorted(steps)]
    if "closeAll" in fx["cleanupSteps"] and "for(constauto&[hostPort,entry]:_connections){_transport->close(entry.id);}" not in cb_:
        raise TranslateError("cleanup: the close is not inside `for (const auto &[hostPort, entry] : _connections)`")
    if re.search(r"_closing\s*=\s*false", src):
        raise TranslateError("_closing is reset somewhere (the model treats it as permanent)")
    if norm(lb).count("_closing") != 2:
        raise TranslateError("acquireLease: `_closing` must occur exactly twice (in the predicate and in the test after the wait)")
    # ---- responseRequestsClose: the loop skeleton (the Lean `tokenLoop` mirrors exactly this; samples alone do not tie a bound such as `elements++ < 6`)
    rc_ = cxxscan.function_body(src, "responseRequestsClose")
    nrc = norm(rc_)
    pos_ = -1
    for frag in ('autoit=resp.headers.find("Connection");', "if(it!=resp.headers.end()){", "boolsawKeepAlive=false;", "conststd::string&value=it->second;",
                 "std::size_tpos=0;", "while(pos<=value.size()){", "std::size_tcomma=value.find(',',pos);",
                 "std::size_tend=(comma==std::string::npos)?value.size():comma;", "std::size_ta=value.find_first_not_of(",
                 "std::size_tb=value.find_last_not_of(", "if(a!=std::string::npos&&a<end&&b!=std::string::npos&&b>=a){",
                 "std::stringtoken=value.substr(a,b-a+1);", "std::transform(token.begin(),token.end(),token.begin(),",
                 "CaseInsensitiveCompare::asciiLower(", 'if(token=="close"){returntrue;}', 'if(token=="keep-alive"){sawKeepAlive=true;}',
                 "}if(comma==std::string::npos){break;}pos=comma+1;}", "if(sawKeepAlive){returnfalse;}}", 'returnresp.httpVersion=="1.0";'):
        p_ = nrc.find(frag, pos_ + 1)
        if p_ < 0:
            raise TranslateError("responseRequestsClose: expected fragment %r not found in order (the loop skeleton changed)" % frag)
        pos_ = p_
    if not nrc.endswith('returnresp.httpVersion=="1.0";') or len(re.findall(r"\bbreak\b", rc_)) != 1 or \
       len(re.findall(r"\b(while|for|do)\b", rc_)) != 1 or re.search(r"\b(continue|goto)\b", rc_) or len(re.findall(r"\breturn\b", rc_)) != 4:
        raise TranslateError("responseRequestsClose: extra loop / jump / return")
    if not re.search(r'find_first_not_of\(\s*" \\t"\s*,\s*pos\s*\)', rc_) or \
       not re.search(r'find_last_not_of\(\s*" \\t"\s*,\s*end\s*==\s*0\s*\?\s*0\s*:\s*end\s*-\s*1\s*\)', rc_):
        raise TranslateError('responseRequestsClose: the trim arguments are not (" \\t", pos) and (" \\t", end == 0 ? 0 : end - 1)')
    # ---- Config defaults
    cm = re.search(r"Config\s*\(\s*\)\s*:(.*?)\{", src, re.S)
    if not cm:
        raise TranslateError("Config(): constructor initialiser list not found")
    ini = cm.group(1)
    def ini_int(name):
        mm = re.search(r"\b%s\s*\(([^()]*)\)" % name, ini)
        if not mm:
            raise TranslateError("Config(): initialiser of %s not found" % name)
        return cxxscan.const_eval(mm.group(1))
    fx["connectTimeoutMs"] = ini_int("connectTimeout")
    fx["requestTimeoutMs"] = ini_int("requestTimeout")
    fx["leaseAcquireTimeoutMs"] = ini_int("leaseAcquireTimeout")
    fx["maxResponseBytes"] = ini_int("maxResponseBytes")
    fx["idleTimeoutS"] = ini_int("connectionIdleTimeout")
    mm = re.search(r"\breuseConnections\s*\(\s*(true|false)\s*\)", ini)
    if not mm:
        raise TranslateError("Config(): reuseConnections default not found")
    fx["reuseDefault"] = mm.group(1) == "true"
    mm = re.search(r"std::min\s*\(\s*_config\.connectTimeout\s*,\s*std::chrono::milliseconds\s*\(\s*(\d+)\s*\)\s*\)", ab)
    if not mm:
        raise TranslateError("acquireConnection: localhost connect cap not found")
    fx["localConnectCapMs"] = int(mm.group(1))
    # ---- the time-out argument of every timed wait of the request path (R6)
    waits = []
    nl = norm(lb)
    if "if(_config.leaseAcquireTimeout.count()>0){if(!_cv.wait_for(lock,_config.leaseAcquireTimeout,available)){throw" not in nl or \
       "else{_cv.wait(lock,available);}" not in nl or len(re.findall(r"\bwait_for\b|\bwait_until\b", lb)) != 1:
        raise TranslateError("acquireLease: the lease wait is not `wait_for(lock, _config.leaseAcquireTimeout, available)` (0 = untimed wait)")
    waits.append(("lease", "leaseAcquireTimeout"))
    fx["leaseWaitForm"] = "wait_for_pred"       # the predicate overload: ONE absolute deadline for all wake-ups ([thread.condition.condvar])
    if len(re.findall(r"\b(while|for|do)\b", re.sub(r'"[^"\\]*(?:\\.[^"\\]*)*"', '""', lb))) != 0:
        raise TranslateError("acquireLease: contains a loop (the model's wait is the library's predicate loop with one absolute deadline)")
    na = norm(ab)
    if 'autotimeout=(resolvedHost=="127.0.0.1"||resolvedHost=="::1")?std::min(_config.connectTimeout,std::chrono::milliseconds(%d)):_config.connectTimeout;' % fx["localConnectCapMs"] not in na or \
       "_transport->connectSync(resolvedHost,parsedUrl.port,tlsMode,timeout);" not in na or len(re.findall(r"\btimeout\b", ab)) != 2:
        raise TranslateError("acquireConnection: connectSync's time-out is not `timeout` = min(connectTimeout, cap) for a loopback address, connectTimeout otherwise")
    waits.append(("connect", "localMinConnectTimeoutCap"))
    eb = cxxscan.function_body(src, "executeRequest")
    if len(re.findall(r"\bsendTimeout\b", eb)) != 3 or "std::chrono::millisecondssendTimeout=_config.requestTimeout;" not in norm(eb) or \
       "_transport->receiveSync(sessionId,buffer,len,sendTimeout);" not in norm(eb):
        raise TranslateError("executeRequest: receiveSync's time-out is not `sendTimeout` = _config.requestTimeout (assigned once)")
    waits.append(("receive", "requestTimeout"))
    waits.append(("probe", "zero"))     # residualDataPending: checked with the reuse decision
    if not re.search(r"_transport->sendSync\(sessionId,.*?,sendTimeout\);", norm(eb)):
        raise TranslateError("executeRequest: sendSync is not bounded by `sendTimeout` = _config.requestTimeout")
    waits.append(("send", "requestTimeout"))
    # the DNS look-up of a host NAME: DnsClient's own defaults (no HttpClient::Config value reaches it); literal IPv4 addresses and
    # `localhost` never get there; a failure falls through to connectSync with the literal name
    rh = norm(cxxscan.function_body(src, "resolveHostAddress"))
    pos_ = -1
    for frag in ("if(isIPAddress(parsedUrl.host)){returnparsedUrl.host;}", 'if(parsedUrl.host=="localhost"){return"127.0.0.1";}',
                 "try{autoresult=_dnsClient->resolveHost(parsedUrl.host);", "catch(conststd::exception&){}", "returnparsedUrl.host;"):
        p_ = rh.find(frag, pos_ + 1)
        if p_ < 0:
            raise TranslateError("resolveHostAddress: expected fragment %r not found in order" % frag)
        pos_ = p_
    if "_dnsClient=std::make_unique<DnsClient>();" not in norm(cxxscan.function_body(src, "ensureInitialized")):
        raise TranslateError("ensureInitialized: the DnsClient is not default-constructed (its time-outs are no longer DnsClient's defaults)")
    if calls_in(ab, ["resolveHostAddress"]) != ["resolveHostAddress"] or na.index("resolveHostAddress(parsedUrl)") > na.index("_transport->connectSync("):
        raise TranslateError("acquireConnection: resolveHostAddress must be called exactly once, before connectSync")
    waits.append(("dns", "dnsClientDefaults"))
    fx["timedWaits"] = waits
    bm = re.search(r"\bchar\s+buffer\s*\[\s*(\d+)\s*\]\s*;", eb)
    if not bm or "std::size_tlen=sizeof(buffer);" not in norm(eb):
        raise TranslateError("executeRequest: receive buffer `char buffer[N]; len = sizeof(buffer)` not found")
    fx["recvBufferSize"] = int(bm.group(1))
    # ---- Transport::receiveSync hands over at least one byte whenever it reports success (so `isOk() && len == 0`, which takes no
    # branch of the receive chain, cannot occur for len >= 1)
    tsrc = read_transport(fx)
    rb = cxxscan.function_body(tsrc, "receiveSync", signature_contains="void")
    oks = [m_.start() for m_ in re.finditer(r"ReceiveResult::ok\s*\(", rb)]
    gm = re.search(r"if\s*\(\s*!\s*buf->data\.empty\(\)\s*\)\s*\{", rb)
    if len(oks) != 1 or not gm or not (gm.end() < oks[0] < cxxscan.match_brace(rb, gm.end() - 1)) or \
       "std::size_tcopyLen=std::min(len,buf->data.size());" not in norm(rb) or "returnReceiveResult::ok(copyLen);" not in norm(rb):
        raise TranslateError("Transport::receiveSync: success is not confined to `if (!buf->data.empty()) { copyLen = min(len, size); … return ok(copyLen); }`")
    fx["receiveOkHasBytes"] = True
    # ---- every exception type the model has to know
    known_exn = {"HttpFramingError", "HttpRequestNotSentError", "std::runtime_error", "std::invalid_argument"}
    used = [fx["urlFailThrow"], fx["leaseFailThrow"], fx["connectFailThrow"], fx["setSyncFailThrow"], fx["sendFailThrow"], fx["capThrow"]] + \
        list(fx["framingFnThrows"]) + [t for _, _, t in fx["recvBranches"] if t] + [t for _, _, t in fx["preSendCatch"] if t]
    for t in used:
        if t not in known_exn:
            raise TranslateError("exception type %s is thrown on the request path but is not one the model knows (%s)" % (t, sorted(known_exn)))
    return fx


def parse_retry_clause(cb):
    r = {}
    m = re.search(r"const\s+bool\s+retryEligible\s*=\s*(.*?);", cb, re.S)
    if not m:
        raise TranslateError("performRequest: `const bool retryEligible = ...;` not found")
    atoms = []
    for d in split_top(m.group(1), "||"):
        e = strip_outer_parens(d)
        if "&&" in e or e.startswith("!"):
            raise TranslateError("performRequest: retryEligible disjunct %r is not a recognised atom" % d)
        if re.fullmatch(r"isIdempotentMethod\s*\(\s*method\s*\)", e):
            atoms.append(("idempotent", ""))
            continue
        mm = re.fullmatch(r"dynamic_cast\s*<\s*const\s+([\w:]+)\s*\*\s*>\s*\(\s*&\s*e\s*\)\s*!=\s*nullptr", e)
        if mm:
            atoms.append(("isa", mm.group(1)))
            continue
        raise TranslateError("performRequest: retryEligible disjunct %r is not a recognised atom" % d)
    r["atoms"] = atoms
    # statements after the eligibility definition, reduced to the control skeleton
    rest = cb[m.end():]
    # (1) if (!retryEligible) { ... throw; }
    m1 = re.search(r"if\s*\(\s*!\s*retryEligible\s*\)\s*\{", rest)
    if not m1:
        raise TranslateError("performRequest: `if (!retryEligible) { throw; }` not found")
    e1 = cxxscan.match_brace(rest, m1.end() - 1)
    if thrown_types(rest[m1.end():e1]) != ["rethrow"] or not re.search(r"throw\s*;\s*$", rest[m1.end():e1].strip()):
        raise TranslateError("performRequest: the not-eligible branch does not end in a plain rethrow")
    # (2) if (attempt CMP retries) { ... throw; }
    m2 = re.search(r"if\s*\(\s*attempt\s*(>=|>|==|<=|<|!=)\s*retries\s*\)\s*\{", rest)
    if not m2:
        raise TranslateError("performRequest: budget test `if (attempt >= retries)` not found")
    e2 = cxxscan.match_brace(rest, m2.end() - 1)
    if thrown_types(rest[m2.end():e2]) != ["rethrow"] or not re.search(r"throw\s*;\s*$", rest[m2.end():e2].strip()):
        raise TranslateError("performRequest: the budget-exhausted branch does not end in a plain rethrow")
    if m2.group(1) not in (">=", ">"):
        raise TranslateError("performRequest: budget comparison %r not modelled" % m2.group(1))
    r["budgetCmp"] = m2.group(1)
    tail = rest[max(e1, e2) + 1:]
    if thrown_types(tail):
        raise TranslateError("performRequest: throw after the budget test")
    m3 = re.search(r"int\s+backoffMs\s*=\s*\(\s*1\s*<<\s*std::min\s*\(\s*attempt\s*,\s*(\d+)\s*\)\s*\)\s*\*\s*(\d+)\s*\+\s*jitterDist\s*\(", tail)
    m3u = re.search(r"int\s+backoffMs\s*=\s*\(\s*1\s*<<\s*attempt\s*\)\s*\*\s*(\d+)\s*\+\s*jitterDist\s*\(", tail)
    m4 = re.search(r"uniform_int_distribution\s*<\s*int\s*>\s*jitterDist\s*\(\s*(\d+)\s*,\s*(\d+)\s*\)", tail)
    m5 = re.search(r"sleep_for\s*\(\s*std::chrono::milliseconds\s*\(\s*backoffMs\s*\)\s*\)\s*;\s*attempt\s*\+\+\s*;\s*$", tail.strip())
    if not ((m3 or m3u) and m4 and m5):
        raise TranslateError("performRequest: back-off (`(1 << std::min(attempt, C)) * B + jitter; sleep_for; attempt++`) not recognised")
    # shiftCap 0 = the exponent is not clamped (`1 << attempt`): int overflow from attempt 25 on — the model's no-overflow obligation fails
    r["shiftCap"] = int(m3.group(1)) if m3 else 0
    r["backoffBase"] = int(m3.group(2)) if m3 else int(m3u.group(1))
    r["jitterLo"], r["jitterHi"] = int(m4.group(1)), int(m4.group(2))
    return r


def extract_execute(src):
    fx = {}
    eb = cxxscan.function_body(src, "executeRequest")
    tbs = try_blocks(eb)
    if len(tbs) != 2:
        raise TranslateError("executeRequest: expected two try blocks (pre-send region, receive loop), found %d" % len(tbs))
    (s1, pre, pre_clauses, e1), (s2, rx, rx_clauses, e2) = tbs
    if not (e1 <= s2):
        raise TranslateError("executeRequest: try blocks are nested")
    head = eb[:s1]
    interesting = ["parseUrl", "acquireLease", "acquireConnection", "setReadMode", "dropConnection", "receiveSync", "frameResponse"] + SEND_CALLS
    fx["beforePreSend"] = calls_in(head, interesting)
    if fx["beforePreSend"] != ["parseUrl", "acquireLease"]:
        raise TranslateError("executeRequest: calls before the pre-send region are %s (expected parseUrl, acquireLease)" % fx["beforePreSend"])
    if not re.search(r"ConnectionLease\s+lease\s*=\s*acquireLease\s*\(\s*hostPort\s*\)\s*;", head):
        raise TranslateError("executeRequest: the lease is not held by a function-scope RAII guard")
    fx["preSendCalls"] = calls_in(pre, interesting)
    if any(c in SEND_CALLS or c in ("receiveSync", "frameResponse") for c in fx["preSendCalls"]):
        raise TranslateError("executeRequest: the pre-send region transmits/receives: %s" % fx["preSendCalls"])
    if fx["preSendCalls"] != ["acquireConnection", "setReadMode", "dropConnection"]:
        raise TranslateError("executeRequest: pre-send region calls are %s" % fx["preSendCalls"])
    mm = re.search(r"if\s*\(\s*!\s*_transport->setReadMode\s*\(\s*sessionId\s*,\s*ReadMode::Sync\s*\)\s*\)\s*\{", pre)
    if not mm:
        raise TranslateError("executeRequest: `if (!setReadMode(sessionId, ReadMode::Sync))` not found")
    blk = pre[mm.end():cxxscan.match_brace(pre, mm.end() - 1)]
    if calls_in(blk, ["dropConnection"]) != ["dropConnection"] or thrown_types(blk) != ["std::runtime_error"]:
        raise TranslateError("executeRequest: sync-mode failure branch is not `dropConnection; throw std::runtime_error`")
    fx["setSyncFailThrow"] = "std::runtime_error"
    pc = []
    for ty, cb in pre_clauses:
        th = thrown_types(cb)
        if len(th) != 1 or re.search(r"\b(return|continue|break)\b", cb):
            raise TranslateError("executeRequest: pre-send catch (%s) is not a single throw" % ty)
        pc.append((ty, "rethrow", "") if th[0] == "rethrow" else (ty, "wrap", th[0]))
    fx["preSendCatch"] = pc
    mid = eb[e1:s2]
    # Between the two try blocks no explicit failure exit other than the send-failure branch exists; the only statements are the
    # assembly of the request text and the sendSync call. (What can still escape here — std::bad_alloc while building the string,
    # std::logic_error from sendSync when called on the client's own I/O thread, which runs no user code — is listed as an assumption.)
    left = mid
    # a log line is not a failure exit (building its text can only throw what building the request text can: see `assumptions`)
    while True:
        lm_ = re.search(r"iora::core::Logger::(?:trace|debug|info|warning|error)\s*\(", left)
        if not lm_:
            break
        pe_ = _match_paren(left, lm_.end() - 1)
        sc_ = _skip_ws(left, pe_ + 1)
        if sc_ >= len(left) or left[sc_] != ";":
            break
        left = left[:lm_.start()] + " " + left[sc_ + 1:]
    for pat in (r"std::ostringstream\s+request\s*;", r"for\s*\(\s*const\s+auto\s*&\s*\[\s*name\s*,\s*value\s*\]\s*:\s*headers\s*\)\s*\{[^{}]*\}",
                r"if\s*\(\s*!\s*body\.empty\(\)\s*\)\s*\{[^{}]*\}", r"request\s*<<[^;]*;", r"std::string\s+requestStr\s*=\s*request\.str\(\)\s*;",
                r"auto\s+sendResult\s*=\s*_transport->sendSync\s*\([^;]*;", r"if\s*\(\s*sendResult\.isErr\(\)\s*\)\s*\{[^{}]*\}",
                # a log line is not a failure exit (building its text can only throw what building the request text can: see `assumptions`)
                r"iora::core::Logger::(?:trace|debug|info|warning|error)\s*\((?:[^;()]|\([^()]*\))*\)\s*;"):
        left = re.sub(pat, " ", left, flags=re.S)
    # plain local declarations (no call except std::max on configuration values)
    rest = []
    for st in left.split(";"):
        st1 = st.strip()
        if not st1:
            continue
        if re.fullmatch(r"(const\s+)?[\w:]+(\s*<[\w:,\s]*>)?\s+\w+(\s*\[\s*\d+\s*\])?(\s*=\s*(false|true|\d+|std::max\s*\(\s*_config\.[\w.]+\s*,\s*_config\.[\w.]+\s*\)))?", st1, re.S):
            continue
        rest.append(st1)
    left = ";".join(rest)
    if left.strip():
        raise TranslateError("executeRequest: unexpected statement between the pre-send region and the receive loop: %r" % left.strip()[:120])
    mid_calls = calls_in(mid, interesting)
    if mid_calls != ["sendSync", "dropConnection"]:
        raise TranslateError("executeRequest: between the pre-send region and the receive loop the calls are %s (expected sendSync, dropConnection)" % mid_calls)
    mm = re.search(r"if\s*\(\s*sendResult\.isErr\(\)\s*\)\s*\{", mid)
    if not mm:
        raise TranslateError("executeRequest: `if (sendResult.isErr())` not found")
    blk = mid[mm.end():cxxscan.match_brace(mid, mm.end() - 1)]
    th = thrown_types(blk)
    if calls_in(blk, ["dropConnection"]) != ["dropConnection"] or len(th) != 1:
        raise TranslateError("executeRequest: send-failure branch is not `dropConnection; throw X`")
    fx["sendFailThrow"] = th[0]
    if thrown_types(mid[:mm.start()]):
        raise TranslateError("executeRequest: throw between the pre-send region and sendSync")
    # ---- receive loop
    if [t for t, _ in rx_clauses] != ["..."]:
        raise TranslateError("executeRequest: receive-loop handler is %s (expected catch (...))" % [t for t, _ in rx_clauses])
    cb = rx_clauses[0][1]
    if calls_in(cb, ["dropConnection"]) != ["dropConnection"] or thrown_types(cb) != ["rethrow"]:
        raise TranslateError("executeRequest: catch (...) is not `dropConnection; throw;`")
    if eb[e2:].strip():
        raise TranslateError("executeRequest: code after the receive-loop handler")
    mm = re.search(r"while\s*\(\s*!\s*complete\s*\)\s*\{", rx)
    if not mm:
        raise TranslateError("executeRequest: `while (!complete)` not found")
    wend = cxxscan.match_brace(rx, mm.end() - 1)
    loop = rx[mm.end():wend]
    if calls_in(loop, ["receiveSync"]) != ["receiveSync"]:
        raise TranslateError("executeRequest: the loop must call receiveSync exactly once per iteration")
    if not re.search(r"receiveSync\s*\(\s*sessionId\s*,\s*buffer\s*,\s*len\s*,\s*sendTimeout\s*\)", loop) or \
       not re.search(r"sendTimeout\s*=\s*_config\.requestTimeout\s*;", eb):
        raise TranslateError("executeRequest: receiveSync is not bounded by _config.requestTimeout")
    im = re.search(r"\bif\s*\(\s*recvResult", loop)
    if not im:
        raise TranslateError("executeRequest: receive branch chain not found")
    chain, cend = if_chain(loop, im.start())
    if loop[cend:].strip():
        raise TranslateError("executeRequest: statements after the receive branch chain")
    branches = []
    for cond, body in chain:
        if cond is None:
            raise TranslateError("executeRequest: receive chain has a bare else")
        c = norm(cond)
        if c == "recvResult.isOk()&&len>0":
            th = thrown_types(body)
            capm = re.search(r"if\s*\(\s*responseData\.size\(\)\s*(>=|>)\s*effectiveCap\s*\)\s*\{\s*throw\s+([\w:]+)\s*\(", body)
            if not capm or th != [capm.group(2)] or calls_in(body, ["frameResponse"]) != ["frameResponse"]:
                raise TranslateError("executeRequest: data branch is not `append; cap check; frameResponse`")
            if body.index("effectiveCap") > body.index("frameResponse"):
                raise TranslateError("executeRequest: cap check after frameResponse")
            fx["capCmp"] = capm.group(1)
            fx["capThrow"] = capm.group(2)
            branches.append(("data", "frame", ""))
            continue
        mm = re.fullmatch(r"recvResult\.isErr\(\)&&recvResult\.error\(\)\.code==TransportError::(\w+)", c)
        if mm:
            code = mm.group(1)
            th = thrown_types(body)
            if code == "PeerClosed" and "CloseDelimited" in body:
                sub, _ = if_chain(body, re.search(r"\bif\s*\(", body).start())
                if len(sub) != 2 or norm(sub[0][0]) != "headersDone&&framing.mode==BodyMode::CloseDelimited" or sub[1][0] is not None:
                    raise TranslateError("executeRequest: PeerClosed branch shape not recognised")
                okb = norm(sub[0][1])
                if "forceEvict=true;" not in okb or "complete=true;" not in okb or thrown_types(sub[0][1]):
                    raise TranslateError("executeRequest: close-delimited completion must set forceEvict and complete")
                th2 = thrown_types(sub[1][1])
                if len(th2) != 1:
                    raise TranslateError("executeRequest: PeerClosed else-branch is not a single throw")
                branches.append((code, "closeDelimitedElse", th2[0]))
                continue
            if len(th) != 1 or re.search(r"\bcomplete\s*=\s*true", body):
                raise TranslateError("executeRequest: %s branch is not a single throw" % code)
            branches.append((code, "throw", th[0]))
            continue
        if c == "recvResult.isErr()":
            th = thrown_types(body)
            if len(th) != 1 or re.search(r"\bcomplete\s*=\s*true", body):
                raise TranslateError("executeRequest: generic-error branch is not a single throw")
            branches.append(("other", "throw", th[0]))
            continue
        raise TranslateError("executeRequest: unrecognised receive branch condition %r" % cond.strip())
    if not branches or branches[0][0] != "data" or branches[-1][0] != "other":
        raise TranslateError("executeRequest: receive chain must start with the data branch and end with the generic error branch")
    fx["recvBranches"] = branches
    # ---- after the loop: reusable decision
    after = rx[wend + 1:]
    mm = re.search(r"const\s+bool\s+reusable\s*=\s*(.*?);", after, re.S)
    if not mm:
        raise TranslateError("executeRequest: `const bool reusable = ...;` not found")
    conj = [norm(x) for x in split_top(mm.group(1), "&&")]
    known = {"_config.reuseConnections": "reuseConnections", "!responseRequestsClose(resp)": "notCloseSignalled",
             "!forceEvict": "notForceEvict", "framing.mode!=BodyMode::CloseDelimited": "notCloseDelimited",
             "!residualDataPending(sessionId)": "noResidue"}
    atoms = []
    for cj in conj:
        if cj not in known:
            raise TranslateError("executeRequest: unrecognised conjunct of `reusable`: %r" % cj)
        atoms.append(known[cj])
    if "noResidue" in atoms:
        # the probe consumes what it finds, so it may only run for a connection that is otherwise kept: last conjunct of `&&`
        if atoms[-1] != "noResidue" or atoms.count("noResidue") != 1:
            raise TranslateError("executeRequest: the residual-data probe must be the last conjunct of `reusable`")
        try:
            rb = norm(cxxscan.function_body(src, "residualDataPending"))
        except ScanError as e:
            raise TranslateError("residualDataPending: %s" % e)
        if "_transport->receiveSync(sessionId,&probe,probeLen,std::chrono::milliseconds(0))" not in rb or \
           not rb.endswith("returnprobeResult.isOk()||probeResult.error().code!=TransportError::Timeout;") or \
           calls_in(rb, ["receiveSync"]) != ["receiveSync"]:
            raise TranslateError("residualDataPending: expected one zero-timeout receiveSync and `return isOk() || code != Timeout`")
    fx["reusableAtoms"] = atoms
    im = re.search(r"\bif\s*\(\s*reusable\s*\)", after)
    if not im:
        raise TranslateError("executeRequest: `if (reusable)` not found")
    chain, cend = if_chain(after, im.start())
    if len(chain) != 2 or chain[1][0] is not None:
        raise TranslateError("executeRequest: `if (reusable) {...} else {...}` shape not recognised")
    keep, drop = chain[0][1], chain[1][1]
    km = re.search(r"if\s*\(\s*!\s*_transport->setReadMode\s*\(\s*sessionId\s*,\s*ReadMode::Async\s*\)\s*\)\s*\{\s*dropConnection\s*\(\s*hostPort\s*,\s*sessionId\s*\)\s*;\s*\}", keep)
    if not km or keep[:km.start()].strip() or keep[km.end():].strip():
        raise TranslateError("executeRequest: reusable branch is not `if (!setReadMode(Async)) dropConnection`")
    if norm(drop) != "dropConnection(hostPort,sessionId);":
        raise TranslateError("executeRequest: non-reusable branch is not `dropConnection`")
    if norm(after[cend:]) != "returnresp;":
        raise TranslateError("executeRequest: expected `return resp;` after the reuse decision")
    return fx


def render(fx):
    t = HEADER % F
    t += "namespace Iora.Gen.HttpRetry\n"
    t += "/-- string literals `isIdempotentMethod` compares with (exact `==`, joined by `||`) -/\n"
    t += "def idempotentMethods : List String := %s\n" % lean_strs(fx["idempotent"])
    t += "/-- public entry points = every function with an `int retries` parameter except performRequest: (function, the ONE request-issuing\n"
    t += "    call in its body, method literal if that call is performRequest, default of `int retries`). Checked by the translator: no try/catch,\n"
    t += "    the call is not in a loop, and its budget argument is the caller's unmodified `retries`. -/\n"
    t += "def entryPoints : List (String × String × String × Int) := [%s]\n" % ", ".join('("%s", "%s", "%s", %d)' % e for e in fx["entries"])
    t += "/-- entry points that throw std::runtime_error when the returned response is not 2xx (`!response.success()`) -/\n"
    t += "def entryFailsOnNon2xx : List String := %s\n" % lean_strs(fx["failsOnNon2xx"])
    t += "/-- exception classes declared in http_client.hpp with their single public base -/\n"
    t += "def exnBases : List (String × String) := %s\n" % lean_pairs(fx["bases"])
    t += "/-- performRequest: caught types in textual order, and what each clause does (`rethrow` | `retry`) -/\n"
    t += "def performCatchOrder : List String := %s\n" % lean_strs(fx["catchOrder"])
    t += "def performCatchActions : List String := %s\n" % lean_strs(fx["catchActions"])
    t += "/-- disjuncts of `retryEligible`: (`idempotent`, _) = isIdempotentMethod(method), (`isa`, T) = dynamic_cast<const T*>(&e) != nullptr -/\n"
    t += "def retryEligibleAtoms : List (String × String) := %s\n" % lean_pairs(fx["retry"]["atoms"])
    t += "/-- the budget test is `attempt <cmp> retries` followed by a rethrow -/\n"
    t += "def budgetCmp : String := \"%s\"\n" % fx["retry"]["budgetCmp"]
    t += "/-- back-off: `(1 << attempt) * backoffBaseMs + uniform(jitterLo, jitterHi)` milliseconds -/\n"
    t += "def backoffBaseMs : Nat := %d\ndef jitterLo : Nat := %d\ndef jitterHi : Nat := %d\n" % (fx["retry"]["backoffBase"], fx["retry"]["jitterLo"], fx["retry"]["jitterHi"])
    t += "/-- the exponent of the back-off is `std::min(attempt, backoffShiftCap)`; 0 = not clamped (`1 << attempt`) -/\n"
    t += "def backoffShiftCap : Nat := %d\n" % fx["retry"]["shiftCap"]
    t += "/-- time-out argument of every timed wait on the request path: (wait, expression). `localMinConnectTimeoutCap` =\n"
    t += "    min(connectTimeout, localConnectCapMs) for a loopback address, connectTimeout otherwise; `zero` = the residual-data probe -/\n"
    t += "def timedWaits : List (String × String) := %s\n" % lean_pairs(fx["timedWaits"])
    t += "/-- `char buffer[N]` of executeRequest: one receiveSync hands over at most N bytes -/\n"
    t += "def recvBufferSize : Nat := %d\n" % fx["recvBufferSize"]
    t += "/-- Transport::receiveSync returns ok only from `if (!buf->data.empty())` with min(len, size) >= 1 bytes -/\n"
    t += "def receiveOkHasBytes : Bool := %s\n" % lean_bool(fx["receiveOkHasBytes"])
    t += "/-- executeRequest: calls before the pre-send `try`, calls inside it, its catch clauses in order -/\n"
    t += "def beforePreSend : List String := %s\n" % lean_strs(fx["beforePreSend"])
    t += "def preSendCalls : List String := %s\n" % lean_strs(fx["preSendCalls"])
    t += "/-- (caught type, `rethrow` | `wrap`, type thrown instead) -/\n"
    t += "def preSendCatch : List (String × String × String) := %s\n" % lean_triples(fx["preSendCatch"])
    t += "/-- types thrown by the failure exits (all of them call dropConnection first, checked by the translator) -/\n"
    t += "def urlFailThrow : String := \"%s\"\n" % fx["urlFailThrow"]
    t += "def leaseFailThrow : String := \"%s\"\n" % fx["leaseFailThrow"]
    t += "def connectFailThrow : String := \"%s\"\n" % fx["connectFailThrow"]
    t += "def setSyncFailThrow : String := \"%s\"\n" % fx["setSyncFailThrow"]
    t += "def sendFailThrow : String := \"%s\"\n" % fx["sendFailThrow"]
    t += "def capThrow : String := \"%s\"\n" % fx["capThrow"]
    t += "def capCmp : String := \"%s\"\n" % fx["capCmp"]
    t += "/-- receive loop: branch chain in order. `data` = ok && len>0 (cap check, frameResponse); other keys are TransportError codes;\n"
    t += "    `other` = the final `isErr()` branch. Action (`throw`, T) or (`closeDelimitedElse`, T) (complete a close-delimited body, else throw T) -/\n"
    t += "def recvBranches : List (String × String × String) := %s\n" % lean_triples(fx["recvBranches"])
    t += "/-- every exception type thrown by frameResponse/parseHeaderBlock/determineFraming/parseContentLength/advanceChunked -/\n"
    t += "def framingFnThrows : List String := %s\n" % lean_strs(fx["framingFnThrows"])
    t += "/-- advanceChunked: disjuncts of the `return Malformed` test that follows the chunk-size parse; does it precede the wait for the chunk data -/\n"
    t += "def chunkSizeReject : List String := %s\n" % lean_strs(fx["chunkSizeReject"])
    t += "def chunkRejectBeforeDataWait : Bool := %s\n" % lean_bool(fx["chunkRejectBeforeDataWait"])
    t += "/-- conjuncts of `reusable` -/\n"
    t += "def reusableAtoms : List String := %s\n" % lean_strs(fx["reusableAtoms"])
    t += "/-- Config() defaults -/\n"
    t += "def connectTimeoutMs : Nat := %d\ndef requestTimeoutMs : Nat := %d\ndef leaseAcquireTimeoutMs : Nat := %d\n" % (fx["connectTimeoutMs"], fx["requestTimeoutMs"], fx["leaseAcquireTimeoutMs"])
    t += "def localConnectCapMs : Nat := %d\n" % fx["localConnectCapMs"]
    t += "def reuseConnectionsDefault : Bool := %s\n" % lean_bool(fx["reuseDefault"])
    t += "/-- parseUrl: default ports, the port conversion `static_cast<std::uint16_t>(std::stoi(...))` (stoi: `int`, throws std::out_of_range beyond it; the cast wraps) -/\n"
    t += "def defaultPortHttp : Nat := %d\ndef defaultPortHttps : Nat := %d\ndef portParseMax : Nat := %d\ndef portCastModulus : Nat := %d\n" % (
        fx["defaultPortHttp"], fx["defaultPortHttps"], fx["portParseMax"], fx["portCastModulus"])
    t += "def portRangeThrow : String := \"%s\"\n" % fx["portRangeThrow"]
    t += "/-- acquireLease: form of the timed wait (`wait_for_pred` = `_cv.wait_for(lock, _config.leaseAcquireTimeout, available)`: one absolute deadline) -/\n"
    t += "def leaseWaitForm : String := \"%s\"\n" % fx["leaseWaitForm"]
    t += "/-- cleanup(): its steps in source order -/\n"
    t += "def cleanupSteps : List String := %s\n" % lean_strs(fx["cleanupSteps"])
    t += "/-- performRequest calls ensureInitialized() (under _mutex) before its loop; what that throws when Transport::start() fails -/\n"
    t += "def startFailThrow : String := \"%s\"\n" % fx["startFailThrow"]
    t += "/-- EVERY call site of performRequest / executeRequest in http_client.hpp and http_client_pool.hpp: (calling function, callee) -/\n"
    t += "def requestCallers : List (String × String) := %s\n" % lean_pairs(fx["requestCallers"])
    t += "end Iora.Gen.HttpRetry\n"
    return t
