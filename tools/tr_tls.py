"""Translator unit `tls` -> Gen/TlsCalls.lean (C07).

Extracts, from the working tree, the OpenSSL configuration calls of `TcpEngine::initTls`, `applyTls12Floor`,
`doConnect`, `doAddListener`, `onListener` (with their literal arguments and the guards they sit under), the
handshake/announce guards of `driveHandshake` / `onSession` / `doSend`, and the TLS field mappings of
`HttpClient::ensureInitialized` / `acquireConnection` and `HttpServer::start` / `enableTls`.

The output is DATA of the types in Model/TlsTypes.lean; `Model/TlsPlan.lean` *interprets* it, so a removed call,
a changed flag, a dropped guard or a swapped comparison changes the model and breaks the C07 theorems.
Every statement of the scanned regions must be classified: an unknown shape raises TranslateError.
"""
import os, re
import cxxscan
from translate import TranslateError, HEADER, read

ENGINE = "include/iora/network/detail/tcp_engine.hpp"
HCLIENT = "include/iora/network/http_client.hpp"
HSERVER = "include/iora/network/http_server.hpp"
TYPES = "include/iora/network/transport_types.hpp"
UDPENGINE = "include/iora/network/detail/udp_engine.hpp"
SERVICE = "include/iora/iora.hpp"


# ------------------------------------------------------------------ a small statement-tree parser
def blank_strings(src):
    """Replace the contents of string / char literals by spaces (quotes kept) so that brackets can be matched naively."""
    out = []
    i, n = 0, len(src)
    while i < n:
        c = src[i]
        if c == '"' or c == "'":
            j = i + 1
            while j < n and src[j] != c:
                if src[j] == "\\":
                    j += 1
                j += 1
            out.append(c + " " * (j - i - 1) + c)
            i = j + 1
        else:
            out.append(c)
            i += 1
    return "".join(out)


def norm(s):
    return re.sub(r"\s+", " ", s).strip()


def _match(src, i, op, cl):
    depth = 0
    n = len(src)
    while i < n:
        if src[i] == op:
            depth += 1
        elif src[i] == cl:
            depth -= 1
            if depth == 0:
                return i
        i += 1
    raise TranslateError("unbalanced %s%s" % (op, cl))


def parse_stmts(src):
    """src: comment-stripped, string-blanked text of a block body -> list of nodes
    ("if", cond, then_nodes, else_nodes) | ("loop", header, body_nodes) | ("stmt", text)."""
    nodes = []
    i, n = 0, len(src)
    while i < n:
        while i < n and src[i].isspace():
            i += 1
        if i >= n:
            break
        m = re.match(r"(if|for|while|switch)\b\s*\(", src[i:])
        if m:
            kw = m.group(1)
            p0 = i + m.end() - 1
            p1 = _match(src, p0, "(", ")")
            cond = norm(src[p0 + 1:p1])
            body, j = _parse_body(src, p1 + 1)
            if kw == "if":
                els = []
                k = j
                while k < n and src[k].isspace():
                    k += 1
                if re.match(r"else\b", src[k:]):
                    els, j = _parse_body(src, k + 4)
                nodes.append(("if", cond, body, els))
            else:
                nodes.append(("loop", kw + " " + cond, body))
            i = j
            continue
        if src[i] == "{":
            e = _match(src, i, "{", "}")
            nodes += parse_stmts(src[i + 1:e])
            i = e + 1
            continue
        m = re.match(r"try\b\s*\{", src[i:])
        if m:
            o = i + m.end() - 1
            e = _match(src, o, "{", "}")
            nodes += parse_stmts(src[o + 1:e])
            i = e + 1
            continue
        m = re.match(r"catch\b\s*\(", src[i:])
        if m:
            p0 = i + m.end() - 1
            p1 = _match(src, p0, "(", ")")
            body, j = _parse_body(src, p1 + 1)
            nodes.append(("loop", "catch " + norm(src[p0 + 1:p1]), body))
            i = j
            continue
        # plain statement: up to ';' at bracket depth 0
        j = i
        dp = db = 0
        while j < n:
            ch = src[j]
            if ch == "(":
                dp += 1
            elif ch == ")":
                dp -= 1
            elif ch == "{":
                db += 1
            elif ch == "}":
                db -= 1
            elif ch == ";" and dp == 0 and db == 0:
                break
            j += 1
        text = norm(src[i:j])
        if text:
            nodes.append(("stmt", text))
        i = j + 1
    return nodes


def _parse_body(src, i):
    n = len(src)
    while i < n and src[i].isspace():
        i += 1
    if i < n and src[i] == "{":
        e = _match(src, i, "{", "}")
        return parse_stmts(src[i + 1:e]), e + 1
    # single statement body (may itself be an if)
    m = re.match(r"(if|for|while|switch)\b\s*\(", src[i:])
    if m:
        p1 = _match(src, i + m.end() - 1, "(", ")")
        _, j = _parse_body(src, p1 + 1)
        k = j
        while k < n and src[k].isspace():
            k += 1
        while re.match(r"else\b", src[k:]):
            _, j = _parse_body(src, k + 4)
            k = j
            while k < n and src[k].isspace():
                k += 1
        return parse_stmts(src[i:j]), j
    j = i
    dp = db = 0
    while j < n:
        ch = src[j]
        if ch == "(":
            dp += 1
        elif ch == ")":
            dp -= 1
        elif ch == "{":
            db += 1
        elif ch == "}":
            db -= 1
        elif ch == ";" and dp == 0 and db == 0:
            break
        j += 1
    return parse_stmts(src[i:j + 1]), j + 1


SIGS = {
    "initTls": r"bool initTls\(\)",
    "applyTls12Floor": r"static void applyTls12Floor\(::SSL_CTX \*ctx, int configuredMin\)",
    "doConnect": r"bool doConnect\(const ConnectReq &cr\)",
    "doAddListener": r"bool doAddListener\(const ListenerCfg &lc\)",
    "onListener": r"void onListener\(Listener \*lst\)",
    "driveHandshake": r"bool driveHandshake\(Session \*s\)",
    "doSend": r"void doSend\(SendReq &&?\w+\)|void doSend\(SendReq \w+\)|void doSend\(const SendReq &\w+\)",
    "onSession": r"void onSession\(Session \*s, std::uint32_t events\)",
    "writePending": r"void writePending\(Session \*s\)",
    "ensureInitialized": r"void ensureInitialized\(\) const",
    "acquireConnection": r"SessionId acquireConnection\(const ParsedUrl &parsedUrl\)",
    "resolveHostAddress": r"std::string resolveHostAddress\(const ParsedUrl &parsedUrl\) const",
    "parseUrl": r"ParsedUrl parseUrl\(const std::string &url\) const",
    "setTlsConfig": r"void setTlsConfig\(const TlsConfig &config\)",
    "start": r"void start\(\)",
    "enableTls": r"void enableTls\(const TlsConfig &config\)",
    "readAvail": r"void readAvail\(Session \*s\)",
    "stop": r"void stop\(\)",
    "udpConnect": r"ConnectResult connect\(const std::string &host, std::uint16_t port, TlsMode tls\) override",
    "udpAddListener": r"ListenResult addListener\(const std::string &bind, std::uint16_t port, TlsMode tls\) override",
}


def raw_body(src, name):
    """Body of the member function DEFINITION `name` (found by its signature, never a call site)."""
    hits = [m for m in re.finditer(r"(?:%s)\s*\{" % SIGS[name], src)]
    if len(hits) != 1:
        raise TranslateError("definition of %s: expected exactly one match of its signature, found %d" % (name, len(hits)))
    o = hits[0].end() - 1
    return src[o + 1:cxxscan.match_brace(src, o)]


def body_of(src, name):
    return blank_strings(raw_body(src, name))


# ------------------------------------------------------------------ guards
class Gd:
    """guard formula; rendered as a Lean term of type Iora.Tls.G"""
    def __init__(self, kind, *args):
        self.kind, self.args = kind, args
    def lean(self):
        k, a = self.kind, self.args
        if k in ("tt", "ff"):
            return ".%s" % k
        if k == "atom":
            return "(.atom %s)" % a[0]
        if k == "not":
            return "(.not %s)" % a[0].lean()
        return "(.%s %s %s)" % (k, a[0].lean(), a[1].lean())


TT, FF = Gd("tt"), Gd("ff")


def g_and(a, b):
    if a.kind == "tt":
        return b
    if b.kind == "tt":
        return a
    return Gd("and", a, b)


def g_not(a):
    return Gd("not", a)


MODES = {"None": ".none", "Server": ".server", "Client": ".client"}


def split_top(expr, op):
    """split on a top-level binary operator (&& or ||)"""
    parts, depth, cur, i = [], 0, [], 0
    while i < len(expr):
        c = expr[i]
        if c in "([":
            depth += 1
        elif c in ")]":
            depth -= 1
        if depth == 0 and expr.startswith(op, i):
            parts.append("".join(cur))
            cur = []
            i += len(op)
            continue
        cur.append(c)
        i += 1
    parts.append("".join(cur))
    return [p.strip() for p in parts]


def strip_parens(e):
    e = e.strip()
    while e.startswith("(") and _match(e, 0, "(", ")") == len(e) - 1:
        e = e[1:-1].strip()
    return e


def parse_guard(expr, side, reqvar):
    """C++ condition -> Gd. `side` = 'server'|'client' (which _config.<side>Tls is meant), `reqvar` = 'cr.tls' etc."""
    e = strip_parens(norm(expr))
    parts = split_top(e, "||")
    if len(parts) > 1:
        g = parse_guard(parts[0], side, reqvar)
        for p in parts[1:]:
            g = Gd("or", g, parse_guard(p, side, reqvar))
        return g
    parts = split_top(e, "&&")
    if len(parts) > 1:
        g = parse_guard(parts[0], side, reqvar)
        for p in parts[1:]:
            g = Gd("and", g, parse_guard(p, side, reqvar))
        return g
    if e.startswith("!") and not e.startswith("!="):
        inner = strip_parens(e[1:])
        m = re.fullmatch(r"_config\.%sTls\.(\w+)\.empty\(\)" % side, inner)
        if m:
            f = {"certFile": ".certFileSet", "keyFile": ".keyFileSet", "caFile": ".caFileSet", "caPath": ".caPathSet",
                 "ciphers": ".ciphersSet", "alpn": ".alpnSet"}.get(m.group(1))
            if not f:
                raise TranslateError("guard on unknown TlsConfig field: %r" % e)
            return Gd("atom", f)
        return g_not(parse_guard(inner, side, reqvar))
    cfg = r"_config\.%sTls\." % side
    if re.fullmatch(cfg + "enabled", e):
        return Gd("atom", ".enabled")
    if re.fullmatch(cfg + "verifyPeer", e):
        return Gd("atom", ".verifyPeer")
    m = re.fullmatch(cfg + r"defaultMode == TlsMode::(\w+)", e)
    if m and m.group(1) in MODES:
        return Gd("atom", "(.defaultModeIs %s)" % MODES[m.group(1)])
    m = re.fullmatch(cfg + r"verifyDepth > 0", e)
    if m:
        return Gd("atom", ".verifyDepthPositive")
    if reqvar:
        m = re.fullmatch(re.escape(reqvar) + r" (==|!=) TlsMode::(\w+)", e)
        if m and m.group(2) in MODES:
            a = Gd("atom", "(.reqIs %s)" % MODES[m.group(2)])
            return a if m.group(1) == "==" else g_not(a)
    if e == ("_sslSrv" if side == "server" else "_sslCli"):
        return Gd("atom", ".ctxPresent")
    if e == "isIPv4":
        return Gd("atom", ".hostIsIPv4")
    if e == "isIPv6":
        return Gd("atom", ".hostIsIPv6")
    raise TranslateError("unrecognised guard condition (%s side): %r" % (side, e))


# ------------------------------------------------------------------ initTls
FLAG = {"SSL_VERIFY_PEER": ".peer", "SSL_VERIFY_FAIL_IF_NO_PEER_CERT": ".failIfNoPeerCert",
        "SSL_VERIFY_CLIENT_ONCE": ".clientOnce", "SSL_VERIFY_POST_HANDSHAKE": ".postHandshake", "SSL_VERIFY_NONE": None}


def only_failure_reporting(nodes):
    """then-branch of a fail-fast check: setLastFatal/err/(log) ... return false"""
    saw_ret = False
    for nd in nodes:
        if nd[0] != "stmt":
            return False
        t = nd[1]
        if t == "return false":
            saw_ret = True
        elif not re.match(r"(setLastFatal|err|IORA_LOG_\w+|iora::core::Logger::\w+)\s*\(", t):
            return False
    return saw_ret


def fail_cond_facts(cond, side, ctxvar):
    """condition of a fail-fast `if` -> list of EnvFact names, 'alloc', or None (= it is a configuration guard)."""
    c = norm(cond)
    cfg = r"_config\.%sTls\." % side
    cv = re.escape(ctxvar)
    pats = [
        (r"!%s" % cv, "alloc"),
        (r"::access\(%scertFile\.c_str\(\), R_OK\) != 0" % cfg, [".certReadable"]),
        (r"::access\(%skeyFile\.c_str\(\), R_OK\) != 0" % cfg, [".keyReadable"]),
        (r"::SSL_CTX_use_certificate_file\(%s, %scertFile\.c_str\(\), SSL_FILETYPE_PEM\) != 1 \|\| "
         r"::SSL_CTX_use_PrivateKey_file\(%s, %skeyFile\.c_str\(\), SSL_FILETYPE_PEM\) != 1" % (cv, cfg, cv, cfg), [".certLoads", ".keyLoads"]),
        (r"::SSL_CTX_use_certificate_file\(%s, %scertFile\.c_str\(\), SSL_FILETYPE_PEM\) != 1" % (cv, cfg), [".certLoads"]),
        (r"::SSL_CTX_use_PrivateKey_file\(%s, %skeyFile\.c_str\(\), SSL_FILETYPE_PEM\) != 1" % (cv, cfg), [".keyLoads"]),
        (r"::SSL_CTX_check_private_key\(%s\) != 1" % cv, [".keyMatches"]),
        (r"::SSL_CTX_load_verify_locations\(%s, %scaFile\.empty\(\) \? nullptr : %scaFile\.c_str\(\), "
         r"%scaPath\.empty\(\) \? nullptr : %scaPath\.c_str\(\)\) != 1" % (cv, cfg, cfg, cfg, cfg), [".caLoads"]),
    ]
    for p, f in pats:
        if re.fullmatch(p, c):
            return f
    if "SSL_" in c or "::access" in c or "X509" in c:
        raise TranslateError("initTls(%s): unrecognised fail-fast check: %r" % (side, c))
    return None


def walk_ctx(nodes, path, side, ctxvar, steps, info):
    cfg = r"_config\.%sTls\." % side
    cv = re.escape(ctxvar)
    for nd in nodes:
        if nd[0] == "loop":
            raise TranslateError("initTls(%s): unexpected loop %r" % (side, nd[1]))
        if nd[0] == "if":
            _, cond, thn, els = nd
            # expiry check: if (X509 *c = SSL_CTX_get0_certificate(ctx)) { int cmp = X509_cmp_time(X509_get0_notAfter(c), nullptr); if (cmp == 0 || cmp < 0) {fail} }
            m = re.fullmatch(r"X509 \*(\w+) = ::SSL_CTX_get0_certificate\(%s\)" % cv, cond)
            if m:
                var = m.group(1)
                ok = (len(thn) == 2 and thn[0] == ("stmt", "int cmp = ::X509_cmp_time(::X509_get0_notAfter(%s), nullptr)" % var)
                      and thn[1][0] == "if" and thn[1][1] in ("cmp == 0 || cmp < 0", "cmp <= 0") and only_failure_reporting(thn[1][2])
                      and not thn[1][3] and not els)
                if not ok:
                    raise TranslateError("initTls(%s): unrecognised certificate-expiry check" % side)
                steps.append((path, "(.require .certNotExpired)"))
                continue
            if only_failure_reporting(thn):
                facts = fail_cond_facts(cond, side, ctxvar)
                if facts == "alloc":
                    if els:
                        raise TranslateError("initTls(%s): else after allocation check" % side)
                    continue
                if facts is not None:
                    if els:
                        raise TranslateError("initTls(%s): else-branch after fail-fast check %r" % (side, cond))
                    for f in facts:
                        steps.append((path, "(.require %s)" % f))
                    continue
                g = parse_guard(cond, side, None)
                steps.append((g_and(path, g), ".fail"))
                walk_ctx(els, g_and(path, g_not(g)), side, ctxvar, steps, info)
                continue
            if "SSL_" in cond or "::access" in cond:
                facts = fail_cond_facts(cond, side, ctxvar)
                raise TranslateError("initTls(%s): check %r is not followed by a plain failure return" % (side, cond))
            g = parse_guard(cond, side, None)
            walk_ctx(thn, g_and(path, g), side, ctxvar, steps, info)
            walk_ctx(els, g_and(path, g_not(g)), side, ctxvar, steps, info)
            continue
        t = nd[1]
        m = re.fullmatch(r"%s = ::SSL_CTX_new\((TLS_\w+_method)\(\)\)" % cv, t)
        if m:
            info["method"] = m.group(1)
            continue
        m = re.fullmatch(r"::SSL_CTX_set_verify\(%s, ([A-Z_| ]+), nullptr\)" % cv, t)
        if m:
            flags = []
            for f in m.group(1).split("|"):
                f = f.strip()
                if f not in FLAG:
                    raise TranslateError("initTls(%s): unknown verify flag %r" % (side, f))
                if FLAG[f]:
                    flags.append(FLAG[f])
            steps.append((path, "(.setVerify [%s])" % ", ".join(flags)))
            continue
        if re.fullmatch(r"::SSL_CTX_set_default_verify_paths\(%s\)" % cv, t):
            steps.append((path, ".defaultVerifyPaths"))
            continue
        m = re.fullmatch(r"applyTls12Floor\(%s, %sminVersion\)" % (cv, cfg), t)
        if m:
            steps.append((path, ".applyFloor"))
            continue
        if t == "return false":
            steps.append((path, ".fail"))
            continue
        m = re.fullmatch(r"::SSL_CTX_set_cipher_list\(%s, %sciphers\.c_str\(\)\)" % (cv, cfg), t)
        if m:
            steps.append((path, ".setCipherList"))
            continue
        m = re.fullmatch(r"::SSL_CTX_set_verify_depth\(%s, %sverifyDepth\)" % (cv, cfg), t)
        if m:
            steps.append((path, ".setVerifyDepth"))
            continue
        if re.match(r"\(void\) ?::SSL_CTX_set_alpn_(select_cb|protos)\( ?%s," % cv, t):
            steps.append((path, '(.other "SSL_CTX_set_alpn")'))
            continue
        if re.match(r"(_alpnPref\.clear\(\)|buildAlpnWire\(|std::vector<unsigned char> wire$|setLastFatal\(|err\()", t):
            continue
        raise TranslateError("initTls(%s): unclassified statement %r" % (side, t))


def ctx_blocks(body):
    nodes = parse_stmts(body)
    blocks = {}
    for nd in nodes:
        if nd[0] == "if":
            m = re.fullmatch(r"_config\.(server|client)Tls\.enabled && _config\.(server|client)Tls\.defaultMode == TlsMode::(\w+)", nd[1])
            if not m or m.group(1) != m.group(2):
                # tolerate other conjunct orders / fewer conjuncts through the generic guard parser
                sm = re.search(r"_config\.(server|client)Tls\.", nd[1])
                if not sm:
                    raise TranslateError("initTls: unexpected top-level condition %r" % nd[1])
                side = sm.group(1)
            else:
                side = m.group(1)
            if nd[3]:
                raise TranslateError("initTls: else-branch on the %s context block" % side)
            if side in blocks:
                raise TranslateError("initTls: two %s context blocks" % side)
            create = parse_guard(nd[1], side, None)
            steps, info = [], {}
            walk_ctx(nd[2], TT, side, "_sslSrv" if side == "server" else "_sslCli", steps, info)
            if "method" not in info:
                raise TranslateError("initTls: %s block creates no context" % side)
            blocks[side] = (create, info["method"], steps)
        elif nd == ("stmt", "return true"):
            continue
        else:
            raise TranslateError("initTls: unexpected top-level statement %r" % (nd[1],))
    for s in ("server", "client"):
        if s not in blocks:
            raise TranslateError("initTls: no %s context block" % s)
    return blocks


def lean_block(name, blk, doc):
    create, method, steps = blk
    t = "/-- %s -/\n" % doc
    t += "def %s : CtxBlock :=\n  { create := %s\n    method := \"%s\"\n    steps := [\n" % (name, create.lean(), method)
    t += ",\n".join("      ⟨%s, %s⟩" % (g.lean(), a) for g, a in steps)
    t += "] }\n"
    return t


# ------------------------------------------------------------------ floor
def floor_facts(src):
    body = norm(body_of(src, "applyTls12Floor"))
    m = re.fullmatch(r"const int minVer = configuredMin (<|<=|>|>=) (\w+) \? (\w+) : (\w+); ::SSL_CTX_set_min_proto_version\(ctx, minVer\);"
                     r"( if \(::SSL_CTX_get_min_proto_version\(ctx\) (<|<=) (\w+)\) \{ ::SSL_CTX_set_min_proto_version\(ctx, (\w+)\); \})?", body)
    if not m:
        raise TranslateError("applyTls12Floor: unexpected shape: %r" % body)
    cmp_, k, a, b = m.groups()[:4]
    readback = None
    if m.group(5):
        # `if (get_min(ctx) < K1) set_min(ctx, K2)`: the effective minimum is read back and repaired
        if m.group(6) != "<":
            raise TranslateError("applyTls12Floor: unexpected read-back comparison %r" % m.group(6))
        readback = (openssl_const(m.group(7)), openssl_const(m.group(8)))
    arms = []
    for x in (a, b):
        if x == k:
            arms.append(".const")
        elif x == "configuredMin":
            arms.append(".arg")
        else:
            raise TranslateError("applyTls12Floor: unexpected arm %r" % x)
    return {"<": ".lt", "<=": ".le", ">": ".gt", ">=": ".ge"}[cmp_], k, openssl_const(k), arms, readback


def openssl_const(name):
    for hdr in ("/usr/include/openssl/prov_ssl.h", "/usr/include/openssl/tls1.h", "/usr/include/openssl/ssl.h"):
        try:
            txt = open(hdr).read()
        except OSError:
            continue
        m = re.search(r"#\s*define\s+%s\s+(0x[0-9a-fA-F]+|\d+)\b" % re.escape(name), txt)
        if m:
            return int(m.group(1), 0)
    raise TranslateError("OpenSSL constant %s not found in the installed headers" % name)


# ------------------------------------------------------------------ doConnect / doAddListener / onListener
SSL_SESSION_OK = {"SSL_new", "SSL_set_fd", "SSL_set_connect_state", "SSL_set_accept_state", "SSL_free", "SSL_set_tlsext_host_name", "SSL_set1_host"}


def find_paths(nodes, pred, path=()):
    """all (path, node) with pred(node); path = tuple of ('if'|'else'|'loop', cond)"""
    out = []
    for nd in nodes:
        if pred(nd):
            out.append((path, nd))
        if nd[0] == "if":
            out += find_paths(nd[2], pred, path + (("if", nd[1]),))
            out += find_paths(nd[3], pred, path + (("else", nd[1]),))
        elif nd[0] == "loop":
            out += find_paths(nd[2], pred, path + (("loop", nd[1]),))
    return out


def path_guard(path, side, reqvar):
    g = TT
    for kind, cond in path:
        if kind == "loop":
            continue
        c = parse_guard(cond, side, reqvar)
        g = g_and(g, c if kind == "if" else g_not(c))
    return g


def text_of(nd):
    if nd[0] == "stmt":
        return nd[1]
    return nd[1]


def ssl_calls_in(nodes):
    names = []
    def rec(ns):
        for nd in ns:
            names.extend(re.findall(r"(?<![\w])(?:::)?((?:SSL|X509)_\w+)\s*\(", nd[1]))
            if nd[0] == "if":
                rec(nd[2]); rec(nd[3])
            elif nd[0] == "loop":
                rec(nd[2])
    rec(nodes)
    return names


def refusal_guard(nodes, reqvar, side, fn, before_index):
    """top-level `if (<cond mentioning reqvar>) { ... return false; }` that precede node index `before_index`."""
    g = FF
    for i, nd in enumerate(nodes[:before_index]):
        if nd[0] == "if" and reqvar in nd[1]:
            rets = find_paths(nd[2], lambda x: x == ("stmt", "return false"))
            if not rets or any(p for p, _ in rets) or nd[3]:
                raise TranslateError("%s: condition on %s that is not a plain refusal: %r" % (fn, reqvar, nd[1]))
            if ssl_calls_in(nd[2]):
                raise TranslateError("%s: OpenSSL call inside the refusal branch" % fn)
            c = parse_guard(nd[1], side, reqvar)
            g = c if g.kind == "ff" else Gd("or", g, c)
    return g


BLOCK_STMT_OK = [
    r"s->tlsMode = TlsMode::(Client|Server)$", r"s->ssl = ::SSL_new\(_ssl(Cli|Srv)\)$", r"::SSL_set_fd\(s->ssl, cfd\)$",
    r"::SSL_set_(connect|accept)_state\(s->ssl\)$", r"s->tlsState = TlsState::Handshake$", r"s->tlsStart = MonoClock::now\(\)$",
    r"s->tlsWantWrite = true$", r"scheduleHandshakeTimeout\(s\.get\(\)\)$",
    r"::SSL_set_tlsext_host_name\(s->ssl, cr\.host\.c_str\(\)\)$", r"\(void\)::SSL_set_tlsext_host_name\(s->ssl, cr\.host\.c_str\(\)\)$",
    r"::SSL_set1_host\(s->ssl, cr\.host\.c_str\(\)\)$",
    # failure reporting of a connect/accept that ends here
    r"decltype\(_cbs\.onClose\) closeCb$", r"std::lock_guard<std::mutex> g\(_cbMutex\)$", r"closeCb = _cbs\.onClose$",
    r"closeCb\(cr\.sid, TransportErrorInfo\{TransportError::TLSHandshake, \" *\"\}\)$", r"err\(TransportError::TLSHandshake, \" *\"\)$",
    r"cancelConnectTimeout\(s\.get\(\)\)$", r"::SSL_free\(s->ssl\)$", r"::close\(cfd\)$", r"return false$", r"continue$",
]
BLOCK_COND_OK = [r"!s->ssl$", r"closeCb$", r"!isIPv4 && !isIPv6$", r"_config\.clientTls\.verifyPeer$",
                 r"_config\.clientTls\.verifyPeer && ::SSL_set1_host\(s->ssl, cr\.host\.c_str\(\)\) != 1$"]


def classify_block(nodes, fn):
    """every statement inside an SSL_new block must be a known one: an unknown call (prefixed or not) is a broken tie"""
    for nd in nodes:
        if nd[0] == "stmt":
            if not any(re.match(pt, nd[1]) for pt in BLOCK_STMT_OK):
                raise TranslateError("%s: unclassified statement inside the SSL_new block: %r" % (fn, nd[1]))
        elif nd[0] == "if":
            if not any(re.match(pt, nd[1]) for pt in BLOCK_COND_OK):
                raise TranslateError("%s: unclassified condition inside the SSL_new block: %r" % (fn, nd[1]))
            classify_block(nd[2], fn)
            classify_block(nd[3], fn)
        else:
            raise TranslateError("%s: loop inside the SSL_new block" % fn)


def connect_site(src):
    nodes = parse_stmts(body_of(src, "doConnect"))
    idx = [i for i, nd in enumerate(nodes) if nd[0] == "if" and find_paths(nd[2], lambda x: x[0] == "stmt" and "::SSL_new(" in x[1])]
    news = find_paths(nodes, lambda x: x[0] == "stmt" and "::SSL_new(" in x[1])
    if len(news) != 1 or len(idx) != 1 or len(news[0][0]) != 1:
        raise TranslateError("doConnect: expected exactly one SSL_new directly inside one top-level if")
    if news[0][1][1] != "s->ssl = ::SSL_new(_sslCli)":
        raise TranslateError("doConnect: unexpected SSL_new statement %r" % news[0][1][1])
    blk = nodes[idx[0]]
    if blk[3]:
        raise TranslateError("doConnect: the SSL_new block has an else-branch (unmodelled)")
    ssl_new = parse_guard(blk[1], "client", "cr.tls")
    classify_block(blk[2], "doConnect")
    # the session is inserted unconditionally after the block (plain session when the guard is false)
    after = nodes[idx[0] + 1:]
    if not find_paths(after, lambda x: x[0] == "stmt" and "_sessions.emplace(" in x[1] and True) or \
       any(p for p, _ in find_paths(after, lambda x: x[0] == "stmt" and "_sessions.emplace(" in x[1])):
        raise TranslateError("doConnect: session insertion after the TLS block is not unconditional")
    refuse = refusal_guard(nodes, "cr.tls", "client", "doConnect", idx[0])
    # any other mention of cr.tls before the block must be a refusal; after the block only the immediate-connect test for None
    unknown = [c for c in ssl_calls_in(nodes) if c not in SSL_SESSION_OK]
    if unknown:
        raise TranslateError("doConnect: unmodelled OpenSSL call(s) %s" % sorted(set(unknown)))
    # SNI / host binding inside the block
    def host_call(fn):
        hits = find_paths(blk[2], lambda x: ("::%s(" % fn) in x[1])
        if not hits:
            return FF, False
        if len(hits) != 1:
            raise TranslateError("doConnect: %s called more than once" % fn)
        path, nd = hits[0]
        g = path_guard(path, "client", "cr.tls")
        call = "::%s(s->ssl, cr.host.c_str())" % fn
        if nd[0] == "stmt":
            if nd[1] != call and nd[1] != "(void)" + call:
                raise TranslateError("doConnect: unexpected %s call %r" % (fn, nd[1]))
            return g, False
        if nd[0] == "if":
            # `<guard> && ::fn(...) != 1` with a branch that ends the connect
            parts = split_top(nd[1], "&&")
            if parts[-1] != call + " != 1" or nd[3]:
                raise TranslateError("doConnect: unexpected %s condition %r" % (fn, nd[1]))
            for p in parts[:-1]:
                g = g_and(g, parse_guard(p, "client", "cr.tls"))
            rets = find_paths(nd[2], lambda x: x == ("stmt", "return false"))
            closes = find_paths(nd[2], lambda x: x[0] == "stmt" and x[1].startswith("::close(cfd"))
            if len(rets) != 1 or rets[0][0] or not closes:
                raise TranslateError("doConnect: a failing %s does not end the connect" % fn)
            return g, True
        raise TranslateError("doConnect: %s in unexpected position" % fn)
    sni, _ = host_call("SSL_set_tlsext_host_name")
    s1h, fc = host_call("SSL_set1_host")
    # isIPv4 / isIPv6 really are inet_pton tests of cr.host
    flat = norm(body_of(src, "doConnect"))
    for v, fam in (("isIPv4", "AF_INET"), ("isIPv6", "AF_INET6")):
        if not re.search(r"bool %s = \(inet_pton\(%s, cr\.host\.c_str\(\), &\(\w+\.\w+\)\) == 1\)" % (v, fam), flat):
            raise TranslateError("doConnect: %s is not the inet_pton test of cr.host" % v)
    return refuse, ssl_new, sni, s1h, fc


def listen_site(src):
    nodes = parse_stmts(body_of(src, "doAddListener"))
    mk = [i for i, nd in enumerate(nodes) if nd[0] == "stmt" and "std::make_unique<Listener>" in nd[1]]
    if len(mk) != 1:
        raise TranslateError("doAddListener: listener creation not found")
    if ssl_calls_in(nodes):
        raise TranslateError("doAddListener: unexpected OpenSSL call")
    refuse = refusal_guard(nodes, "lc.tls", "server", "doAddListener", mk[0])
    if ("stmt", "lst->tls = lc.tls") not in nodes:
        raise TranslateError("doAddListener: lst->tls is not the requested mode")
    on = parse_stmts(body_of(src, "onListener"))
    news = find_paths(on, lambda x: x[0] == "stmt" and "::SSL_new(" in x[1])
    if len(news) != 1 or news[0][1][1] != "s->ssl = ::SSL_new(_sslSrv)":
        raise TranslateError("onListener: expected exactly one `s->ssl = ::SSL_new(_sslSrv)`")
    path = news[0][0]
    if [k for k, _ in path] != ["loop", "if"]:
        raise TranslateError("onListener: SSL_new is not directly inside one if of the accept loop")
    blk = [nd for nd in on[0][2] if nd[0] == "if" and nd[1] == path[1][1]]
    if len(blk) != 1 or blk[0][3]:
        raise TranslateError("onListener: the SSL_new block has an else-branch (unmodelled)")
    classify_block(blk[0][2], "onListener")
    unknown = [c for c in ssl_calls_in(on) if c not in SSL_SESSION_OK]
    if unknown:
        raise TranslateError("onListener: unmodelled OpenSSL call(s) %s" % sorted(set(unknown)))
    return refuse, parse_guard(path[1][1], "server", "lst->tls")


# ------------------------------------------------------------------ session announce / send guards
def session_facts(src):
    """Guards that keep a TLS session silent until the handshake is done (C07-T7/T8). Every fact is CONSUMED by
    `sessStep` in Model/TlsPlan.lean (the model misbehaves when a fact is false), so each one is load-bearing."""
    f = {}
    HS = "s->tlsMode != TlsMode::None && s->tlsState == TlsState::Handshake"
    OPEN = "s->tlsMode != TlsMode::None && s->tlsState == TlsState::Open"
    dh = norm(body_of(src, "driveHandshake"))
    m = re.search(r"int rc = ::SSL_do_handshake\(s->ssl\); if \(rc == 1\) \{(.*?)return true; \}", dh)
    if not m:
        raise TranslateError("driveHandshake: `int rc = ::SSL_do_handshake(s->ssl); if (rc == 1) {...}` not found")
    okb = m.group(1)
    if dh.count("return true;") != 1:
        raise TranslateError("driveHandshake: more than one `return true` (completion must be reported under rc == 1 only)")
    f["openOnlyOnRc1"] = "s->tlsState = TlsState::Open" in okb and dh.count("s->tlsState = TlsState::Open") == 1 and \
        src.count("tlsState = TlsState::Open") == 1
    f["connectCbOnlyOnRc1"] = "connectCb(" in okb and dh.count("connectCb(") == 1
    tail = dh[m.end():]
    f["failureCloses"] = bool(re.search(r"closeNow\(s, TransportError::TLSHandshake, msg, \(int\)e\); _atomicStats\.tlsFailures\+\+; return false;$", tail.strip()))
    f["wantIoKeepsHandshake"] = bool(re.search(r"if \(errc == SSL_ERROR_WANT_READ \|\| errc == SSL_ERROR_WANT_WRITE\) \{[^{}]*return false; \}", tail))
    # doSend
    ds_nodes = parse_stmts(body_of(src, "doSend"))
    ds = norm(body_of(src, "doSend"))
    qi = [i for i, nd in enumerate(ds_nodes) if nd[0] == "if" and nd[1] == HS]
    f["sendQueuedDuringHandshake"] = bool(qi) and not ds_nodes[qi[0]][3] and \
        ("stmt", "s->wq.emplace_back(std::move(sr.payload))") in ds_nodes[qi[0]][2] and ds_nodes[qi[0]][2][-1] == ("stmt", "return")
    io_first = [i for i, nd in enumerate(ds_nodes) if find_paths([nd], lambda x: "::send(" in x[1] or "::SSL_write(" in x[1])]
    f["sendGuardPrecedesIo"] = bool(qi) and bool(io_first) and qi[0] < io_first[0]
    def ssl_when_open(nodes, fn):
        """every raw `::send(` of fn sits in the else-branch of `if (<tls session is Open>)` whose then-branch does SSL_write"""
        sends = find_paths(nodes, lambda x: x[0] == "stmt" and "::send(" in x[1])
        if not sends:
            raise TranslateError("%s: no raw ::send found" % fn)
        return all(("else", OPEN) in pth for pth, _ in sends) and \
            all(("if", OPEN) in pth for pth, _ in find_paths(nodes, lambda x: x[0] == "stmt" and "::SSL_write(" in x[1]))
    f["doSendSslWhenOpenTls"] = ssl_when_open(ds_nodes, "doSend")
    wp_nodes = parse_stmts(body_of(src, "writePending"))
    f["writePendingSslWhenOpenTls"] = ssl_when_open(wp_nodes, "writePending")
    f["writePendingSkipsHandshake"] = bool(find_paths(wp_nodes, lambda x: x[0] == "if" and "TlsState::Handshake" in x[1]))
    # onSession: handshake branch first, returns while the handshake is incomplete; else-branch announces plain sessions only
    os_nodes = parse_stmts(body_of(src, "onSession"))
    hb = [i for i, nd in enumerate(os_nodes) if nd[0] == "if" and nd[1] == HS]
    wpi = [i for i, nd in enumerate(os_nodes) if find_paths([nd], lambda x: x[0] == "stmt" and x[1] == "writePending(s)")]
    rdi = [i for i, nd in enumerate(os_nodes) if find_paths([nd], lambda x: x[0] == "stmt" and x[1] == "readAvail(s)")]
    f["handshakeDrivenFirst"] = len(hb) == 1 and bool(wpi) and bool(rdi) and hb[0] < min(wpi[0], rdi[0])
    f["handshakeReturnsWhenIncomplete"] = False
    f["plainAnnounceRequiresModeNone"] = False
    if len(hb) == 1:
        thn, els = os_nodes[hb[0]][2], os_nodes[hb[0]][3]
        # nothing but logging / `SessionId sid = s->id` may precede `if (!driveHandshake(s)) { return; }`
        k = 0
        while k < len(thn) and thn[k][0] == "stmt" and re.match(r"(IORA_LOG_\w+\(|SessionId sid = s->id$)", thn[k][1]):
            k += 1
        f["handshakeReturnsWhenIncomplete"] = k < len(thn) and thn[k][0] == "if" and thn[k][1] == "!driveHandshake(s)" and \
            [x for x in thn[k][2] if not (x[0] == "stmt" and x[1].startswith("IORA_LOG_"))] == [("stmt", "return")] and not thn[k][3]
        cbs = find_paths(os_nodes, lambda x: x[0] == "stmt" and "connectCb(" in x[1])
        f["plainAnnounceRequiresModeNone"] = len(cbs) == 1 and ("if", "s->connectPending && s->tlsMode == TlsMode::None") in cbs[0][0] and \
            bool(find_paths(els, lambda x: x[0] == "stmt" and "connectCb(" in x[1]))
    dc_nodes = parse_stmts(body_of(src, "doConnect"))
    cbs = find_paths(dc_nodes, lambda x: x[0] == "stmt" and "connectCb(" in x[1])
    f["immediateAnnounceRequiresReqNone"] = len(cbs) == 1 and cbs[0][0][:1] == (("if", "cr.tls == TlsMode::None"),)
    # raw-send sites and the callers of writePending are confined
    sites = {}
    starts = [(mm.start(), mm.group(1)) for mm in re.finditer(r"\n  (?:static |virtual |inline )*[\w:<>\*&, ]+?[ \*&](\w+)\([^;{}]*\)\s*(?:const\s*)?(?:override\s*)?\n  \{", src)]
    def encl(pos):
        fn = "?"
        for p0, name in starts:
            if p0 < pos:
                fn = name
            else:
                break
        return fn
    raw = sorted(set(encl(mm.start()) for mm in re.finditer(r"(?<![\w>.])(?:::)?send\(\s*s->fd", src)))
    callers = sorted(set(encl(mm.start()) for mm in re.finditer(r"(?<![\w])writePending\(s\)", src)))
    if raw != ["doSend", "writePending"]:
        raise TranslateError("tcp_engine.hpp: raw ::send(s->fd, ...) outside doSend/writePending: %r" % raw)
    if callers != ["onSession"]:
        raise TranslateError("tcp_engine.hpp: writePending(s) called outside onSession: %r" % callers)
    return f


# ------------------------------------------------------------------ HTTP client / server mappings
def cfg_map(assigns, side, rhs_table, where):
    out = {"enabled": ".unset", "defaultMode": ".unset", "verifyPeer": ".unset", "caFile": ".unset", "certFile": ".unset", "keyFile": ".unset"}
    for field, rhs in assigns:
        if field not in out:
            raise TranslateError("%s: assignment to unmodelled %sTls.%s" % (where, side, field))
        if rhs not in rhs_table:
            raise TranslateError("%s: unrecognised source %r for %sTls.%s" % (where, rhs, side, field))
        src = rhs_table[rhs]
        ok = {"enabled": (".constTrue",), "defaultMode": ("(.constMode .client)", "(.constMode .server)", "(.constMode .none)"),
              "verifyPeer": (".fromVerifyPeer", ".constTrue"), "caFile": (".fromCaFile",), "certFile": (".fromCertFile",), "keyFile": (".fromKeyFile",)}[field]
        if src not in ok:
            raise TranslateError("%s: %sTls.%s is assigned from %r" % (where, side, field, rhs))
        out[field] = src
    return out


def lean_map(name, m, doc):
    return "/-- %s -/\ndef %s : CfgMap :=\n  { enabled := %s, defaultMode := %s, verifyPeer := %s, caFile := %s, certFile := %s, keyFile := %s }\n" % (
        doc, name, m["enabled"], m["defaultMode"], m["verifyPeer"], m["caFile"], m["certFile"], m["keyFile"])


def http_client_facts(src):
    body = body_of(src, "ensureInitialized")
    nodes = parse_stmts(body)
    if len(nodes) != 1 or nodes[0][0] != "if" or nodes[0][1] != "!_transport":
        raise TranslateError("HttpClient::ensureInitialized: unexpected shape")
    assigns = []
    for path, nd in find_paths(nodes[0][2], lambda x: x[0] == "stmt" and "clientTls" in x[1] or (x[0] != "stmt" and "clientTls" in x[1])):
        if path or nd[0] != "stmt":
            raise TranslateError("HttpClient::ensureInitialized: conditional TLS configuration %r" % (nd[1],))
        m = re.fullmatch(r"transportConfig\.clientTls\.(\w+) = (.+)", nd[1])
        if not m:
            raise TranslateError("HttpClient::ensureInitialized: unrecognised statement %r" % nd[1])
        assigns.append((m.group(1), m.group(2)))
    if any("serverTls" in nd[1] for _, nd in find_paths(nodes, lambda x: True)):
        raise TranslateError("HttpClient::ensureInitialized touches serverTls")
    table = {"true": ".constTrue", "TlsMode::Client": "(.constMode .client)", "TlsMode::Server": "(.constMode .server)", "TlsMode::None": "(.constMode .none)",
             "_tlsConfig.verifyPeer": ".fromVerifyPeer", "_tlsConfig.caFile": ".fromCaFile", "_tlsConfig.clientCertFile": ".fromCertFile",
             "_tlsConfig.clientKeyFile": ".fromKeyFile"}
    cmap = cfg_map(assigns, "client", table, "HttpClient::ensureInitialized")
    acq = norm(body_of(src, "acquireConnection"))
    m = re.search(r"_transport->connectSync\((\w+(?:\.\w+)?), parsedUrl\.port, tlsMode, timeout\)", acq)
    if not m or acq.count("connectSync(") != 1:
        raise TranslateError("HttpClient::acquireConnection: connectSync call not recognised")
    host_src = {"resolvedHost": ".resolvedAddress", "parsedUrl.host": ".urlHost"}.get(m.group(1))
    if not host_src:
        raise TranslateError("HttpClient::acquireConnection: connects to %r" % m.group(1))
    if host_src == ".resolvedAddress" and "std::string resolvedHost = resolveHostAddress(parsedUrl);" not in acq:
        raise TranslateError("HttpClient::acquireConnection: resolvedHost is not resolveHostAddress(parsedUrl)")
    m = re.search(r"TlsMode tlsMode = parsedUrl\.isHttps\(\) \? TlsMode::(\w+) : TlsMode::(\w+);", acq)
    if not m:
        raise TranslateError("HttpClient::acquireConnection: tlsMode selection not recognised")
    https_req, http_req = MODES[m.group(1)], MODES[m.group(2)]
    res = norm(raw_body(src, "resolveHostAddress"))
    m = re.search(r'if \(parsedUrl\.host == "localhost"\) \{ return "([^"]+)"; \}', res)
    if not m or "if (isIPAddress(parsedUrl.host)) { return parsedUrl.host; }" not in res:
        raise TranslateError("HttpClient::resolveHostAddress: unexpected shape")
    return cmap, host_src, https_req, http_req, m.group(1)


def http_url_facts(src):
    """What parseUrl accepts as a scheme and what isHttps()/the default port compare against."""
    m = re.search(r"std::regex url\{\s*R\"\((.*?)\)\"\s*(?:,\s*([^}]*?))?\s*\};", src, re.S)
    if not m:
        raise TranslateError("HttpClient: url regex not found")
    pattern, flags = m.group(1), norm(m.group(2) or "")
    sm = re.match(r"\^\(([^()]*)\):", pattern)
    if not sm:
        raise TranslateError("HttpClient: url regex does not start with a scheme group: %r" % pattern)
    scheme_group = sm.group(1)
    if scheme_group != "https?":
        raise TranslateError("HttpClient: scheme alternatives changed: %r" % scheme_group)
    flagset = set(f.strip() for f in flags.split("|") if f.strip())
    known = {"std::regex::ECMAScript", "std::regex::icase", "std::regex::optimize", "std::regex_constants::ECMAScript", "std::regex_constants::icase",
             "std::regex_constants::optimize"}
    if not flagset <= known:
        raise TranslateError("HttpClient: unknown url regex flags %r" % flags)
    icase = any(f.endswith("icase") for f in flagset)
    m = re.search(r"bool isHttps\(\) const \{ return (.*?); \}", norm(src))
    if not m:
        raise TranslateError("ParsedUrl::isHttps not found")
    e = m.group(1)
    if e == 'scheme == "https"':
        https_ci = False
    elif re.fullmatch(r'(?:iora::)?(?:util::)?(?:iequals|equalsIgnoreCase|caseInsensitiveEquals)\(scheme, "https"\)', e):
        https_ci = True
    else:
        raise TranslateError("ParsedUrl::isHttps: unrecognised comparison %r" % e)
    pu = norm(raw_body(src, "parseUrl"))
    if "parsed.scheme = match[1].str();" in pu:
        normalised = False
    elif re.search(r"parsed\.scheme = (?:toLower|util::toLower|iora::util::toLower)\(match\[1\]\.str\(\)\);", pu):
        normalised = True
    else:
        raise TranslateError("HttpClient::parseUrl: how the scheme is stored is not recognised")
    m = re.search(r'parsed\.port = \((parsed\.scheme == "https"|parsed\.isHttps\(\))\) \? (\d+) : (\d+);', pu)
    if not m:
        raise TranslateError("HttpClient::parseUrl: default-port selection not recognised")
    port_ci = https_ci if m.group(1) == "parsed.isHttps()" else False
    if 'throw std::invalid_argument("Invalid URL format' not in pu.replace("  ", " ") and "Invalid URL format" not in pu:
        raise TranslateError("HttpClient::parseUrl: rejection of non-matching URLs not found")
    # connection cache: key and reuse condition
    acq = norm(body_of(src, "acquireConnection"))
    if "const std::string hostPort = parsedUrl.getHostPort();" not in acq or "auto it = _connections.find(hostPort);" not in acq:
        raise TranslateError("HttpClient::acquireConnection: cache lookup by getHostPort() not found")
    if not re.search(r'std::string getHostPort\(\) const \{ return host \+ " " \+ std::to_string\(port\); \}', norm(blank_strings(src))):
        raise TranslateError("ParsedUrl::getHostPort changed")
    m = re.search(r"if \(it != _connections\.end\(\)\) \{ auto now = std::chrono::steady_clock::now\(\); if \((.*?)\) \{ it->second\.lastUsed = now; return it->second\.id; \}", acq)
    if not m:
        raise TranslateError("HttpClient::acquireConnection: reuse test not recognised")
    conj = [c.strip() for c in split_top(m.group(1), "&&")]
    fresh = "now - it->second.lastUsed < _config.connectionIdleTimeout"
    if fresh not in conj:
        raise TranslateError("HttpClient::acquireConnection: idle test missing from the reuse condition")
    rest = [c for c in conj if c != fresh]
    if rest == []:
        checks_mode = False
    elif rest == ["it->second.tls == tlsMode"]:
        checks_mode = True
        if not re.search(r"_connections\[hostPort\] = ConnectionEntry\{sessionId, std::chrono::steady_clock::now\(\), tlsMode\};", acq):
            raise TranslateError("HttpClient::acquireConnection: the published cache entry does not record the TLS mode")
        if not re.search(r"const TlsMode tlsMode = parsedUrl\.isHttps\(\) \? TlsMode::Client : TlsMode::None;", acq):
            raise TranslateError("HttpClient::acquireConnection: tlsMode is not derived from isHttps()")
    else:
        raise TranslateError("HttpClient::acquireConnection: unrecognised reuse condition %r" % m.group(1))
    return {"icase": icase, "https_ci": https_ci, "normalised": normalised, "port_ci": port_ci or normalised, "https_port": int(m_port(pu)[0]), "http_port": int(m_port(pu)[1]),
            "checks_mode": checks_mode}


def http_reconf_facts(src):
    """setTlsConfig: does a call that would change the settings after the transport exists throw (instead of being ignored)?
    And: the TLS settings are read in ensureInitialized only, once (guarded by `!_transport`)."""
    body = norm(body_of(src, "setTlsConfig"))
    if body == "std::lock_guard<std::mutex> lock(_mutex); _tlsConfig = config;":
        rejects = False
    else:
        m = re.fullmatch(r"std::lock_guard<std::mutex> lock\(_mutex\); if \(_transport && \((.*)\)\) \{ throw std::logic_error\(.*\); \} _tlsConfig = config;", body)
        if not m:
            raise TranslateError("HttpClient::setTlsConfig: unrecognised shape: %r" % body)
        cmp_ = sorted(c.strip() for c in split_top(m.group(1), "||"))
        want = sorted("config.%s != _tlsConfig.%s" % (f, f) for f in ("verifyPeer", "caFile", "clientCertFile", "clientKeyFile"))
        if cmp_ != want:
            raise TranslateError("HttpClient::setTlsConfig: the change test does not compare every TlsConfig field: %r" % (cmp_,))
        rejects = True
    m = re.search(r"struct TlsConfig\s*\{", src)
    fields = re.findall(r"(?:bool|std::string)\s+(\w+)", src[m.end():cxxscan.match_brace(src, m.end() - 1)])
    if sorted(fields) != ["caFile", "clientCertFile", "clientKeyFile", "verifyPeer"]:
        raise TranslateError("HttpClient::TlsConfig fields changed: %r" % fields)
    uses = [mm.start() for mm in re.finditer(r"_tlsConfig\b", src)]
    ei = re.search(SIGS["ensureInitialized"], src)
    ei_end = cxxscan.match_brace(src, src.index("{", ei.end()))
    st = re.search(SIGS["setTlsConfig"], src)
    st_end = cxxscan.match_brace(src, src.index("{", st.end()))
    for u in uses:
        if not (ei.start() < u < ei_end or st.start() < u < st_end or re.match(r"_tlsConfig;", src[u:u + 11])):
            raise TranslateError("HttpClient: _tlsConfig is used outside ensureInitialized/setTlsConfig")
    return rejects


def m_port(pu):
    m = re.search(r'\? (\d+) : (\d+);', pu)
    return m.group(1), m.group(2)


def http_server_facts(src):
    st = body_of(src, "start")
    nodes = parse_stmts(st)
    hits = find_paths(nodes, lambda x: x[0] == "stmt" and "serverTls" in x[1])
    assigns = []
    for path, nd in hits:
        conds = [c for k, c in path if k == "if"]
        if conds != ["_tlsConfig.has_value()"] or any(k == "else" for k, _ in path):
            raise TranslateError("HttpServer::start: TLS field assigned under unexpected condition %r" % (path,))
        m = re.fullmatch(r"config\.serverTls\.(\w+) = (.+)", nd[1])
        if not m:
            raise TranslateError("HttpServer::start: unrecognised statement %r" % nd[1])
        assigns.append((m.group(1), m.group(2)))
    table = {"true": ".constTrue", "TlsMode::Server": "(.constMode .server)", "TlsMode::Client": "(.constMode .client)", "TlsMode::None": "(.constMode .none)",
             "tlsCfg.requireClientCert": ".fromVerifyPeer", "tlsCfg.caFile": ".fromCaFile", "tlsCfg.certFile": ".fromCertFile", "tlsCfg.keyFile": ".fromKeyFile"}
    cmap = cfg_map(assigns, "server", table, "HttpServer::start")
    flat = norm(st)
    m = re.search(r"TlsMode tlsMode = _tlsConfig\.has_value\(\) \? TlsMode::(\w+) : TlsMode::(\w+);", flat)
    if not m or "_transport->addListener(_bindAddress, static_cast<std::uint16_t>(_port), tlsMode)" not in flat:
        raise TranslateError("HttpServer::start: listener mode selection not recognised")
    en = norm(body_of(src, "enableTls"))
    req_ck = bool(re.search(r"if \(config\.certFile\.empty\(\) \|\| config\.keyFile\.empty\(\)\) \{ throw", en))
    req_ca = bool(re.search(r"if \(config\.requireClientCert\) \{ if \(config\.caFile\.empty\(\)\) \{ throw", en))
    return cmap, MODES[m.group(1)], MODES[m.group(2)], req_ck, req_ca


# ------------------------------------------------------------------ receive side, lifecycles, UDP (C07 extension round)
def member_index(src):
    """enclosing member function of a source position (same crude index as call_inventory)"""
    starts = [(mm.start(), mm.group(1)) for mm in re.finditer(r"\n  (?:static |virtual |inline )*[\w:<>\*&, ]+?[ \*&](\w+)\([^;{}]*\)\s*(?:const\s*)?(?:override\s*)?\n  \{", src)]
    def encl(pos):
        fn = "?"
        for p0, name in starts:
            if p0 < pos:
                fn = name
            else:
                break
        return fn
    return encl


def recv_facts(src):
    """Who may hand bytes to onData: `readAvail` takes SSL_read exactly for an Open TLS session and the raw ::recv otherwise (ALSO for a
    session still in its handshake), so the callers matter: onSession reads after the handshake gate, driveHandshake inside `rc == 1`
    after `tlsState = Open`. Each fact is CONSUMED by `recvStep` (Model/TlsLife.lean)."""
    f = {}
    HS = "s->tlsMode != TlsMode::None && s->tlsState == TlsState::Handshake"
    OPEN = "s->tlsMode != TlsMode::None && s->tlsState == TlsState::Open"
    ra = parse_stmts(body_of(src, "readAvail"))
    reads = find_paths(ra, lambda x: x[0] == "stmt" and "::SSL_read(" in x[1])
    recvs = find_paths(ra, lambda x: x[0] == "stmt" and re.search(r"(?<![\w>.:])(?:::)?recv\(\s*s->fd", x[1]))
    if len(reads) != 1 or len(recvs) != 1:
        raise TranslateError("readAvail: expected exactly one ::SSL_read and one raw ::recv(s->fd, found %d / %d" % (len(reads), len(recvs)))
    f["readAvailSslWhenOpenTls"] = ("if", OPEN) in reads[0][0] and ("else", OPEN) in recvs[0][0]
    cbs = find_paths(ra, lambda x: x[0] == "stmt" and "dataCb(" in x[1] and not x[1].startswith("decltype"))
    if len(cbs) != 1 or src.count("dataCb(s->id") != 1:
        raise TranslateError("tcp_engine.hpp: onData is invoked somewhere else than the one site in readAvail")
    encl = member_index(src)
    # raw socket I/O on anything but the wake-up descriptors is confined (`::write(fd…)` / `::read(fd…)` would bypass the TLS state checks)
    for mm in re.finditer(r"(?<![\w>.:])(::)?(send|write|writev|sendmsg|sendto|recv|read|readv|recvmsg|recvfrom)\(\s*([\w>.\-]+)", blank_strings(src)):
        glob, call, arg, fn = mm.group(1), mm.group(2), mm.group(3), encl(mm.start())
        if not glob and not re.search(r"fd", arg, re.I):
            continue                                        # a member function named send/read/… (declaration or call), not the system call
        if arg in ("_eventFd", "_timerFd"):
            continue
        inbound = call in ("recv", "read", "readv", "recvmsg", "recvfrom")
        ok = arg == "s->fd" and ((inbound and call == "recv" and fn == "readAvail") or (not inbound and call == "send" and fn in ("doSend", "writePending")))
        if not ok:
            raise TranslateError("tcp_engine.hpp: raw socket I/O `%s(%s, ...)` in %s (outside the modelled send/receive sites)" % (call, arg, fn))
    callers = [encl(mm.start()) for mm in re.finditer(r"(?<![\w])readAvail\(s\)", src)]
    if sorted(callers) != ["driveHandshake", "onSession"]:
        raise TranslateError("tcp_engine.hpp: readAvail(s) is called from %r (expected once from onSession, once from driveHandshake)" % (callers,))
    os_nodes = parse_stmts(body_of(src, "onSession"))
    hb = [i for i, nd in enumerate(os_nodes) if nd[0] == "if" and nd[1] == HS]
    rdi = [i for i, nd in enumerate(os_nodes) if find_paths([nd], lambda x: x[0] == "stmt" and x[1] == "readAvail(s)")]
    f["readAvailAfterHandshakeGate"] = len(hb) == 1 and len(rdi) == 1 and hb[0] < rdi[0]
    dh = norm(body_of(src, "driveHandshake"))
    m = re.search(r"int rc = ::SSL_do_handshake\(s->ssl\); if \(rc == 1\) \{(.*?)return true; \}", dh)
    if not m:
        raise TranslateError("driveHandshake: `if (rc == 1) {...}` not found")
    okb = m.group(1)
    f["driveHsReadsOnlyAfterOpen"] = dh.count("readAvail(s)") == 1 and "readAvail(s)" in okb and "s->tlsState = TlsState::Open" in okb and \
        okb.index("s->tlsState = TlsState::Open") < okb.index("readAvail(s)")
    return f


def span_of(src, name):
    hits = [m for m in re.finditer(r"(?:%s)\s*\{" % SIGS[name], src)]
    if len(hits) != 1:
        raise TranslateError("definition of %s: expected exactly one match of its signature, found %d" % (name, len(hits)))
    return hits[0].start(), cxxscan.match_brace(src, hits[0].end() - 1)


def http_server_life_facts(src):
    """enableTls on a started server throws (instead of being silently ignored); `_tlsConfig` is written by enableTls only."""
    en = norm(body_of(src, "enableTls"))
    if re.match(r"std::lock_guard<std::mutex> lock\(_mutex\); if \(_transport\) \{ throw std::logic_error\(", en):
        rejects = True
    elif "_transport" in en:
        raise TranslateError("HttpServer::enableTls: unrecognised use of _transport")
    else:
        rejects = False
    spans = {n: span_of(src, n) for n in ("enableTls", "start", "stop")}
    stop_keeps = True
    writes_in_enable = 0
    for mm in re.finditer(r"_tlsConfig\b", src):
        u = mm.start()
        rest = src[u:u + 40]
        where = [n for n, (a, b) in spans.items() if a < u < b]
        if re.match(r"_tlsConfig;", rest) and not where:
            continue                                        # the member declaration
        if where == ["enableTls"] and re.match(r"_tlsConfig = config;", rest):
            writes_in_enable += 1
        elif where == ["start"] and re.match(r"_tlsConfig\.(has_value|value)\(\)", rest):
            pass
        elif where == ["stop"] and re.match(r"_tlsConfig(\.reset\(\)| = std::nullopt| = \{\})", rest):
            stop_keeps = False
        else:
            raise TranslateError("HttpServer: _tlsConfig used in an unmodelled way (%s): %r" % (where or "outside enableTls/start/stop", rest))
    if writes_in_enable != 1:
        raise TranslateError("HttpServer::enableTls: expected exactly one `_tlsConfig = config;`")
    st = norm(body_of(src, "start"))
    if st.count("_transport = Transport::tcp(config)") != 1 or st.index("_tlsConfig.has_value()") > st.index("_transport = Transport::tcp(config)"):
        raise TranslateError("HttpServer::start: the transport is not created from the TLS settings read just before")
    sp = norm(body_of(src, "stop"))
    if "_transport.reset()" not in sp:
        raise TranslateError("HttpServer::stop: the transport is not released (enableTls could never be accepted again)")
    return rejects, stop_keeps


def http_init_failure_fact(src):
    ei = norm(body_of(src, "ensureInitialized"))
    m = re.search(r"_transport = Transport::tcp\(transportConfig\);.*?auto startResult = _transport->start\(\); if \(startResult\.isErr\(\)\) \{ (.*?)throw std::runtime_error\(", ei)
    if not m:
        raise TranslateError("HttpClient::ensureInitialized: start-failure branch not recognised")
    pre = m.group(1).strip()
    if pre == "":
        return False
    if pre == "_transport.reset();":
        return True
    raise TranslateError("HttpClient::ensureInitialized: unrecognised statements before the start-failure throw: %r" % pre)


def udp_facts(src):
    out = []
    for name, res in (("udpConnect", "ConnectResult"), ("udpAddListener", "ListenResult")):
        body = norm(body_of(src, name))
        if re.match(r"if \(tls != TlsMode::None\) \{ (?:error\([^;]*\); )?return %s::err\(" % res, body):
            out.append(True)
        elif re.match(r"if \([^)]*\btls\b", body):
            raise TranslateError("UdpEngine::%s: unrecognised leading condition on the requested TLS mode" % name)
        else:
            out.append(False)
    if re.search(r"SSL_|TlsState", blank_strings(src)):
        raise TranslateError("udp_engine.hpp mentions OpenSSL / TlsState: the UDP engine is modelled as having no TLS at all")
    return tuple(out)


def service_facts(src):
    """IoraService::applyConfig, webhook-server part: WHICH settings make the service call enableTls (the formula of `hasTls`), that the four
    settings are handed on unchanged, and that enableTls comes before start()."""
    flat = norm(blank_strings(src))
    m = re.search(r"bool hasTls = (.*?); if \(hasTls\) \{(.*?)\} else \{", flat)
    if not m:
        raise TranslateError("IoraService::applyConfig: `bool hasTls = ...; if (hasTls) {...} else {` not found")
    atoms = {"_config.server.tls.certFile.has_value()": ".certFileSet", "_config.server.tls.keyFile.has_value()": ".keyFileSet",
             "_config.server.tls.caFile.has_value()": ".caFileSet", "_config.server.tls.requireClientCert.value_or(false)": ".verifyPeer"}

    def parse(e):
        e = strip_parens(e.strip())
        for op, tag in (("||", "or"), ("&&", "and")):
            parts = split_top(e, op)
            if len(parts) > 1:
                g = parse(parts[0])
                for q in parts[1:]:
                    g = Gd(tag, g, parse(q))
                return g
        if e in atoms:
            return Gd("atom", atoms[e])
        raise TranslateError("IoraService::applyConfig: unrecognised term in hasTls: %r" % e)
    g = parse(m.group(1))
    thn = m.group(2)
    for field, rhs in (("certFile", '_config.server.tls.certFile.value_or("")'), ("keyFile", '_config.server.tls.keyFile.value_or("")'),
                       ("caFile", '_config.server.tls.caFile.value_or("")'), ("requireClientCert", "_config.server.tls.requireClientCert.value_or(false)")):
        if "tlsCfg.%s = %s;" % (field, rhs) not in thn:
            raise TranslateError("IoraService::applyConfig: tlsCfg.%s is not taken from server.tls.%s" % (field, field))
    if "_webhookServer->enableTls(tlsCfg);" not in thn:
        raise TranslateError("IoraService::applyConfig: the hasTls branch does not call enableTls(tlsCfg)")
    after = flat[m.end():]
    if "_webhookServer->start();" not in after or "_webhookServer->start();" in flat[:m.start()].split("_webhookServer = std::make_unique<network::WebhookServer>")[-1]:
        raise TranslateError("IoraService::applyConfig: the webhook server is not started AFTER the TLS decision")
    return g


# ------------------------------------------------------------------ inventory of every OpenSSL call of the engine
CONFIG_CALLS = {"SSL_CTX_set_verify": {"initTls"}, "SSL_CTX_set_min_proto_version": {"applyTls12Floor"}, "SSL_CTX_get_min_proto_version": {"applyTls12Floor"}, "SSL_CTX_load_verify_locations": {"initTls"},
                "SSL_CTX_set_default_verify_paths": {"initTls"}, "SSL_set1_host": {"doConnect"}, "SSL_set_tlsext_host_name": {"doConnect"},
                "SSL_new": {"doConnect", "onListener"}, "SSL_CTX_new": {"initTls"}}
KNOWN_CALLS = set(CONFIG_CALLS) | {"SSL_CTX_free", "SSL_CTX_set_cipher_list", "SSL_CTX_use_certificate_file", "SSL_CTX_use_PrivateKey_file", "SSL_CTX_check_private_key",
                                   "SSL_CTX_get0_certificate", "SSL_CTX_set_verify_depth", "SSL_CTX_set_alpn_select_cb", "SSL_CTX_set_alpn_protos",
                                   "SSL_set_fd", "SSL_set_accept_state", "SSL_set_connect_state", "SSL_do_handshake", "SSL_get_error", "SSL_read", "SSL_write",
                                   "SSL_shutdown", "SSL_free", "SSL_load_error_strings", "SSL_library_init",
                                   "TLS_server_method", "TLS_client_method", "X509_cmp_time", "X509_get0_notAfter", "ERR_get_error", "ERR_error_string_n",
                                   "OPENSSL_init_ssl", "OpenSSL_add_all_algorithms"}


def call_inventory(src):
    """(call name -> set of enclosing member functions) for every `::SSL_*(` in the engine."""
    inv = {}
    # function starts: a crude but sufficient index of `name(...) {` definitions at class-member indentation
    starts = [(m.start(), m.group(1)) for m in re.finditer(r"\n  (?:static |virtual |inline )*[\w:<>\*&, ]+?[ \*&](\w+)\([^;{}]*\)\s*(?:const\s*)?(?:override\s*)?\n  \{", src)]
    src = blank_strings(src)
    for m in re.finditer(r"(?<![\w])(?:::)?((?:SSL|X509|ERR|TLS|DTLS|OPENSSL|EVP|BIO)_\w+)\s*\(", src):
        fn = "?"
        for pos, name in starts:
            if pos < m.start():
                fn = name
            else:
                break
        inv.setdefault(m.group(1), set()).add(fn)
    for name, fns in inv.items():
        if name not in KNOWN_CALLS:
            raise TranslateError("tcp_engine.hpp calls %s (in %s), which the C07 model does not know" % (name, sorted(fns)))
        if name in CONFIG_CALLS and not fns <= CONFIG_CALLS[name]:
            raise TranslateError("tcp_engine.hpp calls %s outside %s: %s" % (name, sorted(CONFIG_CALLS[name]), sorted(fns)))
    return inv


# ------------------------------------------------------------------ entry point
def gen(repo):
    src = read(repo, ENGINE)
    hc = read(repo, HCLIENT)
    hs = read(repo, HSERVER)
    ty = read(repo, TYPES)
    modes = cxxscan.enum_items(ty, "TlsMode")
    if [n for n, _ in modes] != ["None", "Server", "Client"]:
        raise TranslateError("enum TlsMode changed: %r" % (modes,))
    m = re.search(r"struct TlsConfig\s*\{", ty)
    if not m:
        raise TranslateError("TransportConfig::TlsConfig not found")
    tls_body = ty[m.end():cxxscan.match_brace(ty, m.end() - 1)]
    tls_fields = re.findall(r"(?:bool|int|std::string|TlsMode)\s+(\w+)\s*(?:\{([^}]*)\})?;", tls_body)
    fdef = dict(tls_fields)
    for need in ("enabled", "defaultMode", "certFile", "keyFile", "caFile", "caPath", "minVersion", "verifyPeer"):
        if need not in fdef:
            raise TranslateError("TlsConfig field %s missing" % need)
    if fdef["enabled"] != "false" or fdef["verifyPeer"] != "false" or fdef["defaultMode"] != "TlsMode::None" or fdef["minVersion"] != "0":
        raise TranslateError("TlsConfig defaults changed: %r" % (fdef,))
    blocks = ctx_blocks(body_of(src, "initTls"))
    cmp_, kname, kval, arms, readback = floor_facts(src)
    c_ref, c_new, c_sni, c_s1h, c_fc = connect_site(src)
    l_ref, l_new = listen_site(src)
    sf = session_facts(src)
    rf = recv_facts(src)
    inv = call_inventory(src)
    cmap, host_src, https_req, http_req, localhost_to = http_client_facts(hc)
    uf = http_url_facts(hc)
    reconf_rejects = http_reconf_facts(hc)
    smap, s_on, s_off, req_ck, req_ca = http_server_facts(hs)
    en_rejects, stop_keeps = http_server_life_facts(hs)
    init_releases = http_init_failure_fact(hc)
    udp_c, udp_l = udp_facts(read(repo, UDPENGINE))
    svc_g = service_facts(read(repo, SERVICE))
    tls12 = openssl_const("TLS1_2_VERSION")

    t = HEADER % ", ".join([ENGINE, HCLIENT, HSERVER, TYPES, UDPENGINE, SERVICE])
    t += "import IoraModel.Model.TlsTypes\nnamespace Iora.Gen.TlsCalls\nopen Iora.Tls\n\n"
    t += "/-- `applyTls12Floor`: `minVer = configuredMin <cmp> %s ? <thenArm> : <elseArm>`; the constant's value is read from the installed OpenSSL headers -/\n" % kname
    t += "def floorCmp : Cmp := %s\ndef floorConst : Int := %d\ndef floorThen : FloorArm := %s\ndef floorElse : FloorArm := %s\n" % (cmp_, kval, arms[0], arms[1])
    t += "/-- `TLS1_2_VERSION` of the installed OpenSSL -/\ndef tls12 : Int := %d\n" % tls12
    t += "/-- `if (SSL_CTX_get_min_proto_version(ctx) < a) SSL_CTX_set_min_proto_version(ctx, b)` after the set: `some (a, b)`; absent: `none` -/\n"
    t += "def floorReadback : Option (Int × Int) := %s\n\n" % ("some (%d, %d)" % readback if readback else "none")
    t += lean_block("serverCtx", blocks["server"], "`initTls`, server block: creation guard, then every action with its path condition, in source order")
    t += "\n" + lean_block("clientCtx", blocks["client"], "`initTls`, client block")
    t += "\n/-- `doConnect`: early refusal; guard of the `SSL_new(_sslCli)` block; path conditions (inside that block) of SNI and of `SSL_set1_host(cr.host)` -/\n"
    t += "def connectSite : ConnectSite :=\n  { refuse := %s\n    sslNew := %s\n    sni := %s\n    set1host := %s\n    set1hostFailClosed := %s }\n" % (
        c_ref.lean(), c_new.lean(), c_sni.lean(), c_s1h.lean(), "true" if c_fc else "false")
    t += "\n/-- `doAddListener` refusal; guard of the `SSL_new(_sslSrv)` block of `onListener` (no else-branch: otherwise the accepted session is plain) -/\n"
    t += "def listenSite : ListenSite :=\n  { refuse := %s\n    sslNew := %s }\n" % (l_ref.lean(), l_new.lean())
    t += "\n/-- announce / send guards of `driveHandshake`, `onSession`, `doSend`, `writePending`, `doConnect` (true = present in the source); each is consumed by `sessStep` -/\n"
    for k in ("openOnlyOnRc1", "connectCbOnlyOnRc1", "failureCloses", "wantIoKeepsHandshake", "sendQueuedDuringHandshake",
              "sendGuardPrecedesIo", "doSendSslWhenOpenTls", "writePendingSslWhenOpenTls", "writePendingSkipsHandshake", "plainAnnounceRequiresModeNone",
              "handshakeDrivenFirst", "handshakeReturnsWhenIncomplete", "immediateAnnounceRequiresReqNone"):
        t += "def %s : Bool := %s\n" % (k, "true" if sf[k] else "false")
    t += "/-- receive side: `readAvail` takes `SSL_read` exactly for an Open TLS session (else the raw `::recv`); in `onSession` the read comes after the handshake gate; `driveHandshake` reads only inside its `rc == 1` block, after `tlsState = Open`; raw `::recv(s->fd` occurs in `readAvail` only -/\n"
    for k in ("readAvailSslWhenOpenTls", "readAvailAfterHandshakeGate", "driveHsReadsOnlyAfterOpen"):
        t += "def %s : Bool := %s\n" % (k, "true" if rf[k] else "false")
    t += "\n" + lean_map("httpClientMap", cmap, "`HttpClient::ensureInitialized`: where each field of `transportConfig.clientTls` comes from")
    t += "/-- `HttpClient::acquireConnection`: the string handed to `connectSync`, the mode for https / http URLs, what `localhost` resolves to -/\n"
    t += "def httpClientHost : HostSrc := %s\ndef httpClientHttpsReq : Mode := %s\ndef httpClientHttpReq : Mode := %s\ndef httpClientLocalhost : String := \"%s\"\n" % (
        host_src, https_req, http_req, localhost_to)
    B = lambda b: "true" if b else "false"
    t += "\n/-- `HttpClient::parseUrl` / `ParsedUrl::isHttps`: the url regex's scheme group is `https?`; is it matched case-insensitively (`std::regex::icase`); is the\n"
    t += "stored scheme lower-cased; does `isHttps()` (and the default-port choice) compare case-insensitively; the two default ports -/\n"
    t += "def urlRegexIcase : Bool := %s\ndef urlSchemeNormalised : Bool := %s\ndef isHttpsCaseInsensitive : Bool := %s\ndef defaultPortCaseInsensitive : Bool := %s\n" % (
        B(uf["icase"]), B(uf["normalised"]), B(uf["https_ci"]), B(uf["port_ci"]))
    t += "def isHttpsLiteral : String := \"https\"\ndef httpsDefaultPort : Nat := %d\ndef httpDefaultPort : Nat := %d\n" % (uf["https_port"], uf["http_port"])
    t += "/-- `acquireConnection`: the cache is keyed by host:port; does the reuse test also require the entry's TLS mode to equal the request's -/\n"
    t += "def cacheReuseChecksTlsMode : Bool := %s\n" % B(uf["checks_mode"])
    t += "/-- `setTlsConfig`: the TLS settings are read once, in `ensureInitialized`; does a later call that would CHANGE them throw (true) or is it silently ignored (false) -/\n"
    t += "def setTlsConfigRejectsChangeAfterInit : Bool := %s\n" % B(reconf_rejects)
    t += "/-- `ensureInitialized`: when `_transport->start()` fails, is `_transport` released before the exception leaves (true) or kept, dead (false) -/\n"
    t += "def initFailureReleasesTransport : Bool := %s\n" % B(init_releases)
    t += "\n" + lean_map("httpServerMap", smap, "`HttpServer::start`: where each field of `config.serverTls` comes from (only when `enableTls` was called)")
    t += "/-- listener mode with / without `enableTls`; `enableTls` preconditions -/\n"
    t += "def httpServerTlsReq : Mode := %s\ndef httpServerPlainReq : Mode := %s\ndef enableTlsRequiresCertAndKey : Bool := %s\ndef enableTlsRequiresCaForClientCert : Bool := %s\n" % (
        s_on, s_off, "true" if req_ck else "false", "true" if req_ca else "false")
    t += "/-- `HttpServer::enableTls` on a started server (`_transport` set) throws (true) or is silently accepted-and-ignored (false); `_tlsConfig` is written by `enableTls` only (true) or also cleared by `stop()` (false) -/\n"
    t += "def enableTlsRejectsWhenStarted : Bool := %s\ndef stopKeepsTlsConfig : Bool := %s\n" % (B(en_rejects), B(stop_keeps))
    t += "\n/-- `UdpEngine::connect` / `addListener`: the first statement refuses every request with `tls != TlsMode::None` -/\n"
    t += "def udpConnectRefusesTls : Bool := %s\ndef udpListenRefusesTls : Bool := %s\n" % (B(udp_c), B(udp_l))
    t += "\n/-- `IoraService::applyConfig`: the condition `hasTls` under which the webhook server gets `enableTls` before `start()` (atoms: certFile / keyFile / caFile `.has_value()`, `.verifyPeer` = `requireClientCert.value_or(false)`); the four settings are handed on unchanged -/\n"
    t += "def serviceHasTls : G := %s\n" % svc_g.lean()
    t += "\n/-- every OpenSSL call of tcp_engine.hpp with the member functions it occurs in (configuration calls are confined to the modelled functions) -/\n"
    t += "def sslCallInventory : List (String × List String) := [\n"
    t += ",\n".join('  ("%s", [%s])' % (n, ", ".join('"%s"' % f for f in sorted(inv[n]))) for n in sorted(inv))
    t += "]\n\nend Iora.Gen.TlsCalls\n"
    return "IoraModel/Gen/TlsCalls.lean", t
