"""Translator unit `dns` -> Gen/Dns.lean (C19): wire-format limits, record-type table, the set of record types the
typed-RDATA switch dispatches on, the record types `validateRdataSecurity` inspects, the literals of the A-record rule and of
the typed parsers' minimum lengths, and the cache's TTL/expiry shapes (default TTLs, strictness of the expiry comparison,
zero-TTL handling)."""
import re
import cxxscan
from translate import TranslateError, HEADER, read, lean_str_nat_list, lean_nat_list

MSG = "include/iora/network/dns/dns_message.hpp"
TYP = "include/iora/network/dns/dns_types.hpp"
CACHE = "include/iora/network/dns/dns_cache.hpp"
EXP = "include/iora/util/expiring_cache.hpp"
TRANSPORT = "include/iora/network/dns/dns_transport.hpp"


def _const(src, name):
    m = re.search(r"constexpr\s+[\w:]+\s+%s\s*=\s*([^;]+);" % re.escape(name), src)
    if not m:
        raise TranslateError("constant %s not found in %s" % (name, TYP))
    return cxxscan.const_eval(m.group(1))


def _lean_bool(b):
    return "true" if b else "false"


def gen(repo):
    msg = read(repo, MSG)
    typ = read(repo, TYP)
    cache = read(repo, CACHE)
    exp = read(repo, EXP)
    tsp = read(repo, TRANSPORT)

    header_size = _const(typ, "DNS_HEADER_SIZE")
    max_label = _const(typ, "DNS_MAX_LABEL_SIZE")
    max_name = _const(typ, "DNS_MAX_NAME_SIZE")
    cmask = _const(typ, "DNS_COMPRESSION_MASK")
    pmask = _const(typ, "DNS_COMPRESSION_POINTER_MASK")
    # the model writes `(b & mask) == mask` as `b >= mask` and `v & pmask` as `v % (pmask+1)`: only sound for these shapes
    if not (0 < cmask < 256 and (256 - cmask) & (255 - cmask) == 0):
        raise TranslateError("DNS_COMPRESSION_MASK %#x is not a run of high bits of a byte" % cmask)
    if (pmask + 1) & pmask != 0 or pmask + 1 != (256 - cmask) * 256:
        raise TranslateError("DNS_COMPRESSION_POINTER_MASK %#x is not the complement of the compression mask in 16 bits" % pmask)
    types = cxxscan.enum_items(typ, "DnsType")
    tmap = dict(types)
    classes = cxxscan.enum_items(typ, "DnsClass")

    # --- decodeNameWithLoopDetection: the tests in source order
    dn = cxxscan.function_body(msg, "decodeNameWithLoopDetection", signature_contains="visitedPointers")
    need = [r"while\s*\(\s*offset\s*<\s*size\s*\)",
            r"\(\s*length\s*&\s*constants::DNS_COMPRESSION_MASK\s*\)\s*==\s*constants::DNS_COMPRESSION_MASK",
            r"checkBounds\s*\(\s*offset\s*,\s*2\s*,\s*size\s*\)",
            r"readUint16\s*\(\s*data\s*,\s*offset\s*\)\s*&\s*constants::DNS_COMPRESSION_POINTER_MASK",
            r"pointer\s*>=\s*size",
            r"visitedPointers\.find\s*\(\s*pointer\s*\)\s*!=\s*visitedPointers\.end\s*\(\s*\)",
            r"visitedPointers\.insert\s*\(\s*pointer\s*\)",
            r"length\s*==\s*0",
            r"length\s*>\s*constants::DNS_MAX_LABEL_SIZE",
            r"checkBounds\s*\(\s*offset\s*\+\s*1\s*,\s*length\s*,\s*size\s*\)",
            r"totalLength\s*\+=\s*length\s*\+\s*1",
            r"totalLength\s*(?:\+\s*1\s*)?>\s*constants::DNS_MAX_NAME_SIZE"]
    pos = 0
    for pat in need:
        m = re.compile(pat).search(dn, pos)
        if not m:
            raise TranslateError("decodeNameWithLoopDetection: expected `%s` (in this order) not found" % pat)
        pos = m.end()
    # a name that runs off the end of the message without a terminator: is the fall-through of the loop an error?
    counts_root = bool(re.search(r"totalLength\s*\+\s*1\s*>\s*constants::DNS_MAX_NAME_SIZE", dn))
    # optional bound on the compression pointers followed per name: `if (++jumps > constants::DNS_MAX_COMPRESSION_JUMPS) throw`
    # between the loop test and the insertion into the visited set
    mj = re.search(r"visitedPointers\.find[^;]*\)\s*\{[^{}]*\}\s*if\s*\(\s*\+\+jumps\s*>\s*constants::(\w+)\s*\)\s*\{\s*throw\s+DnsParseException[^;]*;\s*\}\s*visitedPointers\.insert", dn, re.S)
    if mj:
        if not re.search(r"std::size_t\s+jumps\s*=\s*0\s*;", dn) or len(re.findall(r"\bjumps\b", dn)) != 2:
            raise TranslateError("decodeNameWithLoopDetection: `jumps` is not a plain per-call counter")
        max_jumps = _const(typ, mj.group(1))
    else:
        if re.search(r"\bjumps\b", dn):
            raise TranslateError("decodeNameWithLoopDetection: unrecognised use of `jumps`")
        max_jumps = None
    wm = re.search(r"while\s*\(\s*offset\s*<\s*size\s*\)\s*\{", dn)
    wend = cxxscan.match_brace(dn, wm.end() - 1)
    if wend < pos:
        raise TranslateError("decodeNameWithLoopDetection: checks are not inside the while loop")
    tail = dn[wend + 1:]
    unterminated_is_error = bool(re.search(r"throw\s+DnsParseException", tail))
    if not unterminated_is_error and not re.search(r"return\s+jumped\s*\?\s*originalOffset\s*:\s*offset\s*;", tail):
        raise TranslateError("decodeNameWithLoopDetection: unrecognised epilogue")

    # --- decodeNameFromRdata: the direct-pointer branch uses the same 14-bit mask and the same pointer test
    dr = cxxscan.function_body(msg, "decodeNameFromRdata")
    for pat in (r"\(\s*firstByte\s*&\s*constants::DNS_COMPRESSION_MASK\s*\)\s*==\s*constants::DNS_COMPRESSION_MASK",
                r"readUint16\s*\(\s*rdata\s*,\s*rdataOffset\s*\)\s*&\s*constants::DNS_COMPRESSION_POINTER_MASK",
                r"decodeName\s*\(\s*messageData\s*,\s*pointer\s*,\s*messageSize\s*,\s*name\s*\)\s*;\s*return\s+rdataOffset\s*\+\s*2\s*;",
                r"std::size_t\s+absoluteOffset\s*=\s*rdataStart\s*\+\s*rdataOffset\s*;",
                r"decodeName\s*\(\s*messageData\s*,\s*absoluteOffset\s*,\s*messageSize\s*,\s*name\s*\)"):
        if not re.search(pat, dr):
            raise TranslateError("decodeNameFromRdata: expected `%s`" % pat)

    # the bounds test of the direct-pointer branch: `pointer < messageSize` (margin 0, after the repair of FC19f) or, before it,
    # `pointer < messageSize && pointer + 1 < messageSize` (margin 1: a pointer to a root label in the LAST byte was refused)
    sz = r"static_cast<\s*std::size_t\s*>\s*\(\s*pointer\s*\)"
    if re.search(r"if\s*\(\s*" + sz + r"\s*<\s*messageSize\s*&&\s*\(\s*" + sz + r"\s*\+\s*1\s*\)\s*<\s*messageSize\s*\)\s*(?://[^\n]*\n\s*)?\{\s*decodeName", dr):
        rd_margin = 1
    elif re.search(r"if\s*\(\s*" + sz + r"\s*<\s*messageSize\s*\)\s*\{\s*decodeName", dr):
        rd_margin = 0
    else:
        raise TranslateError("decodeNameFromRdata: unrecognised bounds test of the direct compression pointer")

    # --- checkBounds
    cb = cxxscan.function_body(msg, "checkBounds")
    if not re.search(r"if\s*\(\s*offset\s*\+\s*needed\s*>\s*total\s*\)", cb):
        raise TranslateError("checkBounds: unexpected comparison")

    # --- parse(): minimal size + four count-driven loops, typed parsing for answers/authority/additional
    pb = cxxscan.function_body(msg, "parse", signature_contains="std::size_t size")
    if not re.search(r"size\s*<\s*constants::DNS_HEADER_SIZE", pb):
        raise TranslateError("parse: header-size guard not found")
    loops = re.findall(r"i\s*<\s*result\.header\.(\w+)\s*;", pb)
    if loops != ["qdcount", "ancount", "nscount", "arcount"]:
        raise TranslateError("parse: section loops are %r" % loops)
    if len(re.findall(r"parseTypedRecord\s*\(\s*rr\s*,\s*result\s*,\s*data\s*,\s*size\s*,\s*rdataOffset\s*\)", pb)) != 3:
        raise TranslateError("parse: expected parseTypedRecord in the three record sections")

    # --- parseTypedRecord: which record types have a typed parser
    pt = cxxscan.function_body(msg, "parseTypedRecord")
    cases = re.findall(r"case\s+DnsType::(\w+)\s*:", pt)
    try:
        typed = sorted(tmap[c] for c in cases)
    except KeyError as e:
        raise TranslateError("parseTypedRecord: unknown enumerator %s" % e)
    if not re.search(r"catch\s*\(\s*const\s+std::exception\s*&", pt):
        raise TranslateError("parseTypedRecord: the catch-all for typed parsing errors is gone")

    # --- validateRdataSecurity: which record types it looks at, literals of the A rule
    vs = cxxscan.function_body(msg, "validateRdataSecurity")
    vtypes = re.findall(r"rr\.type\s*==\s*DnsType::(\w+)", vs)
    try:
        validated = sorted(set(tmap[c] for c in vtypes))
    except KeyError as e:
        raise TranslateError("validateRdataSecurity: unknown enumerator %s" % e)
    a_len = cxxscan.find_int(r"rr\.rdata\.size\(\)\s*!=\s*(\w+)", vs, "A-record RDATA length in validateRdataSecurity")
    a_min = cxxscan.find_int(r"rr\.rdata\.size\(\)\s*>=\s*(\w+)\s*&&", vs, "wrong-length A rule minimal size")
    a_hi = cxxscan.find_int(r"rr\.rdata\[0\]\s*&\s*(\w+)\s*\)\s*<<\s*8", vs, "A rule pointer high mask")
    a_lim = cxxscan.find_int(r"pointer\s*<\s*(\w+)\s*&&\s*rr\.rdata\[2\]\s*==\s*0x00\s*&&\s*rr\.rdata\[3\]\s*==\s*0x00", vs, "A rule pointer limit")
    if a_hi != 255 - cmask:
        raise TranslateError("A rule: pointer mask %#x is not the complement of the compression mask" % a_hi)
    scans_minus_one = bool(re.search(r"rdata\.size\(\)\s*-\s*1", vs))

    # --- typed parsers: minimum lengths
    def minlen(fn, pat, what):
        return cxxscan.find_int(pat, cxxscan.function_body(msg, fn), what)
    len_a = minlen("parseARecord", r"rr\.rdata\.size\(\)\s*!=\s*(\w+)", "A length")
    len_aaaa = minlen("parseAAAARecord", r"rr\.rdata\.size\(\)\s*!=\s*(\w+)", "AAAA length")
    min_srv = minlen("parseSrvRecord", r"rr\.rdata\.size\(\)\s*<\s*(\w+)", "SRV minimum")
    min_naptr = minlen("parseNaptrRecord", r"rr\.rdata\.size\(\)\s*<\s*(\w+)", "NAPTR minimum")
    min_mx = minlen("parseMxRecord", r"rr\.rdata\.size\(\)\s*<\s*(\w+)", "MX minimum")
    min_soa = minlen("parseSoaRecord", r"rr\.rdata\.size\(\)\s*<\s*(\w+)", "SOA minimum")
    soa_tail = minlen("parseSoaRecord", r"offset\s*\+\s*(\w+)\s*>\s*rr\.rdata\.size\(\)", "SOA numeric tail")

    # --- encodeName
    en = cxxscan.function_body(msg, "encodeName")
    for pat in (r"label\.length\(\)\s*>\s*constants::DNS_MAX_LABEL_SIZE", r"encoded\.size\(\)\s*>\s*constants::DNS_MAX_NAME_SIZE",
                r"name\.empty\(\)\s*\|\|\s*name\s*==\s*\"\.\"", r"if\s*\(\s*label\.empty\(\)\s*\)\s*continue"):
        if not re.search(pat, en):
            raise TranslateError("encodeName: expected `%s`" % pat)
    # where the 255-octet test sits: after the root label has been appended (the root octet counts: RFC 1035 2.3.4) or inside
    # the label loop, before it (the root octet is not counted: a 256-octet name is emitted)
    lw = re.search(r"while\s*\(\s*std::getline\s*\(\s*iss\s*,\s*label\s*,\s*'\.'\s*\)\s*\)\s*\{", en)
    if not lw:
        raise TranslateError("encodeName: label loop not found")
    lend = cxxscan.match_brace(en, lw.end() - 1)
    roots = [m.start() for m in re.finditer(r"encoded\.push_back\s*\(\s*0\s*\)\s*;", en) if m.start() > lend]
    checks = [m.start() for m in re.finditer(r"encoded\.size\(\)\s*>\s*constants::DNS_MAX_NAME_SIZE", en)]
    if len(roots) != 1 or len(checks) != 1:
        raise TranslateError("encodeName: expected one root-label append behind the loop and one length test (found %d, %d)" % (len(roots), len(checks)))
    if checks[0] > roots[0]:
        enc_counts_root = True
    elif lw.end() < checks[0] < lend:
        enc_counts_root = False
    else:
        raise TranslateError("encodeName: the length test is neither behind the root-label append nor inside the label loop")
    bq = cxxscan.function_body(msg, "buildQuery", signature_contains="recursionDesired")
    rd_flag = cxxscan.find_int(r"recursionDesired\s*\?\s*(\w+)\s*:\s*0x0000", bq, "RD flag literal")

    # --- ExpiringCache
    st = cxxscan.function_body(exp, "set")
    if not re.search(r"now\(\)\s*\+\s*\(\s*customTtl\.count\(\)\s*>\s*0\s*\?\s*customTtl\s*:\s*_ttl\s*\)", st):
        raise TranslateError("ExpiringCache::set: expiration expression changed")
    gt = cxxscan.function_body(exp, "get")
    m = re.search(r"it->second\.expiration\s*(>=|>|<=|<)\s*std::chrono::steady_clock::now\(\)", gt)
    if not m or m.group(1) not in (">", ">="):
        raise TranslateError("ExpiringCache::get: expiry comparison not recognised")
    get_strict = m.group(1) == ">"
    m = re.search(r"it->second\.expiration\s*(<=|<)\s*now", exp)
    if not m:
        raise TranslateError("ExpiringCache purge: expiry comparison not recognised")
    purge_incl = m.group(1) == "<="
    # lock skeleton: every public method touches `_cache` only inside the scope of a guard over `_mutex`
    locked = []
    for meth in ("set", "get", "remove", "size"):
        body = cxxscan.function_body(exp, meth)
        lk = re.search(r"std::(?:lock_guard|unique_lock)\s*<\s*std::mutex\s*>\s+lock\s*\(\s*_mutex\s*\)\s*;", body)
        if not lk:
            raise TranslateError("ExpiringCache::%s: no lock_guard/unique_lock over _mutex" % meth)
        # innermost block that contains the guard = its scope
        depth = 0
        start = 0
        stack = []
        for i, ch in enumerate(body[:lk.start()]):
            if ch == "{":
                stack.append(i)
            elif ch == "}":
                stack.pop()
        scope_end = cxxscan.match_brace(body, stack[-1]) if stack else len(body)
        for mm in re.finditer(r"\b_cache\b", body):
            if not (lk.end() <= mm.start() < scope_end):
                raise TranslateError("ExpiringCache::%s: `_cache` is used outside the scope of the lock over _mutex" % meth)
        locked.append(meth)
    pt = cxxscan.function_body(exp, "startPurgeThread")
    lk = re.search(r"std::unique_lock\s*<\s*std::mutex\s*>\s+lock\s*\(\s*_mutex\s*\)\s*;", pt)
    if not lk or any(mm.start() < lk.end() for mm in re.finditer(r"\b_cache\b", pt)):
        raise TranslateError("ExpiringCache purge thread: `_cache` is used before the unique_lock over _mutex")
    stack = []
    for i, ch in enumerate(pt[:lk.start()]):
        if ch == "{":
            stack.append(i)
        elif ch == "}":
            stack.pop()
    scope_end = cxxscan.match_brace(pt, stack[-1])
    if any(not (lk.end() <= mm.start() < scope_end) for mm in re.finditer(r"\b_cache\b", pt)):
        raise TranslateError("ExpiringCache purge thread: `_cache` is used outside the scope of the lock over _mutex")
    locked.append("purge")

    # --- DnsCache
    dflt = cxxscan.find_int(r"DnsCache\(\)\s*:\s*defaultTtlSeconds_\((\w+)\)", cache, "DnsCache default TTL")
    put = cxxscan.function_body(cache, "put")
    pneg = cxxscan.function_body(cache, "putNegative", signature_contains="std::uint32_t negativeTtl")
    zero_put = bool(re.search(r"if\s*\(\s*ttl\s*==\s*0\s*\)\s*\{\s*cache_->remove\s*\(\s*key\s*\)\s*;\s*return\s*;", put))
    zero_neg = bool(re.search(r"if\s*\(\s*negativeTtl\s*==\s*0\s*\)\s*\{\s*cache_->remove\s*\(\s*key\s*\)\s*;[^}]*return\s*;", pneg))
    if not re.search(r"cache_->set\s*\(\s*key\s*,\s*cachedResult\s*,\s*std::chrono::seconds\s*\(\s*ttl\s*\)\s*\)", put):
        raise TranslateError("DnsCache::put: set(key, cachedResult, seconds(ttl)) not found")
    if not re.search(r"cache_->set\s*\(\s*key\s*,\s*cachedResult\s*,\s*std::chrono::seconds\s*\(\s*negativeTtl\s*\)\s*\)", pneg):
        raise TranslateError("DnsCache::putNegative: set(key, cachedResult, seconds(negativeTtl)) not found")
    crt = cxxscan.function_body(cache, "calculateResultTtl")
    colls = re.findall(r"for\s*\(\s*const\s+auto\s*&\s*record\s*:\s*result\.(\w+)\s*\)\s*\{\s*min_ttl\s*=\s*std::min\s*\(\s*min_ttl\s*,\s*record\.ttl\s*\)", crt)
    want = ["answers", "authority", "additional", "a_records", "aaaa_records", "srv_records", "naptr_records", "cname_records",
            "mx_records", "txt_records", "ptr_records", "soa_records"]
    if colls != want:
        raise TranslateError("calculateResultTtl: collections folded into the minimum are %r" % colls)
    cnt = cxxscan.function_body(cache, "calculateNegativeTtl")
    if not re.search(r"return\s+std::min\s*\(\s*record\.minimum\s*,\s*record\.ttl\s*\)", cnt):
        raise TranslateError("calculateNegativeTtl: min(SOA.minimum, SOA.ttl) not found")
    fq = cxxscan.function_body(typ, "fromQuestion")
    tr = re.search(r"std::transform\s*\(\s*key\.qname\.begin\(\)\s*,\s*key\.qname\.end\(\)\s*,\s*key\.qname\.begin\(\)\s*,(.*?)\)\s*;\s*key\.qtype", fq, re.S)
    if not tr:
        raise TranslateError("DnsCacheKey::fromQuestion: std::transform over key.qname not found")
    fn = re.sub(r"\s+", " ", tr.group(1)).strip()
    if re.fullmatch(r"\[\]\s*\(\s*(?:unsigned\s+)?char\s+c\s*\)\s*\{\s*return\s*\(\s*c\s*>=\s*'A'\s*&&\s*c\s*<=\s*'Z'\s*\)\s*\?\s*static_cast<\s*char\s*>\s*\(\s*c\s*-\s*'A'\s*\+\s*'a'\s*\)\s*:\s*c\s*;\s*\}", fn):
        lower_ascii_only = True          # folds A-Z only: no locale, no undefined behaviour
    elif fn in ("::tolower", "tolower") or re.fullmatch(
            r"\[\]\s*\(\s*unsigned\s+char\s+c\s*\)\s*(?:->\s*[\w:<> ]+\s*)?\{\s*return\s+(?:static_cast<\s*\w+\s*>\s*\(\s*)?(?:std)?::tolower\s*\(\s*c\s*\)\s*\)?\s*;\s*\}", fn):
        lower_ascii_only = False         # <cctype> tolower: equals the ASCII fold in the "C" locale only
    else:
        raise TranslateError("DnsCacheKey::fromQuestion: unrecognised lower-casing function `%s`" % fn[:120])

    # DnsCache::clear -> initializeCache swaps the `cache_` unique_ptr: under a lock or not?
    ic = cxxscan.function_body(cache, "initializeCache")
    if not re.search(r"cache_\s*=\s*std::make_unique", ic):
        raise TranslateError("DnsCache::initializeCache: `cache_ = std::make_unique…` not found")
    clr = cxxscan.function_body(cache, "clear", signature_contains="resetHistoricalStats")
    if not re.search(r"initializeCache\s*\(\s*\)\s*;", clr):
        raise TranslateError("DnsCache::clear: initializeCache() not found")
    clear_locked = bool(re.search(r"std::(?:lock_guard|unique_lock|scoped_lock)", clr + ic))
    # key equality: which members the cache key and the pending-query key compare
    def eq_fields(src, cls, what):
        m = re.search(r"bool\s+operator==\s*\(\s*const\s+%s\s*&\s*other\s*\)\s*const\s*\{\s*return\s+([^;]+);" % cls, src)
        if not m:
            raise TranslateError("%s::operator== not found" % what)
        parts = [re.sub(r"\s+", "", x) for x in m.group(1).split("&&")]
        out = []
        for x in parts:
            mm = re.fullmatch(r"(\w+)==other\.(\w+)", x)
            if not mm or mm.group(1) != mm.group(2):
                raise TranslateError("%s::operator==: unrecognised conjunct `%s`" % (what, x))
            out.append(mm.group(1))
        return out
    cache_key_fields = eq_fields(typ, "DnsCacheKey", "DnsCacheKey")
    query_key_fields = eq_fields(tsp, "QueryKey", "DnsTransport::QueryKey")
    qk = tsp[tsp.index("struct QueryKey"):]
    qk = qk[:qk.index("struct PendingQuery")]
    lt = re.search(r"bool\s+operator<\s*\(\s*const\s+QueryKey\s*&\s*other\s*\)\s*const\s*\{(.*?)\}\s*bool\s+operator==", qk, re.S)
    if not lt or not re.fullmatch(r"\s*if\s*\(\s*queryId\s*!=\s*other\.queryId\s*\)\s*return\s+queryId\s*<\s*other\.queryId\s*;\s*if\s*\(\s*server\s*!=\s*other\.server\s*\)\s*"
                                 r"return\s+server\s*<\s*other\.server\s*;\s*return\s+port\s*<\s*other\.port\s*;\s*", lt.group(1)):
        raise TranslateError("DnsTransport::QueryKey::operator<: not the lexicographic order over (queryId, server, port)")

    # --- DnsTransport::handleTcpData: the reassembly skeleton, in source order
    ht = cxxscan.function_body(tsp, "handleTcpData")
    tcp_steps = [
        ("buffer-of-session", r"auto\s*&\s*buffer\s*=\s*tcpBuffers_\s*\[\s*sessionId\s*\]\s*;"),
        ("growth-check-close", r"if\s*\(\s*buffer\.size\(\)\s*\+\s*data\.size\(\)\s*>\s*config_\.maxTcpBufferSize\s*\)\s*\{[^{}]*buffer\.clear\(\)\s*;\s*tcpTransport_->close\s*\(\s*sessionId\s*\)\s*;\s*return\s*;\s*\}"),
        ("append", r"buffer\.insert\s*\(\s*buffer\.end\(\)\s*,\s*data\.data\(\)\s*,\s*data\.data\(\)\s*\+\s*data\.size\(\)\s*\)\s*;"),
        ("loop-while-2", r"while\s*\(\s*buffer\.size\(\)\s*>=\s*2\s*\)"),
        ("length-be16", r"std::uint16_t\s+messageLength\s*=\s*\(\s*buffer\[0\]\s*<<\s*8\s*\)\s*\|\s*buffer\[1\]\s*;"),
        ("zero-or-max-close", r"if\s*\(\s*messageLength\s*==\s*0\s*\|\|\s*messageLength\s*>\s*MAX_DNS_MESSAGE_SIZE\s*\)\s*\{[^{}]*buffer\.clear\(\)\s*;\s*tcpTransport_->close\s*\(\s*sessionId\s*\)\s*;\s*return\s*;\s*\}"),
        ("cap-close", r"if\s*\(\s*messageLength\s*>\s*maxSafeSize\s*\|\|\s*messageLength\s*>\s*config_\.maxTcpBufferSize\s*\)\s*\{.*?buffer\.clear\(\)\s*;\s*tcpTransport_->close\s*\(\s*sessionId\s*\)\s*;\s*return\s*;\s*\}"),
        ("incomplete-break", r"if\s*\(\s*buffer\.size\(\)\s*<\s*2\s*\+\s*static_cast<\s*std::size_t\s*>\s*\(\s*messageLength\s*\)\s*\)\s*\{[^{}]*break\s*;\s*\}"),
        ("session-lookup", r"auto\s+it\s*=\s*sessionToServer_\.find\s*\(\s*sessionId\s*\)\s*;"),
        ("unknown-session-pop-continue", r"for\s*\(\s*std::size_t\s+i\s*=\s*0\s*;\s*i\s*<\s*2\s*\+\s*static_cast<\s*std::size_t\s*>\s*\(\s*messageLength\s*\)\s*;\s*\+\+i\s*\)\s*\{\s*buffer\.pop_front\(\)\s*;\s*\}\s*continue\s*;"),
        ("copy-exact", r"std::vector<\s*std::uint8_t\s*>\s+messageData\s*\(\s*buffer\.begin\(\)\s*\+\s*2\s*,\s*buffer\.begin\(\)\s*\+\s*2\s*\+\s*messageLength\s*\)\s*;"),
        ("process-exact", r"processResponse\s*\(\s*messageData\.data\(\)\s*,\s*messageLength\s*,\s*DnsTransportMode::TCP\s*,\s*server\s*,\s*port\s*\)\s*;"),
        ("pop-exact", r"for\s*\(\s*std::size_t\s+i\s*=\s*0\s*;\s*i\s*<\s*2\s*\+\s*static_cast<\s*std::size_t\s*>\s*\(\s*messageLength\s*\)\s*;\s*\+\+i\s*\)\s*\{\s*buffer\.pop_front\(\)\s*;\s*\}"),
    ]
    pos = 0
    for tag, pat in tcp_steps:
        m = re.compile(pat, re.S).search(ht, pos)
        if not m:
            raise TranslateError("handleTcpData: step `%s` not found (in this order)" % tag)
        pos = m.end()
    tcp_max = cxxscan.find_int(r"static\s+const\s+std::uint16_t\s+MAX_DNS_MESSAGE_SIZE\s*=\s*(\w+)\s*;", ht, "handleTcpData: MAX_DNS_MESSAGE_SIZE")
    tcp_buf = cxxscan.find_int(r"std::size_t\s+maxTcpBufferSize\s*\{\s*(\w+)\s*\}\s*;", typ, "DnsConfig::maxTcpBufferSize default")
    hu = cxxscan.function_body(tsp, "handleUdpData")
    if not re.search(r"sessionToServer_\.find\s*\(\s*sessionId\s*\)", hu) or not re.search(
            r"processResponse\s*\(\s*data\.data\(\)\s*,\s*data\.size\(\)\s*,\s*DnsTransportMode::UDP\s*,\s*server\s*,\s*port\s*\)\s*;", hu):
        raise TranslateError("handleUdpData: session lookup / processResponse(data.data(), data.size(), UDP, server, port) not found")

    # --- DnsTransport::processResponse: everything of the parser is caught; the failed query is keyed by the first two bytes
    pr = cxxscan.function_body(tsp, "processResponse")
    m = re.search(r"\btry\s*\{", pr)
    if not m:
        raise TranslateError("processResponse: try block not found")
    tend = cxxscan.match_brace(pr, m.end() - 1)
    if not re.search(r"DnsMessage::parse\s*\(\s*data\s*,\s*size\s*\)", pr[m.end():tend]):
        raise TranslateError("processResponse: DnsMessage::parse(data, size) is not inside the try block")
    after = pr[tend + 1:]
    if not re.match(r"\s*catch\s*\(\s*const\s+std::exception\s*&", after):
        raise TranslateError("processResponse: the try block is not followed by catch (const std::exception &)")
    resp_min = cxxscan.find_int(r"if\s*\(\s*size\s*>=\s*(\w+)\s*\)\s*\{\s*std::uint16_t\s+queryId\s*=\s*\(\s*data\[0\]\s*<<\s*8\s*\)\s*\|\s*data\[1\]\s*;", after,
                                "processResponse: id of a rejected message")
    if not re.search(r"QueryKey\s+key\s*\(\s*queryId\s*,\s*sourceServer\s*,\s*sourcePort\s*\)\s*;[^}]*completeQuery\s*\(\s*key\s*,\s*error\s*\)", after, re.S):
        raise TranslateError("processResponse: completeQuery(key, error) for the extracted id not found")
    if not re.search(r"QueryKey\s+key\s*\(\s*result\.header\.id\s*,\s*sourceServer\s*,\s*sourcePort\s*\)", pr[m.end():tend]):
        raise TranslateError("processResponse: the success path does not key the query by result.header.id")

    # the truncation branch: mode UDP + TC -> in transport mode Both a pending query that has not fallen back is marked, re-sent over TCP and NOT completed
    if not re.search(r"if\s*\(\s*mode\s*==\s*DnsTransportMode::UDP\s*&&\s*result\.isTruncated\(\)\s*\)", pr[m.end():tend]) or not re.search(
            r"if\s*\(\s*config_\.transportMode\s*==\s*DnsTransportMode::Both\s*\)\s*\{\s*std::lock_guard<\s*std::mutex\s*>\s+lock\s*\(\s*queriesMutex_\s*\)\s*;\s*"
            r"auto\s+it\s*=\s*pendingQueries_\.find\s*\(\s*key\s*\)\s*;\s*if\s*\(\s*it\s*!=\s*pendingQueries_\.end\(\)\s*&&\s*!it->second->tcpFallback\s*\)\s*\{"
            r"[^{}]*it->second->tcpFallback\s*=\s*true\s*;\s*sendTcpQuery\s*\(\s*it->second\s*\)\s*;\s*return\s*;", pr[m.end():tend], re.S):
        raise TranslateError("processResponse: the truncation -> TCP fallback branch (mark, sendTcpQuery, return without completing) is not recognised")
    if not re.search(r"bool\s+isTruncated\(\)\s*const\s*\{\s*return\s+header\.tc\s*;\s*\}", typ):
        raise TranslateError("DnsResult::isTruncated() is not `return header.tc;`")

    t = HEADER % ", ".join([MSG, TYP, CACHE, EXP, TRANSPORT])
    t += "namespace Iora.Gen.Dns\n"
    t += "/-- `constants::` of dns_types.hpp -/\n"
    t += "def headerSize : Nat := %d\ndef maxLabel : Nat := %d\ndef maxName : Nat := %d\n" % (header_size, max_label, max_name)
    t += "def compressionMask : Nat := %d\ndef pointerMask : Nat := %d\n" % (cmask, pmask)
    t += "/-- the name-length test of the decoder is `totalLength + 1 > DNS_MAX_NAME_SIZE` (the root label is counted) rather than `totalLength > …` -/\n"
    t += "def nameLimitCountsRoot : Bool := %s\n" % _lean_bool(counts_root)
    t += "/-- `if (++jumps > DNS_MAX_COMPRESSION_JUMPS) throw` is present in the name loop; its constant (0 when absent) -/\n"
    t += "def hasJumpCap : Bool := %s\ndef maxJumps : Nat := %d\n" % (_lean_bool(max_jumps is not None), max_jumps or 0)
    t += "/-- `enum class DnsType` / `DnsClass` (name, value) -/\n"
    t += "def types : List (String × Nat) := %s\n" % lean_str_nat_list(types)
    t += "def classes : List (String × Nat) := %s\n" % lean_str_nat_list(classes)
    t += "/-- record types with a `case` in `parseTypedRecord` -/\n"
    t += "def typedTypes : List Nat := %s\n" % lean_nat_list(typed)
    t += "/-- record types compared against `rr.type` in `validateRdataSecurity` -/\n"
    t += "def validatedTypes : List Nat := %s\n" % lean_nat_list(validated)
    t += "/-- `validateRdataSecurity` still contains `rdata.size() - 1` arithmetic -/\n"
    t += "def validateHasSizeMinusOne : Bool := %s\n" % _lean_bool(scans_minus_one)
    t += "/-- literals of the A-record rule: exact length, minimal wrong length inspected, pointer limit -/\n"
    t += "def aLen : Nat := %d\ndef aWrongMin : Nat := %d\ndef aPointerLimit : Nat := %d\n" % (a_len, a_min, a_lim)
    t += "/-- literal lengths of the typed parsers -/\n"
    t += "def lenA : Nat := %d\ndef lenAAAA : Nat := %d\ndef minSrv : Nat := %d\ndef minNaptr : Nat := %d\ndef minMx : Nat := %d\ndef minSoa : Nat := %d\ndef soaTail : Nat := %d\n" % (
        len_a, len_aaaa, min_srv, min_naptr, min_mx, min_soa, soa_tail)
    t += "/-- `decodeNameWithLoopDetection`: leaving the `while (offset < size)` loop without a terminator throws -/\n"
    t += "def unterminatedIsError : Bool := %s\n" % _lean_bool(unterminated_is_error)
    t += "/-- `decodeNameFromRdata`, direct-pointer branch: the target must satisfy `pointer + margin < messageSize` (0 after the repair of FC19f; 1 before: a pointer to the root label in the last byte of the message was refused) -/\n"
    t += "def rdataPointerMargin : Nat := %d\n" % rd_margin
    t += "/-- `encodeName` tests `encoded.size() > DNS_MAX_NAME_SIZE` AFTER the root label has been appended (true) or inside the label loop, before it (false) -/\n"
    t += "def encodeLimitCountsRoot : Bool := %s\n" % _lean_bool(enc_counts_root)
    t += "/-- `buildQuery`: flags word when recursion is desired -/\n"
    t += "def rdFlag : Nat := %d\n" % rd_flag
    t += "/-- `DnsCache()` default TTL (s) -/\n"
    t += "def cacheDefaultTtl : Nat := %d\n" % dflt
    t += "/-- `ExpiringCache::get` serves iff `expiration > now` (strict) -/\n"
    t += "def getStrict : Bool := %s\n" % _lean_bool(get_strict)
    t += "/-- purge thread removes iff `expiration <= now` -/\n"
    t += "def purgeInclusive : Bool := %s\n" % _lean_bool(purge_incl)
    t += "/-- `DnsCacheKey::fromQuestion` folds A-Z only (true) or calls <cctype> tolower, which does the same in the C locale only (false) -/\n"
    t += "def lowerAsciiOnly : Bool := %s\n" % _lean_bool(lower_ascii_only)
    t += "/-- ExpiringCache methods (and the purge sweep) whose every use of `_cache` lies inside the scope of a guard over `_mutex` -/\n"
    t += "def cacheLockedMethods : List String := [%s]\n" % ", ".join('"%s"' % x for x in locked)
    t += "/-- `DnsCache::put` / `putNegative` drop the entry instead of caching when the TTL is 0 -/\n"
    t += "def zeroTtlNotCachedPut : Bool := %s\ndef zeroTtlNotCachedNeg : Bool := %s\n" % (_lean_bool(zero_put), _lean_bool(zero_neg))
    t += "/-- `processResponse`: a rejected message needs this many bytes for its query id `(data[0] << 8) | data[1]` to be extracted -/\n"
    t += "def respMinIdBytes : Nat := %d\n" % resp_min
    t += "/-- `DnsCache::clear` -> `initializeCache` replaces the `cache_` unique_ptr inside a lock (true) or with no lock at all (false) -/\n"
    t += "def clearSwapUnderLock : Bool := %s\n" % _lean_bool(clear_locked)
    t += "/-- members compared by `DnsCacheKey::operator==` and by `DnsTransport::QueryKey::operator==` (its `operator<` is the lexicographic order over the same three) -/\n"
    t += "def cacheKeyFields : List String := [%s]\n" % ", ".join('"%s"' % x for x in cache_key_fields)
    t += "def queryKeyFields : List String := [%s]\n" % ", ".join('"%s"' % x for x in query_key_fields)
    t += "/-- `handleTcpData`: the reassembly steps found in this source order; `MAX_DNS_MESSAGE_SIZE`; `DnsConfig::maxTcpBufferSize` default -/\n"
    t += "def tcpSkeleton : List String := [%s]\n" % ", ".join('"%s"' % x for x, _ in tcp_steps)
    t += "def tcpMaxMessage : Nat := %d\ndef tcpDefaultBuffer : Nat := %d\n" % (tcp_max, tcp_buf)
    t += "end Iora.Gen.Dns\n"
    return "IoraModel/Gen/Dns.lean", t
