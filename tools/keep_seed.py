#!/usr/bin/env python3
"""usage: keep_seed.py <seed worktree> <seed id e.g. C14-a> <property> "<check result summary>" "<caught by>"  — copies SEED/* into /verif/seeded/<id>/."""
import json, os, shutil, sys
wt, sid, prop, result, caught = sys.argv[1:6]
dst = os.path.join(os.path.dirname(os.path.dirname(os.path.abspath(__file__))), "seeded", sid)
os.makedirs(dst, exist_ok=True)
for fn in os.listdir(os.path.join(wt, "SEED")):
    if fn == "meta.json" or os.path.getsize(os.path.join(wt, "SEED", fn)) > 400000:
        continue
    shutil.copy(os.path.join(wt, "SEED", fn), dst)
m = json.load(open(os.path.join(wt, "SEED", "meta.json")))
m["breaks_property"] = prop
m["confirmed_by_coordinator"] = {
    "demo": "demo built against the worktree with the change (fails) and with include/ restored to HEAD (passes)",
    "existing_tests": "as listed by the breaker in tests_run (built with -Wall -Wextra -Wpedantic -Werror, pass with the change)",
    "check_run": result, "caught_by": caught}
json.dump(m, open(os.path.join(dst, "meta.json"), "w"), indent=1)
print("kept", dst, os.listdir(dst))
