"""Translator unit `assetserve` -> Gen/AssetsServe.lean (C20, serve layer): the HTTP glue in front of Assets::getStatic /
getTemplate.  Facts the model (Model/AssetsServe.lean) is DEFINED from:
  * parsers::detail::percentDecode / hexNibble / urlDecode (include/iora/parsers/html_escape.hpp): escape byte, look-ahead bound
    exactly as written (`i + 2 < n`), nibble offsets, shift, advance, the three hex ranges with their offsets, the `plusIsSpace`
    argument urlDecode passes;
  * Application::hasDotDotSegment (include/iora/web/application.hpp): separator and refused segment;
  * Application::serveStatic: how often and of what the path is decoded, the operands of the pre-check and of getStatic, the
    order of the steps, the status codes / fixed bodies of the refusals, the gzip selection and the body ternary;
  * Application::render: the census of every `_assets.` access (exactly getTemplate(templateName) and getTemplate(name));
  * HttpServer: the status a MATCHED route starts with, and that the wildcard suffix is copied verbatim from the route match.
A source shape that is not recognised raises TranslateError (never a default)."""
import re
import cxxscan
from translate import TranslateError, HEADER, read

F_APP = "include/iora/web/application.hpp"
F_ESC = "include/iora/parsers/html_escape.hpp"
F_SRV = "include/iora/network/http_server.hpp"

C_ESC = {"0": 0, "\\": 92, "n": 10, "t": 9, "r": 13, "'": 39, '"': 34}
CH = r"'((?:\\.|[^'\\]))'"


def char_lit(s, what):
    if len(s) == 1:
        return ord(s)
    if len(s) == 2 and s[0] == "\\" and s[1] in C_ESC:
        return C_ESC[s[1]]
    raise TranslateError("%s: unsupported character literal %r" % (what, s))


def ws(s):
    return re.sub(r"\s+", " ", s).strip()


def lean_bytes(b):
    return "[" + ", ".join(str(x) for x in b) + "]"


def qs(xs):
    return "[" + ", ".join('"%s"' % x.replace("\\", "\\\\").replace('"', '\\"') for x in xs) + "]"


def need(m, what):
    if not m:
        raise TranslateError("%s: source shape not recognised" % what)
    return m


def gen(repo):
    esc = read(repo, F_ESC)
    app = read(repo, F_APP)
    srv = read(repo, F_SRV)

    # ---------------------------------------------------------------- hexNibble
    hn = ws(cxxscan.function_body(esc, "hexNibble", signature_contains="unsigned char"))
    ranges = re.findall(r"if \( ?c >= %s && c <= %s ?\) \{ return c - %s( \+ (\d+))? ?; \}" % (CH, CH, CH), hn)
    if len(ranges) != 3:
        raise TranslateError("hexNibble: expected three `if (c >= lo && c <= hi) return c - lo [+ k];` ranges, found %d" % len(ranges))
    hex_ranges = []
    for lo, hi, sub, _, add in ranges:
        if lo != sub:
            raise TranslateError("hexNibble: range %r..%r subtracts %r" % (lo, hi, sub))
        hex_ranges.append((char_lit(lo, "hexNibble"), char_lit(hi, "hexNibble"), int(add) if add else 0))
    rest = hn
    for m in re.finditer(r"if \( ?c >= %s && c <= %s ?\) \{ return c - %s( \+ \d+)? ?; \}" % (CH, CH, CH), hn):
        rest = rest.replace(m.group(0), "")
    if ws(rest) != "return -1;":
        raise TranslateError("hexNibble: unrecognised statements besides the three ranges: %r" % ws(rest)[:80])

    # ---------------------------------------------------------------- percentDecode
    pd = ws(cxxscan.function_body(esc, "percentDecode", signature_contains="plusIsSpace"))
    need(re.search(r"const std::size_t n = in\.size\(\) ?; std::size_t i = 0 ?; while \( ?i < n ?\)", pd), "percentDecode: loop header")
    need(re.search(r"const char c = in\[i\] ?;", pd), "percentDecode: current byte")
    m = need(re.search(r"if \( ?c == %s ?\) \{ if \( ?i \+ (\d+) (<=|<) n ?\) \{ const int hi = hexNibble\( ?static_cast<unsigned char>\( ?in\[i \+ (\d+)\] ?\) ?\) ?; "
                       r"const int lo = hexNibble\( ?static_cast<unsigned char>\( ?in\[i \+ (\d+)\] ?\) ?\) ?; "
                       r"if \( ?hi >= 0 && lo >= 0 ?\) \{ out \+= static_cast<char>\( ?\( ?hi << (\d+) ?\) \| lo ?\) ?; i \+= (\d+) ?; continue ?; \} \} "
                       r"out \+= %s ?; i \+= (\d+) ?; continue ?; \}" % (CH, CH), pd), "percentDecode: the `%` branch")
    escape = char_lit(m.group(1), "percentDecode escape")
    look, look_cmp, hi_off, lo_off, shift, adv = int(m.group(2)), m.group(3), int(m.group(4)), int(m.group(5)), int(m.group(6)), int(m.group(7))
    literal = char_lit(m.group(8), "percentDecode literal")
    lit_adv = int(m.group(9))
    m2 = need(re.search(r"if \( ?plusIsSpace && c == %s ?\) \{ out \+= %s ?; i \+= (\d+) ?; continue ?; \} out \+= c ?; i \+= (\d+) ?; \} return out ?;$" % (CH, CH), pd),
              "percentDecode: the `+` branch / copy branch")
    plus, space = char_lit(m2.group(1), "plus"), char_lit(m2.group(2), "space")
    if int(m2.group(3)) != 1 or int(m2.group(4)) != 1 or lit_adv != 1:
        raise TranslateError("percentDecode: a non-escape byte must advance by exactly 1")
    if len(re.findall(r"hexNibble\(", pd)) != 2 or len(re.findall(r"\bout \+=", pd)) != 4:
        raise TranslateError("percentDecode: unexpected number of hexNibble calls / appends")
    ud = ws(cxxscan.function_body(esc, "urlDecode", signature_contains="std::string_view"))
    m3 = need(re.fullmatch(r"return detail::percentDecode\( ?in ?, ?(true|false) ?\) ?;", ud), "urlDecode")
    url_plus = m3.group(1) == "true"

    # ---------------------------------------------------------------- hasDotDotSegment
    dd = ws(cxxscan.function_body(app, "hasDotDotSegment", signature_contains="std::string_view"))
    m4 = need(re.fullmatch(r"std::size_t start = 0 ?; while \( ?true ?\) \{ const std::size_t slash = path\.find\( ?%s ?, ?start ?\) ?; "
                           r"const std::string_view seg = \( ?slash == std::string_view::npos ?\) \? path\.substr\( ?start ?\) : path\.substr\( ?start ?, ?slash - start ?\) ?; "
                           r"if \( ?seg == \"([^\"]*)\" ?\) \{ return true ?; \} if \( ?slash == std::string_view::npos ?\) \{ break ?; \} start = slash \+ 1 ?; \} return false ?;" % CH, dd),
              "hasDotDotSegment")
    dd_sep, dd_seg = char_lit(m4.group(1), "hasDotDotSegment separator"), list(m4.group(2).encode())

    # ---------------------------------------------------------------- serveStatic
    ss = ws(cxxscan.function_body(app, "serveStatic", signature_contains="std::string_view prefix"))
    m5 = need(re.search(r"std::string decodedPath = ([^;]*);", ss), "serveStatic: decodedPath")
    init = m5.group(1).strip()
    depth = 0
    e = init
    while True:
        mm = re.fullmatch(r"parsers::urlDecode\( ?(.*?) ?\)", e)
        if not mm:
            break
        depth += 1
        e = mm.group(1)
    decode_arg = e
    if depth == 0 or not re.fullmatch(r"[\w.]+", decode_arg):
        raise TranslateError("serveStatic: decodedPath initialiser %r not recognised" % init)
    if decode_arg != "req.pathRest":
        raise TranslateError("serveStatic: decodes %r, not req.pathRest" % decode_arg)
    if len(re.findall(r"urlDecode|percentDecode|formDecode", ss)) != depth:
        raise TranslateError("serveStatic: a decode call outside the decodedPath initialiser")
    m6 = need(re.search(r"if \( ?hasDotDotSegment\( ?([\w.]+) ?\) \|\| \( ?!([\w.]+)\.empty\(\) && ([\w.]+)\.front\(\) == %s ?\) ?\) \{ (.*?) return ?; \}" % CH, ss),
              "serveStatic: pre-check")
    pre_args = [m6.group(1), m6.group(2), m6.group(3)]
    pre_lead = char_lit(m6.group(4), "pre-check leading byte")

    def refusal(block, what):
        mm = need(re.search(r"res\.status = (\d+) ?; res\.set_content\( ?\"([^\"]*)\" ?, ?\"([^\"]*)\" ?\) ?;$", block.strip()), what)
        return int(mm.group(1)), mm.group(2), mm.group(3)
    pre_ref = refusal(m6.group(5), "serveStatic: pre-check refusal")
    m7 = need(re.search(r"GetStaticResult result = _assets\.getStatic\( ?([\w.]+) ?\) ?;", ss), "serveStatic: getStatic call")
    gs_arg = m7.group(1)
    branches = re.findall(r"if \( ?result\.status == GetStaticResult::Status::(\w+) ?\) \{ (.*?) return ?; \}", ss)
    if [b[0] for b in branches] != ["Rejected", "NotFound"]:
        raise TranslateError("serveStatic: result.status branches %s" % [b[0] for b in branches])
    rej_ref = refusal(branches[0][1], "serveStatic: Rejected refusal")
    nf_ref = refusal(branches[1][1], "serveStatic: NotFound refusal")
    assets_uses = re.findall(r"_assets\s*\.\s*(\w+)\s*\(\s*([^()]*)\)", ss)
    if assets_uses != [("getStatic", gs_arg)] or len(re.findall(r"_assets\b", ss)) != 1:
        raise TranslateError("serveStatic: `_assets` accesses %s" % assets_uses)
    need(re.search(r"const StaticBlob &blob = result\.blob ?;", ss), "serveStatic: blob")
    m8 = need(re.search(r"const bool serveGzip = ([^;]*);", ss), "serveStatic: serveGzip")
    conj = [ws(x) for x in m8.group(1).split("&&")]
    if conj != ["blob.gzipVariantExists", "blob.gzipBytes.has_value()", 'gzipAcceptable(req.get_header_value("Accept-Encoding"))']:
        raise TranslateError("serveStatic: serveGzip conjuncts %s" % conj)
    m9 = need(re.search(r"const std::string_view body = serveGzip \? ([^:;]+) : ([^;]+);", ss), "serveStatic: body ternary")
    tern = (ws(m9.group(1)), ws(m9.group(2)))
    if tern == ("*blob.gzipBytes", "blob.bytes"):
        gz_first = True
    elif tern == ("blob.bytes", "*blob.gzipBytes"):
        gz_first = False
    else:
        raise TranslateError("serveStatic: body ternary %s" % (tern,))
    need(re.search(r"const std::string mime\( ?blob\.mime ?\) ?; res\.set_content\( ?std::string\( ?body ?\) ?, ?mime ?\) ?;", ss), "serveStatic: 200 body")
    need(re.search(r"if \( ?serveGzip ?\) \{ res\.set_header\( ?\"Content-Encoding\" ?, ?\"gzip\" ?\) ?; \}", ss), "serveStatic: Content-Encoding")
    # every write of the body / status in the handler, in source order (nothing unknown may write file bytes)
    writes = [ws(x) for x in re.findall(r"res\.(?:status = \d+|set_content\((?:\"[^\"]*\"|[^;\"])*\)|body\.clear\(\))", ss)]
    marks = ["urlDecode", "hasDotDotSegment", ".front()", "_assets.getStatic", "Status::Rejected", "Status::NotFound", "serveGzip =",
             "If-None-Match", "body =", "set_content(std::string(body)"]
    order = [mk for _, mk in sorted((ss.find(mk), mk) for mk in marks)]
    if any(ss.find(mk) < 0 for mk in marks):
        raise TranslateError("serveStatic: step marker missing: %s" % [mk for mk in marks if ss.find(mk) < 0])

    # ---------------------------------------------------------------- render
    rd = ws(cxxscan.function_body(app, "render", signature_contains="std::string_view templateName"))
    r_uses = re.findall(r"_assets\s*\.\s*(\w+)\s*\(\s*([^()]*)\)", rd)
    if len(re.findall(r"_assets\b", rd)) != len(r_uses):
        raise TranslateError("render: an `_assets` access that is not a member call")
    need(re.search(r"\[this\]\( ?std::string_view name ?\) -> std::optional<std::string> \{ std::optional<std::string_view> t = _assets\.getTemplate\( ?name ?\) ?;", rd),
         "render: partial resolver")
    if re.search(r"readFile|ifstream|fopen|::open|std::filesystem|fs::", rd):
        raise TranslateError("render: direct file access in render")

    # ---------------------------------------------------------------- HttpServer: start status of a MATCHED route, pathRest
    m10 = need(re.search(r"case DispatchDecision::Cat::MATCHED:\s*res\.status = (\d+) ?;", srv), "HttpServer: MATCHED start status")
    ok_status = int(m10.group(1))
    pm = ws(cxxscan.function_body(srv, "patternMatches", signature_contains="std::string &pathRest"))
    need(re.search(r"std::string rest ?; for \( ?std::size_t i = cp\.segments\.size\(\) ?; i < reqToks\.size\(\) ?; \+\+i ?\) \{ if \( ?i > cp\.segments\.size\(\) ?\) "
                   r"\{ rest\.push_back\( ?'/' ?\) ?; \} rest \+= reqToks\[i\] ?; \} pathRest = std::move\( ?rest ?\) ?;", pm), "HttpServer::patternMatches: wildcard suffix")
    if re.search(r"[dD]ecode", pm) or not re.search(r"req\.pathRest = decision\.pathRest ?;", ws(srv)):
        raise TranslateError("HttpServer: pathRest is no longer the raw wildcard suffix")
    srv_decodes = len(re.findall(r"urlDecode|percentDecode|formDecode", srv))

    t = HEADER % (F_ESC + ", " + F_APP + ", " + F_SRV)
    t += "namespace Iora.Gen.AssetsServe\n"
    t += "/-- `hexNibble`: the ranges `(lo, hi, k)` of `if (c >= lo && c <= hi) return c - lo + k;`, in source order; anything else is -1 -/\n"
    t += "def hexRanges : List (UInt8 × UInt8 × Nat) := [%s]\n" % ", ".join("(%d, %d, %d)" % r for r in hex_ranges)
    t += "/-- `percentDecode`: `if (c == '%')` -/\n"
    t += "def escapeByte : UInt8 := %d\n" % escape
    t += "/-- `percentDecode`: the look-ahead bound exactly as written: `if (i + lookAhead <lookCmp> n)` -/\n"
    t += "def lookAhead : Nat := %d\ndef lookCmp : String := \"%s\"\n" % (look, look_cmp)
    t += "/-- `percentDecode`: `hi = hexNibble(in[i + hiOffset])`, `lo = hexNibble(in[i + loOffset])`, `(hi << hiShift) | lo`, `i += advance` -/\n"
    t += "def hiOffset : Nat := %d\ndef loOffset : Nat := %d\ndef hiShift : Nat := %d\ndef advance : Nat := %d\n" % (hi_off, lo_off, shift, adv)
    t += "/-- `percentDecode`: what is appended when the escape is not followed by two hex digits (`out += '%'`) -/\n"
    t += "def literalByte : UInt8 := %d\n" % literal
    t += "/-- `percentDecode`: `if (plusIsSpace && c == '+') out += ' '` -/\n"
    t += "def plusByte : UInt8 := %d\ndef spaceByte : UInt8 := %d\n" % (plus, space)
    t += "/-- `urlDecode(in)` = `detail::percentDecode(in, <this>)` -/\n"
    t += "def urlDecodePlusIsSpace : Bool := %s\n" % ("true" if url_plus else "false")
    t += "/-- `hasDotDotSegment`: `path.find(<sep>, start)`, `seg == <refused>` -/\n"
    t += "def ddSeparator : UInt8 := %d\ndef ddRefused : List UInt8 := %s\n" % (dd_sep, lean_bytes(dd_seg))
    t += "/-- `serveStatic`: `decodedPath = urlDecode^decodeDepth(<decodeArg>)`; no other decode call in the handler -/\n"
    t += "def decodeDepth : Nat := %d\ndef decodeArg : String := \"%s\"\n" % (depth, decode_arg)
    t += "/-- `serveStatic`: operands of the pre-check `hasDotDotSegment(x) || (!y.empty() && z.front() == <lead>)` and of `_assets.getStatic(w)` -/\n"
    t += "def precheckArgs : List String := %s\ndef precheckLeading : UInt8 := %d\ndef getStaticArg : String := \"%s\"\n" % (qs(pre_args), pre_lead, gs_arg)
    t += "def precheckOnDecoded : Bool := %s\n" % ("true" if pre_args == ["decodedPath"] * 3 else "false")
    t += "def getStaticOnDecoded : Bool := %s\n" % ("true" if gs_arg == "decodedPath" else "false")
    if pre_args != ["decodedPath"] * 3 and pre_args != ["req.pathRest"] * 3:
        raise TranslateError("serveStatic: pre-check operands %s" % pre_args)
    if gs_arg not in ("decodedPath", "req.pathRest"):
        raise TranslateError("serveStatic: getStatic operand %s" % gs_arg)
    t += "/-- `serveStatic`: the refusals (status, fixed body, content type): pre-check, `Status::Rejected`, `Status::NotFound` -/\n"
    for nm, (st, body, ct) in (("precheck", pre_ref), ("rejected", rej_ref), ("notFound", nf_ref)):
        t += "def %sStatus : Nat := %d\ndef %sBody : List UInt8 := %s\ndef %sType : String := \"%s\"\n" % (nm, st, nm, lean_bytes(list(body.encode())), nm, ct)
    t += "/-- `HttpServer`: `case MATCHED: res.status = <this>` before the handler runs -/\n"
    t += "def okStatus : Nat := %d\n" % ok_status
    t += "/-- `serveStatic`: `serveGzip = c1 && c2 && c3`; `body = serveGzip ? *blob.gzipBytes : blob.bytes` (true) or the inverse (false) -/\n"
    t += "def serveGzipConjuncts : List String := %s\ndef gzipBytesWhenServeGzip : Bool := %s\n" % (qs(conj), "true" if gz_first else "false")
    t += "/-- `serveStatic`: order of the steps, every write of status/body in source order, every `_assets.` access -/\n"
    t += "def serveOrder : List String := %s\n" % qs(order)
    t += "def serveWrites : List String := %s\n" % qs(writes)
    t += "def serveAssetsUses : List (String × String) := [%s]\n" % ", ".join('("%s", "%s")' % u for u in assets_uses)
    t += "/-- `render`: every `_assets.` access (the partial resolver's names come from template text) -/\n"
    t += "def renderAssetsUses : List (String × String) := [%s]\n" % ", ".join('("%s", "%s")' % (a, ws(b)) for a, b in r_uses)
    t += "/-- `HttpServer`: number of percent-decode calls in http_server.hpp (pathRest is the raw wildcard suffix) -/\n"
    t += "def httpServerDecodeCalls : Nat := %d\n" % srv_decodes
    t += "end Iora.Gen.AssetsServe\n"
    return "IoraModel/Gen/AssetsServe.lean", t
