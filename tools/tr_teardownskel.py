"""Translator unit `teardownskel` -> Gen/TeardownSkel.lean (C05 follow-up).

What the teardown models of C05 TAKE from the source (tr_tsyncskel, shared with C03/C04, records lock/notify order only):

  * statement-level skeletons (if-conditions and statements, whitespace-free text) of `Transport::~Transport` (production
    branch of the IORA_DISABLE_SELFDESTRUCT_DEFERRAL switch), `Impl::teardownWaitOut`, `Impl::performTeardown`,
    `Impl::FlushFrame::~FlushFrame`, `Impl::releaseOwnFlushes`, and the first statement (the I/O-thread guard) of
    connectSync / receiveSync / sendSync / setReadMode / stop / addListener;
  * values extracted from them that the model is instantiated with: the argument of every `teardownWaitOut(...)` call per
    path, the polarity of the `if (notifyReceive)` test, the conjuncts of the gate predicate, whether the I/O-thread branch of
    the destructor and the guards of the four synchronous operations carry an `isRunning()` conjunct, whether the flush loop
    touches the object only through its local pointer after the first data callback;
  * for BOTH engines (tcp_engine.hpp, udp_engine.hpp), with the member names normalised (`qmx`/`closed`/`q`), the event
    skeletons of enqueue (both overloads), shutdownDrain, process, addListener, stop, detachForTermination,
    scheduleSelfDestruct, the thread epilogue of start(), and the two loop functions.

A shape this unit does not recognise raises TranslateError (never a default)."""
import re
import cxxscan
from translate import TranslateError, HEADER, read

FILE = "include/iora/network/transport_impl.hpp"
TCP = "include/iora/network/detail/tcp_engine.hpp"
UDP = "include/iora/network/detail/udp_engine.hpp"


# ---------------------------------------------------------------------------------------------------------------------
# statement-level parser (enough of C++ for the handful of small functions named above)

def blank_strings(body):
    return re.sub(r'"(?:[^"\\\n]|\\.)*"', '""', body)


def _match(src, i, open_ch, close_ch, what):
    depth = 0
    n = len(src)
    while i < n:
        c = src[i]
        if c == open_ch:
            depth += 1
        elif c == close_ch:
            depth -= 1
            if depth == 0:
                return i
        i += 1
    raise TranslateError("%s: unbalanced %s%s" % (what, open_ch, close_ch))


def squash(s):
    s = re.sub(r"\s+", " ", s).strip()
    # remove blanks except between two identifier characters (`delete raw`, `return x`, `Impl *raw` -> `Impl*raw`)
    return re.sub(r"(?<![A-Za-z0-9_]) | (?![A-Za-z0-9_])", "", s)


def parse_stmts(src, what):
    """-> flat list of (kind, text): ("if", cond) ("else","") ("for", head) ("{","") ("}","") ("stmt", text)"""
    out = []
    i, n = 0, len(src)
    while i < n:
        if src[i].isspace() or src[i] == ";":
            i += 1
            continue
        if src[i] == "#":
            raise TranslateError("%s: preprocessor directive in a place the unit does not know: %r" % (what, src[i:i + 40]))
        m = re.match(r"(if|for|while|switch)\s*\(", src[i:])
        if m and (i == 0 or not (src[i - 1].isalnum() or src[i - 1] == "_")):
            p = i + m.end() - 1
            q = _match(src, p, "(", ")", what)
            out.append((m.group(1), squash(src[p + 1:q])))
            i = q + 1
            # the controlled statement: a block or a single statement
            while i < n and src[i].isspace():
                i += 1
            if i < n and src[i] == "{":
                e = _match(src, i, "{", "}", what)
                out.append(("{", ""))
                out += parse_stmts(src[i + 1:e], what)
                out.append(("}", ""))
                i = e + 1
            else:
                e = _stmt_end(src, i, what)
                out.append(("{", ""))
                out += parse_stmts(src[i:e + 1], what)
                out.append(("}", ""))
                i = e + 1
            continue
        m = re.match(r"else\b", src[i:])
        if m:
            out.append(("else", ""))
            i += m.end()
            while i < n and src[i].isspace():
                i += 1
            if i < n and src[i] == "{":
                e = _match(src, i, "{", "}", what)
                out.append(("{", ""))
                out += parse_stmts(src[i + 1:e], what)
                out.append(("}", ""))
                i = e + 1
            continue
        m = re.match(r"(try|do)\b", src[i:])
        if m:
            raise TranslateError("%s: `%s` statement is not a shape this unit knows" % (what, m.group(1)))
        if src[i] == "{":
            e = _match(src, i, "{", "}", what)
            out.append(("{", ""))
            out += parse_stmts(src[i + 1:e], what)
            out.append(("}", ""))
            i = e + 1
            continue
        e = _stmt_end(src, i, what)
        out.append(("stmt", squash(src[i:e])))
        i = e + 1
    return out


def _stmt_end(src, i, what):
    depth = 0
    n = len(src)
    while i < n:
        c = src[i]
        if c in "({[":
            depth += 1
        elif c in ")}]":
            depth -= 1
            if depth < 0:
                raise TranslateError("%s: unbalanced statement" % what)
        elif c == ";" and depth == 0:
            return i
        i += 1
    raise TranslateError("%s: statement without terminating `;`" % what)


def body_of(src, sig_regex, what, nth=None):
    hits = []
    for m in re.finditer(sig_regex, src):
        i = src.index("(", m.start())
        q = _match(src, i, "(", ")", what)
        mm = re.match(r"(?:\s*(?:const|noexcept|override))*\s*(?::[^{;]*?)?\{", src[q + 1:], re.S)
        if not mm:
            continue
        b = q + 1 + mm.end() - 1
        hits.append(src[b + 1:cxxscan.match_brace(src, b)])
    if nth is not None:
        if len(hits) <= nth:
            raise TranslateError("%s: definition #%d not found" % (what, nth))
        return hits[nth]
    if len(hits) != 1:
        raise TranslateError("%s: expected exactly one definition, found %d" % (what, len(hits)))
    return hits[0]


def struct_body(src, name):
    m = re.search(r"\bstruct\s+%s\s*\{" % re.escape(name), src)
    if not m:
        raise TranslateError("struct %s not found" % name)
    b = m.end() - 1
    return src[b + 1:cxxscan.match_brace(src, b)]


def production_branch(body, what):
    """resolve `#ifdef IORA_DISABLE_SELFDESTRUCT_DEFERRAL … #else … #endif` to the #else (production) part"""
    m = re.search(r"^[ \t]*#\s*ifdef\s+IORA_DISABLE_SELFDESTRUCT_DEFERRAL\b.*?^[ \t]*#\s*else\b[^\n]*\n(.*?)^[ \t]*#\s*endif\b[^\n]*\n", body, re.S | re.M)
    if not m:
        if "#" in body:
            raise TranslateError("%s: preprocessor structure not recognised" % what)
        return body
    return body[:m.start()] + m.group(1) + body[m.end():]


# ---------------------------------------------------------------------------------------------------------------------
# engine skeletons (both engines; member names normalised)

def engine_tok(names):
    return re.compile(r"""
   (?P<guard>std::(?:unique_lock|lock_guard)\s*<\s*std::mutex\s*>\s*(?P<gname>\w+)\s*[\({]\s*(?P<gm>_\w+)\s*[\)}])
 | (?P<rclosed>\bif\s*\(\s*%(closed)s\s*\))
 | (?P<wclosed>\b%(closed)s\s*=\s*(?P<wcv>true|false))
 | (?P<push>\b%(q)s\s*\.\s*push_back\s*\()
 | (?P<swap>\b(?P<swn>\w+)\s*\.\s*swap\s*\(\s*%(q)s\s*\))
 | (?P<wake>::write\s*\(\s*_eventFd)
 | (?P<cfd>::close\s*\(\s*_eventFd\s*\))
 | (?P<setv>listenerReady\s*->\s*set_value\s*\(\s*(?P<sva>\w+)\s*\))
 | (?P<ifready>\bif\s*\(\s*c\s*\.\s*listenerReady\s*\))
 | (?P<ret>\breturn\s+(?P<rv>true|false)\b)
 | (?P<reterr>\breturn\s+ListenResult::err\s*\((?=\s*TransportErrorInfo\s*\{\s*TransportError::(?P<errc>\w+)))
 | (?P<retok>\breturn\s+ListenResult::ok\b)
 | (?P<retvoid>\breturn\s*;)
 | (?P<proc>(?<![\w.>])process\s*\(\s*\))
 | (?P<drain>(?<![\w.>])shutdownDrain\s*\(\s*\))
 | (?P<enq>(?<![\w.>])enqueue\s*\(\s*%(cmd)s::(?P<enqk>\w+)\s*\((?P<enqa>[^)]*)\))
 | (?P<fget>\bfut\s*\.\s*get\s*\(\s*\))
 | (?P<running>\b_running\s*\.\s*(?P<rop>load|store|compare_exchange_strong)\s*\((?P<rarg>[^)]*)\))
 | (?P<whilerun>\bwhile\s*\(\s*_running\s*\.\s*load\s*\(\s*\)\s*\))
 | (?P<join>\b_loop\s*\.\s*join\s*\(\s*\))
 | (?P<detach>\b_loop\s*\.\s*detach\s*\(\s*\))
 | (?P<joinable>\bif\s*\(\s*_loop\s*\.\s*joinable\s*\(\s*\)\s*\))
 | (?P<getid>\b_loop\s*\.\s*get_id\s*\(\s*\))
 | (?P<doadd>\b%(doadd)s\s*\()
 | (?P<catch>\bcatch\s*\()
 | (?P<case>\bcase\s+%(case)s::(?P<casen>\w+)\s*:)
 | (?P<forres>\bfor\s*\(\s*auto\s*&\s*c\s*:\s*residual\s*\))
 | (?P<sdset>\b_selfDestruct\s*=\s*std::move\s*\(\s*deleter\s*\))
 | (?P<sdswap>\bsd\s*\.\s*swap\s*\(\s*_selfDestruct\s*\))
 | (?P<sdcall>\bif\s*\(\s*sd\s*\)\s*\{?\s*sd\s*\(\s*\))
 | (?P<loopcall>(?<![\w.>])loop\s*\(\s*\))
 | (?P<open>\{) | (?P<close>\})
""" % names, re.X)


def engine_skeleton(body, where, names):
    body = blank_strings(body)
    tok = engine_tok(names)
    ev = []
    depth = 0
    guards = []
    covered = []
    for m in tok.finditer(body):
        covered.append((m.start(), m.end()))
        h = ",".join(sorted({g[1] for g in guards}))
        if m.group("open"):
            depth += 1
        elif m.group("close"):
            for g in [g for g in guards if g[2] == depth]:
                ev.append(("unlock", g[1], h))
            guards = [g for g in guards if g[2] < depth]
            depth -= 1
        elif m.group("guard"):
            mx = "qmx" if m.group("gm") == names["mutex"] else m.group("gm")
            guards.append([m.group("gname"), mx, depth])
            ev.append(("lock", mx, h))
        elif m.group("rclosed"):
            ev.append(("read", "closed", h))
        elif m.group("wclosed"):
            ev.append(("write", "closed=" + m.group("wcv"), h))
        elif m.group("push"):
            ev.append(("push", "q", h))
        elif m.group("swap"):
            ev.append(("swap", "residual" if m.group("swn") == "residual" else "batch", h))
        elif m.group("wake"):
            ev.append(("wake", "_eventFd", h))
        elif m.group("cfd"):
            ev.append(("close", "_eventFd", h))
        elif m.group("setv"):
            ev.append(("set_value", m.group("sva"), h))
        elif m.group("ifready"):
            ev.append(("if", "listenerReady", h))
        elif m.group("ret"):
            ev.append(("return", m.group("rv"), h))
        elif m.group("reterr"):
            ev.append(("return", "err:" + m.group("errc"), h))
        elif m.group("retok"):
            ev.append(("return", "ok", h))
        elif m.group("retvoid"):
            ev.append(("return", "void", h))
        elif m.group("proc"):
            ev.append(("call", "process", h))
        elif m.group("drain"):
            ev.append(("call", "shutdownDrain", h))
        elif m.group("enq"):
            a = re.sub(r"\s+", "", m.group("enqa"))
            ev.append(("enqueue", m.group("enqk") + ("+promise" if "ready" in a else ""), h))
        elif m.group("fget"):
            ev.append(("wait", "future", h))
        elif m.group("whilerun"):
            ev.append(("while", "running", h))
        elif m.group("running"):
            ev.append(("running", m.group("rop") + ":" + re.sub(r"\s+", "", m.group("rarg")), h))
        elif m.group("join"):
            ev.append(("join", "_loop", h))
        elif m.group("detach"):
            ev.append(("detach", "_loop", h))
        elif m.group("joinable"):
            ev.append(("if", "joinable", h))
        elif m.group("getid"):
            ev.append(("read", "_loop.get_id", h))
        elif m.group("doadd"):
            ev.append(("call", "doAddListener", h))
        elif m.group("catch"):
            ev.append(("catch", "", h))
        elif m.group("case"):
            ev.append(("case", m.group("casen"), h))
        elif m.group("forres"):
            ev.append(("for", "residual", h))
        elif m.group("sdset"):
            ev.append(("write", "_selfDestruct=deleter", h))
        elif m.group("sdswap"):
            ev.append(("swap", "sd<-_selfDestruct", h))
        elif m.group("sdcall"):
            ev.append(("call", "sd-if-set", h))
        elif m.group("loopcall"):
            ev.append(("call", "loop", h))
    for g in guards:
        ev.append(("unlock", g[1], ",".join(sorted({x[1] for x in guards}))))
    for v in (names["closed"], names["q"], "_selfDestruct", "_loop", "listenerReady"):
        for m in re.finditer(r"(?<![\w])%s\b" % re.escape(v), body):
            if not any(a <= m.start() < b for a, b in covered):
                raise TranslateError("%s: use of %s in a shape the unit does not know: %r"
                                     % (where, v, re.sub(r"\s+", " ", body[max(0, m.start() - 30):m.end() + 30]).strip()))
    return ev


def all_bodies(src, sig_regex, what):
    out = []
    for m in re.finditer(sig_regex, src):
        i = src.index("(", m.start())
        q = _match(src, i, "(", ")", what)
        mm = re.match(r"(?:\s*(?:const|noexcept|override))*\s*\{", src[q + 1:], re.S)
        if not mm:
            continue
        b = q + 1 + mm.end() - 1
        out.append(src[b + 1:cxxscan.match_brace(src, b)])
    return out


def one_body(src, sig_regex, what):
    b = all_bodies(src, sig_regex, what)
    if len(b) != 1:
        raise TranslateError("%s: expected exactly one definition, found %d" % (what, len(b)))
    return b[0]


def engine_rows(repo, rel, tag, names):
    src = read(repo, rel)
    cls = "%sEngine" % tag.capitalize()
    rows = []
    enq = all_bodies(src, r"\bbool\s+enqueue\s*\(", cls + "::enqueue")
    if len(enq) != 2:
        raise TranslateError("%s::enqueue: expected 2 overloads, found %d" % (cls, len(enq)))
    for k, b in enumerate(enq):
        rows.append(("%s.enqueue#%d" % (tag, k), engine_skeleton(b, "%s::enqueue#%d" % (cls, k), names)))
    for name, sig in (("shutdownDrain", r"\bvoid\s+shutdownDrain\s*\("), ("process", r"\bvoid\s+process\s*\("),
                      ("addListener", r"\bListenResult\s+addListener\s*\("), ("stop", r"\bvoid\s+stop\s*\(\s*\)\s*override"),
                      ("detachForTermination", r"\bvoid\s+detachForTermination\s*\("),
                      ("scheduleSelfDestruct", r"\bvoid\s+scheduleSelfDestruct\s*\("),
                      ("loopUnbatched", r"\bvoid\s+loopUnbatched\s*\("), ("loopBatched", r"\bvoid\s+loopBatched\s*\(")):
        rows.append(("%s.%s" % (tag, name), engine_skeleton(one_body(src, sig, "%s::%s" % (cls, name)), "%s::%s" % (cls, name), names)))
    # the thread function of start(): `_loop = std::thread([this] { … })`
    start = one_body(src, r"\bStartResult\s+start\s*\(", cls + "::start")
    m = re.search(r"_loop\s*=\s*std::thread\s*\(\s*\[this\]\s*\{", start)
    if not m:
        raise TranslateError("%s::start: thread function not found" % cls)
    b = m.end() - 1
    rows.append(("%s.threadFn" % tag, engine_skeleton(start[b + 1:cxxscan.match_brace(start, b)], "%s::start thread function" % cls, names)))
    # _selfDestruct / _loop.detach / the closed flag are touched nowhere else
    for v, allowed in (("_selfDestruct", 2), (names["closed"] + r"\s*=", 2), (r"_loop\s*\.\s*detach", 1)):
        k = len(re.findall(r"(?<![\w])%s" % v, re.sub(r"std::function<void\(\)>\s+_selfDestruct", "", src)))
        if k != allowed:
            raise TranslateError("%s: %s occurs %d times, the models know %d" % (cls, v, k, allowed))
    return rows


def lean_rows(rows):
    return ",\n".join('  ("%s", [%s])' % (w, ", ".join('("%s", "%s", "%s")' % e for e in evs)) for w, evs in rows)


def lean_pairs(pairs):
    return "[" + ", ".join('("%s", "%s")' % (a, b.replace("\\", "\\\\").replace('"', '\\"')) for a, b in pairs) + "]"


def first_stmt_guard(body, what):
    st = parse_stmts(production_branch(body, what), what)
    if len(st) < 4 or st[0][0] != "if" or st[1] != ("{", ""):
        return ("none", "")
    k = 2
    inner = []
    while k < len(st) and st[k] != ("}", ""):
        inner.append(st[k])
        k += 1
    act = "throw:logic_error" if (len(inner) == 1 and inner[0][0] == "stmt" and inner[0][1].startswith("throw std::logic_error(")) else "other"
    return (st[0][1], act)



# ---------------------------------------------------------------------------------------------------------------------
# callback inventory + thread roles (C05 extension round): which member functions of an engine class contain a call site of a
# user callback (`= _cbs.on*` copy-then-invoke, or a call of `err(`), from which THREAD ROLE each of them is reachable over the
# class-internal call graph, and what the TimerService handlers do.
#   roles:  io     the lambda handed to `std::thread(` in start()
#           timer  every lambda handed to `_timerService->scheduleAfter(`
#           api    every member function of a `public:` section (the caller's own thread)
# A lambda handed to anything else stays part of its enclosing function; a lambda handed to `std::async(` must call no member
# function at all (it is a helper thread that cannot reach a callback).

ACCESS = re.compile(r"\b(public|private|protected)\s*:(?!:)")
KEYWORDS = {"if", "for", "while", "switch", "return", "sizeof", "catch", "decltype", "static_cast", "reinterpret_cast", "const_cast",
            "dynamic_cast", "assert", "throw", "new", "delete", "alignof", "noexcept", "operator", "defined", "static_assert", "else", "do"}


def class_body(src, cls):
    m = re.search(r"\bclass\s+%s\b[^;{]*\{" % re.escape(cls), src)
    if not m:
        raise TranslateError("class %s not found" % cls)
    b = m.end() - 1
    return src[b + 1:cxxscan.match_brace(src, b)]


def class_functions(body, cls):
    """-> list of (name, access, body text) for the member function DEFINITIONS at class level (nested types are skipped)"""
    text = blank_strings(body)
    out = []
    access = "private"
    i, n = 0, len(text)
    seg = 0                      # start of the current declaration
    while i < n:
        c = text[i]
        if c == ";":
            seg = i + 1
        elif c == "(":
            i = _match(text, i, "(", ")", cls)
        elif c == "{":
            head = text[seg:i]
            e = cxxscan.match_brace(text, i)
            for am in ACCESS.finditer(head):
                access = am.group(1)
            head = ACCESS.sub(" ", head)
            hs = head.strip()
            if re.match(r"(?:template\s*<[^>]*>\s*)?(struct|class|enum|union|namespace)\b", hs):
                # nested type: skip the block and its trailing `;`
                i = e
                seg = e + 1
            elif "(" in hs:
                # function definition: name = identifier before the first `(` at angle/paren depth 0
                p = hs.index("(")
                nm = re.search(r"(~?\w+)\s*$", hs[:p])
                if not nm:
                    raise TranslateError("%s: cannot name the definition %r" % (cls, hs[:80]))
                out.append((nm.group(1), access, text[i + 1:e]))
                i = e
                seg = e + 1
            else:
                # brace initialiser of a data member (`T _x{..};` / `T _x{..}, _y{..};`)
                i = e
        i += 1
    return out


def excise_lambdas(fbody, where, opener_regex):
    """-> (body without the lambdas handed to `opener_regex(`, [lambda bodies])"""
    lambdas = []
    while True:
        m = re.search(opener_regex, fbody)
        if not m:
            return fbody, lambdas
        p = fbody.index("(", m.end() - 1)
        q = _match(fbody, p, "(", ")", where)
        args = fbody[p + 1:q]
        lm = re.search(r"\[[^\]]*\]\s*(?:\([^)]*\))?\s*\{", args)
        if not lm:
            raise TranslateError("%s: no lambda handed to %s" % (where, opener_regex))
        b = lm.end() - 1
        e = cxxscan.match_brace(args, b)
        lambdas.append(args[b + 1:e])
        fbody = fbody[:m.start()] + " EXCISED " + fbody[q + 1:]


def callees(body, names):
    out = set()
    for m in re.finditer(r"(?<![\w.>:])(?:this\s*->\s*)?(~?\w+)\s*\(", body):
        if m.group(1) in names and m.group(1) not in KEYWORDS:
            out.add(m.group(1))
    return out


def callback_sites(body):
    """direct call sites of a user callback in a function body: (kind, arm) with arm = `catch` inside a catch block else `body`"""
    sites = []
    catches = []
    for m in re.finditer(r"\bcatch\s*\(", body):
        q = _match(body, body.index("(", m.start()), "(", ")", "catch")
        b = body.index("{", q)
        catches.append((b, cxxscan.match_brace(body, b)))
    for m in re.finditer(r"=\s*_cbs\s*\.\s*(on\w+)\s*;", body):
        sites.append((m.group(1), "catch" if any(a < m.start() < b for a, b in catches) else "body"))
    for m in re.finditer(r"(?<![\w.>:])err\s*\(", body):
        sites.append(("err()", "catch" if any(a < m.start() < b for a, b in catches) else "body"))
    return sites


def role_inventory(repo, rel, cls):
    src = read(repo, rel)
    fns = class_functions(class_body(src, cls), cls)
    names = {f[0] for f in fns}
    graph, sites, access = {}, {}, {}
    roots = {"io": set(), "timer": set(), "api": set()}
    timer_handlers = []
    n_thread = n_async = 0
    for name, acc, body in fns:
        where = "%s::%s" % (cls, name)
        body, th = excise_lambdas(body, where, r"\bstd::thread\s*\(")
        body, tm = excise_lambdas(body, where, r"\b_timerService\s*->\s*schedule\w+\s*\(")
        body, asy = excise_lambdas(body, where, r"\bstd::async\s*\(")
        n_thread += len(th)
        n_async += len(asy)
        for l in th:
            roots["io"] |= callees(l, names)
            if callback_sites(l):
                raise TranslateError("%s: the thread function itself calls a user callback" % where)
        for l in tm:
            c = callees(l, names)
            st = parse_stmts(l, where + " timer lambda")
            if len(st) != 1 or st[0][0] != "stmt" or len(c) != 1 or not re.match(r"%s\(\w+\)$" % re.escape(sorted(c)[0]), st[0][1]) or callback_sites(l):
                raise TranslateError("%s: a timer lambda is not a single call of one handler: %r" % (where, st))
            roots["timer"] |= c
            timer_handlers.append(sorted(c)[0])
        for l in asy:
            if callees(l, names) or callback_sites(l) or re.search(r"\bthis\b|\b_\w+", l):
                raise TranslateError("%s: a std::async lambda touches the engine object: %r" % (where, squash(l)))
        if re.search(r"\bstd::(thread|async|jthread)\b|\bpthread_create\b", re.sub(r"std::thread::id|std::this_thread", "", body)):
            raise TranslateError("%s: creates a thread in a shape the unit does not know" % where)
        key = name
        k = 1
        while key in graph:                  # overloads: name#1, name#2 …; an edge to `name` means an edge to every overload
            key = "%s#%d" % (name, k)
            k += 1
        graph[key] = callees(body, names)
        sites[key] = callback_sites(body)
        access[key] = acc
        if acc == "public":
            roots["api"].add(name)
    if n_thread != 1:
        raise TranslateError("%s: expected exactly one std::thread( with a lambda, found %d" % (cls, n_thread))
    base = lambda k: k.split("#")[0]
    reach = {}
    for role, rs in roots.items():
        seen = set()
        todo = [k for k in graph if base(k) in rs]
        while todo:
            k = todo.pop()
            if k in seen:
                continue
            seen.add(k)
            todo += [j for j in graph if base(j) in graph[k] and j not in seen]
        reach[role] = seen
    inv = []
    for key in graph:
        for kind, arm in sites[key]:
            roles = [r for r in ("io", "timer", "api") if key in reach[r]]
            row = (key, kind, arm, "[" + ", ".join('"%s"' % r for r in roles) + "]")
            if row not in inv:
                inv.append(row)
    handlers = []
    for h in sorted(set(timer_handlers)):
        hb = [b for (nm, _, b) in fns if nm == h]
        if len(hb) != 1:
            raise TranslateError("%s: timer handler %s has %d definitions" % (cls, h, len(hb)))
        handlers.append((h, parse_stmts(hb[0], "%s::%s" % (cls, h))))
    return {"inv": inv, "reach": reach, "handlers": handlers, "roots": roots, "async": n_async, "graph": graph, "sites": sites}


def handler_shape(stmts):
    """what a TimerService handler does, as the roles model needs it: `enqueue-ignored` = its body is the single expression statement
    `enqueue(Command::close(...))` whose result is discarded; anything else is `other`"""
    if len(stmts) == 1 and stmts[0][0] == "stmt" and re.match(r"enqueue\(Command::close\(sid,.*\)\)$", stmts[0][1]):
        return "enqueue-ignored"
    return "other"


def roles_text(repo):
    t = ""
    for tag, rel, cls in (("tcp", TCP, "TcpEngine"), ("udp", UDP, "UdpEngine")):
        r = role_inventory(repo, rel, cls)
        t += "/-- %s: every direct call site of a user callback (`= _cbs.on*` copy-then-invoke, or a call of `err(`): (member function, callback,\n" % cls
        t += "`catch` when the site sits in an exception arm else `body`, thread roles the function is reachable from over the class-internal call graph) -/\n"
        t += "def %sCallbackSites : List (String × String × String × List String) := [\n%s]\n" % (
            tag, ",\n".join('  ("%s", "%s", "%s", %s)' % x for x in r["inv"]))
        t += "/-- %s: member functions reachable from the TimerService lambdas (`_timerService->schedule*(…, [this…]{ handler(sid); })`) -/\n" % cls
        t += "def %sTimerRoleFns : List String := [%s]\n" % (tag, ", ".join('"%s"' % x for x in sorted(r["reach"]["timer"])))
        t += "/-- %s: (TimerService handler, its statements, shape: `enqueue-ignored` = the single statement `enqueue(Command::close(sid, …));`) -/\n" % cls
        t += "def %sTimerHandlers : List (String × List (String × String) × String) := [%s]\n" % (
            tag, ", ".join('("%s", %s, "%s")' % (h, lean_pairs(st), handler_shape(st)) for h, st in r["handlers"]))
        t += "/-- %s: public member functions (API role) from which a callback site is reachable, with the sites' functions -/\n" % cls
        api = []
        for root in sorted(r["roots"]["api"]):
            seen, todo = set(), [k for k in r["graph"] if k.split("#")[0] == root]
            while todo:
                k = todo.pop()
                if k in seen:
                    continue
                seen.add(k)
                todo += [j for j in r["graph"] if j.split("#")[0] in r["graph"][k] and j not in seen]
            hit = sorted({k + ":" + arm for k in seen for (_, arm) in r["sites"][k]})
            if hit:
                api.append((root, " ".join(hit)))
        t += "def %sApiCallbackEntries : List (String × String) := %s\n" % (tag, lean_pairs(api))
        t += "def %sAsyncLambdas : Nat := %d\n" % (tag, r["async"])
        if tag == "tcp":
            # does the shutdown drain cancel the safety-net timers of the sessions it closes? (directly or through closeNow/cancel*)
            seen, todo = set(), ["shutdownDrain"]
            while todo:
                k = todo.pop()
                if k in seen or k == "process":
                    continue                      # process() is the drain's FIRST statement (pinned): what it dispatches is not the drain's loop
                seen.add(k)
                todo += [j for j in r["graph"] if j.split("#")[0] in r["graph"].get(k, ()) and j not in seen]
            src = read(repo, rel)
            direct = re.search(r"_timerService\s*->\s*cancel", one_body(src, r"\bvoid\s+shutdownDrain\s*\(", "TcpEngine::shutdownDrain")) is not None
            cancels = direct or any(re.match(r"cancel\w*Time(r|out)s?$", k) for k in seen)
            t += "/-- TcpEngine::shutdownDrain cancels the TimerService timers of the sessions it closes (it reaches `cancel*Timeout`/`cancelAllTimers`\n"
            t += "or calls `_timerService->cancel`; `process()`, its first statement, not counted) -/\n"
            t += "def tcpDrainCancelsTimers : Bool := %s\n" % ("true" if cancels else "false")
            # start(): the fresh eventfd is published and the queue reopened in ONE _cmdMutex critical section (the TimerService role may
            # be inside enqueue() at any time, also during a restart); cleanupStartFail closes the eventfd under the same mutex
            def locked_blocks(body, what):
                out, rest = [], body
                for m in re.finditer(r"\{\s*std::lock_guard\s*<\s*std::mutex\s*>\s*\w+\s*\(\s*_cmdMutex\s*\)\s*;", body):
                    e = cxxscan.match_brace(body, m.start())
                    out.append(body[m.end():e])
                    rest = rest.replace(body[m.start():e + 1], " ")
                return out, rest
            st_body = blank_strings(one_body(src, r"\bStartResult\s+start\s*\(", "TcpEngine::start"))
            blocks, outside = locked_blocks(st_body, "start")
            pub = [squash(x) for b in blocks for x in b.split(";") if x.strip()]
            wr_out = len(re.findall(r"(?<![\w.>])_eventFd\s*=(?!=)", outside)) + len(re.findall(r"(?<![\w.>])_cmdsClosed\s*=(?!=)", outside))
            cf_body = blank_strings(one_body(src, r"\bvoid\s+cleanupStartFail\s*\(", "TcpEngine::cleanupStartFail"))
            cblocks, coutside = locked_blocks(cf_body, "cleanupStartFail")
            cf_ok = any(re.search(r"::close\s*\(\s*_eventFd\s*\)", b) and re.search(r"_eventFd\s*=\s*-1", b) for b in cblocks) and \
                not re.search(r"(?<![\w.>])_eventFd\s*=(?!=)", coutside)
            t += "/-- TcpEngine::start: the statements of its `_cmdMutex` critical section(s), and the number of writes of `_eventFd` / `_cmdsClosed` outside them -/\n"
            t += "def tcpStartLockedStmts : List String := [%s]\n" % ", ".join('"%s"' % x for x in pub)
            t += "def tcpStartUnlockedQueueWrites : Nat := %d\n" % wr_out
            t += "/-- TcpEngine::cleanupStartFail closes `_eventFd` (and resets it) under `_cmdMutex` only -/\n"
            t += "def tcpStartFailClosesEventFdUnderLock : Bool := %s\n" % ("true" if cf_ok else "false")
    return t

def gen(repo):
    src = read(repo, FILE)
    impl = struct_body(src, "Transport::Impl")
    # ---- Transport::~Transport
    dtor_body = production_branch(body_of(src, r"\bTransport::~Transport\s*\(", "Transport::~Transport"), "~Transport")
    dtor = parse_stmts(blank_strings(dtor_body), "~Transport")
    wait_out = parse_stmts(body_of(impl, r"\bvoid\s+teardownWaitOut\s*\(", "Impl::teardownWaitOut"), "teardownWaitOut")
    perform = [s for s in parse_stmts(blank_strings(body_of(impl, r"\bvoid\s+performTeardown\s*\(", "Impl::performTeardown")), "performTeardown")
               if not (s[0] == "stmt" and s[1].startswith("assert("))]
    fence = parse_stmts(body_of(impl, r"\bvoid\s+setTeardownFence\s*\(", "Impl::setTeardownFence"), "setTeardownFence")
    have_frame = re.search(r"\bstruct\s+FlushFrame\b", impl) is not None
    if have_frame:
        ff = struct_body(impl, "FlushFrame")
        frame_dtor = parse_stmts(body_of(ff, r"~FlushFrame\s*\(", "FlushFrame destructor"), "~FlushFrame")
        frame_ctor_m = re.search(r"FlushFrame\s*\(\s*Impl\s*\*\s*\w+\s*,[^)]*\)\s*:\s*([^{]*)\{", ff)
        if not frame_ctor_m:
            raise TranslateError("FlushFrame constructor not found")
        frame_ctor = [("init", squash(frame_ctor_m.group(1)))] + parse_stmts(body_of(ff, r"(?<![~\w])FlushFrame\s*\(\s*Impl", "FlushFrame constructor"), "FlushFrame ctor")
        release = parse_stmts(body_of(impl, r"\bFlushFrame\s*\*\s*releaseOwnFlushes\s*\(", "Impl::releaseOwnFlushes"), "releaseOwnFlushes")
        # the walk of releaseOwnFlushes over the thread's frame stack: a FILTER (every frame is visited, `impl == this` is tested inside the
        # body) or a TAKE-WHILE (the test sits in the loop condition: the walk stops at the first frame of another transport)
        heads = [x[1] for x in release if x[0] == "for"]
        inner = [x[1] for x in release if x[0] == "if"]
        body = [x[1] for x in release if x[0] == "stmt"]
        if heads == ["FlushFrame*f=FlushFrame::top();f!=nullptr;f=f->prev"] and inner == ["f->impl==this"] and "f->guard.reset()" in body and "outer=f" in body:
            walk_filters = "true"
        elif len(heads) == 1 and re.match(r"FlushFrame\*f=FlushFrame::top\(\);(f!=nullptr&&f->impl==this|f->impl==this&&f!=nullptr|f&&f->impl==this);f=f->prev$", heads[0]) \
                and inner == [] and "f->guard.reset()" in body and "outer=f" in body:
            walk_filters = "false"
        else:
            raise TranslateError("releaseOwnFlushes: the walk over the flush frames is neither the filter nor the take-while shape this unit knows: %r" % (release,))
    else:
        frame_dtor, frame_ctor, release = [], [], []
        walk_filters = "false"

    # ---- extracted values
    def block_after(stmts, pred, what):
        for k, s in enumerate(stmts):
            if s[0] == "if" and pred(s[1]):
                if stmts[k + 1] != ("{", ""):
                    raise TranslateError("%s: branch without a block" % what)
                depth, j, blk = 0, k + 1, []
                while j < len(stmts):
                    if stmts[j][0] == "{":
                        depth += 1
                    elif stmts[j][0] == "}":
                        depth -= 1
                        if depth == 0:
                            return s[1], blk
                    if j > k + 1:
                        blk.append(stmts[j])
                    j += 1
        raise TranslateError("%s: branch not found" % what)

    def wait_arg(blk, what):
        args = [re.match(r".*teardownWaitOut\((true|false)\)$", s[1]).group(1) for s in blk
                if s[0] == "stmt" and re.match(r".*teardownWaitOut\((true|false)\)$", s[1])]
        if len(args) != 1:
            raise TranslateError("%s: expected exactly one teardownWaitOut(<literal>) call, found %d" % (what, len(args)))
        return args[0]

    io_cond, io_blk = block_after(dtor, lambda c: "getIoThreadId()" in c, "~Transport I/O-thread branch")
    io_notify = wait_arg(io_blk, "~Transport I/O-thread branch")
    io_running = "isRunning()" in io_cond
    st_cond, st_blk = block_after(perform, lambda c: "isRunning()" in c, "performTeardown already-stopped branch")
    if squash(st_cond) != "!engine->isRunning()":
        raise TranslateError("performTeardown: already-stopped test is %r" % st_cond)
    stopped_notify = wait_arg(st_blk, "performTeardown already-stopped branch")
    tail = perform[perform.index(("}", "")) + 1:] if ("}", "") in perform else []
    normal_notify = wait_arg(tail, "performTeardown normal path")
    # polarity of the receive-notify test in teardownWaitOut
    ng = [s[1] for s in wait_out if s[0] == "if"]
    if ng == ["notifyReceive"]:
        notify_positive = "true"
    elif ng == ["!notifyReceive"]:
        notify_positive = "false"
    else:
        raise TranslateError("teardownWaitOut: the receive-notify test is %r" % ng)
    wm = [s[1] for s in wait_out if s[0] == "stmt" and s[1].startswith("teardownCv.wait(")]
    if len(wm) != 1:
        raise TranslateError("teardownWaitOut: expected exactly one teardownCv.wait")
    pm = re.match(r"teardownCv\.wait\(lk,\[this\]\{return (.*);\}\)$", wm[0])
    if not pm:
        raise TranslateError("teardownWaitOut: wait predicate not recognised: %r" % wm[0])
    conj = pm.group(1).split("&&")
    gate = []
    for c in conj:
        cm = re.match(r"(activeReceives|activeConnects|activeFlushes)==0$", c)
        if not cm:
            raise TranslateError("teardownWaitOut: gate conjunct %r not recognised" % c)
        gate.append(cm.group(1))
    # ---- I/O-thread guards
    guards = []
    for name, sig in (("connectSync", r"\bTransport::connectSync\s*\("), ("receiveSync", r"\bTransport::receiveSync\s*\("),
                      ("sendSync", r"\bTransport::sendSync\s*\("), ("setReadMode", r"\bTransport::setReadMode\s*\("),
                      ("addListener", r"\bTransport::addListener\s*\(")):
        c, a = first_stmt_guard(blank_strings(body_of(src, sig, "Transport::" + name)), name)
        guards.append((name, c, a))
    # stop(): the guard sits inside `if (_impl && _impl->engine)`
    stop_st = parse_stmts(blank_strings(body_of(src, r"\bvoid\s+Transport::stop\s*\(", "Transport::stop")), "stop")
    stop_guard = [s[1] for s in stop_st if s[0] == "if" and "getIoThreadId()" in s[1]]
    guards.append(("stop", stop_guard[0] if len(stop_guard) == 1 else "", "throw:logic_error" if any(s[0] == "stmt" and s[1].startswith("throw std::logic_error(") for s in stop_st) else "other"))
    # ---- the flush loop after the first callback: only the local pointer
    srm = body_of(src, r"\bTransport::setReadMode\s*\(", "Transport::setReadMode")
    fm = re.search(r"\bImpl::FlushFrame\s+\w+\s*\(\s*(\w+)\s*,\s*flushGuard\s*\)\s*;", srm)
    if fm:
        after = srm[fm.end():]
        local = fm.group(1)
        decl = re.search(r"\bImpl\s*\*\s*const\s+%s\s*=\s*_impl\.get\(\)\s*;" % re.escape(local), srm[:fm.start()])
        loop_local = "true" if (decl and not re.search(r"\b_impl\b|\bthis\b", after) and re.search(r"\bcb\s*\(\s*sid\b", after)) else "false"
        frame_after_guard = "true" if srm.index("std::unique_ptr<Impl::FlushGuard> flushGuard") < fm.start() else "false"
    else:
        loop_local, frame_after_guard = "false", "false"

    # ---- the park guards live until the END of the call (declared at the top block level of the function body): the connect
    # guard in particular must outlive the unlocked `engine->close` window of the time-out exit
    def depth_of(body, pat, what):
        hits = [m for m in re.finditer(pat, body)]
        if len(hits) != 1:
            raise TranslateError("%s: expected exactly one declaration, found %d" % (what, len(hits)))
        pre = blank_strings(body[:hits[0].start()])
        return pre.count("{") - pre.count("}")
    cs = body_of(src, r"\bTransport::connectSync\s*\(", "Transport::connectSync")
    rs = body_of(src, r"\bTransport::receiveSync\s*\(", "Transport::receiveSync")
    guards_whole_call = (depth_of(cs, r"\bImpl::ParkGuard\s+\w+\s*\(\s*_impl->activeConnects\b", "connectSync ParkGuard") == 0 and
                         depth_of(rs, r"\bImpl::ParkGuard\s+\w+\s*\(\s*_impl->activeReceives\b", "receiveSync ParkGuard(activeReceives)") == 0 and
                         depth_of(rs, r"\bImpl::ParkGuard\s+\w+\s*\(\s*buf->waiters\b", "receiveSync ParkGuard(waiters)") == 0 and
                         depth_of(cs, r"\bstd::unique_lock<std::mutex>\s+lk\s*\(", "connectSync lock") == 0 and
                         depth_of(rs, r"\bstd::unique_lock<std::mutex>\s+lk\s*\(", "receiveSync lock") == 0)
    t = HEADER % (FILE + ", " + TCP + ", " + UDP)
    t += "namespace Iora.Gen.TeardownSkel\n"
    t += "/-- statement-level skeletons: (kind, whitespace-free text) -/\n"
    t += "def dtor : List (String × String) := %s\n" % lean_pairs(dtor)
    t += "def waitOut : List (String × String) := %s\n" % lean_pairs(wait_out)
    t += "def performTeardown : List (String × String) := %s\n" % lean_pairs(perform)
    t += "def setTeardownFence : List (String × String) := %s\n" % lean_pairs(fence)
    t += "def flushFrameCtor : List (String × String) := %s\n" % lean_pairs(frame_ctor)
    t += "def flushFrameDtor : List (String × String) := %s\n" % lean_pairs(frame_dtor)
    t += "def releaseOwnFlushes : List (String × String) := %s\n" % lean_pairs(release)
    t += "/-- `releaseOwnFlushes` visits EVERY frame of the calling thread's stack and tests `f->impl == this` inside the loop body (true), or carries\n"
    t += "that test in the loop condition and so stops at the first frame of another transport (false) -/\n"
    t += "def releaseWalkFilters : Bool := %s\n" % walk_filters
    t += "/-- argument of the `teardownWaitOut` call on each path, as written in the source -/\n"
    t += "def ioBranchNotifyArg : Bool := %s\n" % io_notify
    t += "def stoppedNotifyArg : Bool := %s\n" % stopped_notify
    t += "def normalNotifyArg : Bool := %s\n" % normal_notify
    t += "/-- `teardownWaitOut` notifies the receive CVs under `if (notifyReceive)` (true) or `if (!notifyReceive)` (false) -/\n"
    t += "def notifyTestPositive : Bool := %s\n" % notify_positive
    t += "/-- counters named by the wait predicate of `teardownWaitOut`, each compared `== 0`, joined by `&&` -/\n"
    t += "def gateCounters : List String := [%s]\n" % ", ".join('"%s"' % g for g in gate)
    t += "/-- the I/O-thread branch of `~Transport` carries an `isRunning()` conjunct -/\n"
    t += "def ioBranchTestsRunning : Bool := %s\n" % ("true" if io_running else "false")
    t += "def ioBranchCond : String := \"%s\"\n" % io_cond
    t += "/-- (function, condition of its first statement, what the branch does) -/\n"
    t += "def ioGuards : List (String × String × String) := [%s]\n" % ", ".join('("%s", "%s", "%s")' % g for g in guards)
    t += "/-- after `Impl::FlushFrame flushFrame(impl, flushGuard)` the flush loop names neither `_impl` nor `this` -/\n"
    t += "def flushLoopUsesLocalImplOnly : Bool := %s\n" % loop_local
    t += "def flushFrameDeclaredAfterGuard : Bool := %s\n" % frame_after_guard
    t += "/-- the ParkGuards of connectSync / receiveSync (and their unique_lock) are declared at the top block level of the function: they\n"
    t += "live until the call returns (the connect guard outlives the unlocked `engine->close` window) -/\n"
    t += "def parkGuardsSpanWholeCall : Bool := %s\n" % ("true" if guards_whole_call else "false")
    rows = engine_rows(repo, TCP, "tcp", {"mutex": "_cmdMutex", "closed": "_cmdsClosed", "q": "_cmds", "cmd": "Command", "case": "Cmd", "doadd": "doAddListener"})
    rows += engine_rows(repo, UDP, "udp", {"mutex": "_qmx", "closed": "_qClosed", "q": "_q", "cmd": "Cmd", "case": "CmdType", "doadd": "addListenerDo"})
    t += "/-- per engine function, in textual order: (event, object, engine mutexes held); member names normalised -/\n"
    t += "def engine : List (String × List (String × String × String)) := [\n" + lean_rows(rows) + "]\n"
    t += roles_text(repo)
    t += "end Iora.Gen.TeardownSkel\n"
    return "IoraModel/Gen/TeardownSkel.lean", t
