"""Translator unit `assets` -> Gen/Assets.lean (C20): the lexical filter's forbidden bytes / segment, the open(2) flags of
readFile, the sub-directory names of the two roots, the `.gz` sibling suffix, the MIME table, and the order of the
security-relevant calls in the three lookup paths (resolution -> containment -> regular-file test -> cache -> open)."""
import re
import cxxscan
from translate import TranslateError, HEADER, read

F = "include/iora/web/assets.hpp"

C_ESC = {"0": 0, "\\": 92, "n": 10, "t": 9, "r": 13, "'": 39, '"': 34}


def char_lit(s, what):
    """value of a C++ character literal body (without quotes)"""
    if len(s) == 1:
        return ord(s)
    if len(s) == 2 and s[0] == "\\" and s[1] in C_ESC:
        return C_ESC[s[1]]
    raise TranslateError("%s: unsupported character literal %r" % (what, s))


def lean_bytes(b):
    return "[" + ", ".join(str(x) for x in b) + "]"


def lean_bytes_list(bs):
    return "[" + ", ".join(lean_bytes(b) for b in bs) + "]"


def call_order(body, names, what):
    """the sequence in which the listed call/marker names occur in `body`"""
    pat = re.compile("|".join(r"(?<![\w])%s" % re.escape(n) for n in names))
    seq = [m.group(0) for m in pat.finditer(body)]
    if not seq:
        raise TranslateError("%s: none of the expected calls found" % what)
    return seq


SKEL_CALLS = ["weakly_canonical", "isContained", "is_regular_file", "buildEntry", "readFile", "blobFromEntry", "findStatic", "isExternalPath"]
SKEL_VARS = ["base", "candidate", "resolved", "gz", "externalDir", "key"]


def skeleton(body, what):
    """the security-relevant statements of a lookup WITH their operands, in source order: definitions of base / candidate /
    resolved / gz / key and the calls of the checked functions with their argument lists (white space normalised).
    `isContained(base, candidate)` or `weakly_canonical(base)` instead of the expected operands changes this list."""
    items = []
    for m in re.finditer(r"(?<![\w.>])(?:const\s+)?(?:[\w:]+(?:<[^;=]*>)?\s*[&*]?\s+)?(%s)\s*(\+?=|\()\s*([^;]*);" % "|".join(SKEL_VARS), body):
        stmt = "%s %s %s" % (m.group(1), "=" if m.group(2) == "(" else m.group(2), (m.group(3).rstrip()[:-1] if m.group(3).rstrip().endswith(")") else m.group(3)) if m.group(2) == "(" else m.group(3))
        items.append((m.start(), m.end(), re.sub(r"\s+", " ", stmt).strip()))
    call = re.compile(r"(?<![\w])(%s)\s*\(" % "|".join(SKEL_CALLS))
    for m in call.finditer(body):
        if any(a <= m.start() < b for a, b, _ in items):
            continue
        i = m.end() - 1
        depth = 0
        j = i
        while j < len(body):
            if body[j] == "(":
                depth += 1
            elif body[j] == ")":
                depth -= 1
                if depth == 0:
                    break
            j += 1
        items.append((m.start(), j + 1, re.sub(r"\s+", " ", "%s(%s)" % (m.group(1), body[i + 1:j])).strip()))
    items.sort()
    out = [t for _, _, t in items]
    if not out:
        raise TranslateError("%s: no skeleton statements found" % what)
    return out



CENSUS_FUNCS = ["fromDirectory", "getTemplate", "getStatic", "reload", "isContained", "readFile", "buildEntry", "getStaticEmbedded",
                "getStaticFilesystem", "getTemplateFilesystem"]
PATH_VARS = ["base", "candidate", "resolved", "gz", "externalDir", "file", "p", "target", "canonicalRoot"]
MUTATORS = ["swap", "assign", "clear", "concat", "append", "replace_filename", "remove_filename", "replace_extension", "make_preferred",
            "operator=", "operator/=", "operator+="]


def census(body, what):
    """EVERY token of `body` that touches the file system or could redirect a checked path, in source order:
    `fs::x(` / `std::filesystem::x(` calls, path-typed locals (`fs::path name`), `::open(` `::openat(` `::read(` `::close(` and any
    other global-namespace call, `ifstream`/`fopen`/`FILE`, `std::swap(`, `.swap(`, `/=`.  A mutating member function or a
    compound assignment applied to one of the checked path variables (other than buildEntry's `gz += <suffix>`) is not a shape
    this unit knows how to describe: TranslateError."""
    toks = []
    pat = re.compile(r"(?:(?:\bfs|\bstd::filesystem)::(\w+)\s*(\(|\s*[&*]?\s*\b(\w+)\s*[=;({]))"      # 1,2,3
                     r"|(?<![\w:>.])::(\w+)\s*\("                                             # 4 global-namespace call
                     r"|\b(std::ifstream|std::fstream|ifstream|fstream|fopen|FILE|freopen|std::swap|mmap|sendfile|O_PATH|openat|openat2)\b"  # 5
                     r"|\.(swap)\s*\("                                                        # 6
                     r"|(/=)")                                                                # 7
    for m in pat.finditer(body):
        if m.group(1):
            if m.group(2) == "(":
                toks.append("fs::%s()" % m.group(1))
            else:
                toks.append("fs::%s %s" % (m.group(1), m.group(3)))
        elif m.group(4):
            toks.append("::%s()" % m.group(4))
        elif m.group(5):
            toks.append(m.group(5))
        elif m.group(6):
            toks.append(".swap()")
        else:
            toks.append("/=")
    mm = re.search(r"\b(%s)\s*(?:\.\s*(%s)\s*\(|(/=|\+=|-=))" % ("|".join(PATH_VARS), "|".join(re.escape(x) for x in MUTATORS)), body)
    for mm in re.finditer(r"\b(%s)\s*(?:(?:\.|->)\s*(%s)\s*\(|(/=|\+=|-=))" % ("|".join(PATH_VARS), "|".join(re.escape(x) for x in MUTATORS)), body):
        stmt = re.sub(r"\s+", " ", body[mm.start():body.find(";", mm.start())]).strip()
        if what == "buildEntry" and re.fullmatch(r'gz \+= "[^"]+"', stmt):
            continue
        raise TranslateError("%s: a checked path variable is modified in place (`%s`): not a shape this unit can describe" % (what, stmt[:80]))
    m2 = re.search(r"std::swap\s*\(|std::exchange\s*\(|std::move\s*\(\s*(?:%s)\s*\)" % "|".join(["base", "candidate", "resolved", "gz"]), body)
    if m2:
        raise TranslateError("%s: `%s…` moves/swaps a checked path variable" % (what, body[m2.start():m2.start() + 40].strip()))
    return toks


def lock_skeleton(body, cache, what):
    """the critical sections of a double-checked lookup: for every brace block that starts with
    `std::lock_guard<std::mutex> lock(_fs->mutex);` the accesses to `cache` inside it; and the accesses that are in no such block."""
    blocks = []
    for m in re.finditer(r"\{\s*std::lock_guard<std::mutex>\s+\w+\(\s*_fs->mutex\s*\)\s*;", body):
        i = m.start()
        depth = 0
        j = i
        while j < len(body):
            if body[j] == "{":
                depth += 1
            elif body[j] == "}":
                depth -= 1
                if depth == 0:
                    break
            j += 1
        blocks.append((i, j))
    acc = [(m.start(), m.group(1)) for m in re.finditer(r"%s\s*(?:\.|->)\s*(\w+)\s*\(" % re.escape(cache), body)]
    acc += [(m.start(), "operator[]") for m in re.finditer(r"%s\s*\[" % re.escape(cache), body)]
    acc.sort()
    if re.search(r"(unique_lock|scoped_lock|shared_lock|\.unlock\s*\(|\.lock\s*\(|try_lock)", body):
        raise TranslateError("%s: a locking construct other than a block-scoped std::lock_guard on _fs->mutex" % what)
    inside = [[a for p, a in acc if i < p < j] for i, j in blocks]
    outside = [a for p, a in acc if not any(i < p < j for i, j in blocks)]
    return blocks, inside, outside


def work_under_lock(body, blocks, names):
    return any(re.search(r"(?<![\w])(%s)\s*\(" % "|".join(names), body[i:j]) for i, j in blocks)


def defn(src, name):
    """body of the DEFINITION of `name` (its parameter list mentions a std:: type; call sites never do)"""
    return cxxscan.function_body(src, name, signature_contains="std::")


def gen(repo):
    src = read(repo, F)
    # ---------------------------------------------------------------- lexicallyRejected
    lr = defn(src, "lexicallyRejected")
    m = re.search(r"if\s*\(\s*p\.empty\(\)\s*\)\s*\{\s*return\s+(true|false)\s*;", lr)
    if not m:
        raise TranslateError("lexicallyRejected: empty-name branch not recognised")
    empty_rejected = m.group(1) == "true"
    lead = re.findall(r"if\s*\(\s*p\.front\(\)\s*==\s*'((?:\\.|[^'\\]))'\s*\)\s*\{\s*return\s+true\s*;", lr)
    if not lead:
        raise TranslateError("lexicallyRejected: leading-byte test not recognised")
    forb = re.findall(r"if\s*\(\s*p\.find\(\s*'((?:\\.|[^'\\]))'\s*\)\s*!=\s*std::string_view::npos\s*\)\s*\{\s*return\s+true\s*;", lr)
    sep = re.findall(r"p\.find\(\s*'((?:\\.|[^'\\]))'\s*,\s*start\s*\)", lr)
    if len(sep) != 1:
        raise TranslateError("lexicallyRejected: segment separator not recognised")
    segs = re.findall(r"if\s*\(\s*seg\s*==\s*\"([^\"]*)\"\s*\)\s*\{\s*return\s+true\s*;", lr)
    if not segs:
        raise TranslateError("lexicallyRejected: forbidden-segment test not recognised")
    # every `return true` of the function must be one of the recognised guards (no unknown extra rule, none lost silently)
    n_true = len(re.findall(r"return\s+true\s*;", lr))
    if n_true != len(lead) + len(forb) + len(segs) + (1 if empty_rejected else 0):
        raise TranslateError("lexicallyRejected: %d `return true` statements, %d recognised guards" % (n_true, len(lead) + len(forb) + len(segs)))
    if not re.search(r"start\s*=\s*slash\s*\+\s*1\s*;", lr) or not re.search(r"return\s+false\s*;\s*$", lr.strip()):
        raise TranslateError("lexicallyRejected: loop shape not recognised")
    # ---------------------------------------------------------------- readFile open flags
    rf = defn(src, "readFile")
    m = re.search(r"::open\(\s*p\.c_str\(\)\s*,\s*([A-Z_|\s]+)\)", rf)
    if not m:
        raise TranslateError("readFile: ::open(p.c_str(), FLAGS) not recognised")
    flags = [f.strip() for f in m.group(1).split("|")]
    if "O_RDONLY" not in flags or any(f in flags for f in ("O_CREAT", "O_WRONLY", "O_RDWR", "O_TRUNC", "O_PATH")):
        raise TranslateError("readFile: unexpected open flags %s" % flags)

    # ---------------------------------------------------------------- readFile: the read loop (unix branch)
    mloop = re.search(r"std::vector<char>\s+buf\(\s*(\d+)\s*\)\s*;\s*for\s*\(\s*;\s*;\s*\)\s*\{(.*?)\n\s*\}\s*return\s+data\s*;", rf, re.S)
    if not mloop:
        raise TranslateError("readFile: read loop `std::vector<char> buf(N); for (;;) {…} return data;` not recognised")
    buf_size = int(mloop.group(1))
    lp = re.sub(r"\s+", " ", mloop.group(2))
    mrl = re.fullmatch(r" ?ssize_t n = ::read\(fd, buf\.data\(\), buf\.size\(\)\); if \(n > 0\) \{ data\.(\w+)\(buf\.data\(\), static_cast<std::size_t>\(n\)\); \} "
                       r"else if \(n == 0\) \{ (break|continue|return std::nullopt); \} else if \(errno == (\w+)\) \{ (break|continue|return std::nullopt); \} "
                       r"else \{ (break|continue|return std::nullopt); \} ?", lp)
    if not mrl:
        raise TranslateError("readFile: body of the read loop not recognised: %s" % lp[:200])
    read_acc, read_eof, read_retry_errno, read_retry, read_err = mrl.groups()
    if not re.search(r"if\s*\(\s*fd\s*<\s*0\s*\)\s*\{\s*return\s+std::nullopt\s*;", rf):
        raise TranslateError("readFile: `if (fd < 0) return nullopt` not recognised")
    # ---------------------------------------------------------------- census of file-system tokens, per function
    cens = {}
    for fn in CENSUS_FUNCS:
        body = defn(src, fn) if fn not in ("reload",) else cxxscan.function_body(src, fn)
        if fn == "readFile":
            body = body.split("#else")[0]          # the POSIX branch is the one compiled and modelled; the other branch is pinned below
        cens[fn] = census(body, fn)
    rf_else = rf.split("#else")[1] if "#else" in rf else ""
    cens["readFile#else"] = census(rf_else, "readFile#else") if rf_else else []
    # ---------------------------------------------------------------- lock skeleton of the two caches and reload
    def lock_facts(fn, cache, work):
        body = defn(src, fn)
        blocks, inside, outside = lock_skeleton(body, cache, fn)
        if outside:
            unguarded = True
        else:
            unguarded = False
        finds = [k for k, accs in enumerate(inside) if "find" in accs]
        ins = [(k, a) for k, accs in enumerate(inside) for a in accs if a in ("emplace", "insert", "insert_or_assign", "try_emplace", "operator[]")]
        if len(ins) != 1 and not unguarded:
            raise TranslateError("%s: expected exactly one insertion into %s inside a critical section, found %s" % (fn, cache, ins))
        return {"find1": (not unguarded) and len(finds) >= 1 and "find" in inside[finds[0]],
                "second": len(finds) >= 2,
                "same": (not unguarded) and len(finds) >= 2 and ins and ins[0][0] == finds[-1],
                "insert": ins[0][1] if ins else "none",
                "work": work_under_lock(body, blocks, work),
                "sections": [",".join(x) for x in inside], "outside": outside}
    lk_s = lock_facts("getStaticFilesystem", "staticCache", ["buildEntry", "readFile"])
    lk_t = lock_facts("getTemplateFilesystem", "templateCache", ["buildEntry", "readFile"])
    rl = cxxscan.function_body(src, "reload")
    rl_blocks, rl_in_s, rl_out_s = lock_skeleton("{" + rl + "}", "staticCache", "reload")
    mlock = re.search(r"std::lock_guard<std::mutex>\s+\w+\(\s*_fs->mutex\s*\)\s*;", rl)
    clears = re.findall(r"_fs->(\w+)\.clear\(\)", rl)
    reload_locked = bool(mlock) and all(rl.find("_fs->%s.clear()" % c) > mlock.start() for c in clears)
    # ---------------------------------------------------------------- isContained
    ic = defn(src, "isContained")
    if not re.search(r"rel\s*=\s*target\.lexically_relative\(\s*base\s*\)", ic):
        raise TranslateError("isContained: `rel = target.lexically_relative(base)` not found")
    if not re.search(r"if\s*\(\s*rel\.empty\(\)\s*\)\s*\{\s*return\s+false\s*;", ic):
        raise TranslateError("isContained: rel.empty() guard not found")
    m = re.search(r"return\s+\*it\s*(!=|==)\s*std::filesystem::path\(\s*\"([^\"]*)\"\s*\)\s*;", ic)
    if not m:
        raise TranslateError("isContained: final comparison not recognised")
    cont_op, cont_lit = m.group(1), m.group(2)
    # ---------------------------------------------------------------- roots, gz suffix
    fd = defn(src, "fromDirectory")
    mt = re.search(r"templatesRoot\s*=\s*std::filesystem::weakly_canonical\(\s*canonicalRoot\s*/\s*\"([^\"]+)\"", fd)
    ms = re.search(r"staticsRoot\s*=\s*std::filesystem::weakly_canonical\(\s*canonicalRoot\s*/\s*\"([^\"]+)\"", fd)
    if not mt or not ms or not re.search(r"canonicalRoot\s*=\s*fs::canonical\(\s*root\s*\)", fd):
        raise TranslateError("fromDirectory: root canonicalisation not recognised")
    fd_calls = call_order(fd, ["fs::canonical", "fs::is_directory", "weakly_canonical"], "fromDirectory")
    be = defn(src, "buildEntry")
    mg = re.search(r"gz\s*\+=\s*\"([^\"]+)\"\s*;", be)
    if not mg:
        raise TranslateError("buildEntry: gz suffix not recognised")
    be_calls = call_order(be, ["readFile", "is_regular_file"], "buildEntry")
    # ---------------------------------------------------------------- call order of the lookups
    marks = ["weakly_canonical", "isContained", "is_regular_file", "perRequestRead", "staticCache.find", "staticCache.emplace",
             "templateCache.find", "templateCache.emplace", "buildEntry", "readFile", "findStatic", "isExternalPath"]
    gs = call_order(defn(src, "getStaticFilesystem"), marks, "getStaticFilesystem")
    gt = call_order(defn(src, "getTemplateFilesystem"), marks, "getTemplateFilesystem")
    ge = call_order(defn(src, "getStaticEmbedded"), marks, "getStaticEmbedded")
    top_s = call_order(defn(src, "getStatic"), ["lexicallyRejected", "getStaticEmbedded", "getStaticFilesystem"], "getStatic")
    top_t = call_order(defn(src, "getTemplate"), ["lexicallyRejected", "findTemplate", "getTemplateFilesystem"], "getTemplate")
    # which root each lookup uses as containment base and as candidate prefix
    bs = re.findall(r"_fs->(\w*[Rr]oot)\b", defn(src, "getStaticFilesystem"))
    bt = re.findall(r"_fs->(\w*[Rr]oot)\b", defn(src, "getTemplateFilesystem"))
    if set(bs) != {"staticsRoot"} or set(bt) != {"templatesRoot"}:
        raise TranslateError("lookup roots: static uses %s, template uses %s" % (sorted(set(bs)), sorted(set(bt))))
    # ---------------------------------------------------------------- MIME table
    mf = defn(src, "mimeForExtension")
    table = re.findall(r"\{\s*\"(\.[^\"]+)\"\s*,\s*\"([^\"]+)\"\s*\}", mf)
    md = re.search(r"kDefault\s*=\s*\"([^\"]+)\"", mf)
    if not table or not md:
        raise TranslateError("mimeForExtension: table not recognised")

    def qs(xs):
        return "[" + ", ".join('"%s"' % x.replace("\\", "\\\\").replace('"', '\\"') for x in xs) + "]"

    t = HEADER % F
    t += "namespace Iora.Gen.Assets\n"
    t += "/-- `lexicallyRejected`: answer for the empty name -/\n"
    t += "def emptyRejected : Bool := %s\n" % ("true" if empty_rejected else "false")
    t += "/-- `lexicallyRejected`: bytes refused as FIRST byte (`p.front() == c`) -/\n"
    t += "def forbiddenLeading : List UInt8 := %s\n" % lean_bytes([char_lit(c, "leading") for c in lead])
    t += "/-- `lexicallyRejected`: bytes refused anywhere (`p.find(c) != npos`) -/\n"
    t += "def forbiddenAnywhere : List UInt8 := %s\n" % lean_bytes([char_lit(c, "anywhere") for c in forb])
    t += "/-- `lexicallyRejected`: the segment separator of the loop and the refused segments (`seg == \"..\"`) -/\n"
    t += "def segmentSeparator : UInt8 := %d\n" % char_lit(sep[0], "separator")
    t += "def forbiddenSegments : List (List UInt8) := %s\n" % lean_bytes_list([list(s.encode()) for s in segs])
    t += "/-- `readFile`: flags of `::open(p.c_str(), …)` -/\n"
    t += "def openFlags : List String := %s\n" % qs(flags)
    t += "def openNoFollow : Bool := %s\n" % ("true" if "O_NOFOLLOW" in flags else "false")
    t += "/-- `isContained`: `return *it <op> path(<lit>)` -/\n"
    t += "def containedCmp : String := \"%s\"\ndef containedLit : List UInt8 := %s\n" % (cont_op, lean_bytes(list(cont_lit.encode())))
    t += "/-- `fromDirectory`: sub-directories of the two roots, call order -/\n"
    t += "def templatesSub : List UInt8 := %s\ndef staticsSub : List UInt8 := %s\n" % (lean_bytes(list(mt.group(1).encode())), lean_bytes(list(ms.group(1).encode())))
    t += "def fromDirectoryCalls : List String := %s\n" % qs(fd_calls)
    t += "/-- `buildEntry`: sibling suffix and call order -/\n"
    t += "def gzSuffix : List UInt8 := %s\ndef buildEntryCalls : List String := %s\n" % (lean_bytes(list(mg.group(1).encode())), qs(be_calls))
    t += "/-- order of the security-relevant calls in the lookup paths -/\n"
    t += "def getStaticCalls : List String := %s\n" % qs(top_s)
    t += "def getTemplateCalls : List String := %s\n" % qs(top_t)
    t += "def getStaticFilesystemCalls : List String := %s\n" % qs(gs)
    t += "def getTemplateFilesystemCalls : List String := %s\n" % qs(gt)
    t += "def getStaticEmbeddedCalls : List String := %s\n" % qs(ge)
    t += "/-- the same paths WITH operands: definitions of base/candidate/resolved/gz/key and argument lists of the checked calls -/\n"
    t += "def getStaticFilesystemSkel : List String := %s\n" % qs(skeleton(defn(src, "getStaticFilesystem"), "getStaticFilesystem"))
    t += "def getTemplateFilesystemSkel : List String := %s\n" % qs(skeleton(defn(src, "getTemplateFilesystem"), "getTemplateFilesystem"))
    t += "def getStaticEmbeddedSkel : List String := %s\n" % qs(skeleton(defn(src, "getStaticEmbedded"), "getStaticEmbedded"))
    t += "def buildEntrySkel : List String := %s\n" % qs(skeleton(be, "buildEntry"))
    t += "def isContainedSkel : List String := %s\n" % qs([re.sub(r"\s+", " ", x).strip() for x in re.findall(r"(?:rel\s*=[^;]*|return[^;]*);", ic)])

    t += "/-- `readFile`: the read loop — buffer size, what is done with `n > 0` bytes, at `n == 0`, at `errno == <e>`, at other errors -/\n"
    t += "def readBufSize : Nat := %d\n" % buf_size
    t += "def readAccumulate : String := \"%s\"\ndef readAtEof : String := \"%s\"\ndef readRetryErrno : String := \"%s\"\ndef readAtRetryErrno : String := \"%s\"\ndef readAtError : String := \"%s\"\n" % (
        read_acc, read_eof, read_retry_errno, read_retry, read_err)
    t += "/-- census of EVERY file-system token per function (fs:: calls, path-typed locals, global-namespace calls, streams, swaps, `/=`) -/\n"
    t += "def census : List (String × List String) := [%s]\n" % ", ".join('("%s", %s)' % (fn, qs(v)) for fn, v in cens.items())
    t += "/-- lock skeleton of the double-checked caches (block-scoped `std::lock_guard` on `_fs->mutex`) and of `reload` -/\n"
    for pre, lk, wk in (("static", lk_s, "Build"), ("template", lk_t, "Read")):
        t += "def %sFind1UnderLock : Bool := %s\n" % (pre, "true" if lk["find1"] else "false")
        t += "def %s%sUnderLock : Bool := %s\n" % (pre, wk, "true" if lk["work"] else "false")
        t += "def %sHasSecondFind : Bool := %s\n" % (pre, "true" if lk["second"] else "false")
        t += "def %sFind2EmplaceSameLock : Bool := %s\n" % (pre, "true" if lk["same"] else "false")
        t += "def %sCacheInsert : String := \"%s\"\n" % (pre, lk["insert"])
        t += "def %sCriticalSections : List String := %s\n" % (pre, qs(lk["sections"]))
        t += "def %sUnguardedAccesses : List String := %s\n" % (pre, qs(lk["outside"]))
    t += "def reloadUnderLock : Bool := %s\n" % ("true" if reload_locked else "false")
    t += "def reloadClears : List String := %s\n" % qs(clears)
    t += "/-- `mimeForExtension`: table (extension, mime) and default -/\n"
    t += "def mimeTable : List (String × String) := [%s]\n" % ", ".join('("%s", "%s")' % (a, b) for a, b in table)
    t += "def mimeDefault : String := \"%s\"\n" % md.group(1)
    t += "end Iora.Gen.Assets\n"
    return "IoraModel/Gen/Assets.lean", t
