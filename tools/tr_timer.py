"""Translator unit `timer` -> Gen/Timer.lean (C08): shape facts of timing_wheel.hpp and timer.hpp that the models rely on.

Facts, not algorithms: which comparison guards a fire, whether a flag is re-tested under the lock, in which order
stop()/drain() clear the flag / join the thread / clear the entries, whether a bucket is detached before it is walked,
the KV store's default wheel geometry.  Anything that is not one of the recognised shapes raises TranslateError.
"""
import re
import cxxscan
from translate import TranslateError, HEADER, read


def _lean_str_list(xs):
    return "[" + ", ".join('"%s"' % x for x in xs) + "]"


def _bool(b):
    return "true" if b else "false"


def _order(body, what, pats):
    """names of the patterns in `pats` (name, regex) in order of first occurrence in `body`; all must occur"""
    found = []
    for name, rx in pats:
        m = re.search(rx, body)
        if not m:
            raise TranslateError("%s: expected `%s` not found" % (what, rx))
        found.append((m.start(), name))
    return [n for _, n in sorted(found)]


def _enclosing_loop(body, pos, what):
    """header text of the innermost for/while whose braces contain position `pos`"""
    best = None
    for m in re.finditer(r"\b(for|while)\s*\(", body):
        i = m.end() - 1
        depth = 0
        j = i
        while j < len(body):
            if body[j] == "(":
                depth += 1
            elif body[j] == ")":
                depth -= 1
                if depth == 0:
                    break
            j += 1
        k = j + 1
        while k < len(body) and body[k] in " \t\r\n":
            k += 1
        if k >= len(body) or body[k] != "{":
            continue
        end = cxxscan.match_brace(body, k)
        if k < pos < end:
            if best is None or k > best[0]:
                best = (k, re.sub(r"\s+", " ", body[m.start():j + 1]))
    if best is None:
        raise TranslateError("%s: no enclosing loop found" % what)
    return best[1]


def _locked_recheck(body, what, lock_rx, flag, effect_rx):
    """is `!flag.load(..)` tested between taking the lock and the effect?  Also requires the lock-free pre-test."""
    ml = re.search(lock_rx, body)
    me = re.search(effect_rx, body)
    if not ml or not me or ml.start() > me.start():
        raise TranslateError("%s: lock/effect shape not recognised" % what)
    test = r"if\s*\(\s*!\s*%s\.load\s*\([^)]*\)\s*\)" % re.escape(flag)
    if not re.search(test, body[:ml.start()]):
        raise TranslateError("%s: lock-free pre-test of %s not found" % (what, flag))
    return re.search(test, body[ml.end():me.start()]) is not None


def _cmp(body, what, rx):
    """comparison operator (group 1) [and right operand, group 2] of the first match, or None"""
    m = re.search(rx, body)
    if not m:
        return None
    return m.groups()


def _scope_of(body, pos):
    """(open, close) of the innermost brace block of `body` containing `pos`; the whole body if none"""
    best = (-1, len(body))
    for m in re.finditer(r"\{", body):
        o = m.start()
        try:
            c = cxxscan.match_brace(body, o)
        except cxxscan.ScanError:
            continue
        if o < pos < c and o > best[0]:
            best = (o, c)
    return best


def _all_guarded(body, what, lock_rx, touch_rxs):
    """True iff EVERY occurrence of every pattern in `touch_rxs` lies after a lock declaration matching `lock_rx` and inside the
    brace scope in which that lock is declared (so the lock is taken first and held over the access).  Every pattern must occur."""
    locks = []
    for m in re.finditer(lock_rx, body):
        o, c = _scope_of(body, m.start())
        locks.append((m.end(), c))
    ok = True
    for rx in touch_rxs:
        occ = list(re.finditer(rx, body))
        if not occ:
            raise TranslateError("%s: expected state access `%s` not found" % (what, rx))
        for m in occ:
            if not any(a <= m.start() < c for a, c in locks):
                ok = False
    return ok


def _none_guarded(body, what, lock_rx, rxs):
    """True iff NO occurrence of the patterns lies inside a scope in which a lock matching `lock_rx` is held"""
    locks = []
    for m in re.finditer(lock_rx, body):
        o, c = _scope_of(body, m.start())
        locks.append((m.end(), c))
    for rx in rxs:
        occ = list(re.finditer(rx, body))
        if not occ:
            raise TranslateError("%s: expected call `%s` not found" % (what, rx))
        for m in occ:
            if any(a <= m.start() < c for a, c in locks):
                return False
    return True


def gen(repo):
    fw = "include/iora/core/timing_wheel.hpp"
    ft = "include/iora/core/timer.hpp"
    fk = "include/iora/storage/kvstore.hpp"
    w = read(repo, fw)
    t = read(repo, ft)
    k = read(repo, fk)

    # ------------------------------------------------------------------ wheel
    if not re.search(r"_tickMask\s*\(\s*ticksPerWheel\s*-\s*1\s*\)", w):
        raise TranslateError("TimingWheel ctor: `_tickMask(ticksPerWheel - 1)` not found")
    if not re.search(r"assert\s*\(\s*ticksPerWheel\s*>\s*0\s*&&\s*\(\s*ticksPerWheel\s*&\s*\(\s*ticksPerWheel\s*-\s*1\s*\)\s*\)\s*==\s*0\s*\)", w):
        raise TranslateError("TimingWheel ctor: power-of-two assertion not found")
    if not re.search(r"_nextId\s*\{\s*1\s*\}", w):
        raise TranslateError("TimingWheel ctor: `_nextId{1}` not found")
    sched = cxxscan.function_body(w, "schedule")
    wheel_recheck = _locked_recheck(sched, "TimingWheel::schedule", r"std::lock_guard\s+lock\s*\(\s*_wheelMutex\s*\)", "_accepting", r"insertEntry\s*\(")
    adv = cxxscan.function_body(w, "advance")
    m = re.search(r"if\s*\(\s*elapsedTicks\s*>\s*(\w+)\s*\)", adv)
    if not m:
        raise TranslateError("advance: `if (elapsedTicks > N)` not found")
    catchup_min = cxxscan.const_eval(m.group(1))
    order_adv = _order(adv, "advance", [("collectFromBucket", r"collectFromBucket\s*\("), ("level0.currentTick++", r"level0\.currentTick\+\+"),
                                        ("cascadeDown", r"cascadeDown\s*\(")])
    coll = cxxscan.function_body(w, "collectFromBucket")
    g = _cmp(coll, "collectFromBucket", r"if\s*\(\s*entry->deadline\s*-\s*now\s*(>=|<=|>|<|==|!=)\s*(\w+)\s*\)")
    if g is None:
        if re.search(r"deadline", coll):
            raise TranslateError("collectFromBucket: mentions a deadline but not in the recognised shape `if (entry->deadline - now OP X)`")
        l0_op, l0_rhs, l0_detached = "", "", True
    else:
        l0_op, l0_rhs = g
        pos = coll.find("insertEntry")
        if pos < 0:
            raise TranslateError("collectFromBucket: deadline test without re-insert")
        loop = _enclosing_loop(coll, pos, "collectFromBucket")
        if re.match(r"for \(auto\s*\*\s*entry : \w+\)", loop):
            l0_detached = True
        elif re.match(r"while \(entry\)", loop):
            l0_detached = False
        else:
            raise TranslateError("collectFromBucket: loop around insertEntry not recognised: %s" % loop)
    casc = cxxscan.function_body(w, "cascadeDown")
    g = _cmp(casc, "cascadeDown", r"if\s*\(\s*entry->deadline\s*(>=|<=|>|<|==|!=)\s*now\s*\)")
    if g is None:
        raise TranslateError("cascadeDown: `if (entry->deadline OP now)` not found")
    casc_op = g[0]
    pos = casc.find("insertEntry")
    if pos < 0:
        raise TranslateError("cascadeDown: insertEntry call not found")
    loop = _enclosing_loop(casc, pos, "cascadeDown")
    if re.match(r"for \(auto\s*\*\s*entry : \w+\)", loop):
        casc_detached = True
    elif re.match(r"while \(entry\)", loop):
        casc_detached = False
    else:
        raise TranslateError("cascadeDown: loop around insertEntry not recognised: %s" % loop)
    drain = cxxscan.function_body(w, "drain")
    g = _cmp(drain, "drain", r"if\s*\(\s*e\.deadline\s*(>=|<=|>|<|==|!=)\s*now\s*\)")
    if g is None:
        raise TranslateError("TimingWheel::drain: `if (e.deadline OP now)` not found")
    drain_op = g[0]
    order_drain = _order(drain, "TimingWheel::drain", [("accepting=false", r"_accepting\.store\s*\(\s*false"), ("stopTickThread", r"stopTickThread\s*\(\s*\)"),
                                                       ("lock", r"std::lock_guard\s+lock\s*\(\s*_wheelMutex\s*\)"), ("entryMap.clear", r"_entryMap\.clear\s*\(\s*\)")])
    stop = cxxscan.function_body(w, "stop")
    order_stop = _order(stop, "TimingWheel::stop", [("accepting=false", r"_accepting\.store\s*\(\s*false"), ("stopTickThread", r"stopTickThread\s*\(\s*\)"),
                                                    ("clearAllEntries", r"clearAllEntries\s*\(\s*\)"), ("state=STOPPED", r"_state\.store\s*\(\s*TimingWheelState::STOPPED")])
    stt = cxxscan.function_body(w, "stopTickThread")
    order_stt = _order(stt, "stopTickThread", [("running=false", r"_running\.store\s*\(\s*false"), ("notify_all", r"_tickCv\.notify_all\s*\(\s*\)"), ("join", r"_tickThread\.join\s*\(\s*\)")])
    ins = cxxscan.function_body(w, "insertEntry")
    if not re.search(r"if\s*\(\s*ticks\s*<=\s*0\s*\)", ins) or not re.search(r"while\s*\(\s*level\s*<\s*_numWheels\s*-\s*1\s*&&\s*ticks\s*>=\s*levelCap\s*\)", ins):
        raise TranslateError("insertEntry: `if (ticks <= 0)` / level loop shape not recognised")

    # ---- _wheelMutex: every function the model treats as one atomic step takes the mutex first and holds it over all its accesses
    WL = r"std::lock_guard\s+lock\s*\(\s*_wheelMutex\s*\)"
    wheel_sections = [
        ("schedule", sched, [r"allocEntry\s*\(", r"insertEntry\s*\(", r"_entryMap\s*\["]),
        ("cancel", cxxscan.function_body(w, "cancel"), [r"_entryMap\.find\s*\(", r"unlinkEntry\s*\(", r"_entryMap\.erase\s*\(", r"freeEntry\s*\("]),
        ("reschedule", cxxscan.function_body(w, "reschedule"), [r"_entryMap\.find\s*\(", r"unlinkEntry\s*\(", r"entry->deadline\s*=", r"insertEntry\s*\("]),
        ("advance", adv, [r"_lastAdvanceTime", r"collectFromBucket\s*\(", r"currentTick\+\+", r"cascadeDown\s*\("]),
        ("start", cxxscan.function_body(w, "start"), [r"_lastAdvanceTime\s*="]),
        ("drain", drain, [r"b\.unlink\s*\(", r"_entryMap\.clear\s*\(", r"freeEntry\s*\(", r"_entryMap\.size\s*\("]),
        ("clearAllEntries", cxxscan.function_body(w, "clearAllEntries"), [r"_entryMap\.clear\s*\(", r"b\.head\s*=", r"freeEntry\s*\(", r"_entryMap\.size\s*\("]),
        ("reset", cxxscan.function_body(w, "reset"), [r"w\.currentTick\s*=", r"_lastAdvanceTime\s*="]),
        ("pendingCount", cxxscan.function_body(w, "pendingCount"), [r"_entryMap\.size\s*\("]),
    ]
    wheel_locked = [n for n, body, touches in wheel_sections if _all_guarded(body, "TimingWheel::" + n, WL, touches)]
    wheel_fire_outside = _none_guarded(adv, "advance", WL, [r"fireCallback\s*\("]) and _none_guarded(drain, "TimingWheel::drain", WL, [r"fireCallback\s*\("])

    # ---- c08w block (round 2): id allocation, saturating deadline, restart -------------------------------------------------
    # schedule(): the id comes from ONE atomic read-modify-write of `_nextId` (it sits outside `_wheelMutex`, so a load followed by a
    # store would hand the same id to two concurrent callers); nothing else in the class writes `_nextId` except the ctor and reset()
    m_alloc = re.search(r"auto\s+id\s*=\s*_nextId\s*\.\s*fetch_add\s*\(\s*1\s*[,)]", sched)
    if not m_alloc:
        raise TranslateError("TimingWheel::schedule: `auto id = _nextId.fetch_add(1, ...)` not found (the id must come from one atomic read-modify-write)")
    if len(re.findall(r"_nextId", sched)) != 1:
        raise TranslateError("TimingWheel::schedule: `_nextId` is touched more than once (expected only `_nextId.fetch_add(1, ...)`)")
    nextid_writes = re.findall(r"_nextId\s*(?:\.\s*(?:store|exchange|fetch_\w+|compare_exchange_\w+)\s*\(|=|\+\+|--|\+=|-=)", w)
    nextid_writes = [re.sub(r"\s+", "", x) for x in nextid_writes]
    if sorted(nextid_writes) != sorted(["_nextId.fetch_add(", "_nextId.store("]):
        raise TranslateError("TimingWheel: writes to `_nextId` are not exactly schedule's fetch_add and reset's store: %s" % nextid_writes)
    wheel_id_atomic = True
    # schedule()/reschedule(): the deadline is `deadlineAfter(Clock::now(), delay)` (FC08c), never a plain `Clock::now() + delay`
    resched = cxxscan.function_body(w, "reschedule")
    def _deadline_shape(body, what, rx_sat, rx_plain):
        if re.search(rx_sat, body):
            return True
        if re.search(rx_plain, body):
            return False
        raise TranslateError("%s: deadline computation not recognised" % what)
    wheel_deadline_sat = (_deadline_shape(sched, "TimingWheel::schedule", r"deadline\s*=\s*deadlineAfter\s*\(\s*Clock::now\s*\(\s*\)\s*,\s*delay\s*\)", r"deadline\s*=\s*Clock::now\s*\(\s*\)\s*\+\s*delay") and
                          _deadline_shape(resched, "TimingWheel::reschedule", r"entry->deadline\s*=\s*deadlineAfter\s*\(\s*Clock::now\s*\(\s*\)\s*,\s*newDelay\s*\)", r"entry->deadline\s*=\s*Clock::now\s*\(\s*\)\s*\+\s*newDelay"))
    wheel_deadline_clamp = False
    if wheel_deadline_sat:
        da = cxxscan.function_body(w, "deadlineAfter")
        if not re.search(r"ahead\s*=\s*std::chrono::duration_cast\s*<\s*std::chrono::milliseconds\s*>\s*\(\s*TimePoint::max\s*\(\s*\)\s*-\s*now\s*\)\s*;", da):
            raise TranslateError("deadlineAfter: `ahead = duration_cast<milliseconds>(TimePoint::max() - now)` not found")
        if not re.search(r"behind\s*=\s*std::chrono::duration_cast\s*<\s*std::chrono::milliseconds\s*>\s*\(\s*now\.time_since_epoch\s*\(\s*\)\s*\)\s*;", da):
            raise TranslateError("deadlineAfter: `behind = duration_cast<milliseconds>(now.time_since_epoch())` not found")
        if not re.search(r"return\s+now\s*\+\s*std::clamp\s*\(\s*delay\s*,\s*-\s*behind\s*,\s*ahead\s*\)\s*;", da):
            raise TranslateError("deadlineAfter: `return now + std::clamp(delay, -behind, ahead);` not found")
        wheel_deadline_clamp = True
    # reset(): order of its effects; start(): the states it leaves
    rst = cxxscan.function_body(w, "reset")
    order_reset = _order(rst, "TimingWheel::reset", [("assert-STOPPED", r"assert\s*\(\s*_state\.load\s*\([^)]*\)\s*==\s*TimingWheelState::STOPPED\s*\)"),
                                                     ("clearAllEntries", r"clearAllEntries\s*\(\s*\)"), ("currentTick=0", r"w\.currentTick\s*=\s*0\s*;"),
                                                     ("lastAdvance=unset", r"_lastAdvanceTime\s*=\s*TimePoint\s*\{\s*\}\s*;"),
                                                     ("nextId=1", r"_nextId\.store\s*\(\s*1\s*[,)]"), ("state=RESET", r"_state\.store\s*\(\s*TimingWheelState::RESET")])
    cae = cxxscan.function_body(w, "clearAllEntries")
    order_clear = _order(cae, "clearAllEntries", [("lock", WL), ("freeEntry", r"freeEntry\s*\(\s*entry\s*\)"), ("entryMap.clear", r"_entryMap\.clear\s*\(\s*\)"),
                                                  ("head=null", r"b\.head\s*=\s*nullptr"), ("tail=null", r"b\.tail\s*=\s*nullptr")])
    if not re.search(r"for\s*\(\s*auto\s*&\s*w\s*:\s*_wheels\s*\)\s*\{\s*for\s*\(\s*auto\s*&\s*b\s*:\s*w\.buckets\s*\)\s*\{\s*b\.head\s*=\s*nullptr\s*;\s*b\.tail\s*=\s*nullptr\s*;", cae):
        raise TranslateError("clearAllEntries: the loop that empties EVERY bucket of EVERY level is not in the recognised shape")
    stt_body = cxxscan.function_body(w, "start")
    start_from = re.findall(r"expected\s*=\s*TimingWheelState::(\w+)\s*;", stt_body)
    if len(re.findall(r"compare_exchange_strong\s*\(\s*expected\s*,\s*TimingWheelState::RUNNING\s*\)", stt_body)) != len(start_from):
        raise TranslateError("TimingWheel::start: CAS shape not recognised")
    # ---- end of c08w block -------------------------------------------------------------------------------------------------

    kv_tick = cxxscan.find_int(r"ttlTickDuration\s*\{\s*(\w+)\s*\}", k, "KVStoreConfig::ttlTickDuration")
    kv_slots = cxxscan.find_int(r"ttlTicksPerWheel\s*=\s*(\w+)\s*;", k, "KVStoreConfig::ttlTicksPerWheel")
    kv_levels = cxxscan.find_int(r"ttlNumWheels\s*=\s*(\w+)\s*;", k, "KVStoreConfig::ttlNumWheels")

    # ------------------------------------------------------------------ timer service
    sa = cxxscan.function_body(t, "scheduleAt")
    svc_at = _locked_recheck(sa, "TimerService::scheduleAt", r"std::lock_guard<std::mutex>\s+lock\s*\(\s*_mutex\s*\)", "_accepting", r"_records\.emplace\s*\(")
    sp = cxxscan.function_body(t, "schedulePeriodic")
    svc_per = _locked_recheck(sp, "TimerService::schedulePeriodic", r"std::lock_guard<std::mutex>\s+lock\s*\(\s*_mutex\s*\)", "_accepting", r"_periodicTimers\.emplace\s*\(")
    cb = cxxscan.function_body(t, "cancel")
    order_cancel = _order(cb, "TimerService::cancel", [("lock", r"std::lock_guard<std::mutex>\s+lock\s*\(\s*_mutex\s*\)"), ("records.find", r"_records\.find\s*\("),
                                                       ("canceled=true", r"it->second\.canceled\s*=\s*true"), ("periodic.erase", r"_periodicTimers\.erase\s*\(")])
    cd = cxxscan.function_body(t, "collectDueLocked")
    g = _cmp(cd, "collectDueLocked", r"if\s*\(\s*top\.tp\s*(>=|<=|>|<|==|!=)\s*now\s*\)\s*\{\s*break\s*;")
    if g is None:
        raise TranslateError("collectDueLocked: `if (top.tp OP now) { break; }` not found")
    svc_break_op = g[0]
    order_collect = _order(cd, "collectDueLocked", [("heapPop", r"heapPop\s*\(\s*\)"), ("records.erase", r"_records\.erase\s*\(\s*it\s*\)"),
                                                    ("canceled-test", r"if\s*\(\s*!\s*rec\.canceled\s*\)"), ("push", r"out\.push_back\s*\("),
                                                    ("re-arm", r"pt\.nextExecution\s*\+=\s*pt\.interval")])
    less = cxxscan.function_body(t, "less")
    if not re.search(r"return\s+a\.tp\s*<\s*b\.tp\s*\|\|\s*\(\s*a\.tp\s*==\s*b\.tp\s*&&\s*a\.id\s*<\s*b\.id\s*\)\s*;", less):
        raise TranslateError("TimerService::less: not the lexicographic (tp, id) order")
    # runLoop: every collectDueLocked call shares its lock block with the pre-announcement of _executingCallbacks
    rl = cxxscan.function_body(t, "runLoop")
    pre = True
    ncollect = 0
    for m in re.finditer(r"collectDueLocked\s*\(", rl):
        ncollect += 1
        # innermost block that starts with the lock_guard and contains the call
        blk = None
        for lm in re.finditer(r"\{\s*std::lock_guard<std::mutex>\s+lock\s*\(\s*_mutex\s*\)\s*;", rl):
            end = cxxscan.match_brace(rl, lm.start())
            if lm.start() < m.start() < end:
                blk = rl[lm.start():end]
        if blk is None:
            raise TranslateError("runLoop: collectDueLocked called outside a `_mutex` block")
        if not re.search(r"_executingCallbacks\.fetch_add\s*\(", blk[blk.find("collectDueLocked"):]):
            pre = False
    if ncollect != 2:
        raise TranslateError("runLoop: expected 2 collectDueLocked call sites, found %d" % ncollect)
    # safeRun: the guard decrements, then lock/unlock _mutex, then notify
    sr = cxxscan.function_body(t, "safeRun")
    order_guard = _order(sr, "safeRun", [("fetch_sub", r"counter\.fetch_sub\s*\(\s*1"), ("lock-unlock", r"\{\s*std::lock_guard<std::mutex>\s+g\s*\(\s*mx\s*\)\s*;\s*\}"),
                                         ("notify_all", r"cv\.notify_all\s*\(\s*\)")])
    dr = cxxscan.function_body(t, "drain")
    if not re.search(r"return\s+remaining\s*==\s*0\s*&&\s*_executingCallbacks\.load\s*\([^)]*\)\s*==\s*0\s*;", dr):
        raise TranslateError("TimerService::drain: predicate `remaining == 0 && _executingCallbacks == 0` not found")
    m = re.search(r"if\s*\(\s*timedOut\s*\)\s*\{", dr)
    if not m:
        raise TranslateError("TimerService::drain: `if (timedOut)` block not found")
    to_blk = dr[m.end() - 1:cxxscan.match_brace(dr, m.end() - 1)]
    drain_restores = re.search(r"_accepting\.store\s*\(\s*true", to_blk) is not None
    if drain_restores and not re.search(r"std::lock_guard<std::mutex>\s+lock\s*\(\s*_mutex\s*\)", to_blk[:to_blk.find("_accepting.store")]):
        raise TranslateError("TimerService::drain: _accepting restored outside _mutex")
    gate = dr[:dr.find("drainStart")] if "drainStart" in dr else ""
    if not re.search(r"std::lock_guard<std::mutex>\s+lock\s*\(\s*_mutex\s*\)\s*;.*compare_exchange_strong.*_accepting\.store\s*\(\s*false", gate, re.S):
        raise TranslateError("TimerService::drain: entry gate (CAS Running->Draining and _accepting=false under _mutex) not recognised")
    m = re.search(r"rec\.tp\s*(>=|<=|>|<)\s*drainDeadline", dr)
    if not m:
        raise TranslateError("TimerService::drain: far-future sweep test not found")
    drain_sweep_op = m.group(1)
    m = re.search(r"drain\s*\(\s*(\w+)\s*\)", cxxscan.function_body(t, "stop"))
    if not m:
        raise TranslateError("TimerService::stop: internal drain(N) call not found")
    stop_drain_ms = cxxscan.const_eval(m.group(1))
    sb = cxxscan.function_body(t, "stop")
    i_drain = sb.find("drain(")
    i_cas = sb.find("_running.compare_exchange_strong")
    i_join = sb.find("_thread.join()")
    if not (0 <= i_drain < i_cas < i_join):
        raise TranslateError("TimerService::stop: drain / _running CAS / join order not recognised")
    between = sb[i_drain:i_cas]
    ms = re.search(r"\{\s*std::lock_guard<std::mutex>\s+lock\s*\(\s*_mutex\s*\)\s*;\s*_accepting\.store\s*\(\s*false", between)
    stop_clears = ms is not None
    if not stop_clears and "_accepting" in between:
        raise TranslateError("TimerService::stop: touches _accepting between drain and the CAS in an unrecognised way")

    # F23 (second half): Stopped is published together with `_accepting = false` under `_mutex` (markStopped) after the join
    after_join = sb[i_join:]
    direct = re.search(r"_lifecycleState\.store\s*\(\s*LifecycleState::Stopped", after_join) is not None
    via_mark = re.search(r"markStopped\s*\(\s*\)", after_join) is not None
    if direct == via_mark:
        raise TranslateError("TimerService::stop: how Stopped is published after the join is not recognised")
    stop_publishes_locked = False
    if via_mark:
        mk = cxxscan.function_body(t, "markStopped")
        order_mk = _order(mk, "markStopped", [("lock", r"std::lock_guard<std::mutex>\s+lock\s*\(\s*_mutex\s*\)"), ("accepting=false", r"_accepting\.store\s*\(\s*false"),
                                               ("state=Stopped", r"_lifecycleState\.store\s*\(\s*iora::common::LifecycleState::Stopped")])
        if order_mk[0] != "lock":
            raise TranslateError("markStopped: the stores are not under _mutex")
        stop_publishes_locked = True
    # F41: periodic invocations go through a guard that cancel() closes
    has_flag_member = re.search(r"std::shared_ptr<std::atomic<bool>>\s+cancelFlag\s*;", t) is not None
    guard_in_sched = re.search(r"if\s*\(\s*!\s*cancelFlag->load\s*\([^)]*\)\s*\)\s*\{\s*fn\s*\(\s*\)\s*;", sp) is not None
    m_close = re.search(r"cancelFlag->store\s*\(\s*true", cb)
    m_erase = re.search(r"_periodicTimers\.erase\s*\(", cb)
    closes = m_close is not None and m_erase is not None and m_close.start() < m_erase.start()
    if len({has_flag_member, guard_in_sched, closes}) != 1:
        raise TranslateError("periodic cancel guard: member / wrapper / cancel() shapes are inconsistent (%s, %s, %s)" % (has_flag_member, guard_in_sched, closes))
    if has_flag_member:
        if not re.search(r"Record\s*\{\s*deadline\s*,\s*Handler\s*\{\s*storedFn\s*\}", sp):
            raise TranslateError("schedulePeriodic: the first record does not hold the guarded function")
        if not re.search(r"Handler\s*\{\s*pt\.handler\s*\}", cd):
            raise TranslateError("collectDueLocked: re-armed record does not hold pt.handler")
    periodic_guard = has_flag_member
    # is the guard closed on EVERY successful cancel of a periodic entry, or only on the transition `!entry.canceled -> canceled`?
    # (drain() sweeps set entry.canceled without closing the guard, so a conditional close leaves a window)
    guard_unconditional = False
    if has_flag_member:
        mt = re.search(r"if\s*\(\s*!\s*periodicIt->second\.canceled\s*\)\s*\{", cb)
        if not mt:
            raise TranslateError("TimerService::cancel: `if (!periodicIt->second.canceled) {` block not found")
        t_open = mt.end() - 1
        t_close = cxxscan.match_brace(cb, t_open)
        mo = re.search(r"if\s*\(\s*periodicIt\s*!=\s*_periodicTimers\.end\s*\(\s*\)\s*\)\s*\{", cb)
        if not mo:
            raise TranslateError("TimerService::cancel: `if (periodicIt != _periodicTimers.end()) {` block not found")
        o_open = mo.end() - 1
        o_close = cxxscan.match_brace(cb, o_open)
        stores = [m.start() for m in re.finditer(r"cancelFlag->store\s*\(\s*true", cb)]
        if len(stores) != 1 or not (o_open < stores[0] < o_close):
            raise TranslateError("TimerService::cancel: expected exactly one cancelFlag->store(true) inside the periodic-entry block")
        inside_transition = t_open < stores[0] < t_close
        # any other condition around the store (besides the null test of the shared_ptr itself) is not a recognised shape
        between = cb[t_close:stores[0]] if not inside_transition else cb[t_open:stores[0]]
        conds = re.findall(r"\bif\s*\(([^)]*)\)", between)
        conds = [x.strip() for x in conds if x.strip() != "periodicIt->second.cancelFlag"]
        if conds:
            raise TranslateError("TimerService::cancel: the guard store is under an unrecognised condition: %s" % conds)
        guard_unconditional = not inside_transition

    # ---- reset(): WHAT it clears (the model's `resetSvc` is defined from this list); anything else touching the containers is not a
    # recognised shape
    reset_body = cxxscan.function_body(t, "reset", signature_contains="override")
    reset_pats = [("records", r"_records\.clear\s*\(\s*\)"), ("periodic", r"_periodicTimers\.clear\s*\(\s*\)"), ("heap", r"_heap\.clear\s*\(\s*\)"),
                  ("nextId", r"_nextId\s*=\s*0\s*;")]
    reset_found = [(n, rx) for n, rx in reset_pats if re.search(rx, reset_body)]
    if not reset_found:
        raise TranslateError("TimerService::reset: clears nothing that is recognised")
    others = re.findall(r"(_records|_periodicTimers|_heap|_nextId)\b(?!\.clear\s*\(\s*\)|\s*=\s*0\s*;)", reset_body)
    if others:
        # e.g. a swap into a local: the containers end up empty, but that is not the shape the model knows
        reset_found = [(n, rx) for n, rx in reset_found]
        extra_sw = [(n, m) for n, m in (("records", r"\.swap\s*\(\s*_records\s*\)|_records\.swap\s*\("), ("periodic", r"\.swap\s*\(\s*_periodicTimers\s*\)|_periodicTimers\.swap\s*\("),
                                        ("heap", r"\.swap\s*\(\s*_heap\s*\)|_heap\.swap\s*\(")) if re.search(m, reset_body)]
        have = {n for n, _ in reset_found}
        for n, m in extra_sw:
            if n not in have:
                reset_found.append((n, m))
        left = [o for o in others if not any(re.search(m, reset_body) for n, m in extra_sw if {"records": "_records", "periodic": "_periodicTimers", "heap": "_heap"}[n] == o)]
        if left:
            raise TranslateError("TimerService::reset: touches %s in an unrecognised way" % sorted(set(left)))
    if not re.search(r"currentState\s*!=\s*LifecycleState::Stopped", reset_body) or not re.search(r"_lifecycleState\.store\s*\(\s*LifecycleState::Reset", reset_body):
        raise TranslateError("TimerService::reset: `only from Stopped` test / Reset store not found")
    reset_clears = [n for n, _ in reset_pats if n in {x for x, _ in reset_found}]

    # ---- wake-up plumbing: programTimerfd (value programmed into the timerfd) and the poke() sites
    pt = cxxscan.function_body(t, "programTimerfd")
    if not re.search(r"auto\s+delta\s*=\s*\(\s*nextDue\.value\s*\(\s*\)\s*>\s*now\s*\)\s*\?\s*\(\s*nextDue\.value\s*\(\s*\)\s*-\s*now\s*\)\s*:\s*Duration::zero\s*\(\s*\)\s*;", pt):
        raise TranslateError("programTimerfd: `delta = (nextDue > now) ? (nextDue - now) : zero` not found")
    if not re.search(r"its\.it_value\.tv_sec\s*=\s*static_cast<time_t>\s*\(\s*ns\s*/\s*1000000000LL\s*\)\s*;\s*its\.it_value\.tv_nsec\s*=\s*static_cast<long>\s*\(\s*ns\s*%\s*1000000000LL\s*\)\s*;", pt):
        raise TranslateError("programTimerfd: it_value = ns / 1e9, ns % 1e9 not found")
    if not re.search(r"itimerspec\s+its\s*\{\s*\}\s*;", pt) or not re.search(r"::timerfd_settime\s*\(\s*_timerFd\s*,\s*0\s*,\s*&its\s*,\s*nullptr\s*\)", pt):
        raise TranslateError("programTimerfd: zero-initialised itimerspec / relative timerfd_settime(_timerFd, 0, &its, nullptr) not found")
    mz = re.search(r"if\s*\(\s*its\.it_value\.tv_sec\s*==\s*0\s*&&\s*its\.it_value\.tv_nsec\s*==\s*0\s*\)\s*\{\s*its\.it_value\.tv_nsec\s*=\s*(\d+)\s*;\s*\}", pt)
    n_assign = len(re.findall(r"its\.it_(?:value|interval)\.tv_n?sec\s*=[^=]", pt))
    if n_assign != (3 if mz else 2):
        raise TranslateError("programTimerfd: %d assignments to `its`, shape not recognised" % n_assign)
    zero_guard = mz is not None
    zero_ns = int(mz.group(1)) if mz else 0
    if zero_guard and zero_ns <= 0:
        raise TranslateError("programTimerfd: zero guard sets a non-positive value")
    if not re.search(r"if\s*\(\s*auto\s+top\s*=\s*heapTop\s*\(\s*\)\s*\)\s*\{\s*nextDue\s*=\s*top->tp\s*;\s*\}\s*timerfdErr\s*=\s*programTimerfd\s*\(\s*nextDue\s*\)\s*;", rl):
        raise TranslateError("runLoop: `nextDue = heapTop()->tp; programTimerfd(nextDue)` not found")
    if not re.search(r"collectDueLocked\s*\(\s*now\s*,\s*ready\s*\)\s*;\s*timerfdErr\s*=\s*programTimerfd\s*\(\s*std::nullopt\s*\)\s*;\s*shouldExit\s*=\s*true\s*;", rl):
        raise TranslateError("runLoop: exit branch `collectDueLocked; programTimerfd(nullopt); shouldExit = true` not found")
    if not re.search(r"if\s*\(\s*woke\s*\)\s*\{\s*drainEventfd\s*\(\s*\)\s*;\s*\}\s*if\s*\(\s*timerTriggered\s*\)\s*\{\s*drainTimerfd\s*\(\s*\)\s*;\s*\}", rl):
        raise TranslateError("runLoop: drainEventfd / drainTimerfd after epoll_wait not found")
    pk_body = cxxscan.function_body(t, "poke")
    if not re.search(r"::write\s*\(\s*fd\s*,\s*&one\s*,\s*sizeof\s*\(\s*one\s*\)\s*\)", pk_body) or not re.search(r"if\s*\(\s*fd\s*<\s*0\s*\)\s*\{\s*return\s*;", pk_body):
        raise TranslateError("poke: eventfd write / closed-fd early return not found")
    POKE = r"(?<![\w.>])poke\s*\(\s*\)\s*;"
    poke_sites = []

    def _poke_after(body, what, after_rx, before_rx=None):
        ma = [m for m in re.finditer(after_rx, body)]
        if not ma:
            raise TranslateError("%s: `%s` not found" % (what, after_rx))
        for m in re.finditer(POKE, body):
            if m.start() > ma[-1].end() and (before_rx is None or (re.search(before_rx, body[m.end():]) is not None)):
                return _none_guarded(body, what, ML0, [POKE])
        return False
    ML0 = r"std::(?:lock_guard|unique_lock)<std::mutex>\s+lock\s*\(\s*_mutex\s*\)"
    if _poke_after(sa, "scheduleAt", r"return\s+0\s*;", r"return\s+id\s*;"):
        poke_sites.append("scheduleAt")
    if _poke_after(sp, "schedulePeriodic", r"return\s+0\s*;", r"return\s+id\s*;"):
        poke_sites.append("schedulePeriodic")
    if re.search(r"if\s*\(\s*needsPoke\s*\)\s*\{\s*poke\s*\(\s*\)\s*;\s*\}", cb) and \
            re.search(r"it->second\.canceled\s*=\s*true\s*;\s*needsPoke\s*=\s*true\s*;", cb) and len(re.findall(r"needsPoke\s*=\s*true", cb)) == 1 \
            and _none_guarded(cb, "cancel", ML0, [POKE]):
        poke_sites.append("cancel")
    if _poke_after(dr, "drain", r"pt\.canceled\s*=\s*true", r"_drainCV\.wait"):
        poke_sites.append("drain")
    if _poke_after(sb, "stop", r"_running\.compare_exchange_strong", r"_thread\.join\s*\(\s*\)"):
        poke_sites.append("stop")

    # ---- SteadyTimer (FC08b): which cancel() the tree has
    i_st = t.find("class SteadyTimer")
    i_pool = t.find("class TimerServicePool", i_st)
    if i_st < 0 or i_pool < 0:
        raise TranslateError("class SteadyTimer not found")
    stc = t[i_st:i_pool]
    st_cancel = cxxscan.function_body(stc, "cancel")
    st_wait = cxxscan.function_body(stc, "asyncWait")
    if not re.search(r"cancel\s*\(\s*\)\s*;\s*_shared\s*=\s*std::make_shared<Shared>\s*\(\s*\)\s*;", st_wait):
        raise TranslateError("SteadyTimer::asyncWait: `cancel(); _shared = std::make_shared<Shared>();` (a fresh arm object per wait) not found")
    if not re.search(r"_token\s*=\s*_svc\.scheduleAt\s*\(\s*tp\s*,", st_wait) or not re.search(r"if\s*\(\s*auto\s+s\s*=\s*w\.lock\s*\(\s*\)\s*\)", st_wait):
        raise TranslateError("SteadyTimer::asyncWait: scheduleAt(tp, wrapper holding a weak_ptr) not found")
    new_cancel = re.search(r"suppressed\s*=\s*_shared->state\.compare_exchange_strong\s*\(\s*expected\s*,\s*Shared::Canceled", st_cancel) is not None \
        and re.search(r"bool\s+ok\s*=\s*_svc\.cancel\s*\(\s*\*_token\s*\)\s*;\s*_token\.reset\s*\(\s*\)\s*;\s*return\s+ok\s*\|\|\s*suppressed\s*;", st_cancel) is not None
    new_wrap = re.search(r"s->state\.compare_exchange_strong\s*\(\s*expected\s*,\s*Shared::Started", st_wait) is not None \
        and re.search(r"if\s*\(\s*\*_token\s*==\s*0\s*\)\s*\{\s*_token\.reset\s*\(\s*\)\s*;", st_wait) is not None
    old_cancel = re.search(r"_shared->canceled\.store\s*\(\s*true", st_cancel) is not None \
        and re.search(r"bool\s+ok\s*=\s*_svc\.cancel\s*\(\s*\*_token\s*\)\s*;\s*_token\.reset\s*\(\s*\)\s*;\s*return\s+ok\s*;", st_cancel) is not None
    old_wrap = re.search(r"if\s*\(\s*!\s*s->canceled\.load\s*\(", st_wait) is not None
    if new_cancel and new_wrap and not old_cancel and not old_wrap:
        steady_new = True
    elif old_cancel and old_wrap and not new_cancel and not new_wrap:
        steady_new = False
    else:
        raise TranslateError("SteadyTimer: cancel()/wrapper shapes not recognised (new %s/%s, legacy %s/%s)" % (new_cancel, new_wrap, old_cancel, old_wrap))
    if not re.search(r"if\s*\(\s*_token\s*\)", st_cancel) or not re.search(r"return\s+false\s*;", st_cancel):
        raise TranslateError("SteadyTimer::cancel: `if (_token) ... return false;` not found")

    # ---- _mutex: every section the service model treats as atomic takes the mutex first and holds it over all its accesses
    ML = r"std::(?:lock_guard|unique_lock)<std::mutex>\s+lock\s*\(\s*_mutex\s*\)"
    svc_sections = [
        ("scheduleAt", sa, [r"_accepting\.load\s*\(\s*std::memory_order_relaxed", r"_records\.size\s*\(", r"\+\+_nextId", r"_records\.emplace\s*\(", r"_heap\.emplace_back\s*\(", r"siftUp\s*\("]),
        ("schedulePeriodic", sp, [r"_accepting\.load\s*\(\s*std::memory_order_relaxed", r"_periodicTimers\.size\s*\(", r"_records\.size\s*\(", r"\+\+_nextId", r"_periodicTimers\.emplace\s*\(",
                                  r"_records\.emplace\s*\(", r"_heap\.emplace_back\s*\(", r"siftUp\s*\("]),
        ("cancel", cb, [r"_records\.find\s*\(", r"it->second\.canceled\s*=\s*true", r"_periodicTimers\.find\s*\(", r"cancelFlag->store\s*\(", r"_periodicTimers\.erase\s*\("]
         if has_flag_member else [r"_records\.find\s*\(", r"it->second\.canceled\s*=\s*true", r"_periodicTimers\.find\s*\(", r"_periodicTimers\.erase\s*\("]),
        ("drain.gate", dr, [r"compare_exchange_strong\s*\(\s*expected\s*,\s*LifecycleState::Draining", r"_accepting\.store\s*\(\s*false"]),
        ("drain.sweep", dr, [r"rec\.canceled\s*=\s*true", r"pt\.canceled\s*=\s*true", r"_records\.find\s*\("]),
        ("drain.wait", dr, [r"_drainCV\.wait\s*\(", r"_drainCV\.wait_for\s*\(", r"!\s*drainDone\s*\(\s*\)"]),
        ("drain.restore", dr, [r"compare_exchange_strong\s*\(\s*drainExpected", r"_accepting\.store\s*\(\s*true"]),
        ("stop.flag", sb, [r"_accepting\.store\s*\(\s*false"]) if stop_clears else ("stop.flag", "", []),
        ("markStopped", cxxscan.function_body(t, "markStopped"), [r"_accepting\.store\s*\(\s*false", r"_lifecycleState\.store\s*\("]) if via_mark else ("markStopped", "", []),
        ("reset", reset_body, [rx for _, rx in reset_found]),
        ("getInFlightCount", cxxscan.function_body(t, "getInFlightCount"), [r":\s*_records\s*\)"]),
        ("runLoop.collect", rl, [r"collectDueLocked\s*\(", r"_executingCallbacks\.fetch_add\s*\(", r"heapTop\s*\(", r"programTimerfd\s*\("]),
    ]
    svc_locked = [n for n, body, touches in svc_sections if touches and _all_guarded(body, "TimerService::" + n, ML, touches)]
    svc_run_outside = _none_guarded(rl, "runLoop", ML, [r"safeRun\s*\("])
    # the restore of `_accepting` happens only if the CAS Draining -> Running succeeded: the store sits inside the braces of that `if`
    stores_true = [m.start() for m in re.finditer(r"_accepting\.store\s*\(\s*true", dr)]
    restore_inside_cas = False
    if drain_restores:
        mc = re.search(r"if\s*\(\s*_lifecycleState\.compare_exchange_strong\s*\(\s*drainExpected\s*,\s*LifecycleState::Running", dr)
        if not mc:
            raise TranslateError("TimerService::drain: `if (_lifecycleState.compare_exchange_strong(drainExpected, LifecycleState::Running` not found")
        # closing paren of the if-condition, then its block
        i = dr.index("(", mc.start())
        depth = 0
        j = i
        while j < len(dr):
            if dr[j] == "(":
                depth += 1
            elif dr[j] == ")":
                depth -= 1
                if depth == 0:
                    break
            j += 1
        k2 = j + 1
        while k2 < len(dr) and dr[k2] in " \t\r\n":
            k2 += 1
        if k2 >= len(dr) or dr[k2] != "{":
            raise TranslateError("TimerService::drain: the CAS-if of the restore path has no braced block")
        blk_end = cxxscan.match_brace(dr, k2)
        restore_inside_cas = len(stores_true) == 1 and k2 < stores_true[0] < blk_end

    out = HEADER % (fw + ", " + ft + ", " + fk)
    out += "namespace Iora.Gen.Timer\n"
    out += "/-- `TimingWheel::schedule`: `_accepting` is tested again after `_wheelMutex` is taken and before `insertEntry` (F32) -/\n"
    out += "def wheelScheduleRechecksUnderLock : Bool := %s\n" % _bool(wheel_recheck)
    out += "/-- `advance`: catch-up starts when `elapsedTicks >` this -/\n"
    out += "def wheelCatchUpAbove : Nat := %d\n" % catchup_min
    out += "/-- `advance`: order of the calls inside the tick loop -/\n"
    out += "def wheelAdvanceOrder : List String := %s\n" % _lean_str_list(order_adv)
    out += "/-- `collectFromBucket`: `if (entry->deadline - now OP RHS)` guarding the re-insert (\"\" = no deadline test at all, F21) -/\n"
    out += "def wheelLevel0NotDueOp : String := \"%s\"\ndef wheelLevel0NotDueRhs : String := \"%s\"\n" % (l0_op, l0_rhs)
    out += "/-- `collectFromBucket` / `cascadeDown`: the loop that calls `insertEntry` ranges over a detached vector, not the live bucket (F22) -/\n"
    out += "def wheelLevel0Detached : Bool := %s\ndef wheelCascadeDetached : Bool := %s\n" % (_bool(l0_detached), _bool(casc_detached))
    out += "/-- `cascadeDown`: `if (entry->deadline OP now)` fires;  `drain`: `if (e.deadline OP now)` fires -/\n"
    out += "def wheelCascadeDueOp : String := \"%s\"\ndef wheelDrainDueOp : String := \"%s\"\n" % (casc_op, drain_op)
    out += "/-- order of the effects of `TimingWheel::stop`, `TimingWheel::drain`, `stopTickThread` -/\n"
    out += "def wheelStopOrder : List String := %s\n" % _lean_str_list(order_stop)
    out += "def wheelDrainOrder : List String := %s\n" % _lean_str_list(order_drain)
    out += "def wheelStopTickThreadOrder : List String := %s\n" % _lean_str_list(order_stt)
    out += "/-- `KVStoreConfig` defaults for the TTL wheel (tick ms, ticks per wheel, wheels) -/\n"
    out += "def kvWheelTickMs : Nat := %d\ndef kvWheelSlots : Nat := %d\ndef kvWheelLevels : Nat := %d\n" % (kv_tick, kv_slots, kv_levels)
    out += "/-- `TimerService::scheduleAt` / `schedulePeriodic`: `_accepting` re-tested under `_mutex` before the record is stored -/\n"
    out += "def svcScheduleAtRechecksUnderLock : Bool := %s\ndef svcSchedulePeriodicRechecksUnderLock : Bool := %s\n" % (_bool(svc_at), _bool(svc_per))
    out += "/-- `TimerService::cancel`: order of lock / lookup / mark / periodic erase -/\n"
    out += "def svcCancelOrder : List String := %s\n" % _lean_str_list(order_cancel)
    out += "/-- `collectDueLocked`: `if (top.tp OP now) break;` and the order of pop / erase / canceled test / hand-over / re-arm -/\n"
    out += "def svcCollectBreakOp : String := \"%s\"\ndef svcCollectOrder : List String := %s\n" % (svc_break_op, _lean_str_list(order_collect))
    out += "/-- `runLoop`: both collect sites pre-announce `_executingCallbacks` inside the same `_mutex` block -/\n"
    out += "def svcPreAnnounceUnderLock : Bool := %s\n" % _bool(pre)
    out += "/-- `safeRun`: the count guard decrements, locks/unlocks `_mutex`, then notifies -/\n"
    out += "def svcSafeRunOrder : List String := %s\n" % _lean_str_list(order_guard)
    out += "/-- `TimerService::drain`: timed-out path stores `_accepting = true` (under `_mutex`); far-future sweep test `rec.tp OP drainDeadline` -/\n"
    out += "def svcDrainRestoresAcceptingOnTimeout : Bool := %s\ndef svcDrainSweepOp : String := \"%s\"\n" % (_bool(drain_restores), drain_sweep_op)
    out += "/-- `TimerService::stop`: timeout of the internal drain; `_accepting = false` under `_mutex` after it and before the thread is stopped (F23) -/\n"
    out += "def svcStopDrainMs : Nat := %d\ndef svcStopClearsAccepting : Bool := %s\n" % (stop_drain_ms, _bool(stop_clears))
    out += "/-- `TimerService::stop`: after the join, Stopped and `_accepting = false` are stored together under `_mutex` (F23) -/\n"
    out += "def svcStopPublishesStoppedUnderLock : Bool := %s\n" % _bool(stop_publishes_locked)
    out += "/-- every invocation of a periodic handler checks a flag that `cancel()` sets before it erases the periodic entry (F41) -/\n"
    out += "def svcPeriodicCancelGuard : Bool := %s\n" % _bool(periodic_guard)
    out += "/-- `cancel()` closes the guard for every periodic entry it finds, not only on the transition `!entry.canceled` (a `drain` sweep sets\n"
    out += "`entry.canceled` without closing the guard) -/\n"
    out += "def svcCancelClosesGuardAlways : Bool := %s\n" % _bool(guard_unconditional)
    out += "/-- wheel functions all of whose accesses to the wheel state come after `std::lock_guard lock(_wheelMutex)` and inside its scope -/\n"
    out += "def wheelMutexSections : List String := %s\n" % _lean_str_list(wheel_locked)
    out += "/-- `advance` / `drain` call `fireCallback` outside every `_wheelMutex` scope (collect-then-fire) -/\n"
    out += "def wheelFiresOutsideLock : Bool := %s\n" % _bool(wheel_fire_outside)
    out += "/-- service sections all of whose accesses to `_records/_periodicTimers/_heap/_nextId/_accepting/_lifecycleState` come after the\n"
    out += "`_mutex` lock declaration and inside its scope -/\n"
    out += "def svcMutexSections : List String := %s\n" % _lean_str_list(svc_locked)
    out += "/-- `runLoop` calls `safeRun` (the handlers) outside every `_mutex` scope -/\n"
    out += "def svcHandlersRunOutsideLock : Bool := %s\n" % _bool(svc_run_outside)
    out += "/-- `drain`: the only `_accepting.store(true)` sits inside the braces of `if (CAS Draining -> Running)` -/\n"
    out += "def svcDrainRestoreInsideCas : Bool := %s\n" % _bool(restore_inside_cas)
    # ---- c08w block (round 2) ----
    out += "/-- `TimingWheel::schedule`: the id is `_nextId.fetch_add(1, ..)`, the only access to `_nextId` in the function; the class writes\n"
    out += "`_nextId` nowhere else except `reset()`'s store -/\n"
    out += "def wheelIdAllocAtomic : Bool := %s\n" % _bool(wheel_id_atomic)
    out += "/-- `schedule`/`reschedule` compute the deadline with `deadlineAfter(Clock::now(), delay)` (FC08c), and `deadlineAfter` is\n"
    out += "`ahead = duration_cast<milliseconds>(TimePoint::max() - now); behind = duration_cast<milliseconds>(now.time_since_epoch());\n`return now + std::clamp(delay, -behind, ahead);` -/\n"
    out += "def wheelDeadlineSaturates : Bool := %s\ndef wheelDeadlineIsClamp : Bool := %s\n" % (_bool(wheel_deadline_sat), _bool(wheel_deadline_clamp))
    out += "/-- `reset()`: order of its effects; `clearAllEntries()`: order of its effects (every bucket of every level is emptied);\n"
    out += "`start()`: the states its compare-exchanges start from -/\n"
    out += "def wheelResetOrder : List String := %s\n" % _lean_str_list(order_reset)
    out += "def wheelClearOrder : List String := %s\n" % _lean_str_list(order_clear)
    out += "def wheelStartFrom : List String := %s\n" % _lean_str_list(start_from)
    out += "/-- `programTimerfd`: a computed `it_value` of exactly zero (which would disarm the timerfd) is replaced by this many ns -/\n"
    out += "def svcTimerfdZeroGuard : Bool := %s\ndef svcTimerfdZeroNs : Nat := %d\n" % (_bool(zero_guard), zero_ns)
    out += "/-- functions that call `poke()` after their `_mutex` section (on the success path) -/\n"
    out += "def svcPokeSites : List String := %s\n" % _lean_str_list(poke_sites)
    out += "/-- what `TimerService::reset()` clears under `_mutex` -/\n"
    out += "def svcResetClears : List String := %s\n" % _lean_str_list(reset_clears)
    out += "/-- `SteadyTimer::cancel()` answers `ok || suppressed` where `suppressed` = it won the CAS `Armed -> Canceled` on the arm's shared state\n"
    out += "(FC08b); `false` = the legacy shape: a flag stored unconditionally, answer = the service-level answer alone -/\n"
    out += "def steadyCancelReportsSuppressed : Bool := %s\n" % _bool(steady_new)
    out += "end Iora.Gen.Timer\n"
    return "IoraModel/Gen/Timer.lean", out
