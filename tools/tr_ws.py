"""Translator unit `ws` -> Gen/Ws.lean (C18): opcode table, control set, length markers, limits, and the
lock/flag SKELETON of every function that hands WebSocket frames to the transport or touches the close flag
(server: `_wsMutex` / `closeSent`, client: `_sendMutex` / `_closeSent`): per function the ordered list of
lock / unlock / read-flag / write-flag / make-frame / send / return / callback / call events, each tagged with the
mutexes held at that point of the text (RAII guards tracked by brace scope)."""
import re
import cxxscan
from translate import TranslateError, HEADER, read, lean_str_nat_list, lean_nat_list

F = "include/iora/network/websocket_frame.hpp"
S = "include/iora/network/websocket_server.hpp"
C = "include/iora/network/websocket_client.hpp"

SERVER_FUNCS = ["sendText", "sendBinary", "sendPing", "sendClose", "handleFrame", "handleDataFrame", "onUpgradedData"]
CLIENT_FUNCS = ["sendText", "sendBinary", "sendPing", "sendClose", "handleFrame", "handleDataFrame", "handleData", "teardownTransport"]
H = "include/iora/network/http_server.hpp"
# other functions that may mention the flag / the raw send without being a send path
SERVER_OTHER = {"isSessionActive": ["closeSent"]}
CLIENT_OTHER = {"doConnect": ["_closeSent"], "sendRawBytes": ["sendRawBytes", "sendAsync"]}
# every way a WebSocket frame reaches the transport: the raw-send helper of the class, or the transport's sendAsync directly
# (WebSocketClient::teardownTransport hands its courtesy CLOSE frame to a snapshot `t` of the transport)
SERVER_RAW = (r"sendRaw", ["sendRaw"])
CLIENT_RAW = (r"(?:sendRawBytes|\w+->sendAsync)", ["sendRawBytes", "sendAsync"])


def tok_re(flag, rawsend):
    return re.compile(r"""
       (?P<guard>std::lock_guard\s*<[^>]*>\s*(?P<gname>\w+)\s*[\({]\s*(?P<gm>_\w+)\s*[\)}])
     | (?P<badlock>std::(?:unique_lock|scoped_lock|shared_lock)\b|\.\s*(?:unlock|lock|try_lock)\s*\()
     | (?P<wflag>\b%(flag)s\s*=\s*(?P<wval>true|false)\b)
     | (?P<rflag>\b%(flag)s\b(?!\s*=[^=]))
     | (?P<make>\bWebSocketFrame::make(?P<mk>Text|Binary|Ping|Pong|Close|Continuation)\s*\()
     | (?P<send>(?<![\w.>])%(rawsend)s\s*\()
     | (?P<callclose>(?<![\w.>:])sendClose\s*\()
     | (?P<callsend>(?<![\w.>:])send(?P<cs>Text|Binary|Ping)\s*\()
     | (?P<cb>\b(?P<cbname>_on(?:Close|Error|TextMessage|BinaryMessage|Connect))\s*\()
     | (?P<erase>\b_sessions\s*\.\s*erase\s*\()
     | (?P<closesess>(?<![\w.>])closeSession\s*\()
     | (?P<xchg>\b_closeEchoed\s*\.\s*exchange\s*\()
     | (?P<pfail>\b_protocolFailed\s*\.\s*store\s*\(\s*true\s*\))
     | (?P<rstate>\b_state\s*\.\s*load\s*\(\s*\))
     | (?P<setstate>(?<![\w.>])setState\s*\()
     | (?P<ret>\breturn\b)
     | (?P<open>\{) | (?P<close>\})
    """ % {"flag": flag, "rawsend": rawsend}, re.X)


def skeleton(body, where, flag, rawsend, flagname):
    ev = []
    depth = 0
    guards = []      # [name, mutex, depth]
    last_make = None
    R = tok_re(flag, rawsend)
    for m in R.finditer(body):
        held = ",".join(sorted({g[1] for g in guards}))
        if m.group("open"):
            depth += 1
        elif m.group("close"):
            for g in [g for g in guards if g[2] == depth]:
                ev.append(("unlock", g[1], ",".join(sorted({h[1] for h in guards}))))
                guards.remove(g)
            depth -= 1
        elif m.group("guard"):
            guards.append([m.group("gname"), m.group("gm"), depth])
            ev.append(("lock", m.group("gm"), held))
        elif m.group("badlock"):
            raise TranslateError("%s: lock primitive in a shape the scanner does not know: %r" % (where, body[max(0, m.start() - 30):m.end() + 20].strip()))
        elif m.group("wflag"):
            ev.append(("write", flagname + "=" + m.group("wval"), held))
        elif m.group("rflag"):
            ev.append(("read", flagname, held))
        elif m.group("make"):
            last_make = m.group("mk")
            ev.append(("make", last_make, held))
        elif m.group("send"):
            if last_make is None:
                raise TranslateError("%s: %s( without a preceding WebSocketFrame::make*" % (where, rawsend))
            ev.append(("send", last_make, held))
        elif m.group("callclose"):
            ev.append(("call", "sendClose", held))
        elif m.group("callsend"):
            ev.append(("call", "send" + m.group("cs"), held))
        elif m.group("cb"):
            # `if (_onError)` tests are not invocations: an invocation is followed by an argument list that is not `)`-only test
            pre = body[max(0, m.start() - 6):m.start()]
            if re.search(r"if\s*\(\s*$", pre):
                continue
            ev.append(("callback", m.group("cbname"), held))
        elif m.group("erase"):
            ev.append(("erase", "_sessions", held))
        elif m.group("closesess"):
            ev.append(("closeSession", "", held))
        elif m.group("xchg"):
            ev.append(("exchange", "_closeEchoed", held))
        elif m.group("pfail"):
            ev.append(("write", "_protocolFailed=true", held))
        elif m.group("rstate"):
            ev.append(("read", "_state", held))
        elif m.group("setstate"):
            ev.append(("setState", "", held))
        elif m.group("ret"):
            ev.append(("return", "", held))
    if guards or depth != 0:
        # guards of the outermost scope are released at the end of the function body
        for g in list(guards):
            ev.append(("unlock", g[1], ",".join(sorted({h[1] for h in guards}))))
            guards.remove(g)
    return ev


def member_functions(src):
    """(name, body) of every member-function-like definition `name(...) [const] [override] {` in comment-stripped src."""
    out = []
    for m in re.finditer(r"\b(~?\w+)\s*\(", src):
        name = m.group(1)
        if name in ("if", "for", "while", "switch", "catch", "return", "sizeof", "static_cast", "reinterpret_cast", "decltype"):
            continue
        i = m.end() - 1
        depth = 0
        j = i
        while j < len(src):
            if src[j] == "(":
                depth += 1
            elif src[j] == ")":
                depth -= 1
                if depth == 0:
                    break
            j += 1
        mm = re.match(r"\s*(?:const\s*)?(?:noexcept\s*)?(?:override\s*)?\{", src[j + 1:j + 60])
        if not mm:
            continue
        k = m.start() - 1
        while k >= 0 and src[k] in " \t\r\n":
            k -= 1
        prev = src[k] if k >= 0 else ";"
        if not (prev.isalnum() or prev in "_>&*"):
            continue
        if re.search(r"\b(return|else|new|delete|throw)$", src[max(0, k - 10):k + 1]):
            continue
        b = j + 1 + mm.end() - 1
        out.append((name, src[b + 1:cxxscan.match_brace(src, b)]))
    return out


def class_skeleton(src, cls, funcs, other, flag, raw, flagname):
    rawsend, rawwords = raw
    defs = member_functions(src)
    rows = []
    for fn in funcs:
        hits = [b for n, b in defs if n == fn]
        if len(hits) != 1:
            raise TranslateError("%s::%s: expected exactly one definition, found %d" % (cls, fn, len(hits)))
        rows.append((fn, skeleton(hits[0], cls + "::" + fn, flag, rawsend, flagname)))
    known = set(funcs)
    for n, b in defs:
        if n in known:
            continue
        uses = [w for w in [flagname if flagname.startswith("_") else "closeSent"] + rawwords if re.search(r"(?<![\w])%s\b" % re.escape(w), b)]
        # nested definitions (lambdas inside a known function) are part of that function's body and already scanned
        if not uses:
            continue
        allowed = other.get(n, [])
        for w in uses:
            if w not in allowed and not any(b in kb for kn, kb in defs if kn in known and kb is not b):
                raise TranslateError("%s::%s uses %s but is not a known send path" % (cls, n, w))
    return rows


def _first(pat, text, flags=0):
    m = re.search(pat, text, flags)
    return m.start() if m else -1


def handover_facts(hsrc, ssrc):
    """Shape facts of the HTTP -> WebSocket hand-over (http_server.hpp handleIncomingData / processHttpRequest /
    handleSessionClosed, websocket_server.hpp onUpgradeRequest / onSessionClosed). A function that is missing altogether
    is a fact `false` (the obligation C18_handover_pinned then fails to build); a function present in a shape the scanner
    cannot read raises."""
    facts = []
    order = []
    try:
        hid = cxxscan.function_body(hsrc, "handleIncomingData")
        # since the transport-epoch fix there is a forwarding overload; the worker body is the one that takes the epoch
        php = cxxscan.function_body(hsrc, "processHttpRequest", signature_contains="std::uint64_t epoch") \
            if re.search(r"processHttpRequest\([^)]*std::uint64_t epoch", hsrc) else cxxscan.function_body(hsrc, "processHttpRequest")
        our = cxxscan.function_body(ssrc, "onUpgradeRequest")
    except cxxscan.ScanError as e:
        raise TranslateError("hand-over: %s" % e)
    maxbuf = cxxscan.find_int(r"MAX_BUFFER_SIZE\s*=\s*([^;]+);", hsrc, "SessionInfo::MAX_BUFFER_SIZE")
    # (1) the head of handleIncomingData: ONE _sessionMutex section that tests the hold first (append + return), then the route
    head = re.search(r"std::lock_guard\s*<\s*std::mutex\s*>\s*lock\s*\(\s*_sessionMutex\s*\)\s*;(?P<sec>.*?)isUpgraded\s*=\s*_upgradedSessions\.count\(sid\)\s*>\s*0\s*;\s*\}", hid, re.S)
    if not head:
        raise TranslateError("handleIncomingData: the upgraded-session test is not in the known shape")
    sec = head.group("sec")
    hold = re.search(r"if\s*\(\s*_upgradePending\.count\(sid\)\s*>\s*0\s*\)\s*\{", sec)
    held_ok = False
    if hold:
        b = sec[hold.end() - 1:cxxscan.match_brace(sec, hold.end() - 1)]
        held_ok = bool(re.search(r"buffer\.size\(\)\s*\+\s*len\s*>\s*SessionInfo::MAX_BUFFER_SIZE", b)) and \
            bool(re.search(r"buffer\.append\([^;]*\bdata\b[^;]*\blen\s*\)\s*;\s*return\s*;", b)) and "onUpgradedData" not in b
    facts.append(("holdCheckedBeforeRoute", held_ok))
    # (2) the request loop: notices the Upgrade header, sets the hold in the section that stores the rest, then leaves the loop
    saw = bool(re.search(r"else\s+if\s*\(\s*key\s*==\s*\"upgrade\"\s*\)\s*\{\s*haveUpgrade\s*=\s*true\s*;\s*\}", hid))
    setw = bool(re.search(r"it->second\.buffer\s*=\s*dataStr\s*;\s*if\s*\(\s*haveUpgrade\s*\)\s*\{\s*_upgradePending\.insert\(sid\)\s*;\s*\}", hid))
    facts.append(("holdSetWithRest", saw and setw))
    enq = _first(r"_threadPool\.tryEnqueue\(", hid)
    brk = _first(r"if\s*\(\s*haveUpgrade\s*\)\s*\{\s*break\s*;\s*\}", hid)
    facts.append(("loopStopsAfterUpgrade", enq >= 0 and brk > enq and bool(re.search(r"processHttpRequest\(sid,\s*requestData,\s*(?:epoch,\s*)?haveUpgrade\)", hid))))
    # (3) the pool thread: hook, 101, drain loop that releases the hold in the section that finds the buffer empty
    i_hook = _first(r"\bonUpgradeRequest\(sid,\s*req,\s*upgradeRes\)", php)
    i_send = _first(r"_transport->sendAsync\(sid,\s*sharedResponseData->data\(\)", php[i_hook:]) + i_hook if i_hook >= 0 else -1
    if i_hook < 0 or i_send < i_hook:
        raise TranslateError("processHttpRequest: upgrade hook / 101 response not in the known shape")
    rest = php[i_send:]
    loop = re.search(r"for\s*\(\s*;\s*;\s*\)\s*\{", rest)
    drain_ok = False
    if loop:
        lb = rest[loop.end() - 1:cxxscan.match_brace(rest, loop.end() - 1)]
        drain_ok = bool(re.search(
            r"std::lock_guard\s*<\s*std::mutex\s*>\s*lock\s*\(\s*_sessionMutex\s*\)\s*;\s*auto\s+it\s*=\s*_sessionInfo\.find\(sid\)\s*;\s*"
            r"if\s*\(\s*it\s*!=\s*_sessionInfo\.end\(\)\s*&&\s*!it->second\.buffer\.empty\(\)\s*&&\s*_upgradedSessions\.count\(sid\)\s*>\s*0\s*\)\s*"
            r"\{\s*remaining\s*=\s*std::move\(it->second\.buffer\)\s*;\s*it->second\.buffer\.clear\(\)\s*;\s*\}\s*"
            r"else\s*\{\s*_upgradePending\.erase\(sid\)\s*;\s*break\s*;\s*\}\s*\}\s*(?:try\s*\{\s*)?onUpgradedData\(sid,", lb))
    facts.append(("drainReleasesWhenEmpty", drain_ok))
    facts.append(("holdReleasedOnEveryExit", bool(re.search(r"~UpgradeHoldRelease\s*\(\s*\)\s*\{\s*if\s*\(\s*armed\s*\)\s*\{\s*std::lock_guard\s*<\s*std::mutex\s*>\s*lock\s*\(\s*self->_sessionMutex\s*\)\s*;\s*self->_upgradePending\.erase\(sid\)\s*;", php))
                  and bool(re.search(r"upgradeHoldRelease\s*\{\s*this\s*,\s*sid\s*,\s*holdsUpgrade\s*\}", php))))
    # (4) transport close: HTTP state released under the lock, then the hook with no lock; the WebSocket server erases its entry
    try:
        hsc = cxxscan.function_body(hsrc, "handleSessionClosed")
        osc = cxxscan.function_body(ssrc, "onSessionClosed")
        close_ok = bool(re.search(r"_upgradePending\.erase\(sid\)\s*;\s*\}\s*onSessionClosed\(sid\)\s*;\s*$", hsc.strip())) and \
            bool(re.search(r"handleSessionClosed\(sid\)", hsrc.replace(hsc, ""))) and \
            bool(re.search(r"^\s*std::lock_guard\s*<\s*std::mutex\s*>\s*lock\s*\(\s*_wsMutex\s*\)\s*;\s*_sessions\.erase\(sid\)\s*;\s*$", osc))
    except cxxscan.ScanError:
        close_ok = False
    facts.append(("closeHookErases", close_ok))
    # the order of the pool thread's steps: inside the hook (mark, create, connect), then respond, then drain
    pos = [("mark", _first(r"\bmarkSessionUpgraded\(sid\)", our)), ("create", _first(r"_sessions\[sid\]\s*=\s*WsSessionState\{\}", our)),
           ("connect", _first(r"\b_onConnect\(sid,", our))]
    if any(p < 0 for _, p in pos):
        raise TranslateError("WebSocketServer::onUpgradeRequest: mark / create / connect not found")
    order = [n for n, _ in sorted(pos, key=lambda x: x[1])] + ["respond"] + (["drain"] if loop else ["drain-once"])
    # the header checks of onUpgradeRequest, in their order: tokens compared and the statuses answered
    m1 = re.search(r'if\s*\(\s*upgradeLower\s*!=\s*"([^"]+)"\s*\)\s*\{\s*return\s+false\s*;', our)
    m2 = re.search(r'if\s*\(\s*connLower\.find\(\s*"([^"]+)"\s*\)\s*==\s*std::string::npos\s*\)\s*\{\s*res\.status\s*=\s*(\d+)\s*;', our)
    m3 = re.search(r'if\s*\(\s*wsKey\.empty\(\)\s*\)\s*\{\s*res\.status\s*=\s*(\d+)\s*;', our)
    m4 = re.search(r'if\s*\(\s*wsVersion\s*!=\s*"([^"]+)"\s*\)\s*\{\s*res\.status\s*=\s*(\d+)\s*;', our)
    if not (m1 and m2 and m3 and m4) or not (m1.start() < m2.start() < m3.start() < m4.start() < pos[0][1]):
        raise TranslateError("WebSocketServer::onUpgradeRequest: header checks not in the known shape/order")
    if not re.search(r"std::transform\(upgradeLower\.begin\(\),\s*upgradeLower\.end\(\),\s*upgradeLower\.begin\(\),\s*::tolower\)", our) or \
       not re.search(r"std::transform\(connLower\.begin\(\),\s*connLower\.end\(\),\s*connLower\.begin\(\),\s*::tolower\)", our):
        raise TranslateError("WebSocketServer::onUpgradeRequest: case folding of Upgrade / Connection not found")
    checks = {"tokWebsocket": list(m1.group(1).encode()), "tokUpgrade": list(m2.group(1).encode()), "tokVersion": list(m4.group(1).encode()),
              "statuses": [int(m2.group(2)), int(m3.group(1)), int(m4.group(2))]}
    return maxbuf, facts, order, checks


def connect_resets(csrc):
    """the per-connection state `doConnect` re-arms before it registers the callbacks, as the list of fields reset"""
    try:
        dc = cxxscan.function_body(csrc, "doConnect")
    except cxxscan.ScanError as e:
        raise TranslateError("doConnect: %s" % e)
    cut = _first(r"\bt->onData\(", dc)
    if cut < 0:
        raise TranslateError("doConnect: callback registration (t->onData) not found")
    pre = dc[:cut]
    pats = [("_buffer", r"std::lock_guard\s*<\s*std::mutex\s*>\s*lock\s*\(\s*_dataMutex\s*\)\s*;[^{}]*\b_buffer\.clear\(\)\s*;"),
            ("_fragmentBuffer", r"std::lock_guard\s*<\s*std::mutex\s*>\s*lock\s*\(\s*_dataMutex\s*\)\s*;[^{}]*\b_fragmentBuffer\.clear\(\)\s*;"),
            ("_fragmentOpcode", r"std::lock_guard\s*<\s*std::mutex\s*>\s*lock\s*\(\s*_dataMutex\s*\)\s*;[^{}]*\b_fragmentOpcode\s*=\s*WsOpcode::CONTINUATION\s*;"),
            ("_upgradeComplete", r"\b_upgradeComplete\.store\(\s*false\s*\)\s*;"),
            ("_closeEchoed", r"\b_closeEchoed\.store\(\s*false\s*\)\s*;"),
            ("_protocolFailed", r"\b_protocolFailed\.store\(\s*false\s*\)\s*;"),
            ("_closeSent", r"std::lock_guard\s*<\s*std::mutex\s*>\s*sendLock\s*\(\s*_sendMutex\s*\)\s*;\s*_closeSent\s*=\s*false\s*;")]
    found = [n for n, p in pats if re.search(p, pre)]
    if re.search(r"\.store\(\s*true\s*\)|_closeSent\s*=\s*true", pre):
        raise TranslateError("doConnect: a per-connection flag is SET before the callbacks are registered (unknown shape)")
    return found


def lean_skel(rows):
    return "[\n" + ",\n".join('  ("%s", [%s])' % (w, ", ".join('("%s", "%s", "%s")' % e for e in evs)) for w, evs in rows) + "]"


def gen(repo):
    src = read(repo, F)
    ssrc = read(repo, S)
    ops = cxxscan.enum_items(src, "WsOpcode")
    opmap = dict(ops)
    ctl_body = cxxscan.function_body(src, "isControlFrame")
    names = re.findall(r"op\s*==\s*WsOpcode::(\w+)", ctl_body)
    if not names or re.search(r"&&|!=|<|>", ctl_body):
        raise TranslateError("isControlFrame: unexpected shape: %r" % ctl_body.strip())
    try:
        ctl = sorted(opmap[n] for n in names)
    except KeyError as e:
        raise TranslateError("isControlFrame names unknown enumerator %s" % e)
    parse = cxxscan.function_body(src, "parse", signature_contains="maxPayload") if "maxPayload" in src else cxxscan.function_body(src, "parse")
    max_ctl = cxxscan.find_int(r"isControlFrame\s*\(\s*frame\.opcode\s*\)\s*\)\s*\{\s*if\s*\(\s*payloadLen\s*>\s*(\w+)\s*\|\|\s*!\s*frame\.fin\s*\)", parse, "control-frame payload bound")
    m16 = cxxscan.find_int(r"if\s*\(\s*payloadLen\s*==\s*(\w+)\s*\)\s*\{[^{}]*readU16BE", parse, "16-bit length marker")
    m64 = cxxscan.find_int(r"if\s*\(\s*payloadLen\s*==\s*(\w+)\s*\)\s*\{[^{}]*readU64BE", parse, "64-bit length marker")
    ser = cxxscan.function_body(src, "serialize")
    s7 = cxxscan.find_int(r"if\s*\(\s*payload\.size\(\)\s*<=\s*(\w+)\s*\)", ser, "serialize 7-bit bound")
    s16 = cxxscan.find_int(r"else\s+if\s*\(\s*payload\.size\(\)\s*<=\s*(\w+)\s*\)", ser, "serialize 16-bit bound")
    dflt = cxxscan.find_int(r"_maxFrameSize\s*\(([^)]*)\)", ssrc, "WebSocketServer default _maxFrameSize")
    csrc = read(repo, C)
    cmax = cxxscan.find_int(r"kMaxFramePayload\s*=\s*([^;]+);", csrc, "WebSocketClient::kMaxFramePayload")
    # the client's limit is configurable (setMaxFrameSize) with kMaxFramePayload as its default, and it is the limit handed to parse
    if not re.search(r"_maxFrameSize\s*\{\s*kMaxFramePayload\s*\}", csrc):
        raise TranslateError("WebSocketClient::_maxFrameSize is not initialised from kMaxFramePayload")
    hd = cxxscan.function_body(csrc, "handleData")
    if not re.search(r"WebSocketFrame::parse\s*\(\s*view\s*,\s*consumed\s*,\s*status\s*,\s*_maxFrameSize\.load\(\)\s*\)", hd):
        raise TranslateError("WebSocketClient::handleData does not pass _maxFrameSize to WebSocketFrame::parse")
    # the upgrade response header is bounded while it is incomplete (FC18d)
    cupg = cxxscan.find_int(r"kMaxUpgradeResponse\s*=\s*([^;]+);", csrc, "WebSocketClient::kMaxUpgradeResponse")
    if not re.search(r"if\s*\(\s*headerEnd\s*==\s*std::string::npos\s*\)\s*\{\s*if\s*\(\s*localBuffer\.size\(\)\s*>\s*kMaxUpgradeResponse\s*\)", hd):
        raise TranslateError("WebSocketClient::handleData: incomplete upgrade response is not bounded by kMaxUpgradeResponse")
    # control-frame guards of the send API (FC18c): ping payload bound, close reason bound
    mkc = cxxscan.function_body(src, "makeClose")
    reason_max = cxxscan.find_int(r"if\s*\(\s*n\s*>\s*(\w+)\s*\)\s*\{\s*n\s*=\s*\1\s*;", mkc, "makeClose reason bound")
    if not re.search(r"while\s*\(\s*n\s*>\s*0\s*&&\s*\(\s*static_cast<unsigned char>\(reason\[n\]\)\s*&\s*0xC0\s*\)\s*==\s*0x80\s*\)\s*\{\s*--n;\s*\}", mkc):
        raise TranslateError("makeClose: UTF-8 boundary back-off not in the known shape")
    sping = cxxscan.function_body(ssrc, "sendPing")
    cping = cxxscan.function_body(csrc, "sendPing")
    sp = cxxscan.find_int(r"^\s*if\s*\(\s*payload\.size\(\)\s*>\s*(\w+)\s*\)\s*\{?\s*return\s*;", sping, "server sendPing payload guard")
    cp = cxxscan.find_int(r"^\s*if\s*\(\s*payload\.size\(\)\s*>\s*(\w+)\s*\)\s*\{?\s*return\s*;", cping, "client sendPing payload guard")
    srows = class_skeleton(ssrc, "WebSocketServer", SERVER_FUNCS, SERVER_OTHER, r"(?:\w+(?:->|\.))*closeSent", SERVER_RAW, "closeSent")
    crows = class_skeleton(csrc, "WebSocketClient", CLIENT_FUNCS, CLIENT_OTHER, r"_closeSent", CLIENT_RAW, "_closeSent")
    hand = handover_facts(read(repo, H), ssrc)
    resets = connect_resets(csrc)
    t = HEADER % (F + ", " + S + ", " + C)
    t += "namespace Iora.Gen.Ws\n"
    t += "/-- `enum class WsOpcode` enumerators (name, value) -/\n"
    t += "def opcodes : List (String × Nat) := %s\n" % lean_str_nat_list(ops)
    t += "/-- enumerators for which `isControlFrame` returns true -/\n"
    t += "def controlOpcodes : List Nat := %s\n" % lean_nat_list(ctl)
    t += "/-- `WebSocketServer::_maxFrameSize` constructor default -/\n"
    t += "def serverDefaultMaxFrameSize : Nat := %d\n" % dflt
    t += "/-- `WebSocketClient::kMaxFramePayload` (default of the client's `_maxFrameSize`, which is what `handleData` hands to `parse`) -/\n"
    t += "def clientMaxFramePayload : Nat := %d\n" % cmax
    t += "/-- `WebSocketClient::kMaxUpgradeResponse`: longest incomplete upgrade response header that is kept -/\n"
    t += "def clientMaxUpgradeResponse : Nat := %d\n" % cupg
    t += "/-- literals in `WebSocketFrame::parse`: largest control payload, 16-bit marker, 64-bit marker -/\n"
    t += "def maxControlPayload : Nat := %d\ndef len16Marker : Nat := %d\ndef len64Marker : Nat := %d\n" % (max_ctl, m16, m64)
    t += "/-- literals in `WebSocketFrame::serialize`: largest 7-bit length, largest 16-bit length -/\n"
    t += "def serMax7 : Nat := %d\ndef serMax16 : Nat := %d\n" % (s7, s16)
    t += "/-- `makeClose`: longest reason kept; `sendPing` (server, client): longest payload accepted -/\n"
    t += "def closeReasonMax : Nat := %d\ndef serverPingMax : Nat := %d\ndef clientPingMax : Nat := %d\n" % (reason_max, sp, cp)
    t += "/-- per function, in textual order: (event, object, mutexes held). Events: lock/unlock (RAII scope), read/write of the close\n"
    t += "flag, make (frame factory), send (raw send; object = kind of the frame made last), call, callback, erase, return -/\n"
    t += "def serverSkeleton : List (String × List (String × String × String)) := %s\n" % lean_skel(srows)
    t += "def clientSkeleton : List (String × List (String × String × String)) := %s\n" % lean_skel(crows)
    maxbuf, facts, order, checks = hand
    t += "/-- `HttpServer::SessionInfo::MAX_BUFFER_SIZE`: bytes held back per session while an upgrade is pending -/\n"
    t += "def httpMaxBufferSize : Nat := %d\n" % maxbuf
    t += "/-- shape facts of the HTTP -> WebSocket hand-over (http_server.hpp handleIncomingData / processHttpRequest /\n"
    t += "handleSessionClosed, websocket_server.hpp onSessionClosed), see tools/tr_ws.py handover_facts -/\n"
    t += "def handoverFacts : List (String × Bool) := [%s]\n" % ", ".join('("%s", %s)' % (n, "true" if v else "false") for n, v in facts)
    t += "/-- the pool thread's steps of an accepted upgrade, in textual order -/\n"
    t += "def upgradeWorkerOrder : List String := [%s]\n" % ", ".join('"%s"' % n for n in order)
    t += "/-- `onUpgradeRequest` header checks: the value `Upgrade` must equal (lower-cased), the token `Connection` must contain\n"
    t += "(lower-cased), the only version accepted, and the statuses answered when Connection / key / version fail -/\n"
    t += "def upgTokWebsocket : List Nat := %s\ndef upgTokUpgrade : List Nat := %s\ndef upgTokVersion : List Nat := %s\ndef upgStatuses : List Nat := %s\n" % (
        lean_nat_list(checks["tokWebsocket"]), lean_nat_list(checks["tokUpgrade"]), lean_nat_list(checks["tokVersion"]), lean_nat_list(checks["statuses"]))
    t += "/-- the per-connection fields `WebSocketClient::doConnect` resets before it registers the transport callbacks -/\n"
    t += "def clientConnectResets : List String := [%s]\n" % ", ".join('"%s"' % n for n in resets)
    t += "end Iora.Gen.Ws\n"
    return "IoraModel/Gen/Ws.lean", t
