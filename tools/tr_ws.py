"""Translator unit `ws` -> Gen/Ws.lean (C18): opcode table, control set, length markers, limits, and the
lock/flag SKELETON of every function that hands WebSocket frames to the transport or touches the close flag
(server: `_wsMutex` / `closeSent`, client: `_sendMutex` / `_closeSent`): per function the ordered list of
lock / unlock / read-flag / write-flag / make-frame / send / return / callback / call events, each tagged with the
mutexes held at that point of the text (RAII guards tracked by brace scope)."""
import re
import cxxscan
from translate import TranslateError, HEADER, read, lean_str_nat_list, lean_nat_list

F = "include/iora/network/websocket_frame.hpp"
S = "include/iora/network/websocket_server.hpp"
C = "include/iora/network/websocket_client.hpp"

SERVER_FUNCS = ["sendText", "sendBinary", "sendPing", "sendClose", "handleFrame", "handleDataFrame", "onUpgradedData"]
CLIENT_FUNCS = ["sendText", "sendBinary", "sendPing", "sendClose", "handleFrame", "handleDataFrame", "handleData"]
# other functions that may mention the flag / the raw send without being a send path
SERVER_OTHER = {"isSessionActive": ["closeSent"]}
CLIENT_OTHER = {"doConnect": ["_closeSent"], "sendRawBytes": ["sendRawBytes"]}


def tok_re(flag, rawsend):
    return re.compile(r"""
       (?P<guard>std::lock_guard\s*<[^>]*>\s*(?P<gname>\w+)\s*[\({]\s*(?P<gm>_\w+)\s*[\)}])
     | (?P<badlock>std::(?:unique_lock|scoped_lock|shared_lock)\b|\.\s*(?:unlock|lock|try_lock)\s*\()
     | (?P<wflag>\b%(flag)s\s*=\s*(?P<wval>true|false)\b)
     | (?P<rflag>\b%(flag)s\b(?!\s*=[^=]))
     | (?P<make>\bWebSocketFrame::make(?P<mk>Text|Binary|Ping|Pong|Close|Continuation)\s*\()
     | (?P<send>(?<![\w.>])%(rawsend)s\s*\()
     | (?P<callclose>(?<![\w.>:])sendClose\s*\()
     | (?P<callsend>(?<![\w.>:])send(?P<cs>Text|Binary|Ping)\s*\()
     | (?P<cb>\b(?P<cbname>_on(?:Close|Error|TextMessage|BinaryMessage|Connect))\s*\()
     | (?P<erase>\b_sessions\s*\.\s*erase\s*\()
     | (?P<closesess>(?<![\w.>])closeSession\s*\()
     | (?P<xchg>\b_closeEchoed\s*\.\s*exchange\s*\()
     | (?P<pfail>\b_protocolFailed\s*\.\s*store\s*\(\s*true\s*\))
     | (?P<rstate>\b_state\s*\.\s*load\s*\(\s*\))
     | (?P<setstate>(?<![\w.>])setState\s*\()
     | (?P<ret>\breturn\b)
     | (?P<open>\{) | (?P<close>\})
    """ % {"flag": flag, "rawsend": rawsend}, re.X)


def skeleton(body, where, flag, rawsend, flagname):
    ev = []
    depth = 0
    guards = []      # [name, mutex, depth]
    last_make = None
    R = tok_re(flag, rawsend)
    for m in R.finditer(body):
        held = ",".join(sorted({g[1] for g in guards}))
        if m.group("open"):
            depth += 1
        elif m.group("close"):
            for g in [g for g in guards if g[2] == depth]:
                ev.append(("unlock", g[1], ",".join(sorted({h[1] for h in guards}))))
                guards.remove(g)
            depth -= 1
        elif m.group("guard"):
            guards.append([m.group("gname"), m.group("gm"), depth])
            ev.append(("lock", m.group("gm"), held))
        elif m.group("badlock"):
            raise TranslateError("%s: lock primitive in a shape the scanner does not know: %r" % (where, body[max(0, m.start() - 30):m.end() + 20].strip()))
        elif m.group("wflag"):
            ev.append(("write", flagname + "=" + m.group("wval"), held))
        elif m.group("rflag"):
            ev.append(("read", flagname, held))
        elif m.group("make"):
            last_make = m.group("mk")
            ev.append(("make", last_make, held))
        elif m.group("send"):
            if last_make is None:
                raise TranslateError("%s: %s( without a preceding WebSocketFrame::make*" % (where, rawsend))
            ev.append(("send", last_make, held))
        elif m.group("callclose"):
            ev.append(("call", "sendClose", held))
        elif m.group("callsend"):
            ev.append(("call", "send" + m.group("cs"), held))
        elif m.group("cb"):
            # `if (_onError)` tests are not invocations: an invocation is followed by an argument list that is not `)`-only test
            pre = body[max(0, m.start() - 6):m.start()]
            if re.search(r"if\s*\(\s*$", pre):
                continue
            ev.append(("callback", m.group("cbname"), held))
        elif m.group("erase"):
            ev.append(("erase", "_sessions", held))
        elif m.group("closesess"):
            ev.append(("closeSession", "", held))
        elif m.group("xchg"):
            ev.append(("exchange", "_closeEchoed", held))
        elif m.group("pfail"):
            ev.append(("write", "_protocolFailed=true", held))
        elif m.group("rstate"):
            ev.append(("read", "_state", held))
        elif m.group("setstate"):
            ev.append(("setState", "", held))
        elif m.group("ret"):
            ev.append(("return", "", held))
    if guards or depth != 0:
        # guards of the outermost scope are released at the end of the function body
        for g in list(guards):
            ev.append(("unlock", g[1], ",".join(sorted({h[1] for h in guards}))))
            guards.remove(g)
    return ev


def member_functions(src):
    """(name, body) of every member-function-like definition `name(...) [const] [override] {` in comment-stripped src."""
    out = []
    for m in re.finditer(r"\b(~?\w+)\s*\(", src):
        name = m.group(1)
        if name in ("if", "for", "while", "switch", "catch", "return", "sizeof", "static_cast", "reinterpret_cast", "decltype"):
            continue
        i = m.end() - 1
        depth = 0
        j = i
        while j < len(src):
            if src[j] == "(":
                depth += 1
            elif src[j] == ")":
                depth -= 1
                if depth == 0:
                    break
            j += 1
        mm = re.match(r"\s*(?:const\s*)?(?:noexcept\s*)?(?:override\s*)?\{", src[j + 1:j + 60])
        if not mm:
            continue
        k = m.start() - 1
        while k >= 0 and src[k] in " \t\r\n":
            k -= 1
        prev = src[k] if k >= 0 else ";"
        if not (prev.isalnum() or prev in "_>&*"):
            continue
        if re.search(r"\b(return|else|new|delete|throw)$", src[max(0, k - 10):k + 1]):
            continue
        b = j + 1 + mm.end() - 1
        out.append((name, src[b + 1:cxxscan.match_brace(src, b)]))
    return out


def class_skeleton(src, cls, funcs, other, flag, rawsend, flagname):
    defs = member_functions(src)
    rows = []
    for fn in funcs:
        hits = [b for n, b in defs if n == fn]
        if len(hits) != 1:
            raise TranslateError("%s::%s: expected exactly one definition, found %d" % (cls, fn, len(hits)))
        rows.append((fn, skeleton(hits[0], cls + "::" + fn, flag, rawsend, flagname)))
    known = set(funcs)
    for n, b in defs:
        if n in known:
            continue
        uses = [w for w in (flagname if flagname.startswith("_") else "closeSent", rawsend) if re.search(r"(?<![\w])%s\b" % re.escape(w), b)]
        # nested definitions (lambdas inside a known function) are part of that function's body and already scanned
        if not uses:
            continue
        allowed = other.get(n, [])
        for w in uses:
            if w not in allowed and not any(b in kb for kn, kb in defs if kn in known and kb is not b):
                raise TranslateError("%s::%s uses %s but is not a known send path" % (cls, n, w))
    return rows


def lean_skel(rows):
    return "[\n" + ",\n".join('  ("%s", [%s])' % (w, ", ".join('("%s", "%s", "%s")' % e for e in evs)) for w, evs in rows) + "]"


def gen(repo):
    src = read(repo, F)
    ssrc = read(repo, S)
    ops = cxxscan.enum_items(src, "WsOpcode")
    opmap = dict(ops)
    ctl_body = cxxscan.function_body(src, "isControlFrame")
    names = re.findall(r"op\s*==\s*WsOpcode::(\w+)", ctl_body)
    if not names or re.search(r"&&|!=|<|>", ctl_body):
        raise TranslateError("isControlFrame: unexpected shape: %r" % ctl_body.strip())
    try:
        ctl = sorted(opmap[n] for n in names)
    except KeyError as e:
        raise TranslateError("isControlFrame names unknown enumerator %s" % e)
    parse = cxxscan.function_body(src, "parse", signature_contains="maxPayload") if "maxPayload" in src else cxxscan.function_body(src, "parse")
    max_ctl = cxxscan.find_int(r"isControlFrame\s*\(\s*frame\.opcode\s*\)\s*\)\s*\{\s*if\s*\(\s*payloadLen\s*>\s*(\w+)\s*\|\|\s*!\s*frame\.fin\s*\)", parse, "control-frame payload bound")
    m16 = cxxscan.find_int(r"if\s*\(\s*payloadLen\s*==\s*(\w+)\s*\)\s*\{[^{}]*readU16BE", parse, "16-bit length marker")
    m64 = cxxscan.find_int(r"if\s*\(\s*payloadLen\s*==\s*(\w+)\s*\)\s*\{[^{}]*readU64BE", parse, "64-bit length marker")
    ser = cxxscan.function_body(src, "serialize")
    s7 = cxxscan.find_int(r"if\s*\(\s*payload\.size\(\)\s*<=\s*(\w+)\s*\)", ser, "serialize 7-bit bound")
    s16 = cxxscan.find_int(r"else\s+if\s*\(\s*payload\.size\(\)\s*<=\s*(\w+)\s*\)", ser, "serialize 16-bit bound")
    dflt = cxxscan.find_int(r"_maxFrameSize\s*\(([^)]*)\)", ssrc, "WebSocketServer default _maxFrameSize")
    csrc = read(repo, C)
    cmax = cxxscan.find_int(r"kMaxFramePayload\s*=\s*([^;]+);", csrc, "WebSocketClient::kMaxFramePayload")
    # the client's limit is configurable (setMaxFrameSize) with kMaxFramePayload as its default, and it is the limit handed to parse
    if not re.search(r"_maxFrameSize\s*\{\s*kMaxFramePayload\s*\}", csrc):
        raise TranslateError("WebSocketClient::_maxFrameSize is not initialised from kMaxFramePayload")
    hd = cxxscan.function_body(csrc, "handleData")
    if not re.search(r"WebSocketFrame::parse\s*\(\s*view\s*,\s*consumed\s*,\s*status\s*,\s*_maxFrameSize\.load\(\)\s*\)", hd):
        raise TranslateError("WebSocketClient::handleData does not pass _maxFrameSize to WebSocketFrame::parse")
    # the upgrade response header is bounded while it is incomplete (FC18d)
    cupg = cxxscan.find_int(r"kMaxUpgradeResponse\s*=\s*([^;]+);", csrc, "WebSocketClient::kMaxUpgradeResponse")
    if not re.search(r"if\s*\(\s*headerEnd\s*==\s*std::string::npos\s*\)\s*\{\s*if\s*\(\s*localBuffer\.size\(\)\s*>\s*kMaxUpgradeResponse\s*\)", hd):
        raise TranslateError("WebSocketClient::handleData: incomplete upgrade response is not bounded by kMaxUpgradeResponse")
    # control-frame guards of the send API (FC18c): ping payload bound, close reason bound
    mkc = cxxscan.function_body(src, "makeClose")
    reason_max = cxxscan.find_int(r"if\s*\(\s*n\s*>\s*(\w+)\s*\)\s*\{\s*n\s*=\s*\1\s*;", mkc, "makeClose reason bound")
    if not re.search(r"while\s*\(\s*n\s*>\s*0\s*&&\s*\(\s*static_cast<unsigned char>\(reason\[n\]\)\s*&\s*0xC0\s*\)\s*==\s*0x80\s*\)\s*\{\s*--n;\s*\}", mkc):
        raise TranslateError("makeClose: UTF-8 boundary back-off not in the known shape")
    sping = cxxscan.function_body(ssrc, "sendPing")
    cping = cxxscan.function_body(csrc, "sendPing")
    sp = cxxscan.find_int(r"^\s*if\s*\(\s*payload\.size\(\)\s*>\s*(\w+)\s*\)\s*\{?\s*return\s*;", sping, "server sendPing payload guard")
    cp = cxxscan.find_int(r"^\s*if\s*\(\s*payload\.size\(\)\s*>\s*(\w+)\s*\)\s*\{?\s*return\s*;", cping, "client sendPing payload guard")
    srows = class_skeleton(ssrc, "WebSocketServer", SERVER_FUNCS, SERVER_OTHER, r"(?:\w+(?:->|\.))*closeSent", "sendRaw", "closeSent")
    crows = class_skeleton(csrc, "WebSocketClient", CLIENT_FUNCS, CLIENT_OTHER, r"_closeSent", "sendRawBytes", "_closeSent")
    t = HEADER % (F + ", " + S + ", " + C)
    t += "namespace Iora.Gen.Ws\n"
    t += "/-- `enum class WsOpcode` enumerators (name, value) -/\n"
    t += "def opcodes : List (String × Nat) := %s\n" % lean_str_nat_list(ops)
    t += "/-- enumerators for which `isControlFrame` returns true -/\n"
    t += "def controlOpcodes : List Nat := %s\n" % lean_nat_list(ctl)
    t += "/-- `WebSocketServer::_maxFrameSize` constructor default -/\n"
    t += "def serverDefaultMaxFrameSize : Nat := %d\n" % dflt
    t += "/-- `WebSocketClient::kMaxFramePayload` (default of the client's `_maxFrameSize`, which is what `handleData` hands to `parse`) -/\n"
    t += "def clientMaxFramePayload : Nat := %d\n" % cmax
    t += "/-- `WebSocketClient::kMaxUpgradeResponse`: longest incomplete upgrade response header that is kept -/\n"
    t += "def clientMaxUpgradeResponse : Nat := %d\n" % cupg
    t += "/-- literals in `WebSocketFrame::parse`: largest control payload, 16-bit marker, 64-bit marker -/\n"
    t += "def maxControlPayload : Nat := %d\ndef len16Marker : Nat := %d\ndef len64Marker : Nat := %d\n" % (max_ctl, m16, m64)
    t += "/-- literals in `WebSocketFrame::serialize`: largest 7-bit length, largest 16-bit length -/\n"
    t += "def serMax7 : Nat := %d\ndef serMax16 : Nat := %d\n" % (s7, s16)
    t += "/-- `makeClose`: longest reason kept; `sendPing` (server, client): longest payload accepted -/\n"
    t += "def closeReasonMax : Nat := %d\ndef serverPingMax : Nat := %d\ndef clientPingMax : Nat := %d\n" % (reason_max, sp, cp)
    t += "/-- per function, in textual order: (event, object, mutexes held). Events: lock/unlock (RAII scope), read/write of the close\n"
    t += "flag, make (frame factory), send (raw send; object = kind of the frame made last), call, callback, erase, return -/\n"
    t += "def serverSkeleton : List (String × List (String × String × String)) := %s\n" % lean_skel(srows)
    t += "def clientSkeleton : List (String × List (String × String × String)) := %s\n" % lean_skel(crows)
    t += "end Iora.Gen.Ws\n"
    return "IoraModel/Gen/Ws.lean", t
