"""Translator unit `ws` -> Gen/Ws.lean (C18): opcode table, control set, length markers, limits."""
import re
import cxxscan
from translate import TranslateError, HEADER, read, lean_str_nat_list, lean_nat_list

def gen(repo):
    f = "include/iora/network/websocket_frame.hpp"
    s = "include/iora/network/websocket_server.hpp"
    src = read(repo, f)
    ssrc = read(repo, s)
    ops = cxxscan.enum_items(src, "WsOpcode")
    opmap = dict(ops)
    ctl_body = cxxscan.function_body(src, "isControlFrame")
    names = re.findall(r"op\s*==\s*WsOpcode::(\w+)", ctl_body)
    if not names or re.search(r"&&|!=|<|>", ctl_body):
        raise TranslateError("isControlFrame: unexpected shape: %r" % ctl_body.strip())
    try:
        ctl = sorted(opmap[n] for n in names)
    except KeyError as e:
        raise TranslateError("isControlFrame names unknown enumerator %s" % e)
    parse = cxxscan.function_body(src, "parse", signature_contains="maxPayload") if "maxPayload" in src else cxxscan.function_body(src, "parse")
    max_ctl = cxxscan.find_int(r"isControlFrame\s*\(\s*frame\.opcode\s*\)\s*\)\s*\{\s*if\s*\(\s*payloadLen\s*>\s*(\w+)\s*\|\|\s*!\s*frame\.fin\s*\)", parse, "control-frame payload bound")
    m16 = cxxscan.find_int(r"if\s*\(\s*payloadLen\s*==\s*(\w+)\s*\)\s*\{[^{}]*readU16BE", parse, "16-bit length marker")
    m64 = cxxscan.find_int(r"if\s*\(\s*payloadLen\s*==\s*(\w+)\s*\)\s*\{[^{}]*readU64BE", parse, "64-bit length marker")
    ser = cxxscan.function_body(src, "serialize")
    s7 = cxxscan.find_int(r"if\s*\(\s*payload\.size\(\)\s*<=\s*(\w+)\s*\)", ser, "serialize 7-bit bound")
    s16 = cxxscan.find_int(r"else\s+if\s*\(\s*payload\.size\(\)\s*<=\s*(\w+)\s*\)", ser, "serialize 16-bit bound")
    dflt = cxxscan.find_int(r"_maxFrameSize\s*\(([^)]*)\)", ssrc, "WebSocketServer default _maxFrameSize")
    csrc = read(repo, "include/iora/network/websocket_client.hpp")
    cmax = cxxscan.find_int(r"kMaxFramePayload\s*=\s*([^;]+);", csrc, "WebSocketClient::kMaxFramePayload")
    t = HEADER % (f + ", " + s)
    t += "namespace Iora.Gen.Ws\n"
    t += "/-- `enum class WsOpcode` enumerators (name, value) -/\n"
    t += "def opcodes : List (String × Nat) := %s\n" % lean_str_nat_list(ops)
    t += "/-- enumerators for which `isControlFrame` returns true -/\n"
    t += "def controlOpcodes : List Nat := %s\n" % lean_nat_list(ctl)
    t += "/-- `WebSocketServer::_maxFrameSize` constructor default -/\n"
    t += "def serverDefaultMaxFrameSize : Nat := %d\n" % dflt
    t += "/-- `WebSocketClient::kMaxFramePayload` -/\n"
    t += "def clientMaxFramePayload : Nat := %d\n" % cmax
    t += "/-- literals in `WebSocketFrame::parse`: largest control payload, 16-bit marker, 64-bit marker -/\n"
    t += "def maxControlPayload : Nat := %d\ndef len16Marker : Nat := %d\ndef len64Marker : Nat := %d\n" % (max_ctl, m16, m64)
    t += "/-- literals in `WebSocketFrame::serialize`: largest 7-bit length, largest 16-bit length -/\n"
    t += "def serMax7 : Nat := %d\ndef serMax16 : Nat := %d\n" % (s7, s16)
    t += "end Iora.Gen.Ws\n"
    return "IoraModel/Gen/Ws.lean", t


