"""Translator unit `bqskel` -> Gen/BqSkel.lean (C10): per BlockingQueue method the ordered list of
lock / unlock / wait / notify / read / write events on `_mutex`, `_condNotEmpty`, `_condNotFull`, `_queue`, `_closed`,
each tagged with the mutexes held at that point of the text (RAII guards tracked by scope)."""
import re
import cxxscan
from translate import TranslateError, HEADER, read

FILE = "include/iora/core/blocking_queue.hpp"
METHODS = [("queue", 2), ("tryQueue", 4), ("dequeue", 2), ("tryDequeue", 1), ("close", 1), ("isClosed", 1), ("size", 1),
           ("empty", 1), ("full", 1), ("capacity", 1), ("~BlockingQueue", 1)]
SHARED = ["_mutex", "_condNotEmpty", "_condNotFull", "_queue", "_closed", "_maxSize"]

TOK = re.compile(r"""
   (?P<guard>std::(?:unique_lock|lock_guard|scoped_lock)\s*<[^>]*>\s*(?P<gname>\w+)\s*[\({]\s*(?P<gm>_\w+)\s*[\)}])
 | (?P<unlock>\b(?P<uname>\w+)\s*\.\s*unlock\s*\(\s*\))
 | (?P<relock>\b(?P<rname>\w+)\s*\.\s*lock\s*\(\s*\))
 | (?P<wait>\b(?P<cv>_\w+)\s*\.\s*(?P<wk>wait|wait_for|wait_until)\s*\(\s*(?P<wl>\w+))
 | (?P<notify>\b(?P<ncv>_\w+)\s*\.\s*notify_(?P<nk>one|all)\s*\(\s*\))
 | (?P<wclosed>\b_closed\s*\.\s*(?P<wfn>exchange|store)\s*\()
 | (?P<rclosed>\b_closed\s*\.\s*load\s*\()
 | (?P<push>\b_queue\s*\.\s*(?:push_back|emplace_back)\s*\()
 | (?P<pop>\b_queue\s*\.\s*pop_front\s*\()
 | (?P<rqueue>\b_queue\s*\.\s*(?P<rq>size|empty|front)\s*\(\s*\))
 | (?P<rmax>\b_maxSize\b)
 | (?P<callclose>(?<![\w.>])close\s*\(\s*\))
 | (?P<open>\{) | (?P<close>\})
""", re.X)


def method_body(src, name, nth):
    """Body of the nth *definition* `name(...) [const] [noexcept] {` whose name is preceded by a return type (or, for
    constructors/destructors, by the start of a declaration) - calls such as `_queue.empty()` are not definitions."""
    hits = []
    for m in re.finditer(r"(?<![\w~])%s\s*\(" % re.escape(name), src):
        k = m.start() - 1
        while k >= 0 and src[k] in " \t\r\n":
            k -= 1
        prev = src[k] if k >= 0 else ";"
        if name.startswith("~") or name == "BlockingQueue":
            ok = prev in ";{}:" or src[max(0, k - 7):k + 1].endswith("explicit")
        else:
            ok = (prev.isalnum() or prev in "_>&*") and not re.search(r"\b(return|else|new|delete|throw)$", src[max(0, k - 10):k + 1])
        if not ok:
            continue
        i = m.end() - 1
        depth = 0
        j = i
        while j < len(src):
            if src[j] == "(":
                depth += 1
            elif src[j] == ")":
                depth -= 1
                if depth == 0:
                    break
            j += 1
        mm = re.match(r"\s*(?:const\s*)?(?:noexcept\s*)?(?:override\s*)?\{", src[j + 1:])
        if not mm:
            continue
        b = j + 1 + mm.end() - 1
        hits.append(src[b + 1:cxxscan.match_brace(src, b)])
    if len(hits) <= nth:
        raise cxxscan.ScanError("method %s (definition %d) not found" % (name, nth))
    return hits[nth]


def control_ranges(body, where):
    """[(start, end, tag)] of the text ranges controlled by if/else/loops/lambdas: an event inside one of them is tagged with it.
    `if (c) stmt;` without braces is covered too; `?:`, `&&`, `||`, `switch`, `goto`, `try` in a method body are unknown shapes."""
    out = []
    for m in re.finditer(r"\b(switch|goto|try|do)\b", body):
        raise TranslateError("%s: `%s` statement in a BlockingQueue method (control flow the skeleton does not describe)" % (where, m.group(1)))
    for m in re.finditer(r"\b(if|while|for)\s*\(", body):
        i = m.end() - 1
        depth = 0
        j = i
        while j < len(body):
            if body[j] == "(":
                depth += 1
            elif body[j] == ")":
                depth -= 1
                if depth == 0:
                    break
            j += 1
        kind = m.group(1)
        out.append((i, j, kind + "-cond"))
        k = j + 1
        while k < len(body) and body[k] in " \t\r\n":
            k += 1
        if k < len(body) and body[k] == "{":
            e = cxxscan.match_brace(body, k)
        else:
            e = body.find(";", k)
            if e < 0:
                raise TranslateError("%s: unterminated statement after `%s (...)`" % (where, kind))
        out.append((k, e, kind + "-body"))
    for m in re.finditer(r"\belse\b", body):
        k = m.end()
        while k < len(body) and body[k] in " \t\r\n":
            k += 1
        if body[k:k + 2] == "if":
            continue
        e = cxxscan.match_brace(body, k) if body[k] == "{" else body.find(";", k)
        out.append((k, e, "else-body"))
    for m in re.finditer(r"\[[^\[\]]*\]\s*\([^()]*\)\s*(?:mutable\s*)?(?:->\s*[\w:]+\s*)?\{", body):
        out.append((m.end() - 1, cxxscan.match_brace(body, m.end() - 1), "lambda"))
    return out


def guard_of(pos, ranges):
    tags = [t for a, b, t in sorted(ranges) if a <= pos <= b]
    return "/".join(tags)


def plain_statement(body, pos, where, what):
    """an effect (notify / push / pop) must START its statement: nothing but white space since the previous `;`, `{` or `}` -
    no `cond && …`, `c ? … : …`, `return …,` around it"""
    k = pos - 1
    while k >= 0 and body[k] in " \t\r\n":
        k -= 1
    if k >= 0 and body[k] not in ";{}":
        # `if (c) effect;` without braces: the closing parenthesis of the condition
        if body[k] == ")":
            return
        raise TranslateError("%s: %s is not a statement of its own: %r" % (where, what, body[max(0, pos - 40):pos + 30].strip()))


def skeleton(body, where):
    ev3 = skeleton3(body, where)
    return ev3


def skeleton3(body, where):
    ranges = control_ranges(body, where)
    ev = []
    depth = 0
    guards = []   # [name, mutex, depth, held]
    covered = []
    for m in TOK.finditer(body):
        held = ",".join(sorted({g[1] for g in guards if g[3]}))
        if m.group("open"):
            depth += 1
        elif m.group("close"):
            for g in guards:
                if g[2] == depth and g[3]:
                    ev.append(("unlock", g[1], ",".join(sorted({h[1] for h in guards if h[3]})), guard_of(m.start(), ranges)))
                    g[3] = False
            guards = [g for g in guards if g[2] < depth]
            depth -= 1
        elif m.group("guard"):
            guards.append([m.group("gname"), m.group("gm"), depth, True])
            ev.append(("lock", m.group("gm"), held, guard_of(m.start(), ranges)))
            covered.append(m.start("gm"))
        elif m.group("unlock"):
            hit = [g for g in guards if g[0] == m.group("uname")]
            if not hit:
                raise TranslateError("%s: %s.unlock() on an unknown guard" % (where, m.group("uname")))
            for g in hit:
                plain_statement(body, m.start(), where, "unlock()")
                ev.append(("unlock", g[1], held, guard_of(m.start(), ranges)))
                g[3] = False
        elif m.group("relock"):
            hit = [g for g in guards if g[0] == m.group("rname")]
            if not hit:
                raise TranslateError("%s: %s.lock() on an unknown guard" % (where, m.group("rname")))
            for g in hit:
                ev.append(("lock", g[1], held, guard_of(m.start(), ranges)))
                g[3] = True
        elif m.group("wait"):
            hit = [g for g in guards if g[0] == m.group("wl")]
            if not hit:
                raise TranslateError("%s: %s.%s(%s…): lock argument is not a known guard" % (where, m.group("cv"), m.group("wk"), m.group("wl")))
            ev.append((m.group("wk"), m.group("cv"), held, guard_of(m.start(), ranges)))
            covered.append(m.start("cv"))
        elif m.group("notify"):
            plain_statement(body, m.start(), where, "notify")
            ev.append(("notify_" + m.group("nk"), m.group("ncv"), held, guard_of(m.start(), ranges)))
            covered.append(m.start("ncv"))
        elif m.group("wclosed"):
            ev.append(("write", "_closed", held, guard_of(m.start(), ranges)))
            covered.append(m.start())
        elif m.group("rclosed"):
            ev.append(("read", "_closed", held, guard_of(m.start(), ranges)))
            covered.append(m.start())
        elif m.group("push"):
            plain_statement(body, m.start(), where, "push_back")
            ev.append(("push", "_queue", held, guard_of(m.start(), ranges)))
            covered.append(m.start())
        elif m.group("pop"):
            plain_statement(body, m.start(), where, "pop_front")
            ev.append(("pop", "_queue", held, guard_of(m.start(), ranges)))
            covered.append(m.start())
        elif m.group("rqueue"):
            ev.append((m.group("rq"), "_queue", held, guard_of(m.start(), ranges)))
            covered.append(m.start())
        elif m.group("rmax"):
            ev.append(("read", "_maxSize", held, guard_of(m.start(), ranges)))
            covered.append(m.start())
        elif m.group("callclose"):
            ev.append(("call", "close", held, guard_of(m.start(), ranges)))
    for g in guards:      # end of the function body = scope exit of the remaining guards
        if g[3]:
            ev.append(("unlock", g[1], ",".join(sorted({h[1] for h in guards if h[3]})), ""))
            g[3] = False
    for v in SHARED:
        for m in re.finditer(r"(?<![\w])%s\b" % re.escape(v), body):
            if m.start() not in covered:
                raise TranslateError("%s: use of %s in a shape the scanner does not know: %r"
                                     % (where, v, body[max(0, m.start() - 25):m.end() + 25].strip()))
    return ev


def gen(repo):
    src = read(repo, FILE)
    rows = []
    for name, count in METHODS:
        for k in range(count):
            body = method_body(src, name, k)
            where = "%s#%d" % (name, k)
            rows.append((where, skeleton(body, "BlockingQueue::" + where)))
        try:
            method_body(src, name, count)
        except cxxscan.ScanError:
            pass
        else:
            raise TranslateError("BlockingQueue::%s has more than %d definition(s)" % (name, count))
    # EVERY member function with a body must be known: a new (public) method may touch the state from any thread and is not modelled
    known = {n for n, _ in METHODS} | {"BlockingQueue", "clampTimeout"}   # clampTimeout: static, pure (shape pinned below)
    for m in re.finditer(r"(?<![\w~:.>])(~?\w+)\s*\([^()]*\)\s*(?:const\s*)?(?:noexcept\s*)?(?::[^{};]*)?\{", src):
        fname = m.group(1)
        if fname in known or fname in ("if", "for", "while", "switch", "catch", "return", "sizeof"):
            continue
        k = m.start() - 1
        while k >= 0 and src[k] in " \t\r\n":
            k -= 1
        if k >= 0 and src[k] in "])":      # a lambda `[this]() {` or a call used as a condition
            continue
        raise TranslateError("BlockingQueue::%s is not a known member function (every method must be part of the model)" % fname)
    # timed waits: the caller's timeout goes through clampTimeout() (fix FC10a) - `now() + timeout` inside wait_for overflows a signed
    # 64-bit nanosecond count for milliseconds::max()/min() - and clampTimeout has the modelled shape
    flat = " ".join(re.sub(r"//[^\n]*", " ", src).split())
    for m in re.finditer(r"\.wait_for\s*\(\s*(\w+)\s*,\s*([^,]+),", flat):
        if m.group(2).strip() != "clampTimeout(timeout)":
            raise TranslateError("BlockingQueue: wait_for(%s, %s, ...) is handed the caller's timeout unclamped: wait_for's `now() + timeout` "
                                 "overflows (undefined behaviour, deadline in the past) for milliseconds::max()/min()" % (m.group(1), m.group(2).strip()))
    for m in re.finditer(r"\.wait_until\s*\(", flat):
        raise TranslateError("BlockingQueue: wait_until is not part of the modelled class")
    if not re.search(r"static std::chrono::milliseconds clampTimeout\(std::chrono::milliseconds timeout\) \{ "
                     r"constexpr std::chrono::milliseconds kMaxWait\{std::chrono::hours\{24 \* 365 \* 100\}\}; "
                     r"if \(timeout > kMaxWait\) \{ return kMaxWait; \} "
                     r"if \(timeout < std::chrono::milliseconds::zero\(\)\) \{ return std::chrono::milliseconds::zero\(\); \} "
                     r"return timeout; \}", flat):
        raise TranslateError("BlockingQueue::clampTimeout is missing or no longer `min(max(timeout, 0), 100 years)`")
    # `_maxSize` is read without the mutex (capacity(), and inside the predicates): sound only because it never changes
    if not re.search(r"\bconst\s+std::size_t\s+_maxSize\s*;", src):
        raise TranslateError("BlockingQueue::_maxSize is no longer declared `const std::size_t _maxSize;` (it is read without synchronisation)")
    for m in re.finditer(r"\b_maxSize\s*(=(?!=)|\+\+|--|\+=|-=|\*=|/=)", src):
        raise TranslateError("BlockingQueue::_maxSize is written: %r" % src[max(0, m.start() - 30):m.end() + 20].strip())
    decls = []
    for line in src.splitlines():
        dm = re.match(r"\s*(?:mutable\s+)?(?:const\s+)?[\w:<>]+(?:\s+[\w:<>]+)*\s+(_\w+)\s*;\s*$", line)
        if dm and not re.match(r"\s*(return|delete|throw|goto)\b", line):
            if dm.group(1) in decls:
                raise TranslateError("BlockingQueue: member %s declared twice" % dm.group(1))
            decls.append(dm.group(1))
    expected_members = ["_mutex", "_condNotEmpty", "_condNotFull", "_queue", "_maxSize", "_closed"]
    if sorted(set(decls)) != sorted(expected_members):
        raise TranslateError("BlockingQueue data members changed: %s (expected %s)" % (sorted(set(decls)), sorted(expected_members)))
    t = HEADER % FILE
    t += "namespace Iora.Gen.BqSkel\n"
    t += "/-- data members (checked: `_maxSize` is `const std::size_t` and never assigned) -/\n"
    t += "def members : List String := [%s]\n" % ", ".join('"%s"' % x for x in decls)
    t += "/-- per method (name#overload, textual order): (event, object, mutexes held, enclosing control: `if-cond`, `if-body`, `else-body`,\n`while-body`, `lambda` …, outermost first, empty = unconditional at function level) -/\n"
    t += "def skeleton : List (String × List (String × String × String × String)) := [\n"
    t += ",\n".join('  ("%s", [%s])' % (w, ", ".join('("%s", "%s", "%s", "%s")' % e for e in evs)) for w, evs in rows)
    t += "]\nend Iora.Gen.BqSkel\n"
    return "IoraModel/Gen/BqSkel.lean", t
