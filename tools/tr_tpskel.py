"""Translator unit `tpskel` -> Gen/TpSkel.lean (C09): for `enqueueImpl`, `tryEnqueueImpl`, `spawnWorker`, `spawnWorkerLocked`
(if present), the worker lambda, `shutdown`, phase 1 and phase 4 of the destructor: the ordered list of
lock / unlock / wait / notify / push / pop / spawn-decision / create / register / erase / join / detach / counter events with
the set of mutexes held at that point of the text (RAII guards tracked by scope); plus the constants the model uses
(constructor defaults, polling bounds of drain()/shutdown()/the destructor).  Any use of the pool's shared members in a shape
the scanner does not know raises TranslateError."""
import re
import cxxscan
from translate import TranslateError, HEADER, read

FILE = "include/iora/core/thread_pool.hpp"
SHARED = ["_mutex", "_configMutex", "_condition", "_tasks", "_threads", "_shutdown", "_shutdownComplete", "_shutdownCompleteEpoch", "_shutdownEpoch", "_accepting", "_pendingSpawns",
          "_activeThreads", "_busyThreads", "_threadsExited", "_threadsCreated", "_waitingThreads"]

TOK = re.compile(r"""
   (?P<guard>std::(?:unique_lock|lock_guard|scoped_lock)\s*<[^>]*>\s*(?P<gname>\w+)\s*[\({]\s*(?:\w+\s*->\s*)?(?P<gm>_\w+)\s*[\)}])
 | (?P<gunlock>\b(?P<uname>lock)\s*\.\s*unlock\s*\(\s*\))
 | (?P<cmpl>\b(?P<cmpln>_shutdownComplete(?:Epoch)?)\s*\.\s*(?P<cmplop>load|store)\s*\(\s*(?P<cmplv>(?:(?!std\b)\w+)?)\s*,?\s*(?:std::memory_order_(?P<cmplo>\w+))?)
 | (?P<epinc>\+\+\s*_shutdownEpoch\b)
 | (?P<epread>\b_shutdownEpoch\b)
 | (?P<trykw>\btry\b)
 | (?P<catch>\bcatch\s*\(\s*(?P<cty>[^)]*?)\s*\))
 | (?P<thnone>\b_threads\s*\.\s*empty\s*\(\s*\))
 | (?P<discard>\bdiscardNewestTaskLocked\s*\(\s*\))
 | (?P<tswap>\b_tasks\s*\.\s*swap\s*\()
 | (?P<modecond>\bmode\s*(?:==|!=)\s*ShutdownMode::\w+)
 | (?P<loop>\bfor\s*\(\s*std::size_t\s+i\s*=\s*0\s*;\s*(?P<loopc>[^;]+);)
 | (?P<wcount>\bworkerCount\s*=\s*(?P<wcexpr>_workerScaling[^;]+);)
 | (?P<wait>\b_condition\s*\.\s*(?P<wk>wait|wait_for|wait_until)\s*\(\s*(?P<wl>\w+)\s*,\s*(?P<wt>[\w:.()]+)\s*,)
 | (?P<notify>\b_condition\s*\.\s*notify_(?P<nk>one|all)\s*\(\s*\))
 | (?P<racc>\b_accepting\s*\.\s*load\s*\()
 | (?P<wacc>\b_accepting\s*\.\s*store\s*\(\s*(?P<waccv>\w+))
 | (?P<wshut>\b_shutdown\s*(?:=(?!=)\s*(?P<wsv>\w+)|\.\s*store\s*\(\s*(?P<wsv2>\w+)))
 | (?P<full>\b_tasks\s*\.\s*size\s*\(\s*\)\s*>=\s*_maxQueueSize)
 | (?P<push>\b_tasks\s*\.\s*(?:emplace|push)\s*\()
 | (?P<pop>\b_tasks\s*\.\s*pop\s*\(\s*\))
 | (?P<front>\b_tasks\s*\.\s*front\s*\(\s*\))
 | (?P<tempty>!?\s*\b_tasks\s*\.\s*empty\s*\(\s*\))
 | (?P<tsize>\b_tasks\s*\.\s*size\s*\(\s*\))
 | (?P<room>\b_threads\s*\.\s*size\s*\(\s*\)\s*(?:\+\s*_pendingSpawns\s*)?<\s*_maxSize)
 | (?P<startroom>\b_threads\s*\.\s*size\s*\(\s*\)\s*(?:<|<=|>|>=|!=|==)\s*workerCount)
 | (?P<pend>(?:\+\+|--)\s*(?:\w+\s*->\s*)?_pendingSpawns\b)
 | (?P<register>\b_threads\s*\.\s*emplace\s*\()
 | (?P<erase>\b_threads\s*\.\s*erase\s*\()
 | (?P<textract>\b_threads\s*\.\s*extract\s*\()
 | (?P<tinsert>\b_threads\s*\.\s*insert\s*\()
 | (?P<tclear>\b_threads\s*\.\s*clear\s*\()
 | (?P<tread>\b_threads\s*\.\s*(?:find|begin|end|size)\s*\()
 | (?P<titer>:\s*_threads\b)
 | (?P<create>\bstd::thread\s+\w+\s*\()
 | (?P<spawn>\b(?P<spn>spawnWorker(?:Locked)?)\s*\()
 | (?P<detach>\.\s*detach\s*\(\s*\))
 | (?P<join>\.\s*join\s*\(\s*\))
 | (?P<ctr>(?P<cop>\+\+|--)\s*(?P<cname>_activeThreads|_busyThreads)\b)
 | (?P<cas>\b_threadsExited\s*\.\s*compare_exchange_(?:weak|strong)\s*\()
 | (?P<fetch>\b(?P<fname>_threadsExited|_threadsCreated|_threadsStarted|_waitingThreads)\s*\.\s*fetch_(?P<fop>add|sub)\s*\()
 | (?P<aload>\b(?P<lname>_threadsExited|_threadsCreated|_waitingThreads|_activeThreads|_busyThreads)\s*\.\s*load\s*\()
 | (?P<astore>\b(?P<sname>_threadsExited|_threadsCreated|_threadsStarted|_waitingThreads|_activeThreads|_busyThreads)\s*\.\s*store\s*\()
 | (?P<rshut>\b_shutdown\b)
 | (?P<run>\btask\s*\(\s*\)\s*;)
 | (?P<destroy>\btask\s*=\s*std::function\s*<\s*void\s*\(\s*\)\s*>\s*\{\s*\})
 | (?P<hook>\bIORA_VERIF_POINT\s*\(\s*"(?P<htag>[^"]*)"\s*\))
 | (?P<pending>\bgetPendingTaskCount\s*\(\s*\))
 | (?P<sleep>\bsleep_for\s*\(\s*std::chrono::(?P<sunit>milliseconds|microseconds|seconds)\s*\(\s*(?P<sval>\w+)\s*\)\s*\))
 | (?P<ret>\breturn\b)
 | (?P<cont>\bcontinue\s*;)
 | (?P<thr>\bthrow\b)
 | (?P<lam>\[\s*this\s*\]\s*\(\s*\)\s*(?:->\s*\w+\s*)?\{)
 | (?P<open>\{) | (?P<close>\})
""", re.X)


def skeleton(body, where, skip_lambda=False):
    """Events of `body` in textual order.  With skip_lambda the body of a `[this]() {…}` lambda is skipped (it is a separate unit)."""
    ev = []
    depth = 0
    guards = []   # [name, mutex, depth, held]
    covered = []
    pos = 0
    it = list(TOK.finditer(body))
    skip_until = -1
    for m in it:
        if m.start() < skip_until:
            continue
        held = ",".join(sorted({g[1] for g in guards if g[3]}))
        g = m.lastgroup
        if m.group("lam"):
            if skip_lambda:
                # skip the lambda body
                b = m.end() - 1
                e = cxxscan.match_brace(body, b)
                skip_until = e + 1
                for mm in re.finditer(r"(?<![\w])(%s)\b" % "|".join(map(re.escape, SHARED)), body[b:e]):
                    covered.append(b + mm.start())
                ev.append(("lambda", "worker", held))
            else:
                depth += 1
        elif m.group("open"):
            depth += 1
        elif m.group("close"):
            # a block that released a guard explicitly and ends with return/throw: the fall-through path still holds it
            for gd in guards:
                if len(gd) > 4 and gd[4] == ("explicit", depth):
                    if ev and ev[-1][0] in ("return", "throw"):
                        gd[3] = True
                    del gd[4:]
            for gd in guards:
                if gd[2] == depth and gd[3]:
                    ev.append(("unlock", gd[1], ",".join(sorted({h[1] for h in guards if h[3]}))))
                    gd[3] = False
            guards = [gd for gd in guards if gd[2] < depth]
            depth -= 1
        elif m.group("guard"):
            guards.append([m.group("gname"), m.group("gm"), depth, True])
            ev.append(("lock", m.group("gm"), held))
            covered.append(m.start("gm"))
        elif m.group("gunlock"):
            hit = [gd for gd in guards if gd[0] == m.group("uname") and gd[3]]
            if not hit:
                raise TranslateError("%s: %s.unlock() on an unknown / released guard" % (where, m.group("uname")))
            for gd in hit:
                ev.append(("unlock", gd[1], held))
                gd[3] = False
                gd.append(("explicit", depth))
        elif m.group("cmpl"):
            # the memory order is part of the event: for a caller that does not own the shutdown this load/store pair is the only
            # happens-before edge to the tasks' writes (seq_cst when no order is given)
            order = m.group("cmplo") or "seq_cst"
            if m.group("cmplop") == "load":
                ev.append(("read:" + order, m.group("cmpln"), held))
            else:
                ev.append(("write:" + m.group("cmplv") + ":" + order, m.group("cmpln"), held))
            covered.append(m.start())
        elif m.group("epinc"):
            ev.append(("inc", "_shutdownEpoch", held)); covered.append(m.start() + m.group(0).index("_shutdownEpoch"))
        elif m.group("epread"):
            ev.append(("read", "_shutdownEpoch", held)); covered.append(m.start())
        elif m.group("trykw"):
            ev.append(("try", "", held))
        elif m.group("catch"):
            ev.append(("catch:" + re.sub(r"\s+", "", m.group("cty")), "", held))
        elif m.group("thnone"):
            ev.append(("none?", "_threads", held)); covered.append(m.start())
        elif m.group("discard"):
            ev.append(("call", "discardNewestTaskLocked", held))
        elif m.group("tswap"):
            ev.append(("swap", "_tasks", held)); covered.append(m.start())
        elif m.group("modecond"):
            ev.append(("cond:" + re.sub(r"\s+", "", m.group(0)), "", held))
        elif m.group("loop"):
            ev.append(("loop:" + re.sub(r"\s+", "", m.group("loopc")), "", held))
        elif m.group("wcount"):
            ev.append(("workerCount:" + re.sub(r"\s+", "", m.group("wcexpr")), "", held))
        elif m.group("wait"):
            hit = [gd for gd in guards if gd[0] == m.group("wl")]
            if not hit:
                raise TranslateError("%s: _condition.%s(%s…): lock argument is not a known guard" % (where, m.group("wk"), m.group("wl")))
            ev.append((m.group("wk") + ":" + re.sub(r"\s+", "", m.group("wt")), "_condition", held))
            covered.append(m.start())
        elif m.group("notify"):
            ev.append(("notify_" + m.group("nk"), "_condition", held)); covered.append(m.start())
        elif m.group("racc"):
            ev.append(("read", "_accepting", held)); covered.append(m.start())
        elif m.group("wacc"):
            ev.append(("write:" + m.group("waccv"), "_accepting", held)); covered.append(m.start())
        elif m.group("wshut"):
            ev.append(("write:" + (m.group("wsv") or m.group("wsv2")), "_shutdown", held)); covered.append(m.start())
        elif m.group("full"):
            ev.append(("full?", "_tasks", held)); covered.append(m.start())
        elif m.group("push"):
            ev.append(("push", "_tasks", held)); covered.append(m.start())
        elif m.group("pop"):
            ev.append(("pop", "_tasks", held)); covered.append(m.start())
        elif m.group("front"):
            ev.append(("front", "_tasks", held)); covered.append(m.start())
        elif m.group("tempty"):
            ev.append(("empty?", "_tasks", held)); covered.append(m.start() + m.group(0).index("_tasks"))
        elif m.group("tsize"):
            ev.append(("size", "_tasks", held)); covered.append(m.start())
        elif m.group("room"):
            txt = re.sub(r"\s+", "", m.group(0))
            ev.append(("room?:" + txt, "_threads", held)); covered.append(m.start())
            k = m.group(0).find("_pendingSpawns")
            if k >= 0:
                covered.append(m.start() + k)
        elif m.group("startroom"):
            ev.append(("room?:" + re.sub(r"\s+", "", m.group(0)), "_threads", held)); covered.append(m.start())
        elif m.group("pend"):
            ev.append(("pending" + m.group(0)[:2], "_pendingSpawns", held)); covered.append(m.start() + m.group(0).index("_pendingSpawns"))
        elif m.group("register"):
            ev.append(("register", "_threads", held)); covered.append(m.start())
        elif m.group("erase"):
            ev.append(("erase", "_threads", held)); covered.append(m.start())
        elif m.group("textract"):
            ev.append(("extract", "_threads", held)); covered.append(m.start())
        elif m.group("tinsert"):
            ev.append(("insert-node", "_threads", held)); covered.append(m.start())
        elif m.group("tclear"):
            ev.append(("clear", "_threads", held)); covered.append(m.start())
        elif m.group("tread"):
            ev.append(("read", "_threads", held)); covered.append(m.start())
        elif m.group("titer"):
            ev.append(("read", "_threads", held)); covered.append(m.start() + m.group(0).index("_threads"))
        elif m.group("create"):
            ev.append(("create", "thread", held))
        elif m.group("spawn"):
            ev.append(("call", m.group("spn"), held))
        elif m.group("detach"):
            ev.append(("detach", "thread", held))
        elif m.group("join"):
            ev.append(("join", "thread", held))
        elif m.group("ctr"):
            ev.append(("inc" if m.group("cop") == "++" else "dec", m.group("cname"), held)); covered.append(m.start("cname"))
        elif m.group("cas"):
            ev.append(("cas", "_threadsExited", held)); covered.append(m.start())
        elif m.group("fetch"):
            ev.append(("inc" if m.group("fop") == "add" else "dec", m.group("fname"), held)); covered.append(m.start())
        elif m.group("aload"):
            ev.append(("read", m.group("lname"), held)); covered.append(m.start())
        elif m.group("astore"):
            ev.append(("write", m.group("sname"), held)); covered.append(m.start())
        elif m.group("rshut"):
            ev.append(("read", "_shutdown", held)); covered.append(m.start())
        elif m.group("run"):
            ev.append(("run", "task", held))
        elif m.group("destroy"):
            ev.append(("destroy", "task", held))
        elif m.group("hook"):
            ev.append(("hook", m.group("htag"), held))
        elif m.group("pending"):
            ev.append(("call", "getPendingTaskCount", held))
        elif m.group("sleep"):
            ev.append(("sleep:" + m.group("sval") + {"milliseconds": "ms", "microseconds": "us", "seconds": "s"}[m.group("sunit")], "", held))
        elif m.group("ret"):
            ev.append(("return", "", held))
        elif m.group("cont"):
            ev.append(("continue", "", held))
        elif m.group("thr"):
            ev.append(("throw", "", held))
    for gd in guards:      # end of the function body = scope exit of the remaining guards
        if gd[3]:
            ev.append(("unlock", gd[1], ",".join(sorted({h[1] for h in guards if h[3]}))))
            gd[3] = False
    for v in SHARED:
        for m in re.finditer(r"(?<![\w])%s\b" % re.escape(v), body):
            if m.start() not in covered and not any(c <= m.start() < c + 40 and body[c:m.end()].count(";") == 0 and v in body[c:m.end()]
                                                    for c in covered if c <= m.start()):
                raise TranslateError("%s: use of %s in a shape the scanner does not know: %r"
                                     % (where, v, body[max(0, m.start() - 30):m.end() + 30].strip()))
    return ev


def lambda_body(body):
    m = re.search(r"\[\s*this\s*\]\s*\(\s*\)\s*\{", body)
    if not m:
        raise TranslateError("worker lambda `[this]() {` not found in spawnWorker")
    b = m.end() - 1
    return body[b + 1:cxxscan.match_brace(body, b)]


def split_args(text):
    """top-level comma split of an argument list (text between the parentheses)"""
    out, depth, cur = [], 0, ""
    for ch in text:
        if ch in "([{<":
            depth += 1
        elif ch in ")]}>":
            depth -= 1
        if ch == "," and depth == 0:
            out.append(cur); cur = ""
        else:
            cur += ch
    out.append(cur)
    return [re.sub(r"\s+", "", x) for x in out]


def registrations(fn_body, where):
    """What is put into `_threads`: for every `_threads.emplace(key, value)` of the spawn function (worker lambda removed) the pair
    (key expression, value expression), a key that is a local `auto k = expr;` resolved to its initialiser; plus the name of the
    variable declared by `std::thread <name>(`.  The model's `create` step registers exactly the thread it has just created."""
    m = re.search(r"\[\s*this\s*\]\s*\(\s*\)\s*\{", fn_body)
    if m:
        b = m.end() - 1
        e = cxxscan.match_brace(fn_body, b)
        fn_body = fn_body[:b] + "{}" + fn_body[e + 1:]
    mv = re.search(r"\bstd::thread\s+(\w+)\s*\(", fn_body)
    if not mv:
        raise TranslateError("%s: `std::thread <name>(` not found" % where)
    regs = []
    for mm in re.finditer(r"\b_threads\s*\.\s*emplace\s*\(", fn_body):
        o = mm.end() - 1
        depth, k = 0, o
        while True:
            if fn_body[k] == "(":
                depth += 1
            elif fn_body[k] == ")":
                depth -= 1
                if depth == 0:
                    break
            k += 1
        args = split_args(fn_body[o + 1:k])
        if len(args) != 2:
            raise TranslateError("%s: _threads.emplace with %d arguments" % (where, len(args)))
        key, val = args
        if re.fullmatch(r"\w+", key):
            mi = re.search(r"\b(?:auto|std::thread::id)\s+%s\s*=\s*([^;]+);" % re.escape(key), fn_body)
            if not mi:
                raise TranslateError("%s: initialiser of the _threads key `%s` not found" % (where, key))
            key = re.sub(r"\s+", "", mi.group(1))
        regs.append((key, val))
    if not regs:
        raise TranslateError("%s: no _threads.emplace found" % where)
    return mv.group(1), regs


def lean_rows(rows):
    out = []
    for name, ev in rows:
        out.append('  ("%s", [%s])' % (name, ", ".join('("%s", "%s", "%s")' % e for e in ev)))
    return "[\n" + ",\n".join(out) + "]"


def gen(repo):
    src = read(repo, FILE)
    # drop preprocessor lines (#define VALIDATE_CANARY … with continuation lines) and the canary macro uses
    src = re.sub(r"^[ \t]*#[^\n]*(?:\\\n[^\n]*)*", lambda m: "\n" * m.group(0).count("\n"), src, flags=re.M)
    src = re.sub(r"\bVALIDATE_CANARY\s*\(\s*\)\s*;", "", src)
    rows = []
    fb = cxxscan.function_body
    rows.append(("enqueueImpl", skeleton(fb(src, "enqueueImpl"), "enqueueImpl")))
    rows.append(("tryEnqueueImpl", skeleton(fb(src, "tryEnqueueImpl"), "tryEnqueueImpl")))
    has_locked = re.search(r"\bvoid\s+spawnWorkerLocked\s*\(", src) is not None
    sw = fb(src, "spawnWorker")
    rows.append(("spawnWorker", skeleton(sw, "spawnWorker", skip_lambda=True)))
    if re.search(r"\bvoid\s+discardNewestTaskLocked\s*\(", src):
        rows.append(("discardNewest", skeleton(fb(src, "discardNewestTaskLocked"), "discardNewestTaskLocked")))
    if has_locked:
        swl = fb(src, "spawnWorkerLocked")
        rows.append(("spawnWorkerLocked", skeleton(swl, "spawnWorkerLocked", skip_lambda=True)))
        lam = lambda_body(swl)
    else:
        lam = lambda_body(sw)
    created_var, regs = registrations(swl if has_locked else sw, "spawnWorkerLocked" if has_locked else "spawnWorker")
    rows.append(("worker", skeleton(lam, "worker lambda")))
    rows.append(("shutdown", skeleton(fb(src, "shutdown"), "shutdown")))
    rows.append(("phase1", skeleton(fb(src, "shutdownPhase1_SignalShutdown"), "shutdownPhase1_SignalShutdown")))
    rows.append(("phase4", skeleton(fb(src, "shutdownPhase4_JoinThreads"), "shutdownPhase4_JoinThreads")))
    rows.append(("getPendingTaskCount", skeleton(fb(src, "getPendingTaskCount"), "getPendingTaskCount")))
    rows.append(("start", skeleton(fb(src, "start"), "start")))
    rows.append(("reset", skeleton(fb(src, "reset"), "reset")))
    mc = re.search(r"ShutdownMode\s+shutdownMode\s*=\s*ShutdownMode::(\w+)\s*\)\s*:\s*_initialSize", src)
    if not mc:
        raise TranslateError("ThreadPool constructor: default shutdownMode not found")
    ctor_open = src.index("{", mc.end())
    init_list = re.sub(r"\s+", "", src[mc.end() - len("_initialSize"):ctor_open])
    mmax = re.search(r"_maxSize\(([^()]*(?:\([^()]*\))?[^()]*)\)", init_list)
    if not mmax:
        raise TranslateError("ThreadPool constructor: initialiser of _maxSize not found")
    rows.append(("ctor", skeleton(src[ctor_open + 1:cxxscan.match_brace(src, ctor_open)], "ThreadPool()")))
    if re.search(r"\beffectiveMaxSize\s*\(\s*std::size_t", src):
        eff_body = re.sub(r"\s+", "", fb(src, "effectiveMaxSize", signature_contains="std::size_t"))
    else:
        eff_body = ""
    # wait predicate of the worker
    m = re.search(r"_condition\s*\.\s*wait_for\s*\(\s*lock\s*,\s*_idleTimeout\s*,\s*\[\s*this\s*\]\s*\(\s*\)\s*\{\s*return\s+([^;]+);", lam)
    if not m:
        raise TranslateError("worker wait predicate not found")
    pred = re.sub(r"\s+", "", m.group(1))
    # constants
    find = cxxscan.find_int
    ctor = re.search(r"ThreadPool\s*\(\s*std::size_t\s+initialSize[^{;]*?maxQueueSize\s*=\s*(\w+)", src, re.S)
    if not ctor:
        raise TranslateError("ThreadPool constructor defaults not found")
    max_queue_default = cxxscan.const_eval(ctor.group(1))
    idle = re.search(r"idleTimeout\s*=\s*std::chrono::seconds\s*\(\s*(\w+)\s*\)", src)
    if not idle:
        raise TranslateError("idleTimeout default not found")
    idle_default_s = cxxscan.const_eval(idle.group(1))
    drain = fb(src, "drain")
    drain_default = find(r"drain\s*\(\s*std::uint32_t\s+timeoutMs\s*=\s*(\w+)\s*\)", src, "drain() default timeout")
    drain_zero = find(r"timeoutMs\s*==\s*0\s*\)\s*\?\s*(\w+)", drain, "drain(0) replacement")
    drain_step = find(r"sleep_for\s*\(\s*std::chrono::milliseconds\s*\(\s*(\w+)\s*\)\s*\)\s*;\s*waitMs\s*\+=\s*\1", drain, "drain polling period")
    shut = fb(src, "shutdown")
    shut_max = find(r"const\s+int\s+maxWaitMs\s*=\s*(\w+)", shut, "shutdown() maxWaitMs")
    shut_grace = find(r"sleep_for\s*\(\s*std::chrono::milliseconds\s*\(\s*(\w+)\s*\)\s*\)\s*;\s*auto\s+finalActiveCount", shut, "shutdown() grace sleep")
    race_max = find(r"const\s+int\s+raceMaxWaitMs\s*=\s*(\w+)", shut, "shutdown() raceMaxWaitMs")
    p2 = fb(src, "shutdownPhase2_SynchronizationBarrier")
    p2_iter = find(r"const\s+int\s+maxIterations\s*=\s*(\w+)", p2, "phase 2 maxIterations")
    p3 = fb(src, "shutdownPhase3_DrainTasks")
    p3_max = find(r"const\s+int\s+maxWaitMs\s*=\s*(\w+)", p3, "phase 3 maxWaitMs")
    scaling = re.search(r"bool\s+_workerScaling\s*\{\s*(true|false)\s*\}", src)
    if not scaling:
        raise TranslateError("_workerScaling initialiser not found")
    stop = fb(src, "stop")
    if not re.search(r"drain\s*\(\s*\)", stop) or not re.search(r"shutdown\s*\(\s*\)", stop):
        raise TranslateError("stop(): expected drain() then shutdown()")
    md = re.search(r"~ThreadPool\s*\(\s*\)\s*\{", src)
    if not md:
        raise TranslateError("~ThreadPool() not found")
    dtor = src[md.end():cxxscan.match_brace(src, md.end() - 1)]
    phases = re.findall(r"shutdownPhase(\d)_", dtor)
    t = HEADER % FILE
    t += "namespace Iora.Gen.TpSkel\n"
    t += "/-- per unit (textual order): (event, object, mutexes held) -/\n"
    t += "def skeleton : List (String × List (String × String × String)) := %s\n" % lean_rows(rows)
    t += "/-- predicate of the worker's `_condition.wait_for(lock, _idleTimeout, pred)` -/\n"
    t += 'def workerWaitPred : String := "%s"\n' % pred
    t += "/-- constructor: default shutdown mode, initialiser of `_maxSize`, body of `effectiveMaxSize` (blanks removed) -/\n"
    t += 'def ctorDefaultMode : String := "%s"\ndef maxSizeInit : String := "%s"\ndef effectiveMaxSizeBody : String := "%s"\n' % (
        mc.group(1), mmax.group(1), eff_body)
    t += "/-- what the spawn function puts into `_threads`: (key, value) of every `_threads.emplace`, and the `std::thread` variable it constructs -/\n"
    t += "def registrations : List (String × String) := [%s]\n" % ", ".join('("%s", "%s")' % r for r in regs)
    t += 'def createdThreadVar : String := "%s"\n' % created_var
    t += "/-- order of the destructor's phases -/\n"
    t += "def dtorPhases : List Nat := [%s]\n" % ", ".join(phases)
    t += "/-- constructor defaults: maxQueueSize, idleTimeout (s); `_workerScaling` -/\n"
    t += "def maxQueueDefault : Nat := %d\ndef idleTimeoutDefaultS : Nat := %d\ndef workerScaling : Bool := %s\n" % (
        max_queue_default, idle_default_s, scaling.group(1))
    t += "/-- drain(): default timeout (ms), replacement for timeout 0, polling period (ms) -/\n"
    t += "def drainDefaultMs : Nat := %d\ndef drainZeroMs : Nat := %d\ndef pollMs : Nat := %d\n" % (drain_default, drain_zero, drain_step)
    t += "/-- shutdown(): bound of the first wait (ms), grace sleep (ms), bound of the race re-check (ms) -/\n"
    t += "def shutdownMaxWaitMs : Nat := %d\ndef shutdownGraceMs : Nat := %d\ndef raceMaxWaitMs : Nat := %d\n" % (shut_max, shut_grace, race_max)
    t += "/-- destructor: iterations of the phase-2 barrier, bound of the phase-3 wait (ms) -/\n"
    t += "def phase2MaxIterations : Nat := %d\ndef phase3MaxWaitMs : Nat := %d\n" % (p2_iter, p3_max)
    t += "end Iora.Gen.TpSkel\n"
    return "IoraModel/Gen/TpSkel.lean", t
