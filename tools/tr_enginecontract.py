"""Translator unit `enginecontract` -> Gen/EngineContract.lean (C04 extension round).

The C04 model runs the real `Transport::connectSync` over the abstract FIFO engine of the `detail/engine_base.hpp` contract:
`connect()` / `close()` ONLY ENQUEUE, the I/O thread processes the queue in order.  That used to be an *assumption*; this unit
turns it into regenerated source facts the model is instantiated with (Model/ConnectSyncFacts.lean -> `Cfg.engine`):

  * the whitespace-free body text of `TcpEngine::close`, `UdpEngine::close`, `TcpEngine::connect`, `UdpEngine::connect`
    (string literals blanked) - `close` must be exactly `return enqueue(<Cmd>::close(sid));`: a close that looks the id up in the
    session table first drops the Close of a connect the I/O thread has not executed yet (seed C04-d);
  * the whitespace-free body text of the three TcpEngine timer handlers (handleConnectTimeout / handleHandshakeTimeout /
    handleWriteStallTimeout): each enqueues a Close tagged with its own CloseOrigin (seed C04-e dropped the tag);
  * the whitespace-free text of the `Close` arm of `TcpEngine::process()` (an application close of a session that is in the table
    always reaches `closeNow`; only TIMER-originated closes are filtered) and the statement right after `case Cmd::Connect:`;
  * in `Transport::connectSync`: the number of `return`s that hand out `engine->connect(...)` directly (the UDP bypass removed by
    repair FC04b), the conditions that mention `config.protocol`, and every assignment to `timeout` before `wait_for`
    (only the saturation clamp is allowed: an assignment such as `timeout += ...` would stretch every wait).

A shape this unit does not recognise raises TranslateError (never a default)."""
import re
import cxxscan
from translate import TranslateError, HEADER, read

IMPL = "include/iora/network/transport_impl.hpp"
TCP = "include/iora/network/detail/tcp_engine.hpp"
UDP = "include/iora/network/detail/udp_engine.hpp"


def blank_strings(body):
    return re.sub(r'"(?:[^"\\\n]|\\.)*"', '""', body)


def squash(s):
    return re.sub(r"\s+", "", blank_strings(s))


def lean_str(s):
    return '"' + s.replace("\\", "\\\\").replace('"', '\\"') + '"'


def _body(src, name, sig, what):
    try:
        return cxxscan.function_body(src, name, 0, signature_contains=sig)
    except cxxscan.ScanError as e:
        raise TranslateError("%s: %s" % (what, e))


def _method_body(src, sig_regex, what):
    m = re.search(sig_regex, src)
    if not m:
        raise TranslateError("%s: definition not found" % what)
    i = src.index("(", m.start())
    depth = 0
    while i < len(src):
        if src[i] == "(":
            depth += 1
        elif src[i] == ")":
            depth -= 1
            if depth == 0:
                break
        i += 1
    k = src.index("{", i)
    end = cxxscan.match_brace(src, k)
    return src[k + 1:end]


def _case_arm(body, label_regex, what):
    """text from `case <label>:` up to the next `case`/`default` at the same nesting depth or the end of the switch"""
    m = re.search(r"case\s+" + label_regex + r"\s*:", body)
    if not m:
        raise TranslateError("%s: case label not found" % what)
    i = m.end()
    depth = 0
    j = i
    while j < len(body):
        c = body[j]
        if c == "{":
            depth += 1
        elif c == "}":
            if depth == 0:
                break
            depth -= 1
        elif depth == 0 and re.match(r"(case\b|default\s*:)", body[j:j + 9]):
            break
        j += 1
    return body[i:j]


def gen(repo):
    tcp = read(repo, TCP)
    udp = read(repo, UDP)
    impl = read(repo, IMPL)
    facts = []
    facts.append(("tcpClose", squash(_body(tcp, "close", "SessionId", "TcpEngine::close"))))
    facts.append(("udpClose", squash(_body(udp, "close", "SessionId", "UdpEngine::close"))))
    facts.append(("tcpConnect", squash(_body(tcp, "connect", "TlsMode", "TcpEngine::connect"))))
    facts.append(("udpConnect", squash(_body(udp, "connect", "TlsMode", "UdpEngine::connect"))))
    proc = _body(tcp, "process", None, "TcpEngine::process")
    facts.append(("tcpProcessClose", squash(_case_arm(proc, r"Cmd::Close", "TcpEngine::process Close arm"))))
    facts.append(("tcpProcessConnect", squash(_case_arm(proc, r"Cmd::Connect", "TcpEngine::process Connect arm"))))
    # the three safety-net timer handlers (TimerService thread): each only enqueues a Close TAGGED with its origin, so that the Close arm
    # of process() can recognise a stale timer (`if (!s->connectPending) break;` ...). An untagged close (origin App) is executed whatever
    # happened meanwhile: connectSync returned ok(sid) and the transport then closes that session itself (seed C04-e)
    for fn_ in ("handleConnectTimeout", "handleHandshakeTimeout", "handleWriteStallTimeout"):
        facts.append(("tcp." + fn_, squash(_body(tcp, fn_, "SessionId", "TcpEngine::" + fn_))))
    uproc = _body(udp, "process", None, "UdpEngine::process")
    facts.append(("udpProcessClose", squash(_case_arm(uproc, r"CmdType::Close", "UdpEngine::process Close arm"))))
    cs = blank_strings(_method_body(impl, r"\bTransport::connectSync\s*\(", "Transport::connectSync"))
    waits = [m.start() for m in re.finditer(r"\.\s*wait_for\s*\(", cs)]
    # the engine-side facts above must not be hostage to the shape of connectSync: an unrecognised wait shape is reported as an
    # explicit NON-conforming value (timeoutOnlyClamped becomes false, skeleton_conforms fails to build), never as a default
    head = cs[:waits[0]] if len(waits) == 1 else None
    bypass = len(re.findall(r"return\s+_impl\s*->\s*engine\s*->\s*connect\s*\(", cs))
    protoConds = len(re.findall(r"config\s*\.\s*protocol", cs))
    assigns = ([re.sub(r"\s+", "", m.group(0)) for m in re.finditer(r"(?<![\w.>])timeout\s*(?:[-+*/%]?=(?!=))[^;]*;", head)]
               if head is not None else ["<connectSync: %d wait_for calls, expected exactly one>" % len(waits)])
    engineConnects = len(re.findall(r"engine\s*->\s*connect\s*\(", cs))
    engineCloses = len(re.findall(r"engine\s*->\s*close\s*\(", cs))
    out = [HEADER % ", ".join([TCP, UDP, IMPL]), "namespace Iora.Gen.EngineContract\n"]
    out.append("/-- whitespace-free body / case-arm text (string literals blanked) -/\n")
    out.append("def bodies : List (String × String) := [\n  " + ",\n  ".join("(%s, %s)" % (lean_str(a), lean_str(b)) for a, b in facts) + "]\n")
    out.append("/-- `Transport::connectSync`: returns that hand out `engine->connect(...)` directly (the UDP bypass) -/\n")
    out.append("def connectSyncBypassReturns : Nat := %d\n" % bypass)
    out.append("/-- mentions of `config.protocol` inside `Transport::connectSync` -/\n")
    out.append("def connectSyncProtocolTests : Nat := %d\n" % protoConds)
    out.append("def connectSyncEngineConnectCalls : Nat := %d\n" % engineConnects)
    out.append("def connectSyncEngineCloseCalls : Nat := %d\n" % engineCloses)
    out.append("/-- every assignment to `timeout` before `wait_for` -/\n")
    out.append("def connectSyncTimeoutAssignments : List String := [" + ", ".join(lean_str(a) for a in assigns) + "]\n")
    out.append("end Iora.Gen.EngineContract\n")
    return "IoraModel/Gen/EngineContract.lean", "".join(out)
