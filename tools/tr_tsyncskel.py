"""Translator unit `tsyncskel` -> Gen/TsyncSkel.lean (C03, C04, C05).

Per guarded function of include/iora/network/transport_impl.hpp (the three engine-callback handlers, receiveSync,
setReadMode, connectSync, connectSyncCancellable, receiveSyncCancellable, ParkGuard/FlushGuard, setTeardownFence, teardownWaitOut, performTeardown,
~Transport, stop) the ordered list of synchronisation-relevant events in textual order

    lock m / unlock m / wait cv / notify_one cv / notify_all cv / read v / write v / inc c / dec c / call f / guard g / cmp … / return …

each tagged with the set of Transport mutexes held at that point of the text (RAII guards tracked by scope, explicit
unlock()/lock() honoured).  Plus the numeric defaults of transport_types.hpp that the models take as parameters.
Any use of a tracked name in a shape the scanner does not recognise raises TranslateError (never a silent default)."""
import re
import cxxscan
from translate import TranslateError, HEADER, read

FILE = "include/iora/network/transport_impl.hpp"
TYPES = "include/iora/network/transport_types.hpp"
TCP = "include/iora/network/detail/tcp_engine.hpp"

MUTEXES = ("syncMutex", "callbackMutex", "observerMutex", "userDataMutex")

TOK = re.compile(r"""
   (?P<guard>std::(?:unique_lock|lock_guard|scoped_lock)\s*<\s*std::mutex\s*>\s*(?P<gname>\w+)\s*[\({]\s*(?P<gm>[\w\->\.]+)\s*[\)}])
 | (?P<unlock>\b(?P<uname>\w+)\s*\.\s*unlock\s*\(\s*\))
 | (?P<relock>\b(?P<rname>\w+)\s*\.\s*lock\s*\(\s*\))
 | (?P<wait>(?P<cv>[\w\->\.]+?)\s*\.\s*(?P<wk>wait_for|wait_until|wait)\s*\(\s*(?P<wl>\w+))
 | (?P<notify>(?P<ncv>[\w\->\.]+?)\s*\.\s*notify_(?P<nk>one|all)\s*\(\s*\))
 | (?P<forkv>\bfor\s*\(\s*auto\s*&\s*kv\s*:\s*(?P<cont>\w+)\s*\))
 | (?P<wsh>\bshuttingDown\s*=\s*(?P<wshv>true|false))
 | (?P<rsh>\bshuttingDown\b(?!\s*=[^=]))
 | (?P<wflag>->\s*(?P<flag>overflow|closed|done|abandoned|flushing)\s*=\s*(?P<flagv>true|false)\b)
 | (?P<whas>->\s*hasData\s*=(?!=)\s*(?P<hasv>[^;]+);)
 | (?P<wres>->\s*result\s*=\s*ConnectResult::(?P<resv>ok|err)\b)
 | (?P<rflag>(?:->|\.)\s*(?P<rf>overflow|closed|done|abandoned|flushing|hasData|waiters)\b(?!\s*=[^=]))
 | (?P<incdec>(?P<idop>\+\+|--)\s*(?P<idv>counter|activeFlushes|activeReceives|activeConnects)\b)
 | (?P<rcount>\b(?P<rc>activeReceives|activeConnects|activeFlushes)\s*==\s*0)
 | (?P<wmode>\breadModes\s*\[\s*sid\s*\]\s*=\s*(?P<modev>[\w:]+))
 | (?P<mapw>\b(?P<mapn>pendingConnects|receiveBuffers)\s*\[\s*sid\s*\]\s*=)
 | (?P<maperase>\b(?P<mape>pendingConnects|receiveBuffers|readModes)\s*\.\s*erase\s*\()
 | (?P<mapfind>\b(?P<mapf>pendingConnects|receiveBuffers|readModes)\s*\.\s*(?:find|size|begin|end)\s*\()
 | (?P<ifnonempty>\bif\s*\(\s*!\s*buf->data\s*\.\s*empty\s*\(\s*\)\s*\))
 | (?P<ifempty>\bif\s*\(\s*buf->data\s*\.\s*empty\s*\(\s*\)\s*\))
 | (?P<swapdata>\b(?:flushData\s*\.\s*swap\s*\(\s*buf->data\s*\)|buf->data\s*\.\s*swap\s*\(\s*flushData\s*\)))
 | (?P<elsekw>\belse\b)
 | (?P<append>\bdata\s*\.\s*insert\s*\()
 | (?P<consume>\bdata\s*\.\s*erase\s*\()
 | (?P<take>std::move\s*\(\s*buf->data\s*\))
 | (?P<flushif>\bif\s*\(\s*!\s*\(\s*oldMode\s*(?P<fiop>==|!=)\s*ReadMode::(?P<fim>\w+)\s*&&\s*mode\s*==\s*ReadMode::Async\s*\)\s*\))
 | (?P<cmpmax>\+\s*data\s*\.\s*size\s*\(\s*\)\s*(?P<cmpop>>=|>|<=|<)\s*config\s*\.\s*maxSyncReceiveBuffer)
 | (?P<mincopy>std::min\s*\(\s*len\s*,\s*buf->data\.size\s*\(\s*\)\s*\))
 | (?P<eng>\bengine\s*->\s*(?P<engf>connect|close|stop|isRunning|scheduleSelfDestruct|detachForTermination|getIoThreadId)\s*\()
 | (?P<tdw>\bteardownWaitOut\s*\(\s*(?P<tdwv>true|false)\s*\))
 | (?P<tdcall>\b(?P<tdf>setTeardownFence|performTeardown)\s*\(\s*\))
 | (?P<usercb>(?<![\w.>])(?P<ucb>cb|closeCb|obsCb)\s*\(\s*sid\b)
 | (?P<pguard>Impl::ParkGuard\s+\w+\s*\(\s*(?P<pgc>[\w\->]+))
 | (?P<fguard>make_unique\s*<\s*Impl::FlushGuard\s*>\s*\(\s*(?P<fgm>[\w\->]+))
 | (?P<thr>\bthrow\s+std::logic_error)
 | (?P<reterr>\breturn\s+(?:ConnectResult|ReceiveResult|SendResult)::err\s*\((?=\s*(?:TransportErrorInfo\s*\{\s*TransportError::(?P<errc>\w+)|(?P<errv>\w+))))
 | (?P<retok>\breturn\s+(?:ConnectResult|ReceiveResult|SendResult)::ok\b)
 | (?P<retother>\breturn\b(?=\s*(?P<retv>[^;]*);))
 | (?P<brk>\bbreak\s*;)
 | (?P<subint>\bsubInterval\s*=\s*std::chrono::milliseconds\s*\{\s*(?P<subv>\d+)\s*\})
 | (?P<csync>(?<![\w:])connectSync\s*\()
 | (?P<rsync>(?<![\w:])receiveSync\s*\()
 | (?P<tokc>\btoken\s*\.\s*isCancelled\s*\(\s*\))
 | (?P<open>\{) | (?P<close>\})
""", re.X)

TRACKED = ["shuttingDown", "activeReceives", "activeConnects", "activeFlushes", "pendingConnects", "receiveBuffers", "readModes",
           "teardownCv", "syncMutex", "notify_one", "notify_all", "hasData", "overflow", "abandoned"]


def last_ident(expr):
    return re.split(r"->|\.", expr.strip())[-1]


def norm_cv(expr, loops, where):
    e = re.sub(r"\s+", "", expr)
    if e.endswith("teardownCv"):
        return "teardownCv"
    if e in ("op->cv",):
        return "op.cv"
    if e in ("buf->cv", "bufIt->second->cv"):
        return "buf.cv"
    if e == "kv.second->cv":
        if not loops:
            raise TranslateError("%s: kv.second->cv outside a `for (auto &kv : <map>)` loop" % where)
        return loops[-1][0] + "[*].cv"
    raise TranslateError("%s: condition variable expression %r not recognised" % (where, expr))


def lambda_body(src, lhs):
    m = re.search(r"%s\s*=\s*\[this\]\s*\(" % re.escape(lhs), src)
    if not m:
        raise TranslateError("handler %s not found" % lhs)
    i = m.end() - 1
    depth = 0
    while i < len(src):
        if src[i] == "(":
            depth += 1
        elif src[i] == ")":
            depth -= 1
            if depth == 0:
                break
        i += 1
    mm = re.match(r"\s*\{", src[i + 1:])
    if not mm:
        raise TranslateError("handler %s: body not found" % lhs)
    b = i + 1 + mm.end() - 1
    return src[b + 1:cxxscan.match_brace(src, b)]


def method_body(src, sig_regex, what):
    hits = [m for m in re.finditer(sig_regex, src)]
    bodies = []
    for m in hits:
        i = src.index("(", m.start())
        depth = 0
        while i < len(src):
            if src[i] == "(":
                depth += 1
            elif src[i] == ")":
                depth -= 1
                if depth == 0:
                    break
            i += 1
        k = i + 1
        # skip qualifiers and a constructor initialiser list up to the body
        mm = re.match(r"(?:\s*(?:const|noexcept|override))*\s*(?::[^{;]*?)?\{", src[k:], re.S)
        if not mm:
            continue
        b = k + mm.end() - 1
        bodies.append(src[b + 1:cxxscan.match_brace(src, b)])
    if len(bodies) != 1:
        raise TranslateError("%s: expected exactly one definition, found %d" % (what, len(bodies)))
    return bodies[0]


def struct_body(src, name):
    m = re.search(r"\bstruct\s+%s\s*\{" % re.escape(name), src)
    if not m:
        raise TranslateError("struct %s not found" % name)
    b = m.end() - 1
    return src[b + 1:cxxscan.match_brace(src, b)]


def blank_strings(body):
    return re.sub(r'"(?:[^"\\\n]|\\.)*"', lambda m: '"' + " " * (len(m.group(0)) - 2) + '"', body)


def skeleton(body, where, mutex_alias=None, track_else=False):
    mutex_alias = mutex_alias or {}
    body = blank_strings(body)
    ev = []
    depth = 0
    guards = []   # [name, mutex, depth, held]
    loops = []    # [container, depth]
    covered = []

    def held():
        return ",".join(sorted({g[1] for g in guards if g[3]}))

    for m in TOK.finditer(body):
        h = held()
        covered.append((m.start(), m.end()))
        if m.group("open"):
            depth += 1
            if loops and loops[-1][1] is None:
                loops[-1][1] = depth
        elif m.group("close"):
            for g in guards:
                if g[2] == depth and g[3]:
                    ev.append(("unlock", g[1], held()))
                    g[3] = False
            guards = [g for g in guards if g[2] < depth]
            loops = [l for l in loops if l[1] is not None and l[1] < depth]
            depth -= 1
        elif m.group("guard"):
            mx = last_ident(m.group("gm"))
            mx = mutex_alias.get(mx, mx)
            if mx not in MUTEXES:
                raise TranslateError("%s: lock guard on unknown mutex %r" % (where, m.group("gm")))
            guards.append([m.group("gname"), mx, depth, True])
            ev.append(("lock", mx, h))
        elif m.group("unlock"):
            hit = [g for g in guards if g[0] == m.group("uname")]
            if not hit:
                raise TranslateError("%s: %s.unlock() on an unknown guard" % (where, m.group("uname")))
            for g in hit:
                ev.append(("unlock", g[1], held()))
                g[3] = False
        elif m.group("relock"):
            hit = [g for g in guards if g[0] == m.group("rname")]
            if not hit:
                raise TranslateError("%s: %s.lock() on an unknown guard" % (where, m.group("rname")))
            for g in hit:
                ev.append(("lock", g[1], held()))
                g[3] = True
        elif m.group("wait"):
            hit = [g for g in guards if g[0] == m.group("wl") and g[3]]
            if not hit:
                raise TranslateError("%s: %s.%s(%s…): lock argument is not a held guard" % (where, m.group("cv"), m.group("wk"), m.group("wl")))
            ev.append((m.group("wk"), norm_cv(m.group("cv"), loops, where), h))
        elif m.group("notify"):
            ev.append(("notify_" + m.group("nk"), norm_cv(m.group("ncv"), loops, where), h))
        elif m.group("forkv"):
            loops.append([m.group("cont"), None])
        elif m.group("wsh"):
            ev.append(("write", "shuttingDown=" + m.group("wshv"), h))
        elif m.group("rsh"):
            ev.append(("read", "shuttingDown", h))
        elif m.group("wflag"):
            ev.append(("write", "%s=%s" % (m.group("flag"), m.group("flagv")), h))
        elif m.group("whas"):
            v = re.sub(r"\s+", "", m.group("hasv"))
            ev.append(("write", "hasData=" + v, h))
        elif m.group("wres"):
            ev.append(("write", "result=" + m.group("resv"), h))
        elif m.group("rflag"):
            ev.append(("read", m.group("rf"), h))
        elif m.group("incdec"):
            ev.append(("inc" if m.group("idop") == "++" else "dec", m.group("idv"), h))
        elif m.group("rcount"):
            ev.append(("read", m.group("rc") + "==0", h))
        elif m.group("wmode"):
            ev.append(("write", "readModes=" + m.group("modev").replace("ReadMode::", ""), h))
        elif m.group("mapw"):
            ev.append(("write", m.group("mapn"), h))
        elif m.group("maperase"):
            ev.append(("erase", m.group("mape"), h))
        elif m.group("mapfind"):
            ev.append(("read", m.group("mapf"), h))
        elif m.group("ifnonempty"):
            ev.append(("cmp", "data-nonempty", h))
        elif m.group("ifempty"):
            ev.append(("cmp", "data-empty", h))
        elif m.group("swapdata"):
            ev.append(("take", "data", h))
        elif m.group("elsekw"):
            if track_else:
                ev.append(("else", "", h))
        elif m.group("append"):
            ev.append(("append", "data", h))
        elif m.group("consume"):
            ev.append(("consume", "data", h))
        elif m.group("take"):
            ev.append(("take", "data", h))
        elif m.group("flushif"):
            ev.append(("cmp", "flush-iff:old%s%s&&new==Async" % (m.group("fiop"), m.group("fim")), h))
        elif m.group("cmpmax"):
            ev.append(("cmp", "size+chunk" + m.group("cmpop") + "max", h))
        elif m.group("mincopy"):
            ev.append(("cmp", "min(len,size)", h))
        elif m.group("eng"):
            ev.append(("call", "engine." + m.group("engf"), h))
        elif m.group("tdw"):
            ev.append(("call", "teardownWaitOut(%s)" % m.group("tdwv"), h))
        elif m.group("tdcall"):
            ev.append(("call", m.group("tdf"), h))
        elif m.group("usercb"):
            ev.append(("call", "user:" + m.group("ucb"), h))
        elif m.group("pguard"):
            ev.append(("guard", "ParkGuard:" + last_ident(m.group("pgc")), h))
        elif m.group("fguard"):
            if last_ident(m.group("fgm")) != "syncMutex":
                raise TranslateError("%s: FlushGuard is not constructed over syncMutex (%r)" % (where, m.group("fgm")))
            ev.append(("guard", "FlushGuard", h))
        elif m.group("thr"):
            ev.append(("throw", "logic_error", h))
        elif m.group("reterr"):
            ev.append(("return", "err:" + (m.group("errc") or m.group("errv")), h))
        elif m.group("retok"):
            ev.append(("return", "ok", h))
        elif m.group("retother"):
            v = re.sub(r"\s+", "", m.group("retv"))
            v = re.sub(r"std::move\((.*)\)", r"\1", v)
            if len(v) > 24:
                v = v[:24]
            ev.append(("return", v or "void", h))
        elif m.group("brk"):
            ev.append(("break", "", h))
        elif m.group("subint"):
            ev.append(("const", "subInterval=" + m.group("subv"), h))
        elif m.group("csync"):
            ev.append(("call", "connectSync", h))
        elif m.group("rsync"):
            ev.append(("call", "receiveSync", h))
        elif m.group("tokc"):
            ev.append(("read", "token.isCancelled", h))
    for g in guards:
        if g[3]:
            ev.append(("unlock", g[1], held()))
            g[3] = False

    def is_covered(pos):
        return any(a <= pos < b for a, b in covered)

    for v in TRACKED:
        for m in re.finditer(r"(?<![\w])%s\b" % re.escape(v), body):
            if not is_covered(m.start()):
                ctx = body[max(0, m.start() - 30):m.end() + 30]
                # declarations / lambda captures / constructor arguments of the guards are not events
                if re.search(r"ParkGuard\s+\w+\s*\([^;]*$", body[max(0, m.start() - 80):m.start()]) or \
                   re.search(r"FlushGuard\s*>\s*\([^;]*$", body[max(0, m.start() - 120):m.start()], re.S):
                    continue
                raise TranslateError("%s: use of %s in a shape the scanner does not know: %r" % (where, v, re.sub(r"\s+", " ", ctx).strip()))
    return ev


TOK2 = re.compile(r"""
   (?P<guard>std::(?:unique_lock|lock_guard)\s*<\s*std::mutex\s*>\s*(?P<gname>\w+)\s*[\({]\s*(?P<gm>_\w+)\s*[\)}])
 | (?P<rclosed>\bif\s*\(\s*_cmdsClosed\s*\))
 | (?P<wclosed>\b_cmdsClosed\s*=\s*(?P<wcv>true|false))
 | (?P<push>\b_cmds\s*\.\s*push_back\s*\()
 | (?P<swap>\b(?P<swn>\w+)\s*\.\s*swap\s*\(\s*_cmds\s*\))
 | (?P<wake>::write\s*\(\s*_eventFd)
 | (?P<cfd>::close\s*\(\s*_eventFd\s*\))
 | (?P<setv>listenerReady\s*->\s*set_value\s*\(\s*(?P<sva>\w+)\s*\))
 | (?P<ret>\breturn\s+(?P<rv>true|false)\b)
 | (?P<reterr>\breturn\s+ListenResult::err\s*\((?=\s*TransportErrorInfo\s*\{\s*TransportError::(?P<errc>\w+)))
 | (?P<retok>\breturn\s+ListenResult::ok\b)
 | (?P<proc>(?<![\w.>])process\s*\(\s*\))
 | (?P<enq>(?<![\w.>])enqueue\s*\(\s*Command::(?P<enqk>\w+)\s*\((?P<enqa>[^)]*)\))
 | (?P<fget>\bfut\s*\.\s*get\s*\(\s*\))
 | (?P<running>\b_running\s*\.\s*(?P<rop>load|store|compare_exchange_strong)\s*\((?P<rarg>[^)]*)\))
 | (?P<join>\b_loop\s*\.\s*join\s*\(\s*\))
 | (?P<doadd>\bdoAddListener\s*\()
 | (?P<catch>\bcatch\s*\()
 | (?P<case>\bcase\s+Cmd::(?P<casen>\w+)\s*:)
 | (?P<open>\{) | (?P<close>\})
""", re.X)


def skeleton2(body, where):
    """engine-side skeleton (tcp_engine.hpp): command queue, _cmdsClosed, listener promises"""
    body = blank_strings(body)
    ev = []
    depth = 0
    guards = []
    for m in TOK2.finditer(body):
        h = ",".join(sorted({g[1] for g in guards}))
        if m.group("open"):
            depth += 1
        elif m.group("close"):
            for g in [g for g in guards if g[2] == depth]:
                ev.append(("unlock", g[1], h))
            guards = [g for g in guards if g[2] < depth]
            depth -= 1
        elif m.group("guard"):
            guards.append([m.group("gname"), m.group("gm"), depth])
            ev.append(("lock", m.group("gm"), h))
        elif m.group("rclosed"):
            ev.append(("read", "_cmdsClosed", h))
        elif m.group("wclosed"):
            ev.append(("write", "_cmdsClosed=" + m.group("wcv"), h))
        elif m.group("push"):
            ev.append(("push", "_cmds", h))
        elif m.group("swap"):
            ev.append(("swap", m.group("swn"), h))
        elif m.group("wake"):
            ev.append(("wake", "_eventFd", h))
        elif m.group("cfd"):
            ev.append(("close", "_eventFd", h))
        elif m.group("setv"):
            ev.append(("set_value", m.group("sva"), h))
        elif m.group("ret"):
            ev.append(("return", m.group("rv"), h))
        elif m.group("reterr"):
            ev.append(("return", "err:" + m.group("errc"), h))
        elif m.group("retok"):
            ev.append(("return", "ok", h))
        elif m.group("proc"):
            ev.append(("call", "process", h))
        elif m.group("enq"):
            a = re.sub(r"\s+", "", m.group("enqa"))
            ev.append(("enqueue", m.group("enqk") + ("+promise" if "ready" in a else ""), h))
        elif m.group("fget"):
            ev.append(("wait", "future", h))
        elif m.group("running"):
            ev.append(("running", m.group("rop") + ":" + re.sub(r"\s+", "", m.group("rarg")), h))
        elif m.group("join"):
            ev.append(("join", "_loop", h))
        elif m.group("doadd"):
            ev.append(("call", "doAddListener", h))
        elif m.group("catch"):
            ev.append(("catch", "", h))
        elif m.group("case"):
            ev.append(("case", m.group("casen"), h))
    for g in guards:
        ev.append(("unlock", g[1], ",".join(sorted({x[1] for x in guards}))))
    for v in ("_cmdsClosed", "_cmds"):
        covered = [(m.start(), m.end()) for m in TOK2.finditer(body)]
        for m in re.finditer(r"(?<![\w])%s\b" % re.escape(v), body):
            if not any(a <= m.start() < b for a, b in covered):
                raise TranslateError("%s: use of %s in a shape the scanner does not know: %r"
                                     % (where, v, re.sub(r"\s+", " ", body[max(0, m.start() - 30):m.end() + 30]).strip()))
    return ev


def all_method_bodies(src, sig_regex):
    out = []
    for m in re.finditer(sig_regex, src):
        i = src.index("(", m.start())
        depth = 0
        while i < len(src):
            if src[i] == "(":
                depth += 1
            elif src[i] == ")":
                depth -= 1
                if depth == 0:
                    break
            i += 1
        mm = re.match(r"(?:\s*(?:const|noexcept|override))*\s*\{", src[i + 1:], re.S)
        if not mm:
            continue
        b = i + 1 + mm.end() - 1
        out.append(src[b + 1:cxxscan.match_brace(src, b)])
    return out


def engine_rows(repo):
    tcp = read(repo, TCP)
    rows = []
    enq = all_method_bodies(tcp, r"\bbool\s+enqueue\s*\(")
    if len(enq) != 2:
        raise TranslateError("TcpEngine::enqueue: expected 2 overloads, found %d" % len(enq))
    for k, b in enumerate(enq):
        rows.append(("tcp.enqueue#%d" % k, skeleton2(b, "TcpEngine::enqueue#%d" % k)))
    for name, sig in (("shutdownDrain", r"\bvoid\s+shutdownDrain\s*\("), ("process", r"\bvoid\s+process\s*\("),
                      ("addListener", r"\bListenResult\s+addListener\s*\("), ("stop", r"\bvoid\s+stop\s*\(\s*\)\s*override")):
        bodies = all_method_bodies(tcp, sig)
        if len(bodies) != 1:
            raise TranslateError("TcpEngine::%s: expected exactly one definition, found %d" % (name, len(bodies)))
        rows.append(("tcp." + name, skeleton2(bodies[0], "TcpEngine::" + name)))
    # nothing else may write _cmdsClosed or push/swap _cmds
    known = "".join(enq) + "".join(all_method_bodies(tcp, r"\bvoid\s+shutdownDrain\s*\(")) + "".join(all_method_bodies(tcp, r"\bvoid\s+process\s*\("))
    n_w = len(re.findall(r"\b_cmdsClosed\s*=", tcp))
    n_known = len(re.findall(r"\b_cmdsClosed\s*=", known))
    start_body = all_method_bodies(tcp, r"\bStartResult\s+start\s*\(")
    n_start = len(re.findall(r"\b_cmdsClosed\s*=\s*false", start_body[0])) if start_body else 0
    if n_w != n_known + n_start:
        raise TranslateError("TcpEngine: _cmdsClosed is written in a function the models do not know (%d writes, %d known)" % (n_w, n_known + n_start))
    return rows


def _norm(e):
    return re.sub(r"\s+", "", e)


def _call_args(body, callee_regex):
    """argument texts of every call matching callee_regex( ... ) in body (balanced parentheses)"""
    out = []
    for m in re.finditer(callee_regex + r"\s*\(", body):
        i = m.end() - 1
        depth = 0
        j = i
        while j < len(body):
            if body[j] == "(":
                depth += 1
            elif body[j] == ")":
                depth -= 1
                if depth == 0:
                    break
            j += 1
        out.append(body[i + 1:j])
    return out


def _split_top(args):
    parts, depth, cur = [], 0, ""
    for ch in args:
        if ch in "([{<" and not (ch == "<" and False):
            depth += 1 if ch != "<" else 0
        if ch in ")]}":
            depth -= 1
        if ch == "," and depth == 0:
            parts.append(cur)
            cur = ""
        else:
            cur += ch
    parts.append(cur)
    return [p.strip() for p in parts]


def arg_rows(src):
    """expressions that carry the 'in time' and 'requested arguments' clauses of C04: what connectSync waits for and passes to
    the engine, and how connectSyncCancellable computes its deadline and sub-timeouts. (kind, name, normalised expression)"""
    cs = blank_strings(method_body(src, r"\bTransport::connectSync\s*\(", "Transport::connectSync"))
    row = []
    waits = _call_args(cs, r"op->cv\s*\.\s*wait_for")
    if len(waits) != 1:
        raise TranslateError("connectSync: expected exactly one op->cv.wait_for, found %d" % len(waits))
    wa = _split_top(waits[0])
    row.append(("expr", "wait_for.lock", _norm(wa[0])))
    row.append(("expr", "wait_for.timeout", _norm(wa[1])))
    row.append(("expr", "wait_for.pred", _norm(wa[2])[:60] if len(wa) > 2 else "-"))
    for a in _call_args(cs, r"engine\s*->\s*connect"):
        row.append(("expr", "engine.connect.args", _norm(a)))
    for a in _call_args(cs, r"engine\s*->\s*close"):
        row.append(("expr", "engine.close.args", _norm(a)))
    m = re.search(r"if\s*\(\s*result\s*\.\s*isErr\s*\(\s*\)\s*\)\s*\{([^{}]*)\}", cs)
    if not m:
        raise TranslateError("connectSync: the engine->connect error branch `if (result.isErr()) { … }` was not found")
    row.append(("expr", "connect.errbranch", _norm(m.group(1))))
    m = re.search(r"SessionId\s+sid\s*=\s*([^;]+);", cs)
    if not m:
        raise TranslateError("connectSync: `SessionId sid = …;` not found")
    row.append(("expr", "sid", _norm(m.group(1))))
    for m in re.finditer(r"return\s+ConnectResult::ok\s*\(([^)]*)\)", cs):
        row.append(("expr", "return.ok", _norm(m.group(1))))
    m = re.search(r"if\s*\(\s*op->done\s*\)\s*\{\s*return\s+([^;]+);", cs)
    if not m:
        raise TranslateError("connectSync: `if (op->done) { return …; }` not found")
    row.append(("expr", "return.done", _norm(m.group(1))))
    rows = [("connectSync.args", row)]
    cc = blank_strings(method_body(src, r"\bITransport::connectSyncCancellable\s*\(", "ITransport::connectSyncCancellable"))
    row = []
    m = re.search(r"subInterval\s*=\s*([^;]+);", cc)
    if not m:
        raise TranslateError("connectSyncCancellable: subInterval not found")
    row.append(("expr", "subInterval", _norm(m.group(1))))
    m = re.search(r"auto\s+deadline\s*=\s*([^;]+);", cc)
    if not m:
        raise TranslateError("connectSyncCancellable: deadline not found")
    row.append(("expr", "deadline", _norm(m.group(1))))
    m = re.search(r"auto\s+remaining\s*=\s*([^;]+);", cc)
    if not m:
        raise TranslateError("connectSyncCancellable: initial remaining not found")
    row.append(("expr", "remaining0", _norm(m.group(1))))
    for m in re.finditer(r"(?<![\w])remaining\s*=\s*([^;]+);", cc):
        if "auto" in cc[max(0, m.start() - 6):m.start()]:
            continue
        row.append(("expr", "remaining", _norm(m.group(1))))
    for m in re.finditer(r"subTimeout\s*=\s*([^;]+);", cc):
        row.append(("expr", "subTimeout", _norm(m.group(1))))
    for a in _call_args(cc, r"(?<![\w:>.])connectSync"):
        row.append(("expr", "connectSync.args", _norm(a)))
    m = re.search(r"while\s*\(([^{]*)\)\s*\{", cc)
    if not m:
        raise TranslateError("connectSyncCancellable: loop condition not found")
    row.append(("expr", "while", _norm(m.group(1))))
    rows.append(("connectSyncCancellable.args", row))
    # C03: what receiveSync waits for, and the loop of receiveSyncCancellable (every statement that decides what is returned)
    rs = blank_strings(method_body(src, r"\bTransport::receiveSync\s*\(", "Transport::receiveSync"))
    row = []
    m = re.search(r"const\s+auto\s+deadline\s*=\s*([^;]+);", rs)
    if not m:
        raise TranslateError("receiveSync: deadline not found")
    row.append(("expr", "deadline", _norm(m.group(1))))
    waits = _call_args(rs, r"buf->cv\s*\.\s*wait_until")
    if len(waits) != 1:
        raise TranslateError("receiveSync: expected exactly one buf->cv.wait_until, found %d" % len(waits))
    wa = _split_top(waits[0])
    row.append(("expr", "wait_until.lock", _norm(wa[0])))
    row.append(("expr", "wait_until.deadline", _norm(wa[1])))
    m = re.search(r"const\s+bool\s+signalled\s*=\s*buf->cv\s*\.\s*wait_until", rs)
    if not m:
        raise TranslateError("receiveSync: `const bool signalled = buf->cv.wait_until(…)` not found")
    m = re.search(r"if\s*\(\s*!\s*signalled\s*\)\s*\{\s*return\s+ReceiveResult::err\s*\(\s*TransportErrorInfo\s*\{\s*TransportError::(\w+)", rs)
    if not m:
        raise TranslateError("receiveSync: the `if (!signalled) { return err(…) }` branch was not found")
    row.append(("expr", "not-signalled", "return:" + m.group(1)))
    rows.append(("receiveSync.args", row))
    rc = blank_strings(method_body(src, r"\bITransport::receiveSyncCancellable\s*\(", "ITransport::receiveSyncCancellable"))
    row = []
    for name, rx in (("subInterval", r"subInterval\s*=\s*([^;]+);"), ("deadline", r"auto\s+deadline\s*=\s*([^;]+);"),
                     ("remaining", r"auto\s+remaining\s*=\s*([^;]+);"), ("subTimeout", r"auto\s+subTimeout\s*=\s*([^;]+);"),
                     ("result", r"auto\s+result\s*=\s*([^;]+);")):
        hits = re.findall(rx, rc)
        if len(hits) != 1:
            raise TranslateError("receiveSyncCancellable: expected exactly one `%s = …;`, found %d" % (name, len(hits)))
        row.append(("expr", name, _norm(hits[0])))
    m = re.search(r"while\s*\(([^{]*)\)\s*\{", rc)
    if not m:
        raise TranslateError("receiveSyncCancellable: loop condition not found")
    row.append(("expr", "while", _norm(m.group(1))))
    # every `if (cond) { return X; }` / `if (cond) { break; }` of the function, in textual order
    for m in re.finditer(r"if\s*\(((?:[^(){}]|\([^()]*\))*)\)\s*\{\s*(return\s+[^;]*;|break\s*;)(?:\s*//[^\n]*)?\s*\}", rc):
        act = _norm(m.group(2))
        mm = re.match(r"returnReceiveResult::err\(TransportErrorInfo\{TransportError::(\w+)", act)
        row.append(("expr", "if:" + _norm(m.group(1)), ("return:err:" + mm.group(1)) if mm else act.rstrip(";")))
    n_ret = len(re.findall(r"\breturn\b", rc))
    row.append(("expr", "returns", str(n_ret)))
    m = re.search(r"\}\s*return\s+ReceiveResult::err\s*\(\s*TransportErrorInfo\s*\{\s*TransportError::(\w+)[^;]*;\s*$", rc.strip())
    if not m:
        raise TranslateError("receiveSyncCancellable: the final `return ReceiveResult::err(…)` after the loop was not found")
    row.append(("expr", "after-loop", "return:err:" + m.group(1)))
    rows.append(("receiveSyncCancellable.args", row))
    # T8: step 6 of the onClose handler erases the session's readModes entry exactly once and UNCONDITIONALLY: at the brace depth of
    # the critical section itself (depth 0 relative to its lock_guard), i.e. under no `if`/`else`/loop
    impl = struct_body(src, "Transport::Impl")
    oc = blank_strings(lambda_body(impl, "cbs.onClose"))
    locks = [m.start() for m in re.finditer(r"std::lock_guard\s*<\s*std::mutex\s*>\s*\w+\s*\(\s*syncMutex\s*\)", oc)]
    if not locks:
        raise TranslateError("onClose handler: no lock_guard on syncMutex found")

    def depth_at(pos):
        return oc[:pos].count("{") - oc[:pos].count("}")
    base = depth_at(locks[-1])
    er = [m.start() for m in re.finditer(r"\breadModes\s*\.\s*erase\s*\(\s*sid\s*\)", oc)]
    row = [("expr", "readModes.erase.count", str(len(er)))]
    for pos in er:
        row.append(("expr", "readModes.erase.depth", str(depth_at(pos) - base) if pos > locks[-1] else "before-step6"))
    rows.append(("onClose.step6", row))
    # FC03b: a timeout too large for clock arithmetic is saturated before its first use (1 = yes)
    clamp = r"timeout\s*=\s*detail::clampSyncTimeout\s*\(\s*timeout\s*\)\s*;"
    row = []

    def first(rx, text):
        m = re.search(rx, text)
        return m.start() if m else None
    for name, body, use in (("connectSync", cs, r"\.\s*wait_for\s*\("), ("connectSyncCancellable", cc, r"auto\s+deadline\s*="),
                            ("receiveSyncCancellable", rc, r"auto\s+deadline\s*=")):
        a, b = first(clamp, body), first(use, body)
        row.append(("expr", name, "1" if a is not None and b is not None and a < b and len(re.findall(clamp, body)) == 1 else "0"))
    m = re.search(r"const\s+auto\s+deadline\s*=\s*([^;]+);", rs)
    row.append(("expr", "receiveSync", "1" if m and _norm(m.group(1)) == "std::chrono::steady_clock::now()+detail::clampSyncTimeout(timeout)" else "0"))
    m = re.search(r"inline\s+std::chrono::milliseconds\s+clampSyncTimeout\s*\(\s*std::chrono::milliseconds\s+timeout\s*\)\s*\{(.*?)\n\}", src, re.S)
    if m:
        body = blank_strings(re.sub(r"//[^\n]*", "", m.group(1)))
        row.append(("expr", "clampSyncTimeout", _norm(body)))
    else:
        row.append(("expr", "clampSyncTimeout", "-"))
    rows.append(("syncTimeoutClamp", row))
    # FC02a / T8: the FIRST critical section of setReadMode returns at once (`return true`, vacuous) for a closed tombstone, unconditionally - at the brace
    # depth of the section itself - and before it reads or writes readModes (1 = yes)
    sm = blank_strings(method_body(src, r"\bTransport::setReadMode\s*\(", "Transport::setReadMode"))
    lk = re.search(r"std::lock_guard\s*<\s*std::mutex\s*>\s*\w+\s*\(\s*_impl->syncMutex\s*\)\s*;", sm)
    if not lk:
        raise TranslateError("setReadMode: no lock_guard on _impl->syncMutex found")
    g = re.search(r"auto\s+(\w+)\s*=\s*_impl->receiveBuffers\.find\(\s*sid\s*\)\s*;\s*if\s*\(\s*(\w+)\s*!=\s*_impl->receiveBuffers\.end\(\s*\)\s*&&\s*"
                  r"(\w+)->second->closed\s*\)\s*\{\s*return\s+true\s*;\s*\}", sm)
    rm = re.search(r"\breadModes\b", sm)
    good = bool(g and rm and g.group(1) == g.group(2) == g.group(3) and lk.end() <= g.start() and g.end() <= rm.start()
                and sm[:g.start()].count("{") - sm[:g.start()].count("}") == sm[:lk.start()].count("{") - sm[:lk.start()].count("}"))
    rows.append(("setReadMode.tombGuard", [("expr", "closed-tombstone-returns-true-first", "1" if good else "0")]))
    # C03 (review F5): the FULL text of every condition the model mirrors as a decision - operators and operands included (the event
    # skeleton only says WHICH variables a condition reads): the wait predicate of receiveSync, its single-waiter guard, the teardown
    # guard / overflow test / callback guard of the onData handler, the GC threshold test and GC gate of the close handler, the
    # callback guard of the flush loop; and the ORDER mark -> global close callback -> observers of the close handler (FC03c).
    od = blank_strings(lambda_body(impl, "cbs.onData"))
    row = []

    def one(name, rx, text, what):
        hits = re.findall(rx, text, re.S)
        if len(hits) != 1:
            raise TranslateError("%s: expected exactly one `%s`, found %d" % (what, name, len(hits)))
        row.append(("expr", name, _norm(hits[0])))
    row.append(("expr", "recv.wait_until.pred", _norm(re.sub(r"//[^\n]*", "", wa[2])) if len(wa) > 2 else "-"))
    one("recv.singleWaiterGuard", r"if\s*\(([^(){}]*waiters[^(){}]*)\)\s*\{\s*return\s+ReceiveResult::err", rs, "receiveSync")
    one("onData.teardownGuard", r"if\s*\(([^(){}]*shuttingDown[^(){}]*)\)\s*\{\s*return\s*;", od, "onData handler")
    one("onData.overflowCmp", r"if\s*\(([^{};]*maxSyncReceiveBuffer[^{};]*)\)\s*\{", od, "onData handler")
    one("onData.cbGuard", r"if\s*\(([^(){}]*)\)\s*\{\s*cb\s*\(\s*sid\b", od, "onData handler")
    one("onClose.gcThresholdCmp", r"if\s*\(([^{};]*gcThreshold[^{};]*)\)\s*\{", oc, "onClose handler")
    one("onClose.gcGate", r"if\s*\(((?:[^(){}]|\([^()]*\))*)\)\s*\{\s*it\s*=\s*receiveBuffers\s*\.\s*erase\s*\(\s*it\s*\)", oc, "onClose handler")
    one("flush.cbGuard", r"if\s*\(((?:[^(){}]|\([^()]*\))*)\)\s*\{\s*cb\s*\(\s*sid\b", sm, "setReadMode")
    # FC03d: the BufferOverflow answer of receiveSync marks the buffer `overflowReported` (what the GC gate looks at) - the statements of
    # the `if (buf->overflow) { … }` branch up to its return
    m = re.search(r"if\s*\(\s*buf->overflow\s*\)\s*\{(.*?)return\s+ReceiveResult::err\s*\(\s*TransportErrorInfo\s*\{\s*TransportError::(\w+)", rs, re.S)
    if not m:
        raise TranslateError("receiveSync: the `if (buf->overflow) { … return err(…) }` branch was not found")
    row.append(("expr", "recv.overflowBranch", _norm(re.sub(r"//[^\n]*", "", m.group(1))) + "return:" + m.group(2)))
    pos = {"mark": [m.start() for m in re.finditer(r"->\s*closed\s*=\s*true", oc)] + er,
           "closeCb": [m.start() for m in re.finditer(r"(?<![\w.>])closeCb\s*\(\s*sid\b", oc)],
           "obsCb": [m.start() for m in re.finditer(r"(?<![\w.>])obsCb\s*\(\s*sid\b", oc)]}
    if len(pos["mark"]) != 3 or len(pos["closeCb"]) != 1 or len(pos["obsCb"]) != 1:
        raise TranslateError("onClose handler: expected two `closed = true`, one readModes.erase(sid), one closeCb(sid…) and one obsCb(sid…), found %r"
                             % {k: len(v) for k, v in pos.items()})
    order = sorted([(p, k) for k, v in pos.items() for p in v])
    seq = []
    for _, k in order:
        if not seq or seq[-1] != k:
            seq.append(k)
    row.append(("expr", "onClose.order", ",".join(seq)))
    rows.append(("c03.exprs", row))
    return rows


def gen(repo):
    src = read(repo, FILE)
    types = read(repo, TYPES)
    rows = []
    impl = struct_body(src, "Transport::Impl")
    rows.append(("onConnect", skeleton(lambda_body(impl, "cbs.onConnect"), "onConnect handler")))
    rows.append(("onData", skeleton(lambda_body(impl, "cbs.onData"), "onData handler")))
    rows.append(("onClose", skeleton(lambda_body(impl, "cbs.onClose"), "onClose handler")))
    pg = struct_body(impl, "ParkGuard")
    rows.append(("ParkGuard.ctor", skeleton(method_body(pg, r"(?<![~\w])ParkGuard\s*\(\s*std::size_t", "ParkGuard constructor"), "ParkGuard ctor")))
    rows.append(("ParkGuard.dtor", skeleton(method_body(pg, r"~ParkGuard\s*\(", "ParkGuard destructor"), "ParkGuard dtor")))
    fg = struct_body(impl, "FlushGuard")
    rows.append(("FlushGuard.ctor", skeleton(method_body(fg, r"(?<![~\w])FlushGuard\s*\(\s*std::mutex", "FlushGuard constructor"), "FlushGuard ctor")))
    rows.append(("FlushGuard.dtor", skeleton(method_body(fg, r"~FlushGuard\s*\(", "FlushGuard destructor"), "FlushGuard dtor", {"m": "syncMutex"})))
    rows.append(("teardownWaitOut", skeleton(method_body(impl, r"\bvoid\s+teardownWaitOut\s*\(", "Impl::teardownWaitOut"), "teardownWaitOut")))
    rows.append(("setTeardownFence", skeleton(method_body(impl, r"\bvoid\s+setTeardownFence\s*\(", "Impl::setTeardownFence"), "setTeardownFence")))
    rows.append(("performTeardown", skeleton(method_body(impl, r"\bvoid\s+performTeardown\s*\(", "Impl::performTeardown"), "performTeardown")))
    rows.append(("~Transport", skeleton(method_body(src, r"\bTransport::~Transport\s*\(", "Transport::~Transport"), "~Transport")))
    rows.append(("stop", skeleton(method_body(src, r"\bvoid\s+Transport::stop\s*\(", "Transport::stop"), "stop")))
    rows.append(("connectSync", skeleton(method_body(src, r"\bTransport::connectSync\s*\(", "Transport::connectSync"), "connectSync")))
    rows.append(("receiveSync", skeleton(method_body(src, r"\bTransport::receiveSync\s*\(", "Transport::receiveSync"), "receiveSync")))
    rows.append(("setReadMode", skeleton(method_body(src, r"\bTransport::setReadMode\s*\(", "Transport::setReadMode"), "setReadMode", track_else=True)))
    rows.append(("connectSyncCancellable", skeleton(method_body(src, r"\bITransport::connectSyncCancellable\s*\(", "ITransport::connectSyncCancellable"), "connectSyncCancellable")))
    rows.append(("receiveSyncCancellable", skeleton(method_body(src, r"\bITransport::receiveSyncCancellable\s*\(", "ITransport::receiveSyncCancellable"), "receiveSyncCancellable")))
    # every other function of the file that takes syncMutex must be one the models know to be single-shot
    known_single = {"getReadMode"}
    for m in re.finditer(r"\bTransport::(\w+)\s*\(", src):
        name = m.group(1)
        if name in ("connectSync", "receiveSync", "setReadMode", "Transport", "stop") or name in known_single:
            continue
        try:
            body = method_body(src, r"\bTransport::%s\s*\(" % re.escape(name), name)
        except TranslateError:
            continue
        if re.search(r"\bsyncMutex\b|\bshuttingDown\b|\bactive(Receives|Connects|Flushes)\b|\.wait", body):
            raise TranslateError("Transport::%s touches the sync/teardown state but is not a function the models know" % name)
    grm = skeleton(method_body(src, r"\bTransport::getReadMode\s*\(", "Transport::getReadMode"), "getReadMode")
    rows.append(("getReadMode", grm))
    rows += engine_rows(repo)
    rows += arg_rows(src)
    # condition variables of the layer: exactly SyncConnectOp::cv, SyncReceiveBuffer::cv, teardownCv
    ncv = len(re.findall(r"std::condition_variable\s+\w+\s*;", impl))
    if ncv != 3:
        raise TranslateError("Transport::Impl declares %d condition variables, the models know 3" % ncv)
    max_buf = cxxscan.find_int(r"maxSyncReceiveBuffer\s*\{([^}]*)\}", types, "TransportConfig::maxSyncReceiveBuffer default")
    gc_thr = cxxscan.find_int(r"syncBufferGcThreshold\s*\{([^}]*)\}", types, "TransportConfig::syncBufferGcThreshold default")
    m = re.search(r"allowReadModeSwitch\s*\{\s*(true|false)\s*\}", types)
    if not m:
        raise TranslateError("TransportConfig::allowReadModeSwitch default not found")
    allow = m.group(1)
    m = re.search(r"defaultSyncTimeout\s*\{\s*(\d+)\s*\}", types)
    if not m:
        raise TranslateError("TransportConfig::defaultSyncTimeout default not found")
    dflt_to = int(m.group(1))
    t = HEADER % (FILE + ", " + TYPES + ", " + TCP)
    t += "namespace Iora.Gen.TsyncSkel\n"
    t += "/-- `TransportConfig` defaults -/\n"
    t += "def maxSyncReceiveBufferDefault : Nat := %d\n" % cxxscan.const_eval(str(max_buf)) if not isinstance(max_buf, int) else "def maxSyncReceiveBufferDefault : Nat := %d\n" % max_buf
    t += "def syncBufferGcThresholdDefault : Nat := %d\n" % gc_thr
    t += "def allowReadModeSwitchDefault : Bool := %s\n" % allow
    t += "def defaultSyncTimeoutMs : Nat := %d\n" % dflt_to
    t += "/-- per function, in textual order: (event, object, Transport mutexes held) -/\n"
    t += "def skeleton : List (String × List (String × String × String)) := [\n"
    t += ",\n".join('  ("%s", [%s])' % (w, ", ".join('("%s", "%s", "%s")' % e for e in evs)) for w, evs in rows)
    t += "]\nend Iora.Gen.TsyncSkel\n"
    return "IoraModel/Gen/TsyncSkel.lean", t
