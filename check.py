#!/usr/bin/env python3
"""Single entry point:  python3 check.py <Cnn> <quick|thorough> [--replay <file>]   (DESIGN §1, §5)

exit 0  the property held on everything explored (KNOWN-FINDING lines are informational)
exit 1  + a line `VIOLATION property=<id> replay=<path>[ no-failing-input-found]`
exit 2  the machinery itself failed (no VIOLATION line)
"""
import importlib, os, sys, traceback

HERE = os.path.dirname(os.path.abspath(__file__))
sys.path.insert(0, HERE)
from vlib.core import Ctx, ModelBuildError


def main():
    if len(sys.argv) < 3:
        print(__doc__)
        return 2
    pid, tier = sys.argv[1], sys.argv[2]
    replay = None
    if "--replay" in sys.argv:
        replay = sys.argv[sys.argv.index("--replay") + 1]
    tier = os.environ.get("VERIF_TIER", tier)
    mod = importlib.import_module("props.%s" % pid.lower())
    for attempt in (1, 2):
        ctx = Ctx(pid, tier, replay)
        try:
            return mod.run(ctx)
        except ModelBuildError:
            # already recorded as a violation (the model no longer builds against the regenerated Gen files)
            return ctx.finish(level="proof", rule="model driver did not build; no correspondence run")
        except Exception:
            traceback.print_exc()
            print("[%s] machinery failure (attempt %d)" % (pid, attempt), flush=True)
    return 2


if __name__ == "__main__":
    sys.exit(main())
